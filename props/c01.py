"""C01 — Wannier interpolation reproduces the input on the ab-initio mesh"""
import io, contextlib, itertools
import numpy as np
from symx.core import *
from symx.core import z3
from symx.npproxy import NpProxy, DFT, shadow
from symx.harness import Case, unarr
import symx.harness  # noqa
with contextlib.redirect_stdout(io.StringIO()):
    import wannierberri.fourier.fft as F, wannierberri.fourier.rvectors as RV, wannierberri.utility as U
from props.c02 import FakePyfftw

PROPERTY = "C01"
FUNCTIONS = ["Rvectors.exclude_zeros (do_ws_dist path with matrices of different range)", "Rvectors.__init__/set_Rvec/set_fft_q_to_R/q_to_R/get_remapper_XX_from_grid_to_list_R/remap_XX_from_grid_to_list_R/remap_XX_R/reverseR/conj_XX_R/iR/set_fft_R_to_k/R_to_k",
             "WignerSeitz.__init__/__call__", "fourier.fft.execute_fft/fft_np/fft_W, FFT_R_to_k (k-list mode)"]
BOUNDS = dict(quick=dict(lattices="cubic, tetragonal, hexagonal, fcc, bcc, monoclinic, 1 seeded rational triclinic", meshes="1x1x2 2x1x1 2x2x1 3x1x1 2x2x2 (<= 8 points) in 3 orders (natural, reversed, seeded shuffle)",
                         centres="nb=1..2: origin, generic, on a Wigner-Seitz face (1/2,0,0), outside the home cell, coinciding; within and just outside the tolerance of a face / edge / corner of the supercell Wigner-Seitz cell; plus centres-free (no shifts)",
                         ws_tolerance="1e-3, 1e-5, -1e-5, 0.3", data="symbolic complex X_q Hermitian in the band indices, scalar and vector valued, |X|<=1", fftlib="numpy(stub), fftw(stub)"),
              thorough=dict(lattices="as quick + 3 seeded triclinic", meshes="as quick + 4x1x1, 3x2x1, 2x2x3 (<= 12 points), 5 orders", centres="nb=1..3, as quick + seeded random",
                            ws_tolerance="as quick", data="as quick + rank-2 trailing axes", fftlib="both"))
EXPLANATION = ("The real Rvectors / WignerSeitz code runs with concrete (rational or double) geometry and symbolic Hermitian matrices X_q on the mesh; the FFT is the DFT by definition. "
               "Every entry of X(R) and of the back-transform is a linear form in the atoms; z3 decides (QF_LRA, |atoms|<=1) that the explicit sum over R at every mesh point "
               "and the code's own R_to_k return X_q to 1e-9, and that X(-R) = X(R)^dagger to 1e-12. Replica weights and R mod mesh are concrete integer facts per configuration.")
ASSUMPTIONS = ["Gamma-centred complete mesh (documented precondition; the code raises otherwise)", "|X_q| components <= 1 (identities are homogeneous)", "Hermitian X_q in the band indices"]
OUTSIDE = ["continuous variation of the geometry beyond the symbolic-centre cases: there one centre moves along a line through windows of the displacement t (Wigner-Seitz face crossings and generic "
           "stretches) with the replica selection explored symbolically; lattices, meshes, the other coordinates and the remaining centre sets are enumerated, not quantified", "meshes with more than 12 points", "rounding inside the FFT libraries", "get_system_w90 (needs checkpoint files)"]
STUBS = ["symbolic-centre cases: np.linalg.norm -> distances kept as radicands (polynomials in t), compared through radicands; row minimum found among the candidates an interval "
         "pre-filter over the t-window cannot exclude; |d_j - d_min| < tol decided by interval bounds where they suffice, otherwise exactly with one sqrt atom; np.round on the symbolic shift is the identity "
         "(t stands for the rounded shift); np.unique on symbolic shifts sorts with forks", "np.abs(X) > tol in exclude_zeros answered structurally for symbolic blocks (generic data assumed not accidentally below 1e-8)", "np.fft -> DFT by definition", "pyfftw -> DFT by definition (FakePyfftw of the C02 harness)"]
TOL = 1e-9

LATTICES = dict(
    cubic=np.eye(3), tetragonal=np.diag([1., 1., 1.5]), hexagonal=np.array([[1, 0, 0], [-0.5, np.sqrt(3) / 2, 0], [0, 0, 1.25]]),
    fcc=np.array([[0, .5, .5], [.5, 0, .5], [.5, .5, 0]]), bcc=np.array([[-.5, .5, .5], [.5, -.5, .5], [.5, .5, -.5]]),
    monoclinic=np.array([[1, 0, 0], [0, 1.25, 0], [0.375, 0, 1.5]]))
MESHES_Q = [(1, 1, 2), (2, 1, 1), (2, 2, 1), (3, 1, 1), (2, 2, 2)]   # (1,1,3) appears in the explicit negative-image cases
MESHES_T = MESHES_Q + [(4, 1, 1), (3, 2, 1), (2, 2, 3)]
CENTRES = {
    "none": None,
    "origin": [[0, 0, 0]],
    "generic2": [[0.1, 0.2, 0.3], [0.55, 0.7, 0.15]],
    "face2": [[0, 0, 0], [0.5, 0, 0]],
    "edge2": [[0.25, 0.25, 0], [0.75, 0.75, 0.5]],
    "outside2": [[1.25, -0.5, 0.1], [-0.3, 2.2, 0.6]],
    "same2": [[0.3, 0.3, 0.3], [0.3, 0.3, 0.3]],
}


def triclinic(seed):
    rng = np.random.RandomState(100 + seed)
    while True:
        L = np.eye(3) + rng.randint(-3, 4, (3, 3)) / 8.0
        if abs(np.linalg.det(L)) > 0.4:
            return L


def mesh_points(mp, order, seed):
    pts = [np.array([i, j, k]) / np.array(mp) for i in range(mp[0]) for j in range(mp[1]) for k in range(mp[2])]
    if order == "reversed":
        pts = pts[::-1]
    elif order.startswith("shuffle"):
        rng = np.random.RandomState(seed + int(order[7:] or 0))
        rng.shuffle(pts)
        # some points given in a different periodic image
        pts = [p + rng.randint(-1, 2, 3) for p in pts]
    return np.array(pts)


def herm_q(nq, nb, trailing):
    X = np.empty((nq, nb, nb) + trailing, dtype=object)
    for q in range(nq):
        X[q] = herm(f"X{q}", nb, trailing, lo=-1, hi=1)
    return X.view(SymArray)


class _ComplexDtype:
    """stands for the dtype of an object array that the code allocated as complex: compares equal to complex (and to object)"""
    kind = 'O'
    itemsize = 8
    names = None

    def __eq__(s, o):
        return o in (complex, object, np.complex128, 'complex', 'O') or (isinstance(o, np.dtype) and o.kind in 'cO')

    def __ne__(s, o):
        return not s.__eq__(o)

    def __hash__(s):
        return hash('O')


class ComplexLooking(SymArray):
    @property
    def dtype(s):
        return _ComplexDtype()


class _Mag:
    def __init__(s, X):
        s.X = np.asarray(X, dtype=object)

    def __gt__(s, c):
        return np.array([not SymC.of(v).iszero() for v in s.X.flat], dtype=bool).reshape(s.X.shape)

    def reshape(s, *a):
        return _Mag(s.X.reshape(*a))


class RVnp(NpProxy):
    """np for fourier/rvectors.py: only the complex work arrays become symbolic (object) arrays; the integer / float geometry stays real numpy"""

    def zeros(s, shape, dtype=None, **k):
        if dtype in (complex, np.complex128, 'complex', 'complex128'):
            a = np.empty(shape, dtype=object)
            a[...] = SymC.of(0)
            return a.view(ComplexLooking)
        return np.zeros(shape, dtype=dtype, **k)

    def array(s, x, dtype=None, **k):
        if is_sym(x):
            return NpProxy.array(s, x, dtype=dtype, **k)
        return np.array(x, dtype=dtype, **k)

    def round(s, x, *a, **k):
        return np.round(x, *a, **k) if not is_sym(x) else NpProxy.round(s, x, *a, **k)

    def unique(s, *a, **k):
        return np.unique(*a, **k)

    def abs(s, x):
        """|X| of a symbolic block is only ever compared with a zero-tolerance (exclude_zeros): answered structurally — a block whose entries are all the
        exact zero polynomial is 'below', anything else 'above' (assumption: symbolic data are generic, not accidentally below 1e-8)"""
        if is_sym(x):
            return _Mag(x)
        return np.abs(x)

    def allclose(s, a, b, rtol=1e-5, atol=1e-8, **k):
        """the code's internal consistency asserts on symbolic work arrays: decided for all data at once (|a-b| <= atol for |atoms|<=1)"""
        if not (is_sym(a) or is_sym(b)):
            return np.allclose(a, b, rtol=rtol, atol=atol, **k)
        from symx import smt
        v = smt.check_close("internal allclose", a, b, atol, Ctx.cur.pc if Ctx.cur else [], 1.0, 10000)
        if v.status == "unknown":
            raise Inconclusive("internal allclose undecided")
        return v.status == "unsat"


def setup():
    shadow([F, U])
    shadow([RV], proxy=RVnp())
    F.pyfftw = FakePyfftw
    F.PYFFTW_IMPORTED = True


def case_roundtrip(rec, latt, mp, cen, tol, order, nb, trailing, fftlib, seed):
    setup()
    lattice = LATTICES[latt] if latt in LATTICES else triclinic(int(latt[3:]))
    if cen not in CENTRES:
        cases("thorough", seed)          # near-boundary centre sets are registered by cases()
    centres = CENTRES[cen]
    if centres is not None:
        centres = np.array(centres, dtype=float)[:nb] if nb <= len(centres) else np.array(centres + [[0.8, 0.05, 0.45]], dtype=float)[:nb]
    kpt = mesh_points(mp, order, seed)
    nq = len(kpt)
    X = herm_q(nq, nb, trailing)

    def body(rec):
        rec.witness = lambda env: dict(latt=latt, mp=mp, cen=cen, tol=tol, order=order, nb=nb, trailing=trailing, fftlib=fftlib, seed=seed, X=env.arr(X))
        with contextlib.redirect_stdout(io.StringIO()):
            rv = RV.Rvectors(lattice=lattice, shifts_left_red=centres)
            rv.set_Rvec(np.array(mp), ws_tolerance=tol)
            rv.set_fft_q_to_R(kpt_red=kpt, fftlib=fftlib)
            XR = rv.q_to_R(X.copy())
        iR = rv.iRvec
        # (d) replicas: every selected R is congruent to a mesh vector, each class occurs, weights sum to the number of mesh points
        mapx, mapy, mapz, weights = rv.get_remapper_XX_from_grid_to_list_R
        nl, nr = weights.shape[1], weights.shape[2]
        wsum = weights.sum(axis=0)
        rec.concrete("replica weights of every pair add up to the number of mesh points", bool(np.allclose(wsum, np.prod(mp), atol=1e-9)), detail=str(wsum.tolist()),
                     key="replica weights do not add up to the number of mesh points")
        ok = True
        for a in range(nl):
            for b in range(nr):
                sel = weights[:, a, b] > 0
                classes = set(map(tuple, (iR[sel] % np.array(mp)).tolist()))
                ok = ok and len(classes) == np.prod(mp)
                ok = ok and np.all(np.stack([mapx[sel, a, b], mapy[sel, a, b], mapz[sel, a, b]], 1) == iR[sel] % np.array(mp))
        rec.concrete("every mesh class has replicas and each replica maps to its own class", bool(ok), key="replica selection misses a mesh class or maps a replica to the wrong class")
        # (a) explicit sum over R at the mesh points gives back X_q
        ph = lift(np.exp(2j * np.pi * kpt.dot(iR.T)))       # (nq, nR)
        back = np.tensordot(ph, np.asarray(XR), axes=(1, 0)).view(SymArray)
        rec.close("sum_R exp(2 pi i q.R) X(R) == X_q at every mesh point", back, X, TOL, bound=1.0, key="q->R->k round trip (explicit sum) does not return the input on the mesh")
        with contextlib.redirect_stdout(io.StringIO()):
            rv.set_fft_R_to_k(NK=None, num_wann=nb, k_list=kpt)
            back2 = rv.R_to_k(np.asarray(XR).copy().view(SymArray), hermitian=True)
        rec.close("Rvectors.R_to_k at the mesh points == X_q", back2, X, TOL, bound=1.0, key="q->R->k round trip (R_to_k) does not return the input on the mesh")
        # (b) hermiticity in real space
        import warnings
        with warnings.catch_warnings():
            warnings.simplefilter("ignore")
            XRc = rv.conj_XX_R(np.asarray(XR).copy().view(SymArray))          # the code's own "reverse R and take the Hermitian conjugate"
            lst_R, lst_mR = rv.reverseR
        rec.concrete("every R has a -R partner", len(lst_R) == len(iR), detail=f"{len(lst_R)} of {len(iR)}", key="an R vector has no -R partner")
        rec.close("conj_XX_R(X) == X, i.e. X(-R) == X(R)^dagger", XRc, XR, 1e-12, bound=1.0, key="real-space matrices are not Hermitian: X(-R) != X(R)^dagger")
        if len(lst_R) == len(iR):
            XRd = np.conjugate(np.swapaxes(np.asarray(XR)[lst_mR], 1, 2))
            rec.close("X(-R) == X(R)^dagger (harness's own pairing)", XRd, np.asarray(XR)[lst_R], 1e-12, bound=1.0, key="real-space matrices are not Hermitian: X(-R) != X(R)^dagger")
    rec.explore(body, [])


def case_remap(rec, latt, mp, cen, nb, seed):
    """System_R.do_ws_dist path: an existing R-space model on the plain grid is re-mapped with MDRS; H at the mesh points must not change"""
    setup()
    lattice = LATTICES[latt]
    centres = np.array(CENTRES[cen], dtype=float)[:nb]
    iR_old = np.array([(i, j, k) for i in range(mp[0]) for j in range(mp[1]) for k in range(mp[2])])
    X_old = symvec("Y", (len(iR_old), nb, nb), real=False, lo=-1, hi=1)
    kpt = mesh_points(mp, "natural", seed)

    def body(rec):
        rec.witness = lambda env: dict(test="remap", latt=latt, mp=mp, cen=cen, nb=nb, seed=seed, X=env.arr(X_old))
        with contextlib.redirect_stdout(io.StringIO()):
            rv = RV.Rvectors(lattice=lattice, shifts_left_red=centres)
            rv.set_Rvec(np.array(mp), ws_tolerance=1e-5)
            XR = rv.remap_XX_R(X_old.copy(), iRvec_old=iR_old)
        ph_old = lift(np.exp(2j * np.pi * kpt.dot(iR_old.T)))
        ph_new = lift(np.exp(2j * np.pi * kpt.dot(rv.iRvec.T)))
        a = np.tensordot(ph_old, np.asarray(X_old), axes=(1, 0))
        b = np.tensordot(ph_new, np.asarray(XR), axes=(1, 0))
        rec.close("re-mapping with MDRS leaves H at the mesh points unchanged", b, a, TOL, bound=1.0, key="remap_XX_R changes the matrices at the mesh points")
    rec.explore(body, [])


# ---- symbolic Wannier-centre displacement --------------------------------------------------------------------------
class Dist:
    """a Euclidean distance sqrt(rad) with symbolic radicand (a polynomial in the displacement t): compared through radicands, never expanded into sqrt atoms
    unless a tolerance window really needs it"""
    __slots__ = ("rad",)

    def __init__(s, rad):
        s.rad = rad

    def _cmp(s, o, op):
        if isinstance(o, np.ndarray):
            return NotImplemented
        if not isinstance(o, Dist):
            raise Inconclusive("distance compared with a non-distance")
        return op(s.rad, o.rad)

    def __lt__(s, o):
        return s._cmp(o, lambda a, b: a < b)

    def __le__(s, o):
        return s._cmp(o, lambda a, b: a <= b)

    def __gt__(s, o):
        return s._cmp(o, lambda a, b: a > b)

    def __ge__(s, o):
        return s._cmp(o, lambda a, b: a >= b)

    def __sub__(s, o):
        if isinstance(o, np.ndarray):
            return NotImplemented
        return DistDiff(s, o)

    def __rsub__(s, o):
        return DistDiff(o, s)


def _interval(x):
    x = SymC.of(x)
    if x.isconst():
        v = x.fraction()[0]
        return v, v
    iv = x.interval()
    if iv is None:
        raise Inconclusive("no interval for a radicand (displacement atom without bounds)")
    return iv


class DistDiff:
    def __init__(s, a, b):
        s.a, s.b = a, b

    def __abs__(s):
        return AbsDistDiff(s.a, s.b)


class AbsDistDiff:
    """| sqrt(ra) - sqrt(rb) | compared with the Wigner-Seitz tolerance"""

    def __init__(s, a, b):
        s.a, s.b = a, b

    def __lt__(s, tol):
        from fractions import Fraction as Fr
        tol = Fr(float(tol))
        d = s.a.rad - s.b.rad
        if SymC.of(d).iszero():
            return True
        big, small = (s.a, s.b) if bool(d >= 0) else (s.b, s.a)
        diff = big.rad - small.rad                                   # >= 0 on this path
        lo, hi = _interval(diff)
        slo, shi = _interval(small.rad)
        import math
        ymax = Fr(math.sqrt(float(max(shi, 0))) * (1 + 1e-9) + 1e-12)
        if lo >= 2 * tol * ymax + tol * tol:                         # certainly not within tolerance
            return False
        if hi < tol * tol:                                           # certainly within (2 tol sqrt(small) >= 0)
            return True
        y = SymC.of(small.rad).sqrt()                                # exact: diff < 2 tol y + tol^2 with y = sqrt(small.rad)
        return (SymC.of(diff) - y * (2 * tol) - tol * tol) < 0


class DistArray(SymArray):
    def min(s, *a, **k):
        el = [x for x in np.asarray(s, dtype=object).flat]
        iv = [_interval(x.rad) for x in el]
        U = builtins_min(h for l, h in iv)
        keep = [i for i, (l, h) in enumerate(iv) if l <= U]
        for n, i in enumerate(keep[:-1]):
            cond = True
            for j in keep:
                if j != i:
                    c = (el[i].rad < el[j].rad) if j < i else (el[i].rad <= el[j].rad)
                    cond = c & cond if isinstance(c, SymB) else (cond if c else False)
                    if cond is False:
                        break
            if cond is not False and bool(cond):
                return el[i]
        return el[keep[-1]]


import builtins as _bi
builtins_min = _bi.min


class DistLinalg:
    def __getattr__(s, k):
        return getattr(np.linalg, k)

    def norm(s, x, axis=None, **kw):
        if not is_sym(x):
            return np.linalg.norm(x, axis=axis, **kw)
        x = np.asarray(x, dtype=object)
        sq = (x * x).sum(axis=axis)
        out = np.empty(sq.shape, dtype=object)
        for i in np.ndindex(*sq.shape):
            out[i] = Dist(SymC.of(sq[i]))
        return out.view(DistArray)


class RVnpSym(RVnp):
    """np for rvectors.py when the Wannier centres are symbolic"""
    linalg = DistLinalg()

    def __init__(s):
        RVnp.__init__(s)
        s.linalg = DistLinalg()

    def round(s, x, *a, **k):
        # the symbolic coordinate stands for the rounded shift itself (rounding to num_digits_tol digits maps the window into itself)
        return x if is_sym(x) else np.round(x, *a, **k)

    def unique(s, x, axis=None, return_inverse=False, **k):
        if not is_sym(x):
            return np.unique(x, axis=axis, return_inverse=return_inverse, **k)
        rows = [list(r) for r in np.asarray(x, dtype=object)]
        uniq = []
        inv = []
        for r in rows:
            for iu, u in enumerate(uniq):
                if all(SymC.of(a - b).iszero() for a, b in zip(r, u)):
                    inv.append(iu)
                    break
            else:
                uniq.append(r)
                inv.append(len(uniq) - 1)

        def less(r1, r2):                                          # lexicographic, forks on symbolic coordinates
            for a, b in zip(r1, r2):
                d = SymC.of(a - b)
                if d.iszero():
                    continue
                return bool(d < 0)
            return False
        order = list(range(len(uniq)))
        for i in range(1, len(order)):                             # insertion sort
            j = i
            while j > 0 and less(uniq[order[j]], uniq[order[j - 1]]):
                order[j], order[j - 1] = order[j - 1], order[j]
                j -= 1
        pos = {o: n for n, o in enumerate(order)}
        U = sarr(np.array([uniq[o] for o in order], dtype=object))
        return (U, np.array([pos[i] for i in inv])) if return_inverse else U

    def array(s, x, dtype=None, **k):
        if is_sym(x):
            r = np.array(x, dtype=object)
            return r.view(SymArray)
        return np.array(x, dtype=dtype, **k)


def case_symbolic_centre(rec, latt, mp, base, direction, window, tol, nb=2):
    """one Wannier centre moves along a line c(t) = base + t*direction, t symbolic in the window: the Wigner-Seitz replica selection itself is explored symbolically"""
    shadow([F, U])
    shadow([RV], proxy=RVnpSym())
    F.pyfftw = FakePyfftw
    F.PYFFTW_IMPORTED = True
    lattice = LATTICES[latt]
    t = SymC.var("t", window[0], window[1])
    cen = np.empty((2, 3), dtype=object)
    for i in range(3):
        cen[0, i] = SymC.of(0)
        cen[1, i] = SymC.of(base[i]) + t * direction[i] if direction[i] else SymC.of(base[i])
    cen = cen.view(SymArray)
    kpt = mesh_points(mp, "natural", 0)
    X = herm_q(len(kpt), nb, ())

    def body(rec):
        rec.witness = lambda env: dict(test="symcentre", latt=latt, mp=mp, base=base, direction=direction, t=env.val(t), tol=tol, X=env.arr(X))
        with contextlib.redirect_stdout(io.StringIO()):
            rv = RV.Rvectors(lattice=lattice, shifts_left_red=cen.copy())
            rv.set_Rvec(np.array(mp), ws_tolerance=tol)
            rv.set_fft_q_to_R(kpt_red=kpt, fftlib="numpy")
            XR = rv.q_to_R(X.copy())
        iR = rv.iRvec
        mapx, mapy, mapz, weights = rv.get_remapper_XX_from_grid_to_list_R
        rec.concrete("replica weights of every pair add up to the number of mesh points", bool(np.allclose(weights.sum(axis=0), np.prod(mp), atol=1e-9)), detail=str(weights.sum(axis=0).tolist()),
                     key="replica weights do not add up to the number of mesh points")
        ph = lift(np.exp(2j * np.pi * kpt.dot(iR.T)))
        back = np.tensordot(ph, np.asarray(XR), axes=(1, 0)).view(SymArray)
        rec.close("sum_R exp(2 pi i q.R) X(R) == X_q at every mesh point", back, X, TOL, bound=1.0, key="q->R->k round trip (explicit sum) does not return the input on the mesh")
        import warnings
        with warnings.catch_warnings():
            warnings.simplefilter("ignore")
            XRc = rv.conj_XX_R(np.asarray(XR).copy().view(SymArray))
            lst_R, lst_mR = rv.reverseR
        rec.concrete("every R has a -R partner", len(lst_R) == len(iR), detail=f"{len(lst_R)} of {len(iR)}", key="an R vector has no -R partner")
        rec.close("conj_XX_R(X) == X, i.e. X(-R) == X(R)^dagger", XRc, XR, 1e-12, bound=1.0, key="real-space matrices are not Hermitian: X(-R) != X(R)^dagger")
    rec.explore(body, [], maxpaths=4000)


def case_ws_dist_two_matrices(rec, latt, mp, nb, short):
    """the do_ws_dist path with matrices of different range: remap_XX_R for each matrix, then exclude_zeros on the whole dictionary
    (what System_R.do_ws_dist does); the matrices at the mesh points must not change and no matrix may lose R-vectors it needs"""
    setup()
    lattice = LATTICES[latt]
    centres = np.array(CENTRES["generic2"], dtype=float)[:nb]
    iR_old = np.array([(i, j, k) for i in range(mp[0]) for j in range(mp[1]) for k in range(mp[2])])
    H = symvec("H", (len(iR_old), nb, nb), real=False, lo=-1, hi=1)
    S = np.empty((len(iR_old), nb, nb, 3), dtype=object)
    S[...] = SymC.of(0)
    Sat = symvec("S", (nb, nb, 3), real=False, lo=-1, hi=1)
    keepR = [0] if short == "onsite" else [0, len(iR_old) - 1]
    for ir in keepR:
        S[ir] = Sat if ir == 0 else Sat * SymC.of(0.5)
    S = S.view(SymArray)
    kpt = mesh_points(mp, "natural", 0)

    def body(rec):
        rec.witness = lambda env: dict(test="wsdist2", latt=latt, mp=mp, nb=nb, short=short, H=env.arr(H), S=env.arr(Sat))
        with contextlib.redirect_stdout(io.StringIO()):
            rv = RV.Rvectors(lattice=lattice, shifts_left_red=centres)
            rv.set_Rvec(np.array(mp), ws_tolerance=1e-5)
            XX = dict(Ham=rv.remap_XX_R(H.copy(), iRvec_old=iR_old), SS=rv.remap_XX_R(S.copy(), iRvec_old=iR_old))
            XX2, rv2 = rv.exclude_zeros(XX)
        ph_old = lift(np.exp(2j * np.pi * kpt.dot(iR_old.T)))
        ph_new = lift(np.exp(2j * np.pi * kpt.dot(rv2.iRvec.T)))
        for key_, X0 in (("Ham", H), ("SS", S)):
            rec.concrete(f"{key_}: one block per retained R-vector", len(XX2[key_]) == len(rv2.iRvec), key="exclude_zeros: matrices and R-vector list have different lengths")
            a = np.tensordot(ph_old, np.asarray(X0), axes=(1, 0))
            b = np.tensordot(ph_new, np.asarray(XX2[key_]), axes=(1, 0))
            rec.close(f"{key_}: matrices at the mesh points unchanged by re-mapping + exclude_zeros", b, a, TOL, bound=1.0,
                      key="do_ws_dist path (remap_XX_R + exclude_zeros) changes a matrix at the mesh points")
    rec.explore(body, [])


def cases(tier, seed):
    q = tier == "quick"
    out = []
    # a Wannier centre moving along a line: windows around the Wigner-Seitz face crossings and generic stretches in between
    sym_windows = [(-0.05, 0.05), (0.2, 0.4), (0.95, 1.05), (-1.05, -0.95)] + ([] if q else [(0.45, 0.55), (1.2, 1.4), (-0.6, -0.4), (1.95, 2.05)])
    for win in sym_windows:
        out.append(Case(f"symbolic centre cubic mp=(2, 1, 1) c=(t,0.1,0.2) t in {win} tol=1e-05", case_symbolic_centre,
                        dict(latt="cubic", mp=(2, 1, 1), base=[0, 0.1, 0.2], direction=[1, 0, 0], window=win, tol=1e-5), timeout=900 if q else 2400))
    if not q:
        for win in [(-0.05, 0.05), (0.45, 0.55), (0.95, 1.05)]:
            out.append(Case(f"symbolic centre tetragonal mp=(2, 2, 1) c=(t,t,0.3) t in {win} tol=0.001", case_symbolic_centre,
                            dict(latt="tetragonal", mp=(2, 2, 1), base=[0, 0, 0.3], direction=[1, 1, 0], window=win, tol=1e-3), timeout=2400))
            out.append(Case(f"symbolic centre hexagonal mp=(3, 1, 1) c=(t,0.2,0.1) t in {win} tol=1e-05", case_symbolic_centre,
                            dict(latt="hexagonal", mp=(3, 1, 1), base=[0, 0.2, 0.1], direction=[1, 0, 0], window=win, tol=1e-5), timeout=2400))
    for latt, mp in (("cubic", (2, 2, 1)), ("hexagonal", (3, 1, 1)), ("fcc", (2, 2, 2))):
        for short in ("onsite", "two"):
            out.append(Case(f"ws_dist two matrices {latt} mp={mp} short-ranged SS={short}", case_ws_dist_two_matrices, dict(latt=latt, mp=mp, nb=2, short=short), timeout=600))
    latts = list(LATTICES) + [f"tri{seed}"] + ([] if q else [f"tri{seed + 1}", f"tri{seed + 2}", f"tri{seed + 3}"])
    meshes = MESHES_Q if q else MESHES_T
    orders = ["natural", "reversed", "shuffle0"] + ([] if q else ["shuffle1", "shuffle2"])
    tols = [1e-3, 1e-5, -1e-5, 0.3]
    k = 0
    for latt in latts:
        for mp in meshes:
            # rotate through the remaining dimensions so that every value of each appears with every lattice (covering design, not the full product)
            for cen in CENTRES:
                k += 1
                if q and (k + hash(latt) % 3) % 3 and cen not in ("face2", "outside2"):
                    continue
                tol = tols[k % 4]
                order = orders[k % len(orders)]
                nb = 1 if cen in ("none", "origin") else 2
                trailing = (3,) if k % 5 == 0 else ()
                fftlib = "fftw" if k % 2 else "numpy"
                out.append(Case(f"{latt} mp={mp} centres={cen} tol={tol} order={order} trailing={trailing} {fftlib}", case_roundtrip,
                                dict(latt=latt, mp=mp, cen=cen, tol=tol, order=order, nb=nb, trailing=trailing, fftlib=fftlib, seed=seed), timeout=600 if q else 1800))
    for latt, mp in (("cubic", (3, 1, 1)), ("hexagonal", (3, 1, 1)), ("tetragonal", (1, 1, 3))):
        for order in ("shuffle0", "shuffle1"):
            out.append(Case(f"{latt} mp={mp} centres=generic2 tol=1e-05 order={order} (negative images) numpy", case_roundtrip,
                            dict(latt=latt, mp=mp, cen="generic2", tol=1e-5, order=order, nb=2, trailing=(), fftlib="numpy", seed=seed), timeout=600))
    # centres within / just outside the Wigner-Seitz tolerance of a face, an edge and a corner of the supercell Wigner-Seitz cell
    near = dict(face_in=([[0, 0, 0], [0.5 + 1e-6, 0.1, 0.2]], 1e-5), face_out=([[0, 0, 0], [0.5 + 3e-5, 0.1, 0.2]], 1e-5), face_in3=([[0, 0, 0], [0.5 - 4e-4, 0.25, 0]], 1e-3),
                edge_in=([[0.1, 0.1, 0], [0.6 + 1e-6, 0.6 - 1e-6, 0.3]], 1e-5), corner_in=([[0, 0, 0], [0.5 + 1e-6, 0.5 - 1e-6, 0.5 + 2e-6]], 1e-5),
                corner_neg=([[0, 0, 0], [0.5 + 1e-6, 0.5 - 1e-6, 0.5 + 2e-6]], -1e-5))
    for nm, (cen_, tol_) in near.items():
        CENTRES[nm] = cen_
        for latt, mp in (("cubic", (2, 1, 1)), ("cubic", (2, 2, 2)), ("tetragonal", (2, 2, 1)), ("monoclinic", (2, 1, 2))) + (() if q else (("fcc", (2, 2, 2)), ("hexagonal", (3, 3, 1)))):
            if nm.startswith("corner") and mp != (2, 2, 2):
                continue
            # mp=2 along an axis puts the supercell Wigner-Seitz face at reduced coordinate 1 = 2 * 0.5: use centres scaled accordingly as well
            for scale in (1, 2):
                key_ = f"{nm}_x{scale}"
                CENTRES[key_] = [list(np.array(c) * scale) for c in cen_]
                out.append(Case(f"{latt} mp={mp} centres={key_} tol={tol_} order=natural near-boundary numpy", case_roundtrip,
                                dict(latt=latt, mp=mp, cen=key_, tol=tol_, order="natural", nb=2, trailing=(), fftlib="numpy", seed=seed), timeout=600))
    for latt in ("cubic", "hexagonal", "fcc"):
        for mp in ((2, 2, 1), (3, 1, 1)) if q else ((2, 2, 1), (3, 1, 1), (2, 2, 2)):
            out.append(Case(f"remap {latt} mp={mp} face2", case_remap, dict(latt=latt, mp=mp, cen="face2", nb=2, seed=seed), timeout=600))
    return out


# ------------------------------------------------------------------------------------------------------------
def replay(rec):
    w = rec["witness"]
    lattice = LATTICES[w["latt"]] if w["latt"] in LATTICES else triclinic(int(w["latt"][3:]))
    mp = tuple(w["mp"])
    nb = w.get("nb", 2)
    rng = np.random.RandomState(5)
    if "X" in w:
        X = unarr(w["X"]).astype(complex)
        if np.abs(X).max() == 0:
            X = rng.uniform(-1, 1, X.shape) + 1j * rng.uniform(-1, 1, X.shape)
    if w.get("test") == "symcentre":
        centres = np.array([[0, 0, 0], [w["base"][i] + w["t"] * w["direction"][i] for i in range(3)]], dtype=float)
        kpt = mesh_points(mp, "natural", 0)
        Xh = 0.5 * (X + np.conjugate(np.swapaxes(X, 1, 2)))
        import warnings
        try:
            with contextlib.redirect_stdout(io.StringIO()), warnings.catch_warnings():
                warnings.simplefilter("ignore")
                rv = RV.Rvectors(lattice=lattice, shifts_left_red=centres)
                rv.set_Rvec(np.array(mp), ws_tolerance=w["tol"])
                rv.set_fft_q_to_R(kpt_red=kpt, fftlib="numpy")
                XR = rv.q_to_R(Xh.copy())
                XRc = rv.conj_XX_R(XR.copy())
                lst_R, lst_mR = rv.reverseR
        except Exception as e:
            return True, f"t={w['t']}: raises {type(e).__name__}: {str(e)[:200]}"
        back = np.tensordot(np.exp(2j * np.pi * kpt.dot(rv.iRvec.T)), XR, axes=(1, 0))
        e1 = np.abs(back - Xh).max()
        e3 = np.abs(rv.get_remapper_XX_from_grid_to_list_R[3].sum(axis=0) - np.prod(mp)).max()
        e4 = np.inf if len(lst_R) != len(rv.iRvec) else np.abs(XRc - XR).max()
        return bool(max(e1, e3, e4) > 1e-8), f"t={w['t']}: round trip err {e1:.2e}; weight sum err {e3:.2e}; hermiticity err {e4:.2e}"
    if w.get("test") == "wsdist2":
        centres = np.array(CENTRES["generic2"], dtype=float)[:nb]
        iR_old = np.array([(i, j, k) for i in range(mp[0]) for j in range(mp[1]) for k in range(mp[2])])
        H = unarr(w["H"]).astype(complex)
        Sat = unarr(w["S"]).astype(complex)
        if np.abs(H).max() == 0:
            H = rng.uniform(-1, 1, H.shape) + 1j * rng.uniform(-1, 1, H.shape)
        if np.abs(Sat).max() == 0:
            Sat = rng.uniform(-1, 1, Sat.shape) + 1j * rng.uniform(-1, 1, Sat.shape)
        S = np.zeros((len(iR_old), nb, nb, 3), dtype=complex)
        for ir in ([0] if w["short"] == "onsite" else [0, len(iR_old) - 1]):
            S[ir] = Sat if ir == 0 else Sat * 0.5
        kpt = mesh_points(mp, "natural", 0)
        with contextlib.redirect_stdout(io.StringIO()):
            rv = RV.Rvectors(lattice=lattice, shifts_left_red=centres)
            rv.set_Rvec(np.array(mp), ws_tolerance=1e-5)
            XX = dict(Ham=rv.remap_XX_R(H.copy(), iRvec_old=iR_old), SS=rv.remap_XX_R(S.copy(), iRvec_old=iR_old))
            XX2, rv2 = rv.exclude_zeros(XX)
        e = 0.0
        for key_, X0 in (("Ham", H), ("SS", S)):
            a = np.tensordot(np.exp(2j * np.pi * kpt.dot(iR_old.T)), X0, axes=(1, 0))
            b = np.tensordot(np.exp(2j * np.pi * kpt.dot(rv2.iRvec.T)), XX2[key_], axes=(1, 0))
            e = max(e, np.abs(a - b).max())
        return bool(e > 1e-8), f"do_ws_dist path with two matrices: max change at mesh points {e:.2e}"
    if w.get("test") == "remap":
        centres = np.array(CENTRES[w["cen"]], dtype=float)[:nb]
        iR_old = np.array([(i, j, k) for i in range(mp[0]) for j in range(mp[1]) for k in range(mp[2])])
        kpt = mesh_points(mp, "natural", w["seed"])
        with contextlib.redirect_stdout(io.StringIO()):
            rv = RV.Rvectors(lattice=lattice, shifts_left_red=centres)
            rv.set_Rvec(np.array(mp), ws_tolerance=1e-5)
            XR = rv.remap_XX_R(X.copy(), iRvec_old=iR_old)
        a = np.tensordot(np.exp(2j * np.pi * kpt.dot(iR_old.T)), X, axes=(1, 0))
        b = np.tensordot(np.exp(2j * np.pi * kpt.dot(rv.iRvec.T)), XR, axes=(1, 0))
        e = np.abs(a - b).max()
        return bool(e > 1e-8), f"remap: max change at mesh points {e:.2e}"
    # hermitise
    X = 0.5 * (X + np.conjugate(np.swapaxes(X, 1, 2)))
    if w["cen"] not in CENTRES:
        cases("thorough", w["seed"])
    centres = CENTRES[w["cen"]]
    if centres is not None:
        centres = np.array(centres, dtype=float)[:nb] if nb <= len(centres) else np.array(centres + [[0.8, 0.05, 0.45]], dtype=float)[:nb]
    kpt = mesh_points(mp, w["order"], w["seed"])
    try:
        with contextlib.redirect_stdout(io.StringIO()):
            rv = RV.Rvectors(lattice=lattice, shifts_left_red=centres)
            rv.set_Rvec(np.array(mp), ws_tolerance=w["tol"])
            rv.set_fft_q_to_R(kpt_red=kpt, fftlib=w["fftlib"])
            XR = rv.q_to_R(X.copy())
            rv.set_fft_R_to_k(NK=None, num_wann=nb, k_list=kpt)
            back2 = rv.R_to_k(XR.copy(), hermitian=True)
    except Exception as e:
        return True, f"raises {type(e).__name__}: {e}"
    iR = rv.iRvec
    back = np.tensordot(np.exp(2j * np.pi * kpt.dot(iR.T)), XR, axes=(1, 0))
    e1, e2 = np.abs(back - X).max(), np.abs(back2 - X).max()
    weights = rv.get_remapper_XX_from_grid_to_list_R[3]
    e3 = np.abs(weights.sum(axis=0) - np.prod(mp)).max()
    import warnings
    with warnings.catch_warnings():
        warnings.simplefilter("ignore")
        XRc = rv.conj_XX_R(XR.copy())
        lst_R, lst_mR = rv.reverseR
    e4 = np.inf if len(lst_R) != len(iR) else max(np.abs(np.conjugate(np.swapaxes(XR[lst_mR], 1, 2)) - XR[lst_R]).max(), np.abs(XRc - XR).max())
    return bool(max(e1, e2, e3, e4) > 1e-8), f"round trip err {e1:.2e} / R_to_k {e2:.2e}; weight sum err {e3:.2e}; hermiticity err {e4:.2e}"
