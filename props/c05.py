"""C05 — results are invariant under relabelling or rotating the Wannier basis"""
import math, itertools, warnings
from types import SimpleNamespace
import numpy as np
from symx.core import *
from symx.core import z3
from symx.npproxy import NpProxy, shadow
from symx.harness import Case
import symx.harness  # noqa (puts the repo on sys.path)
import wannierberri.system.system_R as SR, wannierberri.fourier.rvectors as RV, wannierberri.fourier.fft as FF, wannierberri.utility as UT
import wannierberri.data_K.data_K_R as DKR, wannierberri.data_K.data_K as DK

PROPERTY = "C05"
FUNCTIONS = ["wannierberri.system.system_R.System_R.reorder/spin_block2interlace/spin_interlace2block", "wannierberri.fourier.rvectors.Rvectors.reorder/cRvec_shifted/derivative/R_to_k (k-list mode)",
             "wannierberri.data_K.data_K_R.Data_K_R.__init__/get_R_mat/Xbar/_R_to_k_H", "wannierberri.data_K.data_K.Data_K._rotate"]
BOUNDS = dict(quick=dict(num_wann="2..3 (every permutation), 2 and 6 (block<->interlace; 6 is the smallest size where the two directions differ)", R_sets="3..5 R-vectors", matrices="Ham, AA", derivatives="Xbar der 0..2", data="symbolic complex X(-R)=X(R)^+",
                         centres="symbolic", k="symbolic: one free phase per R-vector", gauge="U(k) = identity and U(k) an arbitrary symbolic complex matrix",
                         rotation="W = diag(e^ia,e^ib) Givens(t) diag(1,e^ic) with symbolic angles on a co-centred pair, num_wann 2..3"),
              thorough=dict(num_wann="2..4 (every permutation), 5..6 (cycles, reversal, mixed), 2..8 (block<->interlace)", R_sets="3..13 R-vectors",
                            matrices="Ham, AA, BB, CC, SS, OO, SH (one cartesian index), GG, FF, SA, SHA, SR, SHR (two) and the matrices Data_K_R derives from them with the shift-dependent "
                                     "derivative: rotAA, rotAAab, CCab_antisym", derivatives="Xbar der 0..2 (0..1 for the 13-matrix set at num_wann 3 and for num_wann >= 5)", data="symbolic complex",
                            centres="symbolic", k="symbolic, 1..2 k-points", gauge="as quick",
                            compositions="reorder o reorder (o reorder), block2interlace / interlace2block composed with reorder and with themselves (caches filled between the steps), "
                                         "rotation of a co-centred pair followed by System_R.reorder (T = W P), num_wann 2..5"))
EXPLANATION = ("A System_R with symbolic matrices and symbolic centres is reordered by the real System_R.reorder / spin_block2interlace (or rotated by a unitary built from unit-circle atoms "
               "on a pair of co-centred Wannier functions); the real Data_K_R.Xbar (R_to_k with the shift-dependent derivative factors) is evaluated before and after.  z3 decides "
               "Xbar'(name,der) == P^T Xbar(name,der) P (resp. W^+ Xbar W) for der<=2, that the Hamiltonian-gauge quantities U'^+ Xbar' U' with U' = P^T U (W^+ U) are unchanged for an "
               "arbitrary symbolic U(k), and that Xbar equals the harness's own Fourier sum with the factors i(R + t_b - t_a).")
ASSUMPTIONS = ["the rotated Wannier functions share their centre (statement of the property)", "U(k) of the transformed system is P^T U(k) (resp. W^+ U(k)): eigenvectors of the transformed H(k)"]
OUTSIDE = ["integrated calculator outputs and tabulations: they are functions of the Hamiltonian-gauge quantities U^+ Xbar U and of E(k), which are shown unchanged; the calculators themselves are "
           "covered by C04 and not re-run here", "numerical eigh (E_K, UU_K)", "quick tier: matrices other than Ham / AA (the thorough tier runs all thirteen kinds and the derived rotAA, rotAAab, CCab_antisym)", "sizes above the stated bounds"]
STUBS = ["grid stand-in with FFT=(1,1,1) for Data_K_R(k_list=...)", "UU_K put into the Data_K cache (identity or symbolic matrix; no eigh)"]

LAT = np.array([[1.0, 0, 0], [0.25, 1.5, 0], [0, 0.5, 2.0]])
MODS = [SR, RV, FF, UT, DKR, DK]
CART = dict(Ham=(), AA=(3,), BB=(3,), CC=(3,), SS=(3,), OO=(3,), SH=(3,), GG=(3, 3), FF=(3, 3), SA=(3, 3), SHA=(3, 3), SR=(3, 3), SHR=(3, 3))
HERM = {key: key in ("AA", "SS", "OO") for key in CART}     # the `hermitian` flag Data_K_R.Xbar passes to R_to_k
RSETS = dict(A=[(0, 0, 0), (1, 0, 0), (-1, 0, 0)],
             B=[(0, 0, 0), (0, 1, 0), (0, -1, 0), (1, 0, 0), (-1, 0, 0)],
             E=[(0, 0, 0), (1, 1, 0), (-1, -1, 0), (0, 0, 1), (0, 0, -1), (1, 0, 0), (-1, 0, 0)],
             F=[(0, 0, 0), (1, 0, 0), (-1, 0, 0), (0, 1, 0), (0, -1, 0), (0, 0, 1), (0, 0, -1), (1, 1, 0), (-1, -1, 0), (1, -1, 1), (-1, 1, -1), (2, 0, 0), (-2, 0, 0)])
GRID = SimpleNamespace(FFT=np.array([1, 1, 1]))


def mk_system(nb, iR, cred, mats):
    s = SR.System_R(silent=True)
    s.set_real_lattice(real_lattice=LAT)
    s.num_wann = nb
    s.wannier_centers_cart = cred.dot(LAT)
    s.rvec = RV.Rvectors(lattice=LAT, iRvec=np.array(iR), shifts_left_red=cred.copy())
    for key, X in mats.items():
        s.set_R_mat(key, X.copy())
    s.set_pointgroup()
    return s


def datak(system, k, UU=None):
    dk = DKR.Data_K_R(system, dK=None, grid=GRID, k_list=k)
    dk.__dict__["UU_K"] = np.eye(system.num_wann)[None].repeat(len(k), axis=0) if UU is None else UU
    return dk


def fourier_der(iR, X, k, cred, der, hermitian, xp):
    """harness's own Xbar: sum_R exp(2 pi i k.R) X_ab(R) prod_j i (R + t_b - t_a)_{d_j}   (cartesian), optionally the hermitian part in (a,b)"""
    nb = X.shape[1]
    cc = cred.dot(LAT)
    out = xp.zeros((len(k),) + X.shape[1:] + (3,) * der, dtype=complex)
    for ik, kk in enumerate(k):
        for r, x in zip(iR, X):
            ph = xp.exp(2j * np.pi * (kk @ np.array(r)))
            rc = np.array(r) @ LAT
            for a in range(nb):
                for b in range(nb):
                    v = rc + cc[b] - cc[a]
                    t = ph * x[a, b]
                    for j in range(der):
                        t = t[..., None] * (1j * v)
                    out[ik, a, b] = out[ik, a, b] + t
    return 0.5 * (out + xp.conj(out.swapaxes(1, 2))) if hermitian else out


def tl(iRvec):
    return [tuple(int(x) for x in r) for r in iRvec]


def rot(U, X, xp, ax=1):
    """U^+ X U on the band axes (ax, ax+1); U (nb,nb) or (nk,nb,nb) (then ax must be 1)"""
    X = xp.asarray(X)
    if U.ndim == 2:
        Y = xp.tensordot(xp.conj(U.T), xp.moveaxis(X, ax, 0), axes=(1, 0))          # (a', ..., b, ...)
        Y = xp.moveaxis(Y, 0, ax)
        Y = xp.tensordot(xp.moveaxis(Y, ax + 1, -1), U, axes=(-1, 0))
        return xp.moveaxis(Y, -1, ax + 1)
    return xp.stack([rot(U[i], X[i], xp, ax=0) for i in range(len(U))])


# ------------------------------------------------------------------------------------------------------------
def arrays_for(spec):
    nb, iR = spec["nb"], RSETS[spec["R"]]
    A = dict(c=symvec("c", (nb - 1 if spec["kind"] == "rotate" else nb, 3)), UU=symvec("U", (spec["nk"], nb, nb), real=False))
    for key in spec["keys"]:
        A["X_" + key] = hermR("X" + key, iR, nb, CART[key])
    if spec["kind"] == "rotate":
        A["angles"] = sarr([SymC.var(n) for n in ("wa", "wb", "wt", "wc")])
    return A


def perm_matrix(p):
    P = np.zeros((len(p), len(p)))
    for a, pa in enumerate(p):
        P[pa, a] = 1            # (P^T X P)[a,b] = X[p[a], p[b]]
    return P


def expected_mapping(spec, kind=None, perm=None):
    nb = spec["nb"]
    kind = kind or spec["kind"]
    if kind == "perm":
        return list(perm if perm is not None else spec["perm"])
    nw2 = nb // 2
    if kind == "block2interlace":        # new 2i <- old i (first block), new 2i+1 <- old i + nb/2
        return [(i // 2) + (i % 2) * nw2 for i in range(nb)]
    if kind == "interlace2block":        # new i <- old 2i, new nb/2 + i <- old 2i+1
        return [2 * i for i in range(nw2)] + [2 * i + 1 for i in range(nw2)]
    raise ValueError(kind)


def common_checks(rec, spec, A, k, xp, ref_sys, new_sys, T, what):
    """Xbar of new_sys == T^+ Xbar(ref_sys) T for all names/der; Hamiltonian-gauge quantities with U' = T^+ U unchanged"""
    d0, d1 = datak(ref_sys, k), datak(new_sys, k)
    UU = A["UU"]
    UUn = xp.stack([xp.conj(T.T) @ UU[i] for i in range(len(UU))])
    h0, h1 = datak(ref_sys, k, UU), datak(new_sys, k, UUn)
    rec.eq(f"{what}: H'(k) == T^+ H(k) T", d1.HH_K, rot(T, d0.HH_K, xp), key=f"{what}: H(k) not covariant")
    for key in list(spec["keys"]) + list(spec.get("derived", [])):          # derived: rotAA, rotAAab, CCab_antisym are built by Data_K_R from AA / CC with the shift-dependent derivative
        for der in range(spec["der"] + 1):
            rec.eq(f"{what}: Xbar'({key},{der}) == T^+ Xbar({key},{der}) T", d1.Xbar(key, der), rot(T, d0.Xbar(key, der), xp), key=f"{what}: Xbar(der={min(der, 1)}{'+' if der else ''}) not covariant")
            if der <= spec["hder"]:
                rec.eq(f"{what}: U'^+ Xbar'({key},{der}) U' == U^+ Xbar({key},{der}) U  (U' = T^+ U)", h1.Xbar(key, der), h0.Xbar(key, der),
                       key=f"{what}: Hamiltonian-gauge Xbar changes")
                rec.eq(f"{what}: U^+ Xbar U is what _rotate returns", h0.Xbar(key, der), rot(UU, d0.Xbar(key, der), xp), key="Data_K._rotate is not U^+ X U")
    return d0, d1


def ob_perm(rec, spec, A, k, xp):
    nb, iR = spec["nb"], RSETS[spec["R"]]
    mats = {key: A["X_" + key] for key in spec["keys"]}
    ops = spec.get("ops") or [[spec["kind"], spec.get("perm")]]          # a single operation, or a composition applied one after the other
    p = list(range(nb))
    for kind_, perm_ in ops:
        m = expected_mapping(spec, kind_, perm_)
        p = [p[i] for i in m]                       # X''[a,b] = X'[m[a],m[b]] = X[p[m[a]],p[m[b]]]
    P = perm_matrix(p)
    ref = mk_system(nb, iR, A["c"], mats)
    S = mk_system(nb, iR, A["c"], mats)
    S.rvec.set_fft_R_to_k(NK=None, num_wann=nb, k_list=k)
    pre = S.rvec.R_to_k(S.get_R_mat("Ham").copy(), der=1, hermitian=False)      # fills cRvec_shifted & co on the system's own Rvectors
    _ = S.wannier_centers_red
    for kind_, perm_ in ops:
        if kind_ == "perm":
            S.reorder(list(perm_))
        elif kind_ == "block2interlace":
            S.spin_block2interlace()
        else:
            S.spin_interlace2block()
        _ = S.rvec.cRvec_shifted, S.wannier_centers_red            # caches filled between the steps
    what = ("reorder" if spec["kind"] == "perm" else spec["kind"]) if len(ops) == 1 else "composition " + " then ".join(o[0] for o in ops)
    for key in spec["keys"]:
        rec.eq(f"{what}: {key}'(R)[a,b] == {key}(R)[p[a],p[b]]", S.get_R_mat(key), A["X_" + key][:, p][:, :, p], key=f"{what}: R-matrices not permuted on both band axes")
    rec.eq(f"{what}: centres'[a] == centres[p[a]]", S.wannier_centers_cart, A["c"].dot(LAT)[p], key=f"{what}: centres not permuted")
    rec.eq(f"{what}: left shifts permuted", S.rvec.shifts_left_red, A["c"][p], key=f"{what}: Rvectors left shifts not permuted")
    rec.eq(f"{what}: right shifts permuted", S.rvec.shifts_right_red, A["c"][p], key=f"{what}: Rvectors right shifts not permuted")
    rec.eq(f"{what}: cached reduced centres consistent", S.wannier_centers_red, S.wannier_centers_cart.dot(np.linalg.inv(LAT)), key=f"{what}: stale wannier_centers_red")
    rec.concrete(f"{what}: R-vectors, num_wann unchanged", tl(S.rvec.iRvec) == tl(iR) and S.num_wann == nb, key=f"{what}: changes R-vectors / num_wann")
    d0, d1 = common_checks(rec, spec, A, k, xp, ref, S, P, what)
    rec.eq(f"{what}: system.rvec.R_to_k(Ham, der=1) on the system's own Rvectors (caches dropped)", S.rvec.R_to_k(S.get_R_mat("Ham").copy(), der=1, hermitian=False), pre[:, p][:, :, p],
           key=f"{what}: stale Rvectors caches")
    if spec["kind"] == "perm" and len(ops) == 1:          # Rvectors.reorder on its own (System_R.reorder drops the caches a second time)
        rv = RV.Rvectors(lattice=LAT, iRvec=np.array(iR), shifts_left_red=A["c"].copy())
        cs = rv.cRvec_shifted
        rv.reorder(list(p))
        rec.eq("Rvectors.reorder: cRvec_shifted[R,a,b] == old[R,p[a],p[b]]", rv.cRvec_shifted, cs[:, p][:, :, p], key="Rvectors.reorder leaves stale caches")
    if spec.get("oracle"):
        for key in spec["keys"]:
            for der in range(spec["der"] + 1):
                rec.eq(f"Xbar({key},{der}) == sum_R e^(ikR) X_ab(R) prod i(R + t_b - t_a)", d0.Xbar(key, der), fourier_der(iR, A["X_" + key], k, A["c"], der, HERM[key], xp),
                       key="Xbar derivative factors are not i(R + t_b - t_a)")
    if spec["kind"] != "perm" and len(ops) == 1:          # there and back again
        (S.spin_interlace2block if spec["kind"] == "block2interlace" else S.spin_block2interlace)()
        for key in spec["keys"]:
            rec.eq(f"{what} then back: {key}(R) restored", S.get_R_mat(key), A["X_" + key], key="spin_block2interlace / spin_interlace2block are not inverse")
        rec.eq(f"{what} then back: shifts restored", S.rvec.shifts_left_red, A["c"], key="spin_block2interlace / spin_interlace2block are not inverse")


def ob_rotate(rec, spec, A, k, xp):
    nb, iR = spec["nb"], RSETS[spec["R"]]
    i0, i1 = spec["pair"]
    rows = [j if j < i1 else (i0 if j == i1 else j - 1) for j in range(nb)]      # the pair shares a centre
    cred = A["c"][rows]
    wa, wb, wt, wc = A["angles"]
    ph = lambda x: xp.exp(1j * x)
    W2 = xp.array([[ph(wa), 0], [0, ph(wb)]]) @ xp.array([[xp.cos(wt), -xp.sin(wt)], [xp.sin(wt), xp.cos(wt)]]) @ xp.array([[1, 0], [0, ph(wc)]])
    W = xp.zeros((nb, nb), dtype=complex) + np.eye(nb)
    for a, ia in enumerate((i0, i1)):
        for b, ib in enumerate((i0, i1)):
            W[ia, ib] = W2[a, b]
    rec.eq("W unitary", xp.conj(W.T) @ W, np.eye(nb), key="harness: W not unitary")
    mats = {key: A["X_" + key] for key in spec["keys"]}
    ref = mk_system(nb, iR, cred, mats)
    new = mk_system(nb, iR, cred, {key: rot(W, X, xp) for key, X in mats.items()})
    if spec.get("then_perm"):           # composition: the rotated system is reordered by the real code, T = W P
        new.reorder(list(spec["then_perm"]))
        common_checks(rec, spec, A, k, xp, ref, new, W @ perm_matrix(spec["then_perm"]), "rotation of a co-centred pair then reorder")
    else:
        common_checks(rec, spec, A, k, xp, ref, new, W, "rotation of a co-centred pair")


KIND = dict(compose=ob_perm, perm=ob_perm, block2interlace=ob_perm, interlace2block=ob_perm, rotate=ob_rotate)


def angle_of(env, x):
    x = SymC.of(x)
    if x.isconst():
        return float(x)
    return math.atan2(env.val(x.sin()), env.val(x.cos()))


def case_run(rec, spec):
    warnings.filterwarnings("ignore")
    shadow(MODS)
    A = arrays_for(spec)
    k = symvec("k", (spec["nk"], 3))

    def witness(env):
        arrs = {n: env.arr(a) for n, a in A.items() if n != "angles"}
        if "angles" in A:
            arrs["angles"] = dict(re=[angle_of(env, x) for x in A["angles"]], im=None)
        return dict(spec=spec, arrays=arrs)

    def body(rec):
        rec.witness = witness
        KIND[spec["kind"]](rec, spec, A, k, NpProxy())
    rec.explore(body, [])


def cases(tier, seed):
    q = tier == "quick"
    out = []
    nk = 1 if q else 2
    for nb in ((2, 3) if q else (2, 3, 4)):
        for ip, p in enumerate(itertools.permutations(range(nb))):
            R = ("A", "B", "E")[ip % (2 if q else 3)]
            keys = ["Ham", "AA"]          # (num_wann = 4 occurs in the thorough tier only)
            spec = dict(kind="perm", nb=nb, R=R, keys=keys, perm=list(p), der=2, hder=({2: 2, 3: 1, 4: 0}[nb]) if not q else (0 if nb > 2 else 1), nk=nk if nb < 4 else 1, oracle=ip == 0)
            out.append(Case(f"reorder nb={nb} perm={list(p)} R={R}", case_run, dict(spec=spec), timeout=3000))
    for nb in ((2, 6) if q else (2, 4, 6)):
        for kind in ("block2interlace", "interlace2block"):
            spec = dict(kind=kind, nb=nb, R="A", keys=["Ham", "AA"] if nb < 4 else ["Ham"], der=2 if nb < 6 else 1, hder=1 if nb < 4 else 0, nk=nk)
            out.append(Case(f"{kind} nb={nb}", case_run, dict(spec=spec), timeout=3000))
    for nb, pair in ((2, (0, 1)), (3, (0, 2)), (3, (1, 2))) + (() if q else ((4, (1, 3)),)):
        spec = dict(kind="rotate", nb=nb, R="A" if nb > 2 else "B", keys=["Ham", "AA"] if nb < 4 else ["Ham"], pair=list(pair), der=2 if nb < 4 else 1, hder=0 if nb > 2 else 1, nk=1)
        out.append(Case(f"rotate nb={nb} pair={list(pair)}", case_run, dict(spec=spec), timeout=3000))
    if not q:
        allk = ["Ham", "AA", "BB", "CC", "SS", "OO", "SH", "GG", "FF", "SA", "SHA", "SR", "SHR"]
        for nb, p, R, keys, derived, der in ((2, [1, 0], "B", allk, ["rotAA", "rotAAab", "CCab_antisym"], 2), (3, [2, 0, 1], "A", allk, [], 1), (3, [0, 2, 1], "B", ["Ham", "BB", "SS", "OO", "SH", "FF", "SHA", "SR", "SHR"], ["rotAAab"][:0], 2),
                                                (5, [3, 0, 4, 2, 1], "B", ["Ham", "AA"], ["rotAA"], 1), (4, [2, 3, 0, 1], "E", ["Ham", "AA", "CC", "SS", "SA"], ["CCab_antisym"], 1), (3, [1, 0, 2], "E", ["Ham", "AA", "CC", "GG", "SA"], ["rotAA", "CCab_antisym"], 2),
                                                (2, [1, 0], "F", ["Ham", "AA", "SS", "FF"], ["rotAA"], 2), (4, [3, 1, 0, 2], "B", ["Ham", "AA", "BB", "GG"], ["rotAA"], 1),
                                                (5, [1, 2, 3, 4, 0], "A", ["Ham", "AA"], [], 1), (5, [4, 3, 2, 1, 0], "B", ["Ham"], [], 2), (5, [0, 3, 2, 1, 4], "E", ["Ham"], [], 1), (5, [2, 4, 1, 0, 3], "A", ["Ham"], [], 1),
                                                (6, [5, 0, 4, 1, 3, 2], "A", ["Ham"], [], 1), (3, [1, 2, 0], "F", ["Ham", "AA"], [], 2), (4, [1, 0, 3, 2], "F", ["Ham"], [], 2)):
            spec = dict(kind="perm", nb=nb, R=R, keys=keys, derived=derived, perm=p, der=der, hder=0 if (nb > 2 or len(keys) > 5) else 1, nk=1, oracle=nb <= 3 and len(keys) <= 5)
            out.append(Case(f"reorder nb={nb} perm={p} R={R} matrices={'+'.join(keys)} derived={'+'.join(derived) or '-'}", case_run, dict(spec=spec), timeout=3000))
        comps = [(3, [["perm", [1, 2, 0]], ["perm", [0, 2, 1]]]), (4, [["perm", [3, 0, 2, 1]], ["perm", [1, 3, 0, 2]], ["perm", [2, 1, 3, 0]]]), (4, [["block2interlace", None], ["perm", [2, 0, 3, 1]]]),
                 (4, [["perm", [1, 0, 3, 2]], ["interlace2block", None]]), (6, [["block2interlace", None], ["block2interlace", None]]), (6, [["interlace2block", None], ["perm", [5, 3, 1, 4, 2, 0]], ["block2interlace", None]]),
                 (8, [["block2interlace", None]]), (8, [["interlace2block", None]]), (6, [["perm", [1, 2, 3, 4, 5, 0]], ["interlace2block", None]])]
        for nb, ops in comps:
            spec = dict(kind="compose" if len(ops) > 1 else ops[0][0], nb=nb, R="A" if nb > 4 else "B", keys=["Ham", "AA"] if nb < 6 else ["Ham"], ops=ops, der=2 if nb < 6 else 1, hder=0, nk=1)
            out.append(Case(f"composition nb={nb} " + " then ".join(o[0] + (str(o[1]) if o[1] else "") for o in ops), case_run, dict(spec=spec), timeout=3000))
        for nb, pair, tp, keys in ((2, (0, 1), [1, 0], ["Ham", "AA"]), (3, (0, 2), [2, 0, 1], ["Ham", "AA"]), (3, (1, 2), [0, 2, 1], ["Ham", "AA", "GG"]), (4, (0, 3), [1, 3, 0, 2], ["Ham"]), (4, (2, 3), None, ["Ham", "AA"]),
                                   (5, (1, 4), [4, 0, 3, 1, 2], ["Ham"]), (3, (0, 1), None, ["Ham", "AA", "BB", "SS", "GG", "SA"])):
            spec = dict(kind="rotate", nb=nb, R="B" if nb < 4 else "A", keys=keys, pair=list(pair), then_perm=tp, der=2 if (nb < 4 and len(keys) < 4) else 1, hder=0, nk=1)
            out.append(Case(f"rotate nb={nb} pair={list(pair)} matrices={'+'.join(keys)} then reorder {tp}", case_run, dict(spec=spec), timeout=3000))
    return out


# ------------------------------------------------------------------------------------------------------------
class NumRec:
    """replay-side recorder: the same obligations evaluated on concrete doubles with the unshadowed real code"""

    def __init__(s):
        s.bad = []

    def eq(s, name, a, b, key=None, **kw):
        a, b = np.asarray(a, dtype=complex), np.asarray(b, dtype=complex)
        ok = (a.shape == b.shape or b.size == 1) and np.allclose(a, b, rtol=1e-9, atol=1e-9 * (1 + np.abs(b).max(initial=0)))
        if not ok:
            s.bad.append(name)

    def concrete(s, name, ok, detail="", key=None):
        if not ok:
            s.bad.append(name + " " + detail)

    def note(s, txt):
        pass


KREPLAY = np.array([[0.1234, -0.3217, 0.4561], [0.377, 0.291, -0.113]])


def replay(rec):
    import traceback
    from symx.harness import unarr, CompleteEnv
    w = rec["witness"]
    spec = w["spec"]
    A = {n: unarr(a) for n, a in w["arrays"].items()}
    full = arrays_for(spec)
    if all(np.abs(a).max(initial=0) == 0 for n, a in A.items() if n != "angles"):
        # a model of an exception path leaves all atoms free: take a generic point of the input space (hermitian structure kept)
        rng = np.random.default_rng(1)
        env = CompleteEnv()
        for n, a in full.items():
            for x in a.flat:
                for at in SymC.of(x).atoms():
                    env.setdefault(at, Fr(int(rng.integers(-8, 9)), 8))
        ang = A.get("angles")
        A = {n: np.asarray(env.val(a)) for n, a in full.items() if n != "angles"}
        if ang is not None:
            A["angles"] = np.where(ang == 0, [0.7, 0.4, 0.9, -0.3], ang)
    A = {n: (a.real if n in ("c", "angles") else a.astype(complex)) for n, a in A.items()}
    nr = NumRec()
    try:
        KIND[spec["kind"]](nr, spec, A, KREPLAY[:spec["nk"]], np)
    except Exception as e:
        tb = traceback.format_exc()
        if "wannierberri" in tb.split("in ob_")[-1]:
            return True, f"raises {type(e).__name__}: {e}"
        raise
    return bool(nr.bad), f"failed: {nr.bad[:4]}"
