"""C05 — results are invariant under relabelling or rotating the Wannier basis"""
import math, itertools, warnings
from types import SimpleNamespace
import numpy as np
from symx.core import *
from symx.core import z3
from symx.npproxy import NpProxy, shadow
from symx.harness import Case
import symx.harness  # noqa (puts the repo on sys.path)
import wannierberri.system.system_R as SR, wannierberri.fourier.rvectors as RV, wannierberri.fourier.fft as FF, wannierberri.utility as UT
import wannierberri.data_K.data_K_R as DKR, wannierberri.data_K.data_K as DK

PROPERTY = "C05"
FUNCTIONS = ["wannierberri.system.system_R.System_R.reorder/spin_block2interlace/spin_interlace2block", "wannierberri.fourier.rvectors.Rvectors.reorder/cRvec_shifted/derivative/R_to_k (k-list mode)",
             "wannierberri.data_K.data_K_R.Data_K_R.__init__/get_R_mat/Xbar/_R_to_k_H", "wannierberri.data_K.data_K.Data_K._rotate"]
BOUNDS = dict(quick=dict(num_wann="2..3 (every permutation), 2 and 6 (block<->interlace; 6 is the smallest size where the two directions differ)", R_sets="3..5 R-vectors", matrices="Ham, AA", derivatives="Xbar der 0..2", data="symbolic complex X(-R)=X(R)^+",
                         centres="symbolic", k="symbolic: one free phase per R-vector", gauge="U(k) = identity and U(k) an arbitrary symbolic complex matrix",
                         rotation="W = diag(e^ia,e^ib) Givens(t) diag(1,e^ic) with symbolic angles on a co-centred pair, num_wann 2..3"),
              thorough=dict(num_wann="2..4 (every permutation), 2, 4, 6 (block<->interlace)", R_sets="3..7 R-vectors", matrices="Ham, AA", derivatives="Xbar der 0..2", data="symbolic complex",
                            centres="symbolic", k="symbolic, 2 k-points", gauge="as quick", rotation="as quick, num_wann 2..4"))
EXPLANATION = ("A System_R with symbolic matrices and symbolic centres is reordered by the real System_R.reorder / spin_block2interlace (or rotated by a unitary built from unit-circle atoms "
               "on a pair of co-centred Wannier functions); the real Data_K_R.Xbar (R_to_k with the shift-dependent derivative factors) is evaluated before and after.  z3 decides "
               "Xbar'(name,der) == P^T Xbar(name,der) P (resp. W^+ Xbar W) for der<=2, that the Hamiltonian-gauge quantities U'^+ Xbar' U' with U' = P^T U (W^+ U) are unchanged for an "
               "arbitrary symbolic U(k), and that Xbar equals the harness's own Fourier sum with the factors i(R + t_b - t_a).")
ASSUMPTIONS = ["the rotated Wannier functions share their centre (statement of the property)", "U(k) of the transformed system is P^T U(k) (resp. W^+ U(k)): eigenvectors of the transformed H(k)"]
OUTSIDE = ["integrated calculator outputs and tabulations: they are functions of the Hamiltonian-gauge quantities U^+ Xbar U and of E(k), which are shown unchanged; the calculators themselves are "
           "covered by C04 and not re-run here", "numerical eigh (E_K, UU_K)", "matrices other than Ham / AA (all go through the same R_to_k path)", "sizes above the stated bounds"]
STUBS = ["grid stand-in with FFT=(1,1,1) for Data_K_R(k_list=...)", "UU_K put into the Data_K cache (identity or symbolic matrix; no eigh)"]

LAT = np.array([[1.0, 0, 0], [0.25, 1.5, 0], [0, 0.5, 2.0]])
MODS = [SR, RV, FF, UT, DKR, DK]
CART = dict(Ham=(), AA=(3,))
HERM = dict(Ham=False, AA=True)     # the `hermitian` flag Data_K_R.Xbar passes to R_to_k
RSETS = dict(A=[(0, 0, 0), (1, 0, 0), (-1, 0, 0)],
             B=[(0, 0, 0), (0, 1, 0), (0, -1, 0), (1, 0, 0), (-1, 0, 0)],
             E=[(0, 0, 0), (1, 1, 0), (-1, -1, 0), (0, 0, 1), (0, 0, -1), (1, 0, 0), (-1, 0, 0)])
GRID = SimpleNamespace(FFT=np.array([1, 1, 1]))


def mk_system(nb, iR, cred, mats):
    s = SR.System_R(silent=True)
    s.set_real_lattice(real_lattice=LAT)
    s.num_wann = nb
    s.wannier_centers_cart = cred.dot(LAT)
    s.rvec = RV.Rvectors(lattice=LAT, iRvec=np.array(iR), shifts_left_red=cred.copy())
    for key, X in mats.items():
        s.set_R_mat(key, X.copy())
    s.set_pointgroup()
    return s


def datak(system, k, UU=None):
    dk = DKR.Data_K_R(system, dK=None, grid=GRID, k_list=k)
    dk.__dict__["UU_K"] = np.eye(system.num_wann)[None].repeat(len(k), axis=0) if UU is None else UU
    return dk


def fourier_der(iR, X, k, cred, der, hermitian, xp):
    """harness's own Xbar: sum_R exp(2 pi i k.R) X_ab(R) prod_j i (R + t_b - t_a)_{d_j}   (cartesian), optionally the hermitian part in (a,b)"""
    nb = X.shape[1]
    cc = cred.dot(LAT)
    out = xp.zeros((len(k),) + X.shape[1:] + (3,) * der, dtype=complex)
    for ik, kk in enumerate(k):
        for r, x in zip(iR, X):
            ph = xp.exp(2j * np.pi * (kk @ np.array(r)))
            rc = np.array(r) @ LAT
            for a in range(nb):
                for b in range(nb):
                    v = rc + cc[b] - cc[a]
                    t = ph * x[a, b]
                    for j in range(der):
                        t = t[..., None] * (1j * v)
                    out[ik, a, b] = out[ik, a, b] + t
    return 0.5 * (out + xp.conj(out.swapaxes(1, 2))) if hermitian else out


def tl(iRvec):
    return [tuple(int(x) for x in r) for r in iRvec]


def rot(U, X, xp, ax=1):
    """U^+ X U on the band axes (ax, ax+1); U (nb,nb) or (nk,nb,nb) (then ax must be 1)"""
    X = xp.asarray(X)
    if U.ndim == 2:
        Y = xp.tensordot(xp.conj(U.T), xp.moveaxis(X, ax, 0), axes=(1, 0))          # (a', ..., b, ...)
        Y = xp.moveaxis(Y, 0, ax)
        Y = xp.tensordot(xp.moveaxis(Y, ax + 1, -1), U, axes=(-1, 0))
        return xp.moveaxis(Y, -1, ax + 1)
    return xp.stack([rot(U[i], X[i], xp, ax=0) for i in range(len(U))])


# ------------------------------------------------------------------------------------------------------------
def arrays_for(spec):
    nb, iR = spec["nb"], RSETS[spec["R"]]
    A = dict(c=symvec("c", (nb - 1 if spec["kind"] == "rotate" else nb, 3)), UU=symvec("U", (spec["nk"], nb, nb), real=False))
    for key in spec["keys"]:
        A["X_" + key] = hermR("X" + key, iR, nb, CART[key])
    if spec["kind"] == "rotate":
        A["angles"] = sarr([SymC.var(n) for n in ("wa", "wb", "wt", "wc")])
    return A


def perm_matrix(p):
    P = np.zeros((len(p), len(p)))
    for a, pa in enumerate(p):
        P[pa, a] = 1            # (P^T X P)[a,b] = X[p[a], p[b]]
    return P


def expected_mapping(spec):
    nb = spec["nb"]
    if spec["kind"] == "perm":
        return list(spec["perm"])
    nw2 = nb // 2
    if spec["kind"] == "block2interlace":        # new 2i <- old i (first block), new 2i+1 <- old i + nb/2
        return [(i // 2) + (i % 2) * nw2 for i in range(nb)]
    if spec["kind"] == "interlace2block":        # new i <- old 2i, new nb/2 + i <- old 2i+1
        return [2 * i for i in range(nw2)] + [2 * i + 1 for i in range(nw2)]
    raise ValueError(spec["kind"])


def common_checks(rec, spec, A, k, xp, ref_sys, new_sys, T, what):
    """Xbar of new_sys == T^+ Xbar(ref_sys) T for all names/der; Hamiltonian-gauge quantities with U' = T^+ U unchanged"""
    d0, d1 = datak(ref_sys, k), datak(new_sys, k)
    UU = A["UU"]
    UUn = xp.stack([xp.conj(T.T) @ UU[i] for i in range(len(UU))])
    h0, h1 = datak(ref_sys, k, UU), datak(new_sys, k, UUn)
    rec.eq(f"{what}: H'(k) == T^+ H(k) T", d1.HH_K, rot(T, d0.HH_K, xp), key=f"{what}: H(k) not covariant")
    for key in spec["keys"]:
        for der in range(spec["der"] + 1):
            rec.eq(f"{what}: Xbar'({key},{der}) == T^+ Xbar({key},{der}) T", d1.Xbar(key, der), rot(T, d0.Xbar(key, der), xp), key=f"{what}: Xbar(der={min(der, 1)}{'+' if der else ''}) not covariant")
            if der <= spec["hder"]:
                rec.eq(f"{what}: U'^+ Xbar'({key},{der}) U' == U^+ Xbar({key},{der}) U  (U' = T^+ U)", h1.Xbar(key, der), h0.Xbar(key, der),
                       key=f"{what}: Hamiltonian-gauge Xbar changes")
                rec.eq(f"{what}: U^+ Xbar U is what _rotate returns", h0.Xbar(key, der), rot(UU, d0.Xbar(key, der), xp), key="Data_K._rotate is not U^+ X U")
    return d0, d1


def ob_perm(rec, spec, A, k, xp):
    nb, iR = spec["nb"], RSETS[spec["R"]]
    mats = {key: A["X_" + key] for key in spec["keys"]}
    p = expected_mapping(spec)
    P = perm_matrix(p)
    ref = mk_system(nb, iR, A["c"], mats)
    S = mk_system(nb, iR, A["c"], mats)
    S.rvec.set_fft_R_to_k(NK=None, num_wann=nb, k_list=k)
    pre = S.rvec.R_to_k(S.get_R_mat("Ham").copy(), der=1, hermitian=False)      # fills cRvec_shifted & co on the system's own Rvectors
    _ = S.wannier_centers_red
    if spec["kind"] == "perm":
        S.reorder(list(p))
    elif spec["kind"] == "block2interlace":
        S.spin_block2interlace()
    else:
        S.spin_interlace2block()
    what = "reorder" if spec["kind"] == "perm" else spec["kind"]
    for key in spec["keys"]:
        rec.eq(f"{what}: {key}'(R)[a,b] == {key}(R)[p[a],p[b]]", S.get_R_mat(key), A["X_" + key][:, p][:, :, p], key=f"{what}: R-matrices not permuted on both band axes")
    rec.eq(f"{what}: centres'[a] == centres[p[a]]", S.wannier_centers_cart, A["c"].dot(LAT)[p], key=f"{what}: centres not permuted")
    rec.eq(f"{what}: left shifts permuted", S.rvec.shifts_left_red, A["c"][p], key=f"{what}: Rvectors left shifts not permuted")
    rec.eq(f"{what}: right shifts permuted", S.rvec.shifts_right_red, A["c"][p], key=f"{what}: Rvectors right shifts not permuted")
    rec.eq(f"{what}: cached reduced centres consistent", S.wannier_centers_red, S.wannier_centers_cart.dot(np.linalg.inv(LAT)), key=f"{what}: stale wannier_centers_red")
    rec.concrete(f"{what}: R-vectors, num_wann unchanged", tl(S.rvec.iRvec) == tl(iR) and S.num_wann == nb, key=f"{what}: changes R-vectors / num_wann")
    d0, d1 = common_checks(rec, spec, A, k, xp, ref, S, P, what)
    rec.eq(f"{what}: system.rvec.R_to_k(Ham, der=1) on the system's own Rvectors (caches dropped)", S.rvec.R_to_k(S.get_R_mat("Ham").copy(), der=1, hermitian=False), pre[:, p][:, :, p],
           key=f"{what}: stale Rvectors caches")
    if spec["kind"] == "perm":          # Rvectors.reorder on its own (System_R.reorder drops the caches a second time)
        rv = RV.Rvectors(lattice=LAT, iRvec=np.array(iR), shifts_left_red=A["c"].copy())
        cs = rv.cRvec_shifted
        rv.reorder(list(p))
        rec.eq("Rvectors.reorder: cRvec_shifted[R,a,b] == old[R,p[a],p[b]]", rv.cRvec_shifted, cs[:, p][:, :, p], key="Rvectors.reorder leaves stale caches")
    if spec.get("oracle"):
        for key in spec["keys"]:
            for der in range(spec["der"] + 1):
                rec.eq(f"Xbar({key},{der}) == sum_R e^(ikR) X_ab(R) prod i(R + t_b - t_a)", d0.Xbar(key, der), fourier_der(iR, A["X_" + key], k, A["c"], der, HERM[key], xp),
                       key="Xbar derivative factors are not i(R + t_b - t_a)")
    if spec["kind"] != "perm":          # there and back again
        (S.spin_interlace2block if spec["kind"] == "block2interlace" else S.spin_block2interlace)()
        for key in spec["keys"]:
            rec.eq(f"{what} then back: {key}(R) restored", S.get_R_mat(key), A["X_" + key], key="spin_block2interlace / spin_interlace2block are not inverse")
        rec.eq(f"{what} then back: shifts restored", S.rvec.shifts_left_red, A["c"], key="spin_block2interlace / spin_interlace2block are not inverse")


def ob_rotate(rec, spec, A, k, xp):
    nb, iR = spec["nb"], RSETS[spec["R"]]
    i0, i1 = spec["pair"]
    rows = [j if j < i1 else (i0 if j == i1 else j - 1) for j in range(nb)]      # the pair shares a centre
    cred = A["c"][rows]
    wa, wb, wt, wc = A["angles"]
    ph = lambda x: xp.exp(1j * x)
    W2 = xp.array([[ph(wa), 0], [0, ph(wb)]]) @ xp.array([[xp.cos(wt), -xp.sin(wt)], [xp.sin(wt), xp.cos(wt)]]) @ xp.array([[1, 0], [0, ph(wc)]])
    W = xp.zeros((nb, nb), dtype=complex) + np.eye(nb)
    for a, ia in enumerate((i0, i1)):
        for b, ib in enumerate((i0, i1)):
            W[ia, ib] = W2[a, b]
    rec.eq("W unitary", xp.conj(W.T) @ W, np.eye(nb), key="harness: W not unitary")
    mats = {key: A["X_" + key] for key in spec["keys"]}
    ref = mk_system(nb, iR, cred, mats)
    new = mk_system(nb, iR, cred, {key: rot(W, X, xp) for key, X in mats.items()})
    common_checks(rec, spec, A, k, xp, ref, new, W, "rotation of a co-centred pair")


KIND = dict(perm=ob_perm, block2interlace=ob_perm, interlace2block=ob_perm, rotate=ob_rotate)


def angle_of(env, x):
    x = SymC.of(x)
    if x.isconst():
        return float(x)
    return math.atan2(env.val(x.sin()), env.val(x.cos()))


def case_run(rec, spec):
    warnings.filterwarnings("ignore")
    shadow(MODS)
    A = arrays_for(spec)
    k = symvec("k", (spec["nk"], 3))

    def witness(env):
        arrs = {n: env.arr(a) for n, a in A.items() if n != "angles"}
        if "angles" in A:
            arrs["angles"] = dict(re=[angle_of(env, x) for x in A["angles"]], im=None)
        return dict(spec=spec, arrays=arrs)

    def body(rec):
        rec.witness = witness
        KIND[spec["kind"]](rec, spec, A, k, NpProxy())
    rec.explore(body, [])


def cases(tier, seed):
    q = tier == "quick"
    out = []
    nk = 1 if q else 2
    for nb in ((2, 3) if q else (2, 3, 4)):
        for ip, p in enumerate(itertools.permutations(range(nb))):
            R = ("A", "B", "E")[ip % (2 if q else 3)]
            keys = ["Ham", "AA"] if nb < 4 else ["Ham"]
            spec = dict(kind="perm", nb=nb, R=R, keys=keys, perm=list(p), der=2, hder=(1 if nb > 2 else 2) if not q else (0 if nb > 2 else 1), nk=nk, oracle=ip == 0)
            out.append(Case(f"reorder nb={nb} perm={list(p)} R={R}", case_run, dict(spec=spec), timeout=1500))
    for nb in ((2, 6) if q else (2, 4, 6)):
        for kind in ("block2interlace", "interlace2block"):
            spec = dict(kind=kind, nb=nb, R="A", keys=["Ham", "AA"] if nb < 4 else ["Ham"], der=2 if nb < 6 else 1, hder=1 if nb < 4 else 0, nk=nk)
            out.append(Case(f"{kind} nb={nb}", case_run, dict(spec=spec), timeout=1500))
    for nb, pair in ((2, (0, 1)), (3, (0, 2)), (3, (1, 2))) + (() if q else ((4, (1, 3)),)):
        spec = dict(kind="rotate", nb=nb, R="A" if nb > 2 else "B", keys=["Ham", "AA"] if nb < 4 else ["Ham"], pair=list(pair), der=2 if nb < 4 else 1, hder=0 if nb > 2 else 1, nk=1)
        out.append(Case(f"rotate nb={nb} pair={list(pair)}", case_run, dict(spec=spec), timeout=1500))
    return out


# ------------------------------------------------------------------------------------------------------------
class NumRec:
    """replay-side recorder: the same obligations evaluated on concrete doubles with the unshadowed real code"""

    def __init__(s):
        s.bad = []

    def eq(s, name, a, b, key=None, **kw):
        a, b = np.asarray(a, dtype=complex), np.asarray(b, dtype=complex)
        ok = (a.shape == b.shape or b.size == 1) and np.allclose(a, b, rtol=1e-9, atol=1e-9 * (1 + np.abs(b).max(initial=0)))
        if not ok:
            s.bad.append(name)

    def concrete(s, name, ok, detail="", key=None):
        if not ok:
            s.bad.append(name + " " + detail)

    def note(s, txt):
        pass


KREPLAY = np.array([[0.1234, -0.3217, 0.4561], [0.377, 0.291, -0.113]])


def replay(rec):
    import traceback
    from symx.harness import unarr, CompleteEnv
    w = rec["witness"]
    spec = w["spec"]
    A = {n: unarr(a) for n, a in w["arrays"].items()}
    full = arrays_for(spec)
    if all(np.abs(a).max(initial=0) == 0 for n, a in A.items() if n != "angles"):
        # a model of an exception path leaves all atoms free: take a generic point of the input space (hermitian structure kept)
        rng = np.random.default_rng(1)
        env = CompleteEnv()
        for n, a in full.items():
            for x in a.flat:
                for at in SymC.of(x).atoms():
                    env.setdefault(at, Fr(int(rng.integers(-8, 9)), 8))
        ang = A.get("angles")
        A = {n: np.asarray(env.val(a)) for n, a in full.items() if n != "angles"}
        if ang is not None:
            A["angles"] = np.where(ang == 0, [0.7, 0.4, 0.9, -0.3], ang)
    A = {n: (a.real if n in ("c", "angles") else a.astype(complex)) for n, a in A.items()}
    nr = NumRec()
    try:
        KIND[spec["kind"]](nr, spec, A, KREPLAY[:spec["nk"]], np)
    except Exception as e:
        tb = traceback.format_exc()
        if "wannierberri" in tb.split("in ob_")[-1]:
            return True, f"raises {type(e).__name__}: {e}"
        raise
    return bool(nr.bad), f"failed: {nr.bad[:4]}"
