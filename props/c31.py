"""C31 — k.p models: numerical and analytic derivatives agree (first two clauses)"""
import itertools, math, warnings, importlib
from types import SimpleNamespace
import numpy as np
from symx.core import *
from symx.core import z3
from symx.npproxy import NpProxy, shadow
from symx.harness import Case
import symx.harness  # noqa (puts the repo on sys.path)
import wannierberri.utility as UT, wannierberri.system.system_kp as SKP, wannierberri.data_K.data_K_k as DKK, wannierberri.data_K.data_K as DK
FD = importlib.import_module("wannierberri.system.__finite_differences")

PROPERTY = "C31"
FUNCTIONS = ["wannierberri.system.system_kp.SystemKP.__init__ (k_to_1BZ, k_ham_from_red, derHam/der2Ham/der3Ham)", "wannierberri.system.__finite_differences.find_shells/check_B1/Derivative3D.__call__",
             "wannierberri.data_K.data_K_k.Data_K_k.HH_K/Xbar", "wannierberri.data_K.data_K.Data_K._rotate"]
BOUNDS = dict(quick=dict(num_wann="1..2", Hamiltonian="polynomial of total degree <= 3 in k (all monomials) with symbolic Hermitian matrix coefficients in [-1,1]",
                         lattices="kmax=2 (cubic), tetragonal, hexagonal and one triclinic recip_lattice (triclinic: derivatives up to second order)", k="symbolic reduced k in [-0.49,0.49]^3; kp-face cases: one component anywhere in [-1/2,1/2), all three derivatives, analytic derHam / der2Ham supplied or not", conventions="cartesian and reduced k-vector; derivatives all numerical, or analytic derHam / der2Ham / der3Ham supplied up to order 1, 2, 3 (both conventions, all four non-identity reciprocal lattices)",
                         finite_diff_dk="1e-4 (default), 1e-3", tolerance="1e-8 absolute (coefficients and k bounded as stated)"),
              thorough=dict(num_wann="1..3 (3 also with a cubic Hamiltonian)", Hamiltonian="as quick",
                            lattices="cubic kmax = 0.35, 2, 5; tetragonal, orthorhombic, hexagonal, monoclinic, rhombohedral, triclinic reciprocal cells; fcc- and bcc-type reciprocal cells; a triclinic cell "
                                     "given by real_lattice (stencils of 6, 8 and 12 points)",
                            k="interior: symbolic reduced k in [-0.49,0.49]^3 (|k_i| <= 0.45 for dk=1e-2), up to 2 k-points through Data_K_k; faces, edges and corners: one, two or all three "
                              "components anywhere in [-1/2,1/2), all three derivative orders", conventions="both; all numerical, or analytic derivatives supplied up to order 1, 2, 3",
                            finite_diff_dk="1e-5, 1e-4, 1e-3, 1e-2", tolerance="1e-8"))
EXPLANATION = ("SystemKP is given only a Hamiltonian that is a polynomial in k with symbolic Hermitian coefficient matrices; the real find_shells / Derivative3D chain produces derHam, der2Ham, "
               "der3Ham (in the kp-supplied cases the user also supplies the analytic derivatives up to order 1, 2 or 3 and only the higher ones are numerical), which are evaluated at a symbolic k (the box folding `% 1` is resolved by the path explorer).  z3 decides (tolerance shape, double stencil weights) that they equal the "
               "analytic cartesian derivatives - exactly the analytic ones for every derivative the stencil differentiates a polynomial of degree <= 2, plus the explicit O(dk^2) stencil term "
               "(1/6) sum_b w_b b_a (b.grad)^3 H for the first derivative of a cubic - and (exact identity) that all three are Hermitian; the same through Data_K_k.Xbar.")
ASSUMPTIONS = ["interior cases: reduced k in [-0.49,0.49]^3 (keeps the number of folding branches at one); the kp-face cases drop this for one component (whole box [-1/2,1/2), "
               "derivatives 1..3) so that the layers next to the faces of the box are covered", "coefficient matrices Hermitian, entries in [-1,1]"]
OUTSIDE = ["third clause: calculator-level agreement between numerical and analytic derivatives (needs eigen-decomposition; an accuracy statement) - not applicable to the technique",
           "non-polynomial (merely smooth) Hamiltonians: only the Taylor terms up to order 3 are covered", "IEEE rounding of the stencil sums (cancellation error ~ eps/dk per derivative order)",
           "lattices other than the listed ones (thirteen cells in the thorough tier)"]
STUBS = ["grid stand-in with FFT=(1,1,1) for Data_K_k(k_list=...)", "UU_K = identity put into the Data_K cache (no eigh)"]

GRID = SimpleNamespace(FFT=np.array([1, 1, 1]))
LATT = dict(cubic=dict(kmax=2.0),
            tetra=dict(kmax=None, recip_lattice=np.array([[1.0, 0, 0], [0, 1.0, 0], [0, 0, 1.5]])),
            hex=dict(kmax=None, recip_lattice=np.array([[1.0, 0, 0], [-0.5, math.sqrt(3) / 2, 0], [0, 0, 1.25]])),
            tric=dict(kmax=None, recip_lattice=np.array([[1.0, 0.125, 0], [-0.25, 1.25, 0.25], [0.125, 0, 1.5]])),
            # thorough tier
            small=dict(kmax=0.35), big=dict(kmax=5.0),
            ortho=dict(kmax=None, recip_lattice=np.diag([0.7, 1.1, 1.6])),
            mono=dict(kmax=None, recip_lattice=np.array([[1.0, 0, 0], [0.3, 1.2, 0], [0, 0, 0.9]])),
            fccrec=dict(kmax=None, recip_lattice=0.75 * np.array([[-1.0, 1, 1], [1, -1, 1], [1, 1, -1]])),        # 8-point stencil
            bccrec=dict(kmax=None, recip_lattice=0.8 * np.array([[0.0, 1, 1], [1, 0, 1], [1, 1, 0]])),            # 12-point stencil
            rhomb=dict(kmax=None, recip_lattice=np.array([[1.0, 0.2, 0.2], [0.2, 1.0, 0.2], [0.2, 0.2, 1.0]])),   # 12-point stencil
            realtric=dict(kmax=None, real_lattice=np.array([[3.0, 0.5, 0], [-0.25, 4.0, 0.75], [0.5, 0, 5.0]])))     # cell given by its real-space lattice
KB = 0.49


def monomials(deg):
    return [m for m in itertools.product(range(deg + 1), repeat=3) if sum(m) <= deg]


def arrays_for(spec):
    nb = spec["nb"]
    A = {"C" + "".join(map(str, m)): herm("C" + "".join(map(str, m)), nb, (), -1, 1) for m in monomials(spec["deg"])}
    kb = KB if spec["dk"] <= 1e-3 else 0.45          # interior cases: stay clear of the faces by more than the reach 3*dk*max|b| of the nested stencils
    A["k"] = symvec("k", (spec["nk"], 3), lo=-kb, hi=kb)
    if spec.get("face"):            # one component anywhere in the box [-1/2, 1/2), including the layers next to its faces
        for ax in spec.get("face_axes", [spec.get("face_axis", 0)]):          # one component: faces; two: edges; three: the whole box including its corners
            A["k"][0, ax] = SymC.var(f"kface{ax}" if "face_axes" in spec else "kface", -0.5, 0.5 - 2.0 ** -30)
    return A


def poly_eval(C, q):
    """sum_m C_m q^m ; C: {m: matrix}"""
    tot = 0
    for m, c in C.items():
        t = 1
        for i in range(3):
            for _ in range(m[i]):
                t = t * q[i]
        tot = tot + c * t
    return tot


def poly_diff(C, i):
    out = {}
    for m, c in C.items():
        if m[i]:
            mm = tuple(x - (j == i) for j, x in enumerate(m))
            out[mm] = out.get(mm, 0) + c * m[i]
    return out


def analytic(C, q, J, order, nb):
    """cartesian derivative tensor of the given order: sum_i J[a,i] d/dq_i ..."""
    if order == 0:
        return poly_eval(C, q) if C else np.zeros((nb, nb))
    parts = [analytic(poly_diff(C, i), q, J, order - 1, nb) for i in range(3)]          # parts[i][..., rest] = d_i (rest)
    out = np.empty(np.shape(parts[0]) + (3,), dtype=object)
    for a in range(3):
        out[..., a] = sum(parts[i] * J[a, i] for i in range(3))
    return out          # mixed partial derivatives commute: the order of the cartesian indices is immaterial


def obligations(rec, spec, A, xp):
    nb, deg, cart = spec["nb"], spec["deg"], spec["cartesian"]
    C = {m: A["C" + "".join(map(str, m))] for m in monomials(deg)}
    Ham = lambda k: poly_eval(C, k)
    lat = LATT[spec["lattice"]]
    if lat["kmax"] is not None:
        G0 = np.eye(3) * 2 * lat["kmax"]
    elif "recip_lattice" in lat:
        G0 = lat["recip_lattice"]
    else:
        G0 = UT.real_recip_lattice(real_lattice=lat["real_lattice"])[1]
    J = np.eye(3) if cart else np.linalg.inv(G0)    # d k_ham_i / d k_cart_a
    sup = spec.get("supplied", 0)                   # the user supplies the analytic derivatives up to this order, the rest is numerical
    user = {name: (lambda kh, o=o: analytic(C, kh, J, o, nb)) for o, name in ((1, "derHam"), (2, "der2Ham"), (3, "der3Ham")) if o <= sup}
    system = SKP.SystemKP(Ham, k_vector_cartesian=cart, finite_diff_dk=spec["dk"], **user, **lat)
    G = np.asarray(system.recip_lattice, dtype=float)
    Ginv = np.linalg.inv(G)
    # --- concrete facts about the stencil (all doubles) --------------------------------------------------
    wk, bred, bcart = np.asarray(system.wk, dtype=float), np.asarray(system.bk_red, dtype=float), np.asarray(system.bk_cart, dtype=float)
    bq = bcart if cart else bred                    # shift of the Hamiltonian's own argument
    M = np.einsum("b,ba,bi->ai", wk, bcart, bq)
    rec.concrete("stencil satisfies (B1): sum_b w_b b_a b_i == delta (to 1e-9)", bool(np.abs(M - J).max() < 1e-9), detail=f"max dev {np.abs(M - J).max():.2e}",
                 key="find_shells weights do not satisfy sum_b w b b = 1")
    rec.concrete("stencil is inversion symmetric", bool(np.abs(np.einsum("b,ba->a", wk, bcart)).max() < 1e-9 * np.abs(wk).max() * np.abs(bcart).max()), key="find_shells stencil not symmetric")
    T4 = np.einsum("b,ba,bi,bj,bl->aijl", wk, bcart, bq, bq, bq) / 6
    h = spec["dk"] * np.abs(G).sum(axis=1).max()
    rec.concrete("stencil error tensor is O(dk^2): sum|T| <= 50 (dk |G|)^2", bool(np.abs(T4).sum(axis=(1, 2, 3)).max() <= 50 * h * h * (1 if cart else np.abs(Ginv).max() ** 3 * 27)),
                 detail=f"{np.abs(T4).sum(axis=(1, 2, 3)).max():.3e} vs {50 * h * h:.3e}", key="finite-difference error term not O(dk^2)")
    ders = {1: system.derHam, 2: system.der2Ham, 3: system.der3Ham}
    tol = 1e-8
    X = {}
    for ik, kred in enumerate(A["k"]):
        q = kred @ G if cart else kred
        for order in range(1, spec.get("orders", 3) + 1):
            got = ders[order](kred)
            X.setdefault(order, []).append(got)
            want = analytic(C, q, J, order, nb)
            if order == 1 and deg >= 3 and sup == 0:
                d3 = analytic(C, q, np.eye(3), 3, nb)              # plain d^3/dq_i dq_j dq_l
                want = want + np.einsum("aijl,mnijl->mna", T4, d3)
            rec.concrete(f"shape of der{order}Ham", np.shape(got) == (nb, nb) + (3,) * order, key="derHam shape")
            rec.close(f"der{order}Ham(k) == analytic" + (" + (1/6) sum_b w_b b_a (b.grad)^3 H  [O(dk^2)]" if order == 1 and deg >= 3 and sup == 0 else ""), got, want, tol, bound=1.0,
                      key=f"der{order}Ham differs from the analytic derivative" + (" for k anywhere in the box (layer next to a face included)" if spec.get("face") else ""))
            rec.eq(f"der{order}Ham(k) Hermitian", got, xp.conj(np.swapaxes(got, 0, 1)), key=f"der{order}Ham not Hermitian")
            if order > 1:
                rec.close(f"der{order}Ham(k) symmetric in the last two cartesian indices", got, np.swapaxes(got, -1, -2), tol, bound=1.0, key=f"der{order}Ham not symmetric in the derivative indices")
    # --- the same through Data_K_k ---------------------------------------------------------------------------
    dk = DKK.Data_K_k(system, dK=None, grid=GRID, k_list=A["k"])
    dk.__dict__["UU_K"] = np.eye(nb)[None].repeat(len(A["k"]), axis=0)
    rec.eq("Data_K_k.HH_K == H(k)", dk.HH_K, xp.stack([Ham((kred @ G) if cart else kred) for kred in A["k"]]), key="Data_K_k.HH_K is not the model Hamiltonian")
    rec.eq("Data_K_k.HH_K Hermitian", dk.HH_K, xp.conj(np.swapaxes(dk.HH_K, 1, 2)), key="Data_K_k.HH_K not Hermitian")
    for order in range(1, min(spec["dkorders"], spec.get("orders", 3)) + 1):
        rec.eq(f"Data_K_k.Xbar(Ham,{order}) == der{order}Ham at the k-points", dk.Xbar("Ham", order), xp.stack(X[order]), key="Data_K_k.Xbar picks the wrong derivative")
    try:
        dk.Xbar("AA", 1)
        ok = False
    except ValueError:
        ok = True
    rec.concrete("Data_K_k.Xbar of a non-Hamiltonian quantity is refused (ValueError)", ok, key="Data_K_k.Xbar accepts a quantity a k.p model does not define")


def case_run(rec, spec):
    warnings.filterwarnings("ignore")
    A = arrays_for(spec)

    def body(rec):
        rec.witness = lambda env: dict(spec=spec, arrays={n: env.arr(a) for n, a in A.items()})
        obligations(rec, spec, A, NpProxy())
    rec.explore(body, [])


def cases(tier, seed):
    q = tier == "quick"
    if q:
        combos = [("cubic", True, 3, 2, 1e-4), ("cubic", False, 2, 2, 1e-4), ("cubic", False, 3, 1, 1e-4), ("cubic", True, 2, 1, 1e-4),
                  ("tetra", True, 3, 1, 1e-4), ("tetra", False, 2, 1, 1e-4), ("hex", True, 2, 1, 1e-4), ("hex", False, 3, 1, 1e-4),
                  ("cubic", True, 3, 1, 1e-3), ("hex", False, 2, 1, 1e-3), ("tric", True, 2, 1, 1e-4)]
    else:
        combos = []
        for lattice in ("cubic", "tetra", "hex", "tric"):
            for cart in (True, False):
                for deg in (2, 3):
                    for nb in (1, 2, 3):
                        if (nb == 3 and (deg == 3 or lattice != "cubic")) or (nb == 2 and deg == 3 and lattice == "hex" and not cart) or (nb == 2 and lattice == "tric" and (deg == 3 or not cart)):
                            continue
                        combos.append((lattice, cart, deg, nb, 1e-4))
        combos += [("cubic", True, 3, 1, 1e-3), ("hex", False, 2, 1, 1e-3), ("cubic", True, 3, 1, 1e-2), ("tric", True, 3, 1, 1e-3)]
    out = []
    faces = [("cubic", True, 3, 0, 0, 1e-4), ("hex", False, 2, 0, 1, 1e-4), ("cubic", True, 3, 1, 0, 1e-3), ("tetra", True, 3, 2, 2, 1e-4)]
    if not q:
        faces += [("tetra", False, 3, 0, 2, 1e-3), ("hex", True, 3, 1, 0, 1e-4), ("cubic", False, 3, 0, 1, 1e-2), ("tric", True, 2, 1, 2, 1e-4)]
    # analytic derivatives supplied by the user up to order `sup` (the higher ones numerical), in both k-vector conventions, on cells whose reciprocal lattice is not the identity
    if q:
        supplied = [("cubic", False, 3, 2, 1), ("hex", False, 3, 1, 1), ("tetra", False, 3, 1, 2), ("tric", False, 2, 1, 3), ("hex", True, 3, 1, 2), ("cubic", True, 3, 2, 3), ("tetra", True, 2, 1, 1)]
        faces += [("hex", False, 3, 1, 0, 1e-4), ("tetra", False, 3, 2, 1, 1e-3)]
    else:
        supplied = [(lattice, cart, 3, nb, sup) for lattice in ("cubic", "tetra", "hex", "tric") for cart in (True, False) for sup in (1, 2, 3) for nb in (1, 2)
                    if not (nb == 2 and lattice in ("hex", "tric") and sup == 1)]
        faces += [("hex", False, 3, 1, 0, 1e-4), ("tetra", False, 3, 2, 1, 1e-3), ("tric", False, 3, 3, 2, 1e-4), ("cubic", False, 3, 1, 2, 1e-3)]
    if not q:
        # edges and corners of the box (two / three components anywhere in [-1/2,1/2)), all derivative orders, with and without supplied analytic derivatives
        for lattice, cart, deg, nb, sup, axes, dk in (("cubic", True, 3, 1, 0, [0, 1], 1e-4), ("cubic", False, 3, 1, 0, [0, 1, 2], 1e-3), ("hex", True, 3, 1, 0, [0, 1, 2], 1e-4), ("tric", False, 2, 1, 0, [1, 2], 1e-4),
                                                      ("fccrec", True, 3, 1, 1, [0, 1, 2], 1e-4), ("mono", False, 3, 1, 2, [0, 2], 1e-4), ("bccrec", False, 2, 1, 0, [0, 1, 2], 1e-4), ("big", True, 3, 2, 0, [0, 1, 2], 1e-4),
                                                      ("small", False, 3, 2, 1, [0, 1, 2], 1e-2), ("rhomb", True, 2, 1, 1, [0, 1, 2], 1e-5), ("realtric", True, 3, 1, 0, [0, 1, 2], 1e-4), ("ortho", False, 3, 2, 3, [0, 1, 2], 1e-4)):
            spec = dict(lattice=lattice, cartesian=cart, deg=deg, nb=nb, dk=dk, nk=1, dkorders=3, orders=3, face=True, face_axes=axes, supplied=sup)
            out.append(Case(f"kp-{'corner' if len(axes) == 3 else 'edge'} {lattice} {'cartesian' if cart else 'reduced'} deg={deg} nb={nb} dk={dk} supplied up to {sup}: k_{axes} anywhere in [-1/2,1/2), derivatives 1..3",
                            case_run, dict(spec=spec), timeout=3000))
        # more cells: kmax != 0.5 small / large, orthorhombic, monoclinic, fcc / bcc reciprocal cells (8- and 12-point stencils), rhombohedral, cell given by real_lattice; nb = 3 with a cubic Hamiltonian
        for lattice, cart, deg, nb, dk in (("small", True, 3, 2, 1e-4), ("small", False, 3, 1, 1e-5), ("big", True, 3, 1, 1e-4), ("big", False, 2, 2, 1e-3), ("ortho", True, 3, 2, 1e-4), ("ortho", False, 3, 1, 1e-4),
                                           ("mono", True, 3, 1, 1e-4), ("mono", False, 2, 2, 1e-4), ("fccrec", True, 3, 1, 1e-4), ("fccrec", False, 2, 2, 1e-4), ("bccrec", True, 2, 1, 1e-4), ("bccrec", False, 3, 1, 1e-4),
                                           ("rhomb", True, 3, 1, 1e-4), ("rhomb", False, 2, 1, 1e-5), ("realtric", True, 3, 1, 1e-4), ("realtric", False, 2, 2, 1e-4), ("cubic", True, 3, 3, 1e-4), ("cubic", False, 3, 3, 1e-4),
                                           ("tetra", True, 3, 3, 1e-4), ("cubic", True, 3, 2, 1e-5), ("hex", True, 3, 2, 1e-2),
                                           ("bccrec", True, 3, 2, 1e-4), ("rhomb", False, 3, 2, 1e-4), ("tric", False, 3, 2, 1e-4), ("hex", False, 3, 2, 1e-4), ("hex", True, 3, 3, 1e-4), ("fccrec", False, 3, 3, 1e-4),
                                           ("ortho", True, 3, 3, 1e-3), ("mono", False, 3, 2, 1e-4), ("realtric", True, 3, 2, 1e-4), ("bccrec", False, 2, 3, 1e-4), ("tric", True, 2, 3, 1e-4)):
            spec = dict(lattice=lattice, cartesian=cart, deg=deg, nb=nb, dk=dk, nk=1, dkorders=2 if nb > 1 else 3, orders=3 if (nb < 3 or lattice in ("cubic", "ortho", "hex", "fccrec")) else 2)
            out.append(Case(f"kp {lattice} {'cartesian' if cart else 'reduced'} deg={deg} nb={nb} dk={dk} (more cells)", case_run, dict(spec=spec), timeout=3000))
        for lattice, cart, nb, sup in (("small", False, 1, 1), ("big", False, 2, 1), ("ortho", False, 1, 2), ("mono", True, 1, 1), ("fccrec", False, 1, 1), ("bccrec", False, 1, 2), ("rhomb", False, 1, 3), ("realtric", False, 1, 1),
                                       ("realtric", True, 2, 2), ("cubic", False, 3, 1), ("cubic", True, 3, 2)):
            spec = dict(lattice=lattice, cartesian=cart, deg=3, nb=nb, dk=1e-4, nk=1, dkorders=3, orders=3, supplied=sup)
            out.append(Case(f"kp-supplied {lattice} {'cartesian' if cart else 'reduced'} deg=3 nb={nb}: analytic derivatives supplied up to order {sup} (more cells)", case_run, dict(spec=spec), timeout=3000))
    for lattice, cart, deg, sup, axis, dk in faces:
        spec = dict(lattice=lattice, cartesian=cart, deg=deg, nb=1, dk=dk, nk=1, dkorders=3, orders=3, face=True, face_axis=axis, supplied=sup)
        out.append(Case(f"kp-face {lattice} {'cartesian' if cart else 'reduced'} deg={deg} nb=1 dk={dk} analytic derivatives supplied up to order {sup}: k_{axis} anywhere in [-1/2,1/2), "
                        "derivatives 1..3", case_run, dict(spec=spec), timeout=1500))
    for lattice, cart, deg, nb, sup in supplied:
        spec = dict(lattice=lattice, cartesian=cart, deg=deg, nb=nb, dk=1e-4, nk=1, dkorders=3, orders=3, supplied=sup)
        out.append(Case(f"kp-supplied {lattice} {'cartesian' if cart else 'reduced'} deg={deg} nb={nb}: analytic derivatives supplied up to order {sup}, higher ones numerical", case_run,
                        dict(spec=spec), timeout=3000))
    for lattice, cart, deg, nb, dk in combos:
        spec = dict(lattice=lattice, cartesian=cart, deg=deg, nb=nb, dk=dk, nk=1 if (q or nb > 1) else 2, dkorders=2 if nb > 1 else 3, orders=2 if (lattice == "tric" and (q or nb > 1)) else 3)
        out.append(Case(f"kp {lattice} {'cartesian' if cart else 'reduced'} deg={deg} nb={nb} dk={dk}", case_run, dict(spec=spec), timeout=3000))
    return out


# ------------------------------------------------------------------------------------------------------------
class NumRec:
    """replay-side recorder: the same obligations on concrete doubles with the real code.  Tolerances allow for the IEEE cancellation error of the stencil sums (~ eps/dk per order)."""

    def __init__(s, dk):
        s.bad = []
        s.dk = dk

    def _cmp(s, name, a, b, tol):
        a, b = np.asarray(a, dtype=complex), np.asarray(b, dtype=complex)
        if not ((a.shape == b.shape or b.size == 1) and np.abs(a - b).max(initial=0) <= tol * (1 + np.abs(b).max(initial=0))):
            s.bad.append(name)

    def _tol(s, name):
        order = next((o for o in (3, 2, 1) if f"der{o}Ham" in name or f"Ham,{o})" in name), 0)
        return {0: 1e-11, 1: 1e-7, 2: 1e-5, 3: 1e-2}[order]

    def eq(s, name, a, b, key=None, **kw):
        s._cmp(name, a, b, s._tol(name))

    def close(s, name, a, b, tol, bound=1.0, key=None):
        s._cmp(name, a, b, s._tol(name))

    def concrete(s, name, ok, detail="", key=None):
        if not ok:
            s.bad.append(name + " " + detail)

    def note(s, txt):
        pass


def replay(rec):
    import traceback
    from symx.harness import unarr, CompleteEnv
    w = rec["witness"]
    spec = w["spec"]
    A = {n: unarr(a) for n, a in w["arrays"].items()}
    if all(np.abs(a).max(initial=0) == 0 for n, a in A.items()):
        # a model of an exception path leaves all atoms free: take a generic point of the input space (hermitian structure kept)
        rng = np.random.default_rng(1)
        env = CompleteEnv()
        full = arrays_for(spec)
        for n, a in full.items():
            for x in a.flat:
                for at in SymC.of(x).atoms():
                    env.setdefault(at, Fr(int(rng.integers(-3, 4)), 8))
        A = {n: np.asarray(env.val(a)) for n, a in full.items()}
    A = {n: (a.real if n == "k" else a.astype(complex)) for n, a in A.items()}
    nr = NumRec(spec["dk"])
    try:
        obligations(nr, spec, A, np)
    except Exception as e:
        tb = traceback.format_exc()
        if "wannierberri" in tb.split("in obligations")[-1]:
            return True, f"raises {type(e).__name__}: {e}"
        raise
    return bool(nr.bad), f"k={A['k'].tolist()} failed: {nr.bad[:4]}"
