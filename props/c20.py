"""C20 — real-space symmetrisation yields a symmetric, Hermitian model (reduced scope: concrete small structures, all matrix data)"""
import io, contextlib, builtins, warnings
import numpy as np
from symx.core import *
from symx.core import z3
from symx.npproxy import NpProxy, shadow
from symx.harness import Case, unarr
import symx.harness  # noqa
with contextlib.redirect_stdout(io.StringIO()):
    import wannierberri.system.system_R as SR, wannierberri.symmetry.sym_wann_2 as SW, wannierberri.symmetry.sawf as SAWF
    import wannierberri.fourier.rvectors as RV
    from wannierberri.system.system_R import System_R

PROPERTY = "C20"
FUNCTIONS = ["System_R.symmetrize2(use_symmetries_index=subgroup)", "System_R.symmetrize / symmetrize2 / reorder / set_pointgroup", "SymWann.__init__/symmetrize/find_irreducible_Rab/average_XX_block/_rotate_XX_L_backwards/get_atom_R_map",
             "sym_wann_2._rotate_matrix/_matrix_to_dict", "SymmetrizerSAWF.from_spacegroup_and_projections/symmetrize_WCC (concrete)", "Projection / Dwann / irrep SpaceGroup (concrete)",
             "Rvectors (k-list transform used for the spectrum checks)"]
BOUNDS = dict(quick=dict(structures="simple cubic s+p on one site (O_h x TR, 4 WF, 7 R-vectors); CsCl-type cubic cell with s on two different sites (O_h, 2 WF, 7 R-vectors); "
                         "tetragonal cell, one site, s+pz (D_4h, 7 R-vectors); diamond-type fcc cell, s on the two equivalent sites (O_h, one block with two points); tetragonal cell with three atoms of one species on two Wyckoff orbits listed interleaved, symmetrize(reorder_back=True) (3 WF: non-trivial regrouping and restoring of the order)", matrices="Ham (all structures), AA (structure 1)", data="symbolic complex R-space matrices with X(-R)=X(R)^dagger",
                         kpoints="2 generic rational k per structure, every operation of the resulting point group", spectrum="power sums tr H(k)^n, n=1..min(nb,3)"),
              thorough=dict(structures="as quick + bcc with a magnetic moment along z, spinor s orbital (2 WF, SS matrix); zincblende-type fcc cell, s on both sites (T_d x TR)",
                            matrices="Ham on every structure; Ham+AA on simple cubic, CsCl, tetragonal, diamond, zincblende; Ham+SS on the magnetic bcc", data="symbolic", kpoints="2..3 per structure", spectrum="n=1..min(nb,3)", subgroups="identity alone (CsCl, diamond) and an index-2 subgroup (tetragonal, simple cubic, zincblende) through use_symmetries_index"))
EXPLANATION = ("The real System_R.symmetrize (space group by irrep/spglib and projections run concretely) is executed on symbolic Hermitian real-space matrices. z3 decides, for all "
               "matrix data: Hermiticity X(-R)=X(R)^dagger of the result, idempotence of a second symmetrisation (modulo exactly-zero padding of the R-set), equality of the spectrum at "
               "g.k and k through the power sums tr H(k)^n (tolerance 1e-9, |data|<=1), and for AA the symmetry of the k-resolved trace; centre mapping, equality of the R-vector shifts with the Wannier centres and the restored order under reorder_back are concrete checks on the structural (data-independent) output.")
ASSUMPTIONS = ["input matrices Hermitian, X(-R)=X(R)^dagger (the API's documented input)", "no block of the input is below the sparsity cutoff 1e-10 of _matrix_to_dict (generic data; "
               "dropping such a block changes the result by <=1e-10)", "|data| <= 1 for tolerance obligations", "structures and projections are the enumerated consistent ones"]
OUTSIDE = ["'all space groups reachable / all projection sets': structures are enumerated (3 quick, 5 thorough), not quantified", "Berry-curvature covariance through the eigen-decomposition "
           "(the Wannier-gauge statement tr-invariants of H and the AA trace are decided instead)", "spglib / irrep internals", "numerical eigenvalues"]
STUBS = ["abs() in sym_wann_2 on symbolic blocks: structural 'non-zero' test instead of |X|>cutoff (assumption above)"]
TOL = 1e-9


class Mag:
    def __init__(s, X):
        s.X = np.asarray(X, dtype=object)

    def __gt__(s, c):
        if c < 0:
            return np.ones(s.X.shape, dtype=bool)      # |x| > negative cutoff: always (the default cutoff of symmetrize2 is -1)
        return np.array([not SymC.of(v).iszero() for v in s.X.flat], dtype=bool).reshape(s.X.shape)


def sym_abs(x):
    if isinstance(x, np.ndarray) and x.dtype == object:
        return Mag(x)
    return builtins.abs(x)


def setup():
    shadow([SR, SW, SAWF, RV])
    SW.abs = sym_abs


def star(n):
    return [(i, j, k) for i in range(-n, n + 1) for j in range(-n, n + 1) for k in range(-n, n + 1) if abs(i) + abs(j) + abs(k) <= n]


STRUCT = dict(
    sc_sp=dict(lattice=np.eye(3), positions=[[0, 0, 0]], names=['X'], proj=['X:s', 'X:p'], nw=4, iR=star(1), soc=False, magmom=None,
               centres=[[0, 0, 0]] * 4),
    cscl_ss=dict(lattice=np.eye(3), positions=[[0, 0, 0], [.5, .5, .5]], names=['A', 'B'], proj=['A:s', 'B:s'], nw=2, iR=star(1), soc=False, magmom=None,
                 centres=[[0, 0, 0], [.5, .5, .5]]),
    tet_spz=dict(lattice=np.diag([1., 1., 1.4]), positions=[[0, 0, 0]], names=['X'], proj=['X:s', 'X:pz'], nw=2, iR=star(1), soc=False, magmom=None,
                 centres=[[0, 0, 0]] * 2),
    bcc_mag=dict(lattice=np.array([[-.5, .5, .5], [.5, -.5, .5], [.5, .5, -.5]]), positions=[[0, 0, 0]], names=['Fe'], proj=['Fe:s'], nw=2, iR=star(1), soc=True,
                 magmom=[[0, 0, 1.]], centres=[[0, 0, 0]] * 2),
    diamond_ss=dict(lattice=np.array([[0, .5, .5], [.5, 0, .5], [.5, .5, 0]]), positions=[[0, 0, 0], [.25, .25, .25]], names=['C', 'C'], proj=['C:s'], nw=2, iR=star(1),
                    soc=False, magmom=None, centres=[[0, 0, 0], [.25, .25, .25]]),
    # three atoms with one label on two Wyckoff orbits, listed interleaved: symmetrize() has to regroup the Wannier functions and, with reorder_back=True, to restore the order
    tet_3x=dict(lattice=np.diag([1., 1., 1.3]), positions=[[.5, 0, 0], [0, 0, 0], [0, .5, 0]], names=['X', 'X', 'X'], proj=['X:s'], nw=3, iR=star(1), soc=False, magmom=None,
                centres=[[.5, 0, 0], [0, 0, 0], [0, .5, 0]], reorder_back=True),
    zb_ss=dict(lattice=np.array([[0, .5, .5], [.5, 0, .5], [.5, .5, 0]]), positions=[[0, 0, 0], [.25, .25, .25]], names=['Ga', 'As'], proj=['Ga:s', 'As:s'], nw=2, iR=star(1),
               soc=False, magmom=None, centres=[[0, 0, 0], [.25, .25, .25]]),
)
KPTS = [np.array([0.1, 0.23, 0.37]), np.array([0.31, -0.12, 0.05]), np.array([0.25, 0.25, 0.4])]


def build(st, mats, data):
    s = System_R(periodic=(True, True, True))
    s.real_lattice = np.array(st["lattice"], dtype=float)
    s.num_wann = st["nw"]
    s.spinor = st["soc"]
    cen = np.array(st["centres"], dtype=float)
    s.rvec = RV.Rvectors(lattice=s.real_lattice, iRvec=np.array(st["iR"]), shifts_left_red=cen)
    s.set_wannier_centers(wannier_centers_red=cen)
    for k in mats:
        s.set_R_mat(k, data[k])
    return s


def sym_data(st, mats):
    data = {}
    if "Ham" in mats:
        data["Ham"] = hermR("H", st["iR"], st["nw"], lo=-1, hi=1)
    if "AA" in mats:
        data["AA"] = hermR("A", st["iR"], st["nw"], (3,), lo=-1, hi=1)
    if "SS" in mats:
        data["SS"] = hermR("S", st["iR"], st["nw"], (3,), lo=-1, hi=1)
    return data


def do_sym(s, st):
    with contextlib.redirect_stdout(io.StringIO()), warnings.catch_warnings():
        warnings.simplefilter("ignore")
        s._symmetrizer = s.symmetrize(proj=list(st["proj"]), positions=np.array(st["positions"], dtype=float), atom_name=list(st["names"]), soc=st["soc"],
                                      magmom=None if st["magmom"] is None else np.array(st["magmom"]), silent=True,
                                      **(dict(reorder_back=True) if st.get("reorder_back") else {}))
        if s._symmetrizer is None:      # symmetrize(reorder_back=True) returns None after a non-trivial regrouping: take the space group from a run without it
            st0 = dict(st, reorder_back=False)
            nR = len(st["iR"])
            z = {"Ham": np.zeros((nR, st["nw"], st["nw"]), dtype=complex)}
            s._symmetrizer = do_sym(build(st0, ["Ham"], z), st0)._symmetrizer
    return s


def centres_mapped(s):
    """every space-group operation (rotation + translation, reduced coordinates) maps every Wannier centre onto a Wannier centre (mod lattice)"""
    cen = np.asarray(s.wannier_centers_red, dtype=float)
    for op in s._symmetrizer.spacegroup.symmetries:
        for c in cen:
            img = np.asarray(op.rotation, dtype=float) @ c + np.asarray(op.translation, dtype=float)
            d = cen - img[None, :]
            if np.min(np.abs(d - np.round(d)).max(axis=1)) > 1e-6:
                return False
    return True


def Hk(X, iR, k):
    """sum_R exp(2 pi i k.R) X(R)   (integer-R phases; the diagonal centre gauge does not change the invariants used below)"""
    ph = np.exp(2j * np.pi * np.array(iR).dot(k))
    X = np.asarray(X)
    if X.dtype == object:
        return np.tensordot(lift(ph), X, axes=(0, 0)).view(SymArray)
    return np.tensordot(ph, X, axes=(0, 0))


def power_sums(H, nmax):
    out = []
    P = H
    for n in range(1, nmax + 1):
        out.append(np.trace(P))
        if n < nmax:
            P = P @ H
    return out


def case_struct(rec, name, mats, nk, npow):
    setup()
    st = STRUCT[name]
    data = sym_data(st, mats)

    def body(rec):
        rec.witness = lambda env: dict(name=name, mats=mats, nk=nk, npow=npow, data={k: env.arr(v) for k, v in data.items()})
        s = do_sym(build(st, mats, {k: v.copy() for k, v in data.items()}), st)
        iR = s.rvec.iRvec
        idx = {tuple(r): i for i, r in enumerate(iR.tolist())}
        rec.concrete("R-set closed under inversion", all(tuple(-np.array(r)) in idx for r in idx), key="symmetrised R-set is not closed under R -> -R")
        minus = [idx[tuple(-np.array(r))] for r in iR.tolist()]
        for k_ in mats:
            X = np.asarray(s.get_R_mat(k_))
            Xd = np.conjugate(np.swapaxes(X[minus], 1, 2))
            rec.close(f"{k_}: X(-R) == X(R)^dagger after symmetrisation", Xd, X, 1e-12, bound=1.0, key=f"symmetrised {k_} is not Hermitian in real space")
        rec.concrete("Wannier centres map onto each other under every space-group operation (mod lattice)", centres_mapped(s), key=f"{name}: symmetrised Wannier centres are not mapped onto each other")
        # the shifts the Fourier transform uses are the Wannier centres, in the same order (System_R.reorder has to permute matrices, centres and shifts together)
        sh, wc = np.asarray(s.rvec.shifts_left_red, dtype=float), np.asarray(s.wannier_centers_red, dtype=float)
        rec.concrete("R-vector shifts == Wannier centres after symmetrisation", sh.shape == wc.shape and bool(np.max(np.abs(sh - wc)) < 1e-8),
                     key=f"{name}: R-vector shifts differ from the Wannier centres after symmetrisation")
        if st.get("reorder_back"):
            d_ = wc - np.array(st["positions"], dtype=float)
            rec.concrete("reorder_back restores the order of the Wannier functions", bool(np.max(np.abs(d_ - np.round(d_))) < 1e-8),
                         key=f"{name}: reorder_back does not restore the order of the Wannier functions")
        # spectrum at g.k equals spectrum at k : power sums of H(k)
        H = s.get_R_mat("Ham")
        for k in KPTS[:nk]:
            p0 = power_sums(Hk(H, iR, k), npow)
            for ig, g in enumerate(s.pointgroup.symmetries):
                kg = g.transform_reduced_vector(k, s.recip_lattice)
                pg = power_sums(Hk(H, iR, kg), npow)
                for n in range(npow):
                    rec.close(f"tr H(gk)^{n + 1} == tr H(k)^{n + 1}  (g #{ig}, k={k.tolist()})", pg[n], p0[n], TOL, bound=1.0,
                              key=f"{name}: spectrum at g.k differs from the spectrum at k after symmetrisation (power sum {n + 1})")
                for key_, inv_sign, tr_sign in (("AA", -1, +1), ("SS", +1, -1)):
                    if key_ not in mats:
                        continue
                    A = s.get_R_mat(key_)
                    # gauge-invariant vector fields built from the Wannier-gauge matrices: v_a = tr X_a(k) and w_a = tr X_a(k) H(k)
                    # (AA: polar, TR-even; SS: axial, TR-odd)
                    for nm, f in (("tr X", lambda X, Hm: np.trace(X, axis1=0, axis2=1)), ("tr X H", lambda X, Hm: np.einsum("mna,nm->a", X, Hm))):
                        a0 = np.asarray(f(Hk(A, iR, k), Hk(H, iR, k)))
                        ag = np.asarray(f(Hk(A, iR, kg), Hk(H, iR, kg)))
                        want = (a0 @ lift(g.R.T)) * (inv_sign if g.Inv else 1)
                        if g.TR:
                            want = np.conjugate(want) * tr_sign
                        rec.close(f"{nm}[{key_}](gk) == g . {nm}[{key_}](k)  (g #{ig})", ag, want, TOL, bound=1.0,
                                  key=f"{name}: {nm} of {key_} at g.k is not the transformed value at k")
        # idempotence
        before = {k_: np.asarray(s.get_R_mat(k_)).copy() for k_ in mats}
        iR1 = [tuple(r) for r in iR.tolist()]
        s2 = do_sym(s, st)
        idx2 = {tuple(r): i for i, r in enumerate(s2.rvec.iRvec.tolist())}
        for k_ in mats:
            X2 = np.asarray(s2.get_R_mat(k_))
            got, want = [], []
            for r, i2 in idx2.items():
                got.append(X2[i2])
                want.append(before[k_][iR1.index(r)] if r in iR1 else np.zeros_like(X2[i2]))
            rec.concrete(f"{k_}: second symmetrisation keeps every R-vector", all(r in idx2 for r in iR1), key="second symmetrisation drops R-vectors")
            rec.close(f"{k_}: symmetrising again changes nothing (zero padding aside)", sarr(np.array(got, dtype=object)), sarr(np.array(want, dtype=object)), 1e-12, bound=1.0,
                      key=f"symmetrisation of {k_} is not idempotent")
    rec.explore(body, [])


def subgroup_indices(spacegroup, want):
    """indices of a subgroup of the space group's operations: 'E' = identity only, 'half' = a subgroup of index 2 found by closure from generators"""
    ops = spacegroup.symmetries

    def key(op):
        return (tuple(np.asarray(op.rotation).astype(int).ravel()), tuple(np.round(np.asarray(op.translation, float) % 1, 6)), bool(op.time_reversal))
    keys = [key(o) for o in ops]
    ident = [i for i, o in enumerate(ops) if np.all(np.asarray(o.rotation) == np.eye(3)) and not o.time_reversal and np.allclose(np.asarray(o.translation, float) % 1, 0)][0]
    if want == "E":
        return [ident]

    def mul(i, j):
        a, b = ops[i], ops[j]
        rot = np.asarray(a.rotation) @ np.asarray(b.rotation)
        tr = (np.asarray(a.rotation) @ np.asarray(b.translation, float) + np.asarray(a.translation, float)) % 1
        k = (tuple(rot.astype(int).ravel()), tuple(np.round(tr % 1, 6) % 1), bool(a.time_reversal) != bool(b.time_reversal))
        return keys.index(k)
    # grow subgroups from single generators until one of size n/2 (or the largest proper one) is found
    best = [ident]
    n = len(ops)
    for g1 in range(n):
        for g2 in range(g1, n):
            S = {ident, g1, g2}
            changed = True
            while changed and len(S) < n:
                changed = False
                for a in list(S):
                    for b in list(S):
                        c = mul(a, b)
                        if c not in S:
                            S.add(c)
                            changed = True
            if len(S) < n and len(S) > len(best):
                best = sorted(S)
            if len(best) * 2 == n:
                return best
    return best


def case_subgroup(rec, name, want):
    """symmetrize2 with use_symmetries_index = a proper subgroup: average over the subgroup (idempotent, Hermitian, spectrum invariant under the subgroup's operations,
    identity-only subgroup returns the input unchanged)"""
    setup()
    st = STRUCT[name]
    data = sym_data(st, ["Ham"])

    def body(rec):
        rec.witness = lambda env: dict(test="subgroup", name=name, want=want, data={k: env.arr(v) for k, v in data.items()})
        s0 = do_sym(build(st, ["Ham"], {k: v.copy() for k, v in data.items()}), st)      # provides the symmetrizer (and the reordering of the Wannier functions)
        symmetrizer = s0._symmetrizer
        idx = subgroup_indices(symmetrizer.spacegroup, want)
        rec.concrete("proper subgroup found", 0 < len(idx) < len(symmetrizer.spacegroup.symmetries), detail=f"{len(idx)} of {len(symmetrizer.spacegroup.symmetries)}")
        s = build(st, ["Ham"], {k: v.copy() for k, v in data.items()})
        with contextlib.redirect_stdout(io.StringIO()), warnings.catch_warnings():
            warnings.simplefilter("ignore")
            s.symmetrize2(symmetrizer, silent=True, use_symmetries_index=list(idx))
        iR = s.rvec.iRvec
        iR1 = [tuple(r) for r in iR.tolist()]
        H1 = np.asarray(s.get_R_mat("Ham")).copy()
        if want == "E":
            iR0 = [tuple(r) for r in st["iR"]]
            got, wantm = [], []
            for r in sorted(set(iR0) | set(iR1)):
                got.append(H1[iR1.index(r)] if r in iR1 else np.zeros_like(H1[0]))
                wantm.append(np.asarray(data["Ham"])[iR0.index(r)] if r in iR0 else np.zeros_like(H1[0]))
            rec.close("symmetrising with the identity alone returns the input", sarr(np.array(got, dtype=object)), sarr(np.array(wantm, dtype=object)), 1e-12, bound=1.0,
                      key="symmetrize2 with a subgroup: result is not the average over the operations used")
        # idempotence with the same subgroup
        with contextlib.redirect_stdout(io.StringIO()), warnings.catch_warnings():
            warnings.simplefilter("ignore")
            s.symmetrize2(symmetrizer, silent=True, use_symmetries_index=list(idx))
        iR2 = [tuple(r) for r in s.rvec.iRvec.tolist()]
        H2 = np.asarray(s.get_R_mat("Ham"))
        got, wantm = [], []
        for i2, r in enumerate(iR2):
            got.append(H2[i2])
            wantm.append(H1[iR1.index(r)] if r in iR1 else np.zeros_like(H2[i2]))
        rec.close("symmetrising again with the same subgroup changes nothing", sarr(np.array(got, dtype=object)), sarr(np.array(wantm, dtype=object)), 1e-12, bound=1.0,
                  key="symmetrize2 with a subgroup: not idempotent (wrong normalisation of the average)")
        # spectrum invariant under the operations of the subgroup (the point group set by symmetrize2 is the subgroup's)
        k = KPTS[0]
        p0 = power_sums(Hk(H1, iR, k), 2)
        for ig, g in enumerate(s.pointgroup.symmetries):
            pg = power_sums(Hk(H1, iR, g.transform_reduced_vector(k, s.recip_lattice)), 2)
            for n_ in range(2):
                rec.close(f"subgroup: tr H(gk)^{n_ + 1} == tr H(k)^{n_ + 1} (g #{ig})", pg[n_], p0[n_], TOL, bound=1.0, key=f"{name}: spectrum not invariant under the subgroup used for symmetrisation")
    rec.explore(body, [])


def cases(tier, seed):
    q = tier == "quick"
    out = [Case("sc_sp Ham", case_struct, dict(name="sc_sp", mats=["Ham"], nk=1 if q else 2, npow=2 if q else 3), timeout=1500 if q else 3600),
           Case("cscl_ss Ham", case_struct, dict(name="cscl_ss", mats=["Ham"], nk=2, npow=2), timeout=1500),
           Case("tet_spz Ham", case_struct, dict(name="tet_spz", mats=["Ham"], nk=2, npow=2), timeout=1500),
           Case("tet_spz Ham+AA", case_struct, dict(name="tet_spz", mats=["Ham", "AA"], nk=1, npow=1), timeout=1500),
           Case("cscl_ss Ham subgroup=E (use_symmetries_index)", case_subgroup, dict(name="cscl_ss", want="E"), timeout=1500),
           Case("tet_spz Ham subgroup of index 2 (use_symmetries_index)", case_subgroup, dict(name="tet_spz", want="half"), timeout=1500),
           Case("tet_3x Ham reorder_back=True (interleaved Wyckoff orbits of one species)", case_struct, dict(name="tet_3x", mats=["Ham"], nk=1, npow=2), timeout=1500),
           Case("diamond_ss Ham (two equivalent sites in one block)", case_struct, dict(name="diamond_ss", mats=["Ham"], nk=2, npow=2), timeout=1500)]
    if not q:
        out += [Case("zb_ss Ham", case_struct, dict(name="zb_ss", mats=["Ham"], nk=2, npow=2), timeout=3600),
                Case("bcc_mag Ham+SS", case_struct, dict(name="bcc_mag", mats=["Ham", "SS"], nk=2, npow=2), timeout=3600),
                Case("sc_sp Ham+AA", case_struct, dict(name="sc_sp", mats=["Ham", "AA"], nk=1, npow=1), timeout=3600),
                Case("cscl_ss Ham+AA", case_struct, dict(name="cscl_ss", mats=["Ham", "AA"], nk=2, npow=2), timeout=3600),
                Case("diamond_ss Ham+AA", case_struct, dict(name="diamond_ss", mats=["Ham", "AA"], nk=1, npow=1), timeout=3600),
                Case("tet_3x Ham+AA reorder_back=True", case_struct, dict(name="tet_3x", mats=["Ham", "AA"], nk=1, npow=1), timeout=3600),
                Case("zb_ss Ham+AA", case_struct, dict(name="zb_ss", mats=["Ham", "AA"], nk=1, npow=1), timeout=3600),
                Case("tet_spz Ham nk=3 npow=3", case_struct, dict(name="tet_spz", mats=["Ham"], nk=3, npow=3), timeout=3600),
                Case("cscl_ss Ham nk=3 npow=2", case_struct, dict(name="cscl_ss", mats=["Ham"], nk=3, npow=2), timeout=3600),
                Case("diamond_ss Ham nk=3 npow=2", case_struct, dict(name="diamond_ss", mats=["Ham"], nk=3, npow=2), timeout=3600),
                Case("diamond_ss Ham subgroup=E (use_symmetries_index)", case_subgroup, dict(name="diamond_ss", want="E"), timeout=3600),
                Case("sc_sp Ham subgroup of index 2 (use_symmetries_index)", case_subgroup, dict(name="sc_sp", want="half"), timeout=3600),
                Case("zb_ss Ham subgroup of index 2 (use_symmetries_index)", case_subgroup, dict(name="zb_ss", want="half"), timeout=3600)]
    return out


def replay(rec):
    w = rec["witness"]
    if w.get("test") == "subgroup":
        return replay_subgroup(w)
    st = STRUCT[w["name"]]
    rng = np.random.RandomState(3)
    data = {}
    idx = {tuple(r): i for i, r in enumerate(st["iR"])}
    for k_, v in w["data"].items():
        X = unarr(v).astype(complex)
        if np.abs(X).max() == 0:
            X = rng.uniform(-1, 1, X.shape) + 1j * rng.uniform(-1, 1, X.shape)
        for i, r in enumerate(st["iR"]):
            j = idx[tuple(-np.array(r))]
            if j == i:
                X[i] = 0.5 * (X[i] + np.conjugate(np.swapaxes(X[i], 0, 1)))
            elif j > i:
                X[j] = np.conjugate(np.swapaxes(X[i], 0, 1))
        data[k_] = X
    s = do_sym(build(st, w["mats"], {k: v.copy() for k, v in data.items()}), st)
    iR = s.rvec.iRvec
    idr = {tuple(r): i for i, r in enumerate(iR.tolist())}
    errs = {}
    if not all(tuple(-np.array(r)) in idr for r in idr):
        return True, "R-set not closed under inversion"
    minus = [idr[tuple(-np.array(r))] for r in iR.tolist()]
    for k_ in w["mats"]:
        X = s.get_R_mat(k_)
        errs[f"herm {k_}"] = np.abs(np.conjugate(np.swapaxes(X[minus], 1, 2)) - X).max()
    H = s.get_R_mat("Ham")
    e = 0
    for k in KPTS[:w["nk"]]:
        p0 = power_sums(Hk(H, iR, k), w["npow"])
        for g in s.pointgroup.symmetries:
            kg = g.transform_reduced_vector(k, s.recip_lattice)
            pg = power_sums(Hk(H, iR, kg), w["npow"])
            e = max(e, max(abs(a - b) for a, b in zip(pg, p0)))
            for key_, inv_sign, tr_sign in (("AA", -1, +1), ("SS", +1, -1)):
                if key_ not in w["mats"]:
                    continue
                A = s.get_R_mat(key_)
                for nm, f in (("tr X", lambda X, Hm: np.trace(X, axis1=0, axis2=1)), ("tr X H", lambda X, Hm: np.einsum("mna,nm->a", X, Hm))):
                    a0 = f(Hk(A, iR, k), Hk(H, iR, k))
                    ag = f(Hk(A, iR, kg), Hk(H, iR, kg))
                    want = (a0 @ g.R.T) * (inv_sign if g.Inv else 1)
                    if g.TR:
                        want = np.conjugate(want) * tr_sign
                    errs[f"{nm} {key_}"] = max(errs.get(f"{nm} {key_}", 0), np.abs(ag - want).max())
    errs["spectrum"] = e
    errs["centres not mapped"] = 0.0 if centres_mapped(s) else 1.0
    sh, wc = np.asarray(s.rvec.shifts_left_red, dtype=float), np.asarray(s.wannier_centers_red, dtype=float)
    errs["shifts != centres"] = float(np.max(np.abs(sh - wc))) if sh.shape == wc.shape else 1.0
    if st.get("reorder_back"):
        d_ = wc - np.array(st["positions"], dtype=float)
        errs["order not restored"] = float(np.max(np.abs(d_ - np.round(d_))))
    before = {k_: s.get_R_mat(k_).copy() for k_ in w["mats"]}
    iR1 = [tuple(r) for r in iR.tolist()]
    s2 = do_sym(s, st)
    for k_ in w["mats"]:
        X2 = s2.get_R_mat(k_)
        d = 0
        for i2, r in enumerate(map(tuple, s2.rvec.iRvec.tolist())):
            ref = before[k_][iR1.index(r)] if r in iR1 else 0
            d = max(d, np.abs(X2[i2] - ref).max())
        errs[f"idempotence {k_}"] = d
    return bool(max(errs.values()) > 1e-7), str({k: float(f"{v:.2e}") for k, v in errs.items()})


def replay_subgroup(w):
    st = STRUCT[w["name"]]
    rng = np.random.RandomState(3)
    idx0 = {tuple(r): i for i, r in enumerate(st["iR"])}
    X = unarr(w["data"]["Ham"]).astype(complex)
    if np.abs(X).max() == 0:
        X = rng.uniform(-1, 1, X.shape) + 1j * rng.uniform(-1, 1, X.shape)
    for i, r in enumerate(st["iR"]):
        j = idx0[tuple(-np.array(r))]
        if j == i:
            X[i] = 0.5 * (X[i] + X[i].conj().T)
        elif j > i:
            X[j] = X[i].conj().T
    s0 = do_sym(build(st, ["Ham"], dict(Ham=X.copy())), st)
    symmetrizer = s0._symmetrizer
    idx = subgroup_indices(symmetrizer.spacegroup, w["want"])
    s = build(st, ["Ham"], dict(Ham=X.copy()))
    errs = {}
    with contextlib.redirect_stdout(io.StringIO()), warnings.catch_warnings():
        warnings.simplefilter("ignore")
        s.symmetrize2(symmetrizer, silent=True, use_symmetries_index=list(idx))
        iR1 = [tuple(r) for r in s.rvec.iRvec.tolist()]
        H1 = s.get_R_mat("Ham").copy()
        iR = s.rvec.iRvec.copy()
        if w["want"] == "E":
            iR0 = [tuple(r) for r in st["iR"]]
            errs["identity-only"] = max(np.abs((H1[iR1.index(r)] if r in iR1 else 0) - (X[iR0.index(r)] if r in iR0 else 0)).max() for r in set(iR0) | set(iR1))
        k = KPTS[0]
        p0 = power_sums(Hk(H1, iR, k), 2)
        errs["spectrum"] = max(max(abs(a - b) for a, b in zip(power_sums(Hk(H1, iR, g.transform_reduced_vector(k, s.recip_lattice)), 2), p0)) for g in s.pointgroup.symmetries)
        s.symmetrize2(symmetrizer, silent=True, use_symmetries_index=list(idx))
    H2 = s.get_R_mat("Ham")
    errs["idempotence"] = max(np.abs(H2[i2] - (H1[iR1.index(r)] if r in iR1 else 0)).max() for i2, r in enumerate(map(tuple, s.rvec.iRvec.tolist())))
    return bool(max(errs.values()) > 1e-7), str({k_: float(f"{v:.2e}") for k_, v in errs.items()})
