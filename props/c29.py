"""C29 — paths are built and tabulated faithfully"""
import sys, itertools, traceback, math
from fractions import Fraction as Fr
from types import SimpleNamespace
import numpy as np
from symx.core import *
from symx.core import z3, SQRT
from symx.npproxy import NpProxy, shadow
from symx.harness import Case, unarr
from symx.lifted import sym_permutation
import symx.harness  # noqa (puts the repo on sys.path)
import wannierberri.grid.path, wannierberri.evaluate_k, wannierberri.run_grid  # noqa
import wannierberri.result.tabresult as TR, wannierberri.result.kbandresult as KB, wannierberri.result.resultdict as RD
import wannierberri.calculators.tabulate as TAB, wannierberri.symmetry.point_symmetry as PS
from wannierberri.grid.Kpoint import KpointBZpath
from wannierberri.data_K.data_K_R import Data_K_R
import wannierberri.grid.tetrahedron  # noqa (imported lazily by Data_K; numba import once in the parent)
GP, EK, RG = (sys.modules["wannierberri." + m] for m in ("grid.path", "evaluate_k", "run_grid"))   # package attributes of these names may be functions/classes

PROPERTY = "C29"
FUNCTIONS = ["Path.__init__/from_nodes/get_refined/getKline/get_K_list/get_kpoints", "evaluate_k.evaluate_k_path", "run_grid.run/process (serial, Path)", "KpointBZpath",
             "TABresult.__add__/self_to_path/get_data", "K__Result.__add__/to_path", "tabulate.Tabulator/TabulatorAll (mode='path')", "evaluate_k.evaluate_k"]
BOUNDS = dict(quick=dict(nodes="2..4 nodes with <= 1 break, coordinates symbolic reals in [-1/2,1/2]", nk="2..4 per segment (scalar or list); dk / length with symbolic segment lengths (1..3 intervals)",
                         refinement="factor 1..3", Kline="break_thresh = inf and a symbolic threshold", tabulation="concrete paths of 5..7 points (closed loop, k and k+G, break), k_batch 1,2,3,100, "
                         "<= 4 batches: all arrival orders, more: rotations and reversals of the list order", values="one symbolic atom per (k-point mod G, band, component)"),
              thorough=dict(nodes="2..8 nodes with <= 3 breaks (also leading single nodes and double None), coordinates symbolic reals in [-1/2,1/2]",
                            nk="2..7 per segment, non-uniform lists such as [2,5,3,2,6], [4,4,2,3,5,2]; dk / length with 1..6 symbolic segments and up to 6 candidate point counts per segment (up to 729 feasible count patterns)",
                            refinement="factor 1..5 and depth 2..3 (refined path refined again: 2x3, 3x2x2, 2x2x3, 5x2, 4x3, 1x4x2)", Kline="break_thresh = inf, and a symbolic threshold on direct paths of <= 10 points (every above/below pattern of the steps is a path)",
                            direct_paths="3..12 points, labels and up to 3 breaks at arbitrary positions",
                            tabulation="concrete paths of 5..12 points (closed loop, k and k+G, breaks, repeated points, 12-point path with 4 non-uniform segments), k_batch 1,2,3,4,5,7,100, "
                            "<= 8 batches: all arrival orders (5040 for 7 split over 7 cases, 40320 for 8 split over 56 cases, two 8-point paths), more: rotations and reversals", values="one symbolic atom per (k-point mod G, band, component), nb <= 4, rank <= 3"))
EXPLANATION = ("Path.from_nodes/get_refined/getKline run on symbolic node coordinates (number of points from dk/length is decided by forks on the symbolic segment length); the resulting K_list is "
               "compared with an own statement (node rows exactly, interior points within the linspace rounding, refined points exactly, Kline steps = sqrt atoms >= 0, zero at breaks). "
               "Path tabulation drives the real run() on concrete paths with symbolic per-point values and a symbolic arrival order of the K-point batches; z3 decides that row i of the "
               "result holds the atoms of path point i and equals evaluate_k at that point.")
ASSUMPTIONS = ["first and last node are not None; nk >= 2 (documented usage)", "node coordinates within [-1/2,1/2] (bounds of the tolerance obligations)",
               "tabulated values are periodic in k (v(k+G)=v(k)): TABresult stores k mod 1", "bands non-degenerate (C15)", "every batch result is added exactly once (C12)"]
OUTSIDE = ["Path.sphere/spheroid/seekpath", "ties of round() at exactly half-integer segment length / dk (measure zero; python rounds half to even, modelled so)",
           "ray scheduling itself (arrival order is modelled as the order of the batch list)", "plotting (plot_path_fat)", "physical formulas (stub with free values)", "sizes beyond the bounds"]
STUBS = ["round in grid.path: forks over the integer candidates of a symbolic real (round half to even)", "np.linspace with concrete arguments is numpy's (doubles => tolerance 1e-12)",
         "data_k_class: object.__new__(Data_K_R) with k_list = KpointBZpath.K (as Data_K.__init__ does), concrete well separated E_K", "Formula stub: per k-point atoms",
         "Path.get_K_list wrapped: the real batch list, permuted", "run_grid.get_ray_cpus_count -> 1"]

LAT = np.array([[1.0, 0.0, 0.0], [0.2, 1.1, 0.0], [0.1, 0.3, 0.9]])
PG = PS.PointGroup([], real_lattice=LAT)                        # tabulation cases (concrete k-points)
RECIP = np.array([[1.0, 0.0, 0.0], [0.5, 2.0, 0.0], [0.25, 0.5, 0.5]])   # construction cases: a triclinic reciprocal lattice with short binary fractions (keeps the z3 polynomials small)
NMAX_ROUND = 6


# ---- checkers -----------------------------------------------------------------------------------------------
class SymCk:
    sym = True

    def __init__(s, rec):
        s.rec = rec

    def eq(s, name, l, r, key):
        if np.shape(l) != np.shape(r):
            return s.rec.concrete(name, False, f"shape {np.shape(l)} vs {np.shape(r)}", key=key)
        return s.rec.eq(name, l, r, key=key)

    def close(s, name, l, r, key):
        if np.shape(l) != np.shape(r):
            return s.rec.concrete(name, False, f"shape {np.shape(l)} vs {np.shape(r)}", key=key)
        return s.rec.close(name + " (1e-12)", l, r, 1e-12, bound=1.0, key=key)

    def ok(s, name, cond, key, detail=""):
        return s.rec.concrete(name, bool(cond), detail, key=key)

    def nonneg(s, name, xs, key):
        f = True
        for x in xs:
            f = (x >= 0) & f
        return s.rec.fact(name, f, key=key) if isinstance(f, SymB) else s.rec.concrete(name, bool(f), key=key)


class NumCk:
    sym = False

    def __init__(s):
        s.bad = []

    def eq(s, name, l, r, key):
        l, r = np.asarray(l, dtype=complex), np.asarray(r, dtype=complex)
        if l.shape != r.shape or not np.allclose(l, r, rtol=1e-9, atol=1e-9 * (1 + (np.abs(r).max() if r.size else 0))):
            s.bad.append(name)
    close = eq

    def ok(s, name, cond, key, detail=""):
        if not cond:
            s.bad.append(f"{name} {detail}")

    def nonneg(s, name, xs, key):
        if not all(float(x) >= -1e-12 for x in xs):
            s.bad.append(name)


# ---- stubs ----------------------------------------------------------------------------------------------------
def sym_round(x, *a):
    """python round() on a symbolic real: fork over the integer candidates, ties to even"""
    if not isinstance(x, SymC) or x.isconst():
        return round(float(x) if isinstance(x, SymC) else x, *a)
    # x = c*sqrt(r), c > 0: compare the radicand (no algebraic atom in the path condition): lo <= x  <=>  lo <= 0 or lo^2 <= c^2 r
    r2 = None
    if x.d.is_one() and len(x.n.t) == 1:
        (mono, coef), = x.n.t.items()
        if len(mono) == 1 and mono[0][1] == 1 and mono[0][0] in SQRT and coef[1] == 0 and coef[0] > 0:
            r2 = SQRT[mono[0][0]] * (coef[0] * coef[0])
    for n in range(0, NMAX_ROUND + 1):
        lo, hi = Fr(2 * n - 1, 2), Fr(2 * n + 1, 2)
        if r2 is not None:
            ge = (lo <= 0) or ((r2 >= lo * lo) if n % 2 == 0 else (r2 > lo * lo))
            inside = ((r2 <= hi * hi) if n % 2 == 0 else (r2 < hi * hi)) & ge
        else:
            inside = ((x >= lo) & (x <= hi)) if n % 2 == 0 else ((x > lo) & (x < hi))
        if bool(inside):
            return n
    raise Inconclusive("round(): value beyond the candidate range")


# ---- own statement of a path built from nodes -------------------------------------------------------------------
def spec_from_nodes(nodes, labels, nks):
    """nodes: list of 3-vectors or None; nks: points per segment (both ends included), consumed per real segment.
    returns rows = [(kind, vector)], labels {index: label}, breaks [index]; kind 'node' rows are exact, 'inner' rows carry the rational j/(nk-1)"""
    labs = iter(labels)
    lab = [None if n is None else next(labs) for n in nodes]
    nks = iter(nks)
    rows, outlab, breaks = [], {}, []
    for i, n in enumerate(nodes):
        if n is None:
            continue
        nxt = nodes[i + 1] if i + 1 < len(nodes) else "end"
        outlab[len(rows)] = lab[i]
        rows.append(("node", n))
        if nxt is None:
            breaks.append(len(rows) - 1)
        elif not isinstance(nxt, str):
            nk = next(nks)
            for j in range(1, nk - 1):
                rows.append(("inner", n + (nxt - n) * Fr(j, nk - 1) if is_sym(n) or is_sym(nxt) else n + (nxt - n) * (j / (nk - 1))))
    return rows, outlab, breaks


def cart_len2(d):
    c = [sum(d[a] * RECIP[a, b] for a in range(3)) for b in range(3)]
    return c[0] * c[0] + c[1] * c[1] + c[2] * c[2]


def default_labels(nodes):
    return [str(i + 1) for i, _ in enumerate([n for n in nodes if n is not None])]


def law_nodes(ck, P, X):
    pattern = P["pattern"]           # e.g. "NN-N": N node, - break
    nodes, it = [], iter(range(10))
    for ch in pattern:
        nodes.append(None if ch == "-" else X["nodes"][next(it)])
    labels = P.get("labels")
    mode = P["mode"]
    nseg = sum(1 for a, b in zip(nodes, nodes[1:]) if a is not None and b is not None)
    kw = {}
    if mode == "nk":
        kw["nk"] = P["nk"]
        nks = [P["nk"]] * nseg if isinstance(P["nk"], int) else list(P["nk"])
    else:
        dk = P["dk"]
        kw.update(dk=dk) if mode == "dk" else kw.update(length=2 * np.pi / dk)
        nks = []
        for a, b in zip(nodes, nodes[1:]):
            if a is not None and b is not None:
                r2 = cart_len2(a - b)
                n = (sym_round(r2.sqrt() / dk) if isinstance(r2, SymC) else round(math.sqrt(r2) / dk)) + 1
                nks.append(2 if n == 1 else n)
    K = "Path.from_nodes: "
    path = GP.Path.from_nodes(recip_lattice=RECIP, nodes=[None if n is None else list(n) for n in nodes], labels=None if labels is None else list(labels), **kw)
    rows, wlab, wbreaks = spec_from_nodes(nodes, labels or default_labels(nodes), nks)
    ck.ok("number of path points", len(path.K_list) == len(rows), K + "number of points wrong", f"{len(path.K_list)} vs {len(rows)} (points per segment {nks})")
    if len(path.K_list) != len(rows):
        return
    Kl = np.asarray(path.K_list)
    nd = [i for i, (k, _) in enumerate(rows) if k == "node"]
    inn = [i for i, (k, _) in enumerate(rows) if k == "inner"]
    ck.eq("every node present, in order, exactly", Kl[nd], np.array([list(rows[i][1]) for i in nd], dtype=Kl.dtype), K + "a node is missing or displaced")
    if inn:
        ck.close("interior points = start + j/(nk-1) (end-start)", Kl[inn], np.array([list(rows[i][1]) for i in inn], dtype=Kl.dtype), K + "segment not sampled uniformly")
    ck.ok("labels at the node indices", dict(path.labels) == wlab, K + "labels wrong", f"{path.labels} vs {wlab}")
    ck.ok("breaks after the last point before a None", list(path.breaks) == wbreaks, K + "breaks wrong", f"{path.breaks} vs {wbreaks}")
    law_refine_kline(ck, P, path)


def law_refine_kline(ck, P, path):
    Kl = np.asarray(path.K_list)
    n = len(Kl)
    labels0, breaks0 = dict(path.labels), list(path.breaks)
    K = "Path.get_refined: "
    for factor in P.get("factors", [2]):
        ref = path.get_refined(factor) if factor != 2 or P.get("explicit_factor") else path.get_refined()
        pos, p = [], 0
        for i in range(n):
            pos.append(p)
            p += 1 if (i in breaks0 or i == n - 1) else factor
        R = np.asarray(ref.K_list)
        ck.ok(f"refined length (factor {factor})", len(R) == p, K + "number of refined points wrong", f"{len(R)} vs {p}")
        if len(R) != p:
            continue
        ck.eq(f"original points kept at the refined positions (factor {factor})", R[pos], Kl, K + "an original point is lost or moved")
        want_new, idx_new = [], []
        for i in range(n - 1):
            if i in breaks0:
                continue
            for j in range(1, factor):
                idx_new.append(pos[i] + j)
                want_new.append(list(Kl[i] + (Kl[i + 1] - Kl[i]) * (Fr(j, factor) if ck.sym else j / factor)))
        if idx_new:
            ck.eq(f"inserted points interpolate linearly (factor {factor})", R[idx_new], np.array(want_new, dtype=R.dtype), K + "inserted points are not the linear interpolation")
        ck.ok(f"labels/breaks moved to the refined positions (factor {factor})", dict(ref.labels) == {pos[i]: l for i, l in labels0.items()} and list(ref.breaks) == [pos[i] for i in breaks0],
              K + "labels or breaks not moved with their points", f"{ref.labels} {ref.breaks}")
        ck.ok("original path unchanged", len(path.K_list) == n and dict(path.labels) == labels0 and list(path.breaks) == breaks0, K + "refining mutates the path")
        for chain in (P.get("refine_again") or []):      # refinement depth 2..3: the refined path is refined again and compared with the statement relative to the (already checked) previous level
            if chain[0] == factor and len(chain) > 1:
                law_refine_kline(ck, dict(P, factors=[chain[1]], refine_again=[chain[1:]], thresholds=[], explicit_factor=True), ref)
    # path coordinate
    K = "Path.getKline: "
    for thr in P.get("thresholds", ["inf"]):
        kl = path.getKline() if thr == "inf" else path.getKline(break_thresh=P["X"]["thr"])
        ck.ok("Kline length, starts at 0", len(kl) == n and bool(kl[0] == 0), K + "does not start at 0")
        steps = [kl[i + 1] - kl[i] for i in range(n - 1)]
        ck.nonneg("path coordinate non-decreasing", steps, K + "coordinate decreases")
        for i in range(n - 1):
            d2 = cart_len2(Kl[i + 1] - Kl[i])
            if i in breaks0:
                ck.eq(f"no distance across break {i}", steps[i], 0 * d2, K + "distance counted across a break")
            elif thr == "inf":
                ck.eq(f"step {i} = cartesian distance", steps[i] * steps[i], d2, K + "step is not the cartesian distance")
            else:
                big = bool((d2.sqrt() if isinstance(d2, SymC) else math.sqrt(d2)) > P["X"]["thr"])
                ck.eq(f"step {i} = cartesian distance, 0 above break_thresh", steps[i] * steps[i], 0 * d2 if big else d2, K + "break_thresh handling wrong")


def law_direct(ck, P, X):
    """Path(k_list=..., labels=..., breaks=...) with arbitrary label/break positions: refinement and Kline"""
    path = GP.Path(recip_lattice=RECIP, k_list=[list(k) for k in X["nodes"]], labels={int(k): v for k, v in P["labels_at"].items()}, breaks=list(P["breaks"]))
    law_refine_kline(ck, P, path)


# ---- tabulation along a path -------------------------------------------------------------------------------------
def kclasses(K_list):
    """class id of each path point modulo reciprocal lattice vectors"""
    reps, cls = [], []
    for k in np.asarray(K_list, dtype=float):
        for i, r in enumerate(reps):
            d = k - r
            if np.abs(d - np.round(d)).max() < 1e-8:
                cls.append(i)
                break
        else:
            reps.append(k)
            cls.append(len(reps) - 1)
    return np.array(reps), cls


def make_formula(values, reps, rank):
    class StubFormula:
        ndim = rank
        transformTR = PS.transform_ident
        transformInv = PS.transform_ident

        def __init__(s, data_K, **kw):
            s.kp = np.asarray(data_K.kpoints_all, dtype=float)

        def trace(s, ik, inn, out):
            d = reps - s.kp[ik][None, :]
            c = int(np.argmin(np.abs(d - np.round(d)).max(axis=1)))
            v = values[c]
            tot = v[int(inn[0])]
            for b in inn[1:]:
                tot = tot + v[int(b)]
            a = np.empty(np.shape(tot), dtype=object if values.dtype == object else float)
            a[...] = tot
            return a.view(SymArray) if a.dtype == object else a
    return StubFormula


def shell_data_k(system, dK=None, grid=None, Kpoint=None, k_list=None, **kw):
    if k_list is None and isinstance(Kpoint, KpointBZpath):
        k_list, dK = Kpoint.K, None
    d = object.__new__(Data_K_R)
    d.__dict__.update(system=system, dK=None if dK is None else np.asarray(dK, dtype=float), k_list=k_list, grid=grid, Kpoint=Kpoint, num_wann=system.num_wann)
    d.__dict__["E_K"] = np.tile(np.arange(system.num_wann) * 1.0, (d.nk, 1))
    return d


TAB_PATHS = dict(
    loop=dict(nodes=[[0, 0, 0], [0.5, 0, 0], [0.5, 0.5, 0], [0, 0, 0]], nk=3, labels=["G", "X", "M", "G"]),
    brk=dict(nodes=[[0, 0, 0], [0.5, 0, 0], None, [0.5, 0.5, 0.5], [1, 1, 1]], nk=[2, 3]),
    length=dict(nodes=[[0.25, -0.25, 0.1], [0.75, 0.25, 0.1], [-0.25, 0.75, 1.1]], length=4.0),
    klist=dict(k_list=[[0.1, 0.2, 0.3], [-0.4, 1.2, 0.3], [0.6, 0.2, -0.7], [0.1, 0.2, 0.3], [0.35, 0.0, 2.0]], labels={0: "a", 4: "b"}, breaks=[2]),
    long=dict(nodes=[[0, 0, 0], [0.5, 0, 0], [0.5, 0.5, 0], None, [0, 0.5, 0.5], [1, 0.5, 0.5], [1, 1, 1]], nk=[3, 4, 2, 5], labels=["G", "X", "M", "Y", "Y'", "G'"]),
    eight=dict(k_list=[[0.0, 0.0, 0.0], [0.25, 0.0, 0.0], [0.5, 0.0, 0.0], [0.25, 1.0, 0.0], [0.0, 0.0, 1.0], [0.5, 0.5, 0.0], [-0.5, 0.0, 0.0], [0.25, 0.25, 0.25]],
               labels={0: "G", 4: "G", 7: "L"}, breaks=[4]),
    eight2=dict(nodes=[[0, 0, 0], [0.5, 0, 0], None, [0.5, 0.5, 0], [1.5, 0.5, 0], [0, 0, 1]], nk=[3, 2, 4], labels=["G", "X", "M", "M'", "G'"]),
    zigzag=dict(k_list=[[0.25, 0.5, 0.0], [0.75, 0.5, 0.0], [0.25, 0.5, 0.0], [1.25, -0.5, 1.0], [0.75, 0.5, 0.0], [-0.25, 0.5, 2.0], [0.25, 0.5, 0.0], [0.3, 0.1, 0.9], [-0.75, 1.5, 0.0]],
                labels={0: "P", 8: "Q"}, breaks=[3, 6]),
)


def build_tab_path(P, system):
    d = TAB_PATHS[P["path"]]
    if "k_list" in d:
        return GP.Path(system=system, k_list=d["k_list"], labels=d["labels"], breaks=d["breaks"])
    kw = {k: v for k, v in d.items() if k != "nodes"}
    return GP.Path.from_nodes(system=system, nodes=d["nodes"], **kw)


def law_tab(ck, P, X, perm):
    nb, rank, ibands = P["nb"], P["rank"], P.get("ibands")
    system = SimpleNamespace(real_lattice=PG.real_lattice, recip_lattice=PG.recip_lattice, pointgroup=PG, periodic=np.array([True] * 3), NKFFT_recommended=np.array([1, 1, 1]),
                             num_wann=nb, force_internal_terms_only=False, is_phonon=False)
    path = build_tab_path(P, system)
    Kl = np.array(path.K_list, dtype=float)
    reps, cls = kclasses(Kl)
    real_get = path.get_K_list

    def permuted(**kw):
        L = real_get(**kw)
        return [L[p] for p in perm(len(L))]
    path.get_K_list = permuted
    cf = X["cf"]
    tabs = {"Energy": TAB.Tabulator(make_formula(X["VE"], reps, 0), print_comment=False), "Q": TAB.Tabulator(make_formula(X["VQ"], reps, rank), constant_factor=cf, print_comment=False)}
    K = "path tabulation: "
    if P.get("create_path"):      # let evaluate_k_path build the path from nodes/length itself
        d = TAB_PATHS[P["path"]]
        GP.Path.get_K_list, saved = (lambda self, **kw: (lambda L: [L[p] for p in perm(len(L))])(saved(self, **kw))), GP.Path.get_K_list
        try:
            path2, tab = EK.evaluate_k_path(system, nodes=d["nodes"], length=d["length"], tabulators=tabs, ibands=ibands, parallel=False, k_batch=P["k_batch"], fout_name="c29")
        finally:
            GP.Path.get_K_list = saved
        ck.ok("evaluate_k_path(nodes, length) builds the same path", np.allclose(np.array(path2.K_list, dtype=float), Kl, atol=1e-12) and dict(path2.labels) == dict(path.labels), K + "path built by evaluate_k_path differs")
    else:
        tab = EK.evaluate_k_path(system, path=path, tabulators=tabs, ibands=ibands, parallel=False, k_batch=P["k_batch"], fout_name="c29")
    n = len(Kl)
    nsel = nb if ibands is None else len(ibands)
    ib = list(range(nb)) if ibands is None else list(ibands)
    ck.ok("result is a TABresult with one row per path point, in path order", isinstance(tab, TR.TABresult) and tab.mode == "path" and tab.grid is None and tab.nband == nsel
          and np.shape(tab.kpoints) == (n, 3) and np.allclose(np.array(tab.kpoints, dtype=float), Kl, atol=1e-12) and all(r.nk == n for r in tab.results.values()),
          K + "rows are not the path points in path order")
    EE = X["VE"][cls][:, ib]
    QQ = X["VQ"][cls][:, ib] * cf
    ck.eq("get_data('Energy')[i] == value of path point i", tab.get_data("Energy"), EE, K + "a row does not hold its own point's Energy")
    ck.eq("get_data('Q')[i] == constant_factor * value of path point i", tab.get_data("Q"), QQ, K + "a row does not hold its own point's value")
    ck.eq("get_data('Q', iband=[last])", tab.get_data("Q", iband=[nsel - 1]), QQ[:, [nsel - 1]], K + "band selection wrong")
    if rank >= 1:
        comp = "y" if rank == 1 else ("xz" if rank == 2 else "xzy")
        ck.eq(f"get_data('Q', component={comp!r})", tab.get_data("Q", component=comp), QQ[(Ellipsis,) + tuple("xyz".index(c) for c in comp)], K + "component along the path wrong")
    if P.get("evaluate_k"):
        for i in range(n):
            single = EK.evaluate_k(system, k=Kl[i], calculators=dict(tabs), data_k_class=shell_data_k)
            ck.eq(f"row {i} == evaluate_k at that point", np.concatenate([np.ravel(np.asarray(tab.get_data("Q"))[i]), np.ravel(np.asarray(tab.get_data("Energy"))[i])]),
                  np.concatenate([np.ravel(single["Q"].data[0]), np.ravel(single["Energy"].data[0])]), K + "row differs from evaluate_k of the point alone")


# EK.evaluate_k_path does not take data_k_class: it is passed through **kwargs to run()
_orig_ekp = EK.evaluate_k_path


def _ekp(system, **kw):
    return _orig_ekp(system, data_k_class=shell_data_k, **kw)


EK = SimpleNamespace(evaluate_k_path=_ekp, evaluate_k=EK.evaluate_k)


# ---- cases -------------------------------------------------------------------------------------------------------
def specs(kind, P):
    if kind in ("nodes", "direct"):
        sp = dict(nodes=("r", (P["nnodes"], 3)))
        if "thr" in P.get("thresholds", []):
            sp["thr"] = ("r", ())
        return sp
    system = SimpleNamespace(real_lattice=PG.real_lattice, recip_lattice=PG.recip_lattice, pointgroup=PG, num_wann=P["nb"])
    ncls = len(kclasses(build_tab_path(P, system).K_list)[0])
    return dict(VE=("r", (ncls, P["nb"])), VQ=("r", (ncls, P["nb"]) + (3,) * P["rank"]), cf=("r", ()))


def case_sym(rec, kind, P):
    shadow([GP], round=sym_round)
    X = {}
    ass = []
    for nm, (t, shp) in specs(kind, P).items():
        if nm == "nodes":
            X[nm] = symvec("n", shp, lo=-0.5, hi=0.5)
            if P.get("cartesian"):
                # same generality, friendlier atoms: node_0 = atoms, node_i = node_{i-1} + t_i . B^-1 with t_i the cartesian step (atoms); |step|^2 = t.t
                Binv = [[Fr(x) for x in row] for row in np.linalg.inv(RECIP)]
                assert np.allclose(np.array(Binv, dtype=float) @ RECIP, np.eye(3), atol=0) , "inverse lattice must be exact"
                t = X[nm]
                rows = [t[0]]
                for i in range(1, shp[0]):
                    rows.append(sarr([rows[-1][c] + sum(t[i, a] * Binv[a][c] for a in range(3)) for c in range(3)]))
                X[nm] = sarr(np.array(rows, dtype=object))
        else:
            X[nm] = SymC.var(nm)
            ass.append(X[nm].zreal() > 0)
    law = law_nodes if kind == "nodes" else law_direct

    def body(rec):
        rec.witness = lambda env: dict(kind=kind, P=P, X={nm: (env.arr(v) if isinstance(v, np.ndarray) else env.val(v)) for nm, v in X.items()})
        law(SymCk(rec), dict(P, X=X), {nm: (v.copy() if isinstance(v, np.ndarray) else v) for nm, v in X.items()})
    rec.explore(body, ass)


def orders(n):
    base = list(range(n))
    out = []
    for r in range(n):
        rot = base[r:] + base[:r]
        out += [rot, rot[::-1]]
    return [list(x) for x in dict.fromkeys(map(tuple, out))]


def case_tab(rec, P):
    import warnings
    warnings.filterwarnings("ignore", message="symmetry is not used")
    shadow([TR, KB, RD, TAB])
    RG.get_ray_cpus_count = lambda: 1
    X = {nm: (symvec(nm, shp) if shp else SymC.var(nm)) for nm, (t, shp) in specs("tab", P).items()}
    nbatch = P["nbatch"]
    olist = None if P["orders"] == "all" else orders(nbatch)
    if olist is None:
        lifted, ass, pv = sym_permutation("p", list(range(nbatch)))
        if P.get("first") is not None:          # the n! orders of a long list are split over n cases by the batch that arrives first
            ass = ass + [pv[i] == f for i, f in enumerate(P["first"])]
    else:
        ch = z3.Int("order")
        ass = [ch >= 0, ch < len(olist)]

    def body(rec):
        cur = {}

        def perm(n):
            assert n == nbatch, f"harness expects {nbatch} batches, the path produced {n}"
            if olist is None:
                cur["perm"] = [int(l.concretize()) for l in lifted]
            else:
                k = 0
                while k < len(olist) - 1 and not bool(SymB(ch == k)):
                    k += 1
                cur["perm"] = olist[k]
            return cur["perm"]
        rec.witness = lambda env: dict(kind="tab", P=P, perm=cur.get("perm"), X={nm: (env.arr(v) if isinstance(v, np.ndarray) else env.val(v)) for nm, v in X.items()})
        law_tab(SymCk(rec), P, {nm: (v.copy() if isinstance(v, np.ndarray) else v) for nm, v in X.items()}, perm)
    rec.explore(body, ass)


def cases(tier, seed):
    import io, contextlib
    with contextlib.redirect_stdout(io.StringIO()):
        return _cases(tier, seed)


def _cases(tier, seed):
    q = tier == "quick"
    out = []
    # construction from nodes
    nk_cases = [("NN", 3, None), ("NNN", 4, ["A", "B", "C"]), ("NN-NN", [2, 3], None), ("N-NN", 3, ["G", "X", "Y"]), ("NNN", [2, 2], None), ("NN-N", 4, None)]
    if not q:
        nk_cases += [("NNNN", [3, 2, 5], None), ("NN-N-NN", [4, 2], None), ("N--NN", 3, None), ("NNNNN", 2, None),
                     ("NNNNNN", [2, 5, 3, 2, 6], ["G", "X", "W", "K", "L", "U"]), ("NN-NNN-N-NN", [3, 2, 4, 5], None), ("N-N-N-NN", 2, ["a", "b", "c", "d", "e"]),
                     ("NNNNNNN", [4, 4, 2, 3, 5, 2], None), ("NNN-NNN", 7, None), ("N-NNNN--NN", [6, 2, 3, 2], None)]
    again = None if q else [[2, 3], [3, 2, 2], [2, 2, 3], [5, 2], [4, 3], [1, 4, 2]]
    for pat, nk, labels in nk_cases:
        P = dict(pattern=pat, nnodes=pat.count("N"), mode="nk", nk=nk, labels=labels, factors=[1, 2, 3] if q else [1, 2, 3, 4, 5], explicit_factor=len(pat) % 2 == 0, thresholds=["inf"], refine_again=again)
        out.append(Case(f"from_nodes {pat} nk={nk} labels={labels}", case_sym, dict(kind="nodes", P=P), timeout=3000))
    for pat, mode, dk in [("NN", "dk", 0.375), ("NNN", "length", 0.375), ("NN-N", "dk", 0.3125)] + ([] if q else [("NNN", "dk", 0.25), ("N-NN", "length", 0.3125), ("NNNN", "dk", 0.3125), ("NN-NNN", "length", 0.25),
                                                                                                           ("NNN", "dk", 0.1875), ("NN-NN-NN", "dk", 0.375), ("NNNNN", "length", 0.4375),
                                                                                                           ("NNNNNN", "dk", 0.4375), ("NNNN", "dk", 0.1875), ("N-NNN-NNN", "length", 0.3125), ("NNNNNNN", "dk", 0.4375)]):
        P = dict(pattern=pat, nnodes=pat.count("N"), mode=mode, dk=dk, labels=None, factors=[2], thresholds=["inf"], cartesian=True)
        out.append(Case(f"from_nodes {pat} {mode}={dk if mode == 'dk' else 2 * np.pi / dk:.4f} (symbolic segment length decides nk)", case_sym, dict(kind="nodes", P=P), timeout=3000))
    for n, labs, brk in [(3, {0: "a", 2: "c"}, []), (4, {1: "x", 3: "y"}, [1]), (4, {2: "m"}, [0, 2])] + ([] if q else [(5, {0: "a", 2: "b", 4: "c"}, [1, 3]), (5, {4: "z"}, [3]), (6, {1: "p", 4: "q", 5: "r"}, [2]),
                                                                                                         (7, {0: "s", 3: "t", 6: "u"}, [1, 4]), (9, {2: "v", 8: "w"}, [0, 3, 7]), (8, {0: "h", 7: "i"}, [3]), (12, {0: "j", 5: "k", 11: "l"}, [2, 6, 9]), (9, {4: "n"}, [1, 5]), (10, {0: "o", 9: "p"}, [4])]):
        P = dict(nnodes=n, labels_at={str(k): v for k, v in labs.items()}, breaks=brk, factors=[1, 2, 3] if q else [1, 2, 3, 4, 5], thresholds=["inf", "thr"] if n <= (4 if q else 10) else ["inf"], cartesian=True,
                 refine_again=again)
        out.append(Case(f"direct path n={n} labels={labs} breaks={brk} (refine, Kline with symbolic break_thresh)", case_sym, dict(kind="direct", P=P), timeout=3000))
    # tabulation
    maxall = 4 if q else 6
    system = SimpleNamespace(real_lattice=PG.real_lattice, recip_lattice=PG.recip_lattice, pointgroup=PG, num_wann=2)
    for name, nb, rank, ib in [("loop", 2, 1, None), ("brk", 3, 0, [2, 0]), ("length", 2, 2, None), ("klist", 2, 1, [1])] + ([] if q else [("long", 3, 1, [2, 0]), ("zigzag", 2, 2, None), ("long", 4, 3, [3, 1, 0]), ("eight", 2, 0, None), ("eight2", 3, 2, [2, 1])]):
        npts = len(build_tab_path(dict(path=name), system).K_list)
        for kb in ((1, 2, 3, 100) if q else (1, 2, 3, 4, 5, 7, 100)):
            nbatch = -(-npts // kb)
            if q and kb == 3 and name not in ("loop", "klist"):
                continue
            if not q and ((nb == 4 and kb not in (3, 100)) or (kb in (4, 5, 7) and npts < 7)):
                continue
            P = dict(path=name, nb=nb, rank=rank, ibands=ib, k_batch=kb, nbatch=nbatch, orders="all" if nbatch <= maxall else "rotations", evaluate_k=(kb == 100),
                     create_path=(name == "length" and kb == 2))
            if not q and nbatch in (7, 8):        # all 5040 / 40320 orders, 720 per case (split by the batches that arrive first / first and second)
                for first in ([[f] for f in range(7)] if nbatch == 7 else [[f, g] for f in range(8) for g in range(8) if f != g]):
                    out.append(Case(f"tabulate path={name} ({npts} points) k_batch={kb} batches={nbatch} orders=all with batches {first} arriving first nb={nb} rank={rank} ibands={ib}", case_tab,
                                    dict(P=dict(P, orders="all", first=first)), timeout=3000))
                continue
            out.append(Case(f"tabulate path={name} ({npts} points) k_batch={kb} batches={nbatch} orders={P['orders']} nb={nb} rank={rank} ibands={ib}", case_tab, dict(P=P), timeout=3000))
    return out


# ---- replay -----------------------------------------------------------------------------------------------------
def replay(rec):
    w = rec["witness"]
    kind, P = w["kind"], w["P"]
    rng = np.random.default_rng(5)
    X = {}
    for nm, (t, shp) in specs(kind, P).items():
        v = w["X"].get(nm)
        if shp == ():
            X[nm] = float(v) if v else 1.3
            continue
        a = unarr(v).reshape(shp).astype(float) if v is not None else np.zeros(shp)
        if np.abs(a).max(initial=0) == 0:
            a = rng.uniform(-0.5, 0.5, shp)
        X[nm] = a
    ck = NumCk()
    try:
        if kind == "tab":
            perm = w.get("perm") or list(range(P["nbatch"]))
            law_tab(ck, P, X, lambda n: perm)
        elif kind == "nodes":
            law_nodes(ck, dict(P, X=X), X)
        else:
            law_direct(ck, dict(P, X=X), X)
    except Exception as e:
        tb = traceback.format_exc()
        if "wannierberri" in tb:
            return True, f"{kind} {P}: raises {type(e).__name__}: {e}"
        raise
    return bool(ck.bad), f"{kind} {P} order={w.get('perm')}: " + ("; ".join(ck.bad[:6]) if ck.bad else "all laws hold")
