"""C13 — Fermi-level scans have the documented sea and surface semantics"""
import numpy as np
from symx.core import *
from symx.core import z3
from symx.npproxy import NpProxy, shadow
from symx.harness import Case
import symx.harness  # noqa
import wannierberri.calculators.static as ST
import wannierberri.data_K.data_K as DK
import wannierberri.grid.tetrahedron as T
import wannierberri.utility as U
import wannierberri.result.energyresult as ER
import wannierberri.result.kbandresult as KB
import wannierberri.formula.covariant as COV
import wannierberri.formula.formula as FRM
from wannierberri.data_K.data_K_R import Data_K_R
from wannierberri.symmetry.point_symmetry import transform_ident, transform_odd

PROPERTY = "C13"
FUNCTIONS = ["wannierberri.calculators.static.StaticCalculator.__init__/__call__ (non-tetra branch, additive and non-additive formulas, k_resolved)",
             "wannierberri.calculators.static.CumDOS/DOS with the real formula Identity", "StaticCalculator tetra=True branch + TetraWeights.weights_all_band_groups (kernel abstracted)", "Data_K.get_bands_in_range_groups(_ik)",
             "tetrahedron.get_bands_in_range/get_borders/get_bands_below_range", "utility.weight_select_bands", "EnergyResult / K__Result construction"]
BOUNDS = dict(quick=dict(nb="2..3", nk="1 (2 for nb=2)", fermi_levels="3 on a uniform grid e0 + j*h with symbolic e0, h", fder="0..3", thresholds="symbolic degen_thresh>0",
                         formulas="stub additive (per-band atoms) and non-additive (per-boundary atoms), rank 0; real Identity for DOS/CumDOS"),
              thorough=dict(nb="2..4 (CumDOS: 5)", nk="1..2 (3 for nb=2, fder=0)", fermi_levels="3..5", fder="0..3", thresholds="symbolic", formulas="as quick plus rank 1"))
EXPLANATION = ("StaticCalculator.__call__ runs on a Data_K shell with symbolic sorted band energies, a symbolic uniform Fermi grid and symbolic degeneracy threshold; "
               "formula traces are symbolic atoms. Every placement of groups relative to the Fermi bins is a path; on each z3 decides that the sea value is the "
               "k-average over whole groups with mean energy <= E_F, that fder=n equals the n-th central difference of the sea result on the extended grid, "
               "that k-resolved sums to unresolved, and the CumDOS limits and monotonicity.")
ASSUMPTIONS = ["band energies sorted ascending per k (eigh contract)", "uniform Fermi grid with spacing 1e-3 <= h <= 4 (documented: evenly spaced)",
               "no group mean lies exactly on a Fermi level of the extended grid (the property is silent about the tie)", "|E|,|e0| <= 8", "0 < degen_thresh"]
OUTSIDE = ["tetra=True: the weights themselves are C14 (here the kernel is an uninterpreted symmetric function; only the accumulation is decided), nb=2 only", "hole_like", "nb > 4, more than 4 Fermi levels", "IEEE rounding of ceil((E-EFmin)/dEF)"]
STUBS = ["math.ceil in calculators.static -> forking ceil (smallest integer j >= x found by comparisons)", "Formula stubs with symbolic traces"]


def sym_ceil(x):
    if isinstance(x, np.ndarray):
        x = x.item()
    if not isinstance(x, SymC):
        import math
        return math.ceil(x)
    if x.isconst():
        import math
        return math.ceil(float(x))
    for j in range(-3, 16):
        if x <= j:
            return j
    raise Inconclusive("ceil out of range")


def mk_shell(E, volume):
    dk = object.__new__(Data_K_R)
    dk.__dict__.update(dict(num_wann=E.shape[1], force_internal_terms_only=False))
    dk.__dict__['E_K'] = E
    dk.__dict__['nk'] = E.shape[0]
    dk.__dict__['cell_volume'] = volume
    return dk


def setup():
    shadow([ST, DK, T, U, ER, KB, COV, FRM], ceil=sym_ceil)
    ST.ceil = sym_ceil


def common(nb, nk, nEF):
    E = symvec("E", (nk, nb))
    e0 = SymC.var("e0", -8, 8)
    h = SymC.var("h", 1e-3, 4)
    thr = SymC.var("thr", 1e-9, 1)
    ass = []
    for k in range(nk):
        ass += [E[k, i].zreal() <= E[k, i + 1].zreal() for i in range(nb - 1)]
        ass += [z3.And(E[k, i].zreal() >= -8, E[k, i].zreal() <= 8) for i in range(nb)]
    ass += [e0.zreal() >= -8, e0.zreal() <= 8, h.zreal() >= z3.Q(1, 1000), h.zreal() <= 4, thr.zreal() > 0, thr.zreal() <= 1]
    return E, e0, h, thr, ass


def groups_oracle(Ek, thr, nb):
    """harness's own grouping: maximal chains of gaps <= thr (forks)"""
    borders = [0] + [i for i in range(1, nb) if bool(Ek[i] - Ek[i - 1] > thr)] + [nb]
    return list(zip(borders, borders[1:]))


def mean(xs):
    tot = SymC.of(0)
    for x in xs:
        tot = tot + x
    return tot / len(xs)


class Tie(Exception):
    pass


def below(m, ef):
    """mean <= ef, excluding the tie"""
    if bool(m == ef):
        raise Assume("group mean exactly on a Fermi level")
    return bool(m < ef)


def case_sea(rec, nb, nk, nEF, fder, additive, k_resolved=False, select=None):
    setup()
    E, e0, h, thr, ass = common(nb, nk, nEF)
    vals = symvec("v", (nk, nb))           # additive: per-band contribution
    T_ = symvec("t", (nk, nb + 1))         # non-additive: trace(inn=0..n) = t_n
    vol = 2.0

    class StubFormula:
        ndim = 0
        transformTR = transform_odd          # two different declarations, so that a mix-up of the two is visible
        transformInv = transform_ident

        def __init__(s, data_K, **kw):
            pass

        @property
        def additive(s):
            return additive

        def trace(s, ik, inn, out):
            inn = [int(i) for i in inn]
            if additive:
                tot = SymC.of(0)
                for i in inn:
                    tot = tot + vals[ik, i]
                return sarr(tot)
            assert inn == list(range(len(inn))), "non-additive formulas are evaluated on prefixes only"
            return sarr(T_[ik, len(inn)])

    def grid(lo, hi):
        return sarr([e0 + h * j for j in range(lo, hi)])

    def run(fd, Ef, kres=False):
        calc = ST.StaticCalculator(Efermi=Ef, Formula=StubFormula, fder=fd, degen_thresh=thr, save_mode="", k_resolved=kres, select_bands=None if select is None else np.array(select))
        return calc(mk_shell(E.copy(), vol))

    def sea_oracle(j_lo, j_hi):
        """(1/nk/V) sum_k sum_{groups with mean <= EF_j} value(group) * selected fraction"""
        out = []
        for j in range(j_lo, j_hi):
            ef = e0 + h * j
            tot = SymC.of(0)
            for k in range(nk):
                for a, b in groups_oracle(E[k], thr, nb):
                    if below(mean([E[k, i] for i in range(a, b)]), ef):
                        if additive:
                            v = SymC.of(0)
                            for i in range(a, b):
                                v = v + vals[k, i]
                        else:
                            v = T_[k, b] - T_[k, a]
                        if select is not None:
                            frac = sum(1 for s_ in select if a <= s_ < b) / (b - a)
                            v = v * SymC.of(frac) if frac else SymC.of(0)
                        tot = tot + v
            out.append(tot / nk / SymC.of(vol))
        return out

    def body(rec):
        rec.witness = lambda env: dict(test="sea", nb=nb, nk=nk, nEF=nEF, fder=fder, additive=additive, k_resolved=k_resolved, select=select, vol=vol,
                                       E=env.val(E), e0=env.val(e0), h=env.val(h), thr=env.val(thr), vals=env.val(vals), T=env.val(T_))
        Ef = grid(0, nEF)
        extra = {0: 0, 1: 1, 2: 1, 3: 2}[fder]
        # tie exclusion on the extended grid is enforced inside sea_oracle (Assume)
        S = sea_oracle(-extra, nEF + extra)
        if fder == 0:
            want = S
        elif fder == 1:
            want = [(S[j + 2] - S[j]) / (2 * h) for j in range(nEF)]
        elif fder == 2:
            want = [(S[j + 2] + S[j] - 2 * S[j + 1]) / (h * h) for j in range(nEF)]
        else:
            want = [(S[j + 4] - S[j] - 2 * (S[j + 3] - S[j + 1])) / (2 * h * h * h) for j in range(nEF)]
        if select is not None and fder == 0:
            try:
                run(0, Ef)
                rec.concrete("sea with band selection is refused", False, key="StaticCalculator fder=0 with select_bands does not raise NotImplementedError")
            except NotImplementedError:
                rec.concrete("sea with band selection is refused (documented NotImplementedError)", True)
            return
        res = run(fder, Ef, k_resolved)
        rec.concrete("the result carries the formula's declared TR and inversion transforms", res.transformTR is transform_odd and res.transformInv is transform_ident,
                     detail=f"TR={res.transformTR} Inv={res.transformInv}", key=f"StaticCalculator (k_resolved={k_resolved}): result does not carry the formula's declared transformTR / transformInv")
        if k_resolved:
            data = res.data
            got = [sum((SymC.of(data[k, j]) for k in range(nk)), SymC.of(0)) / nk for j in range(nEF)]
            rec.eq(f"k-resolved fder={fder}: mean over k == unresolved semantics", sarr(got), sarr(want), key=f"StaticCalculator k_resolved fder={fder} sum over k differs from unresolved")
            res_u = run(fder, Ef, False)
            rec.eq("k-resolved summed over k == unresolved result of the same calculator", sarr(got), res_u.data, key="k_resolved sum differs from the unresolved calculator")
        else:
            name = "sea value == k-average over whole groups with mean <= E_F" if fder == 0 else f"fder={fder} == central difference of the sea semantics"
            rec.eq(name, res.data, sarr(want), key=f"StaticCalculator fder={fder} additive={additive} differs from the documented semantics")
            if fder > 0 and select is None:
                # the same relation against the real sea calculator run on the extended grid
                Sx = run(0, grid(-extra, nEF + extra)).data
                if fder == 1:
                    w2 = [(Sx[j + 2] - Sx[j]) / (2 * h) for j in range(nEF)]
                elif fder == 2:
                    w2 = [(Sx[j + 2] + Sx[j] - 2 * Sx[j + 1]) / (h * h) for j in range(nEF)]
                else:
                    w2 = [(Sx[j + 4] - Sx[j] - 2 * (Sx[j + 3] - Sx[j + 1])) / (2 * h * h * h) for j in range(nEF)]
                rec.eq(f"fder={fder} calculator == central difference of the fder=0 calculator", res.data, sarr(w2), key=f"fder={fder} is not the central difference of the sea calculator")
    rec.explore(body, ass, maxpaths=40000)


def case_cumdos(rec, nb, nk, nEF):
    """real CumDOS (formula Identity): non-decreasing, 0 below all bands, nb above all bands"""
    setup()
    E, e0, h, thr, ass = common(nb, nk, nEF)

    def body(rec):
        rec.witness = lambda env: dict(test="cumdos", nb=nb, nk=nk, nEF=nEF, E=env.val(E), e0=env.val(e0), h=env.val(h), thr=env.val(thr))
        Ef = sarr([e0 + h * j for j in range(nEF)])
        for k in range(nk):
            for a, b in groups_oracle(E[k], thr, nb):
                m = mean([E[k, i] for i in range(a, b)])
                for j in range(nEF):
                    below(m, Ef[j])
        calc = ST.CumDOS(Efermi=Ef, degen_thresh=thr, save_mode="")
        res = calc(mk_shell(E.copy(), 2.0)).data
        facts = []
        for j in range(nEF):
            r = SymC.of(res[j])
            lo = z3.And(*[(E[k, 0] > Ef[j]).t if isinstance(E[k, 0] > Ef[j], SymB) else z3.BoolVal(bool(E[k, 0] > Ef[j])) for k in range(nk)])
            hi = z3.And(*[(E[k, nb - 1] < Ef[j]).t if isinstance(E[k, nb - 1] < Ef[j], SymB) else z3.BoolVal(bool(E[k, nb - 1] < Ef[j])) for k in range(nk)])
            facts += [z3.Implies(lo, r.zreal() == 0), z3.Implies(hi, r.zreal() == nb), r.zreal() >= 0, r.zreal() <= nb]
            if j:
                facts.append(r.zreal() >= SymC.of(res[j - 1]).zreal())
        rec.fact("CumDOS non-decreasing, 0 below all bands, nb above all bands", z3.And(*facts), key="CumDOS limits/monotonicity")
    rec.explore(body, ass, maxpaths=40000)


def case_tetra(rec, nb, fder, degenerate):
    """StaticCalculator(tetra=True): accumulation of the tetrahedron group weights (kernel abstracted as in the C14 composition cases)"""
    from props.c14 import KernelStub, box
    setup()
    cen = symvec("c", (1, nb))
    cor = symvec("k", (1, 4, nb))
    ef = symvec("f", (2,))
    thr = SymC.var("thr", 1e-9, 1)
    vals = symvec("v", (1, nb))
    vol = 2.0
    ass = box(list(cen.flat) + list(cor.flat) + list(ef)) + [thr.zreal() > 0, thr.zreal() < z3.Q(1, 100), ef[0].zreal() < ef[1].zreal()]
    for b in range(nb):
        for i in range(3):
            ass.append(cor[0, i, b].zreal() + 1e-6 <= cor[0, i + 1, b].zreal())
        ass += [cen[0, b].zreal() > cor[0, 0, b].zreal(), cen[0, b].zreal() < cor[0, 3, b].zreal()]
        for j in range(2):
            ass += [ef[j].zreal() != cor[0, i, b].zreal() for i in range(4)]
    for b in range(nb - 1):
        gap = cen[0, b + 1].zreal() - cen[0, b].zreal()
        ass.append(z3.And(gap >= 0, gap < thr.zreal()) if (degenerate and b == 0) else gap > thr.zreal())
        for i in range(4):
            ass.append(cor[0, i, b].zreal() <= cor[0, i, b + 1].zreal())

    class StubFormula:
        ndim = 0
        transformTR = transform_ident
        transformInv = transform_ident
        additive = True

        def __init__(s, data_K, **kw):
            pass

        def trace(s, ik, inn, out):
            tot = SymC.of(0)
            for i in inn:
                tot = tot + vals[ik, int(i)]
            return sarr(tot)

    def body(rec):
        rec.witness = lambda env: dict(test="tetra", nb=nb, fder=fder, degenerate=degenerate, cen=env.val(cen), cor=env.val(cor), ef=env.val(ef), thr=env.val(thr), vals=env.val(vals), vol=vol)
        K = T.weights_tetra = KernelStub()
        dk = mk_shell(cen.copy(), vol)
        dk.__dict__['tetraWeights'] = T.TetraWeights(cen.copy(), cor.copy())
        calc = ST.StaticCalculator(Efermi=ef, Formula=StubFormula, fder=fder, tetra=True, degen_thresh=thr, save_mode="")
        res = calc(dk).data
        K2 = KernelStub()
        K2.atoms = K.atoms
        groups = [(0, 2)] + [(b, b + 1) for b in range(2, nb)] if degenerate else [(b, b + 1) for b in range(nb)]
        for j in range(2):
            want = SymC.of(0)
            for a, b_ in groups:
                w = SymC.of(0)
                v = SymC.of(0)
                for b in range(a, b_):
                    w = w + K2(sarr([ef[j]]), *[cor[0, i, b] for i in range(4)], der=fder)[0]
                    v = v + vals[0, b]
                want = want + w / (b_ - a) * v
            rec.eq(f"tetra fder={fder}: result(ef_{j}) == sum_groups mean tetrahedron weight x group value / (nk V)", res[j], want / SymC.of(vol),
                   key=f"StaticCalculator(tetra=True) fder={fder}: accumulation of group weights differs from the documented sum")
    rec.explore(body, ass, maxpaths=60000)


def cases(tier, seed):
    q = tier == "quick"
    out = []
    for nb in ((2, 3) if q else (2, 3, 4)):
        for fder in range(4):
            for additive in (True, False):
                if nb == 4 and (fder > 2 or (not additive and fder > 0)):
                    continue
                nEF = 3 if (q or nb == 4) else (5 if fder < 2 else 4)
                out.append(Case(f"sea nb={nb} nk=1 nEF={nEF} fder={fder} additive={additive}", case_sea,
                                dict(nb=nb, nk=1, nEF=nEF, fder=fder, additive=additive), timeout=1200 if q else 3000))
    for fder in (0, 1):
        out.append(Case(f"sea nb=2 nk=2 fder={fder} k_resolved", case_sea, dict(nb=2, nk=2, nEF=2, fder=fder, additive=True, k_resolved=True), timeout=1200 if q else 3000))
        out.append(Case(f"sea nb=2 nk=2 fder={fder}", case_sea, dict(nb=2, nk=2, nEF=2, fder=fder, additive=fder == 0), timeout=1200 if q else 3000))
    if not q:
        # (fder >= 1 on these sizes ran past 40000 paths in the sizing run: the extended Fermi grid multiplies the placements)
        out.append(Case("sea nb=3 nk=2 nEF=2 fder=0 k_resolved", case_sea, dict(nb=3, nk=2, nEF=2, fder=0, additive=True, k_resolved=True), timeout=6000))
        out.append(Case("sea nb=2 nk=3 nEF=2 fder=0", case_sea, dict(nb=2, nk=3, nEF=2, fder=0, additive=True), timeout=6000))
        for sel in ([0, 1], [1, 2], [2]):
            out.append(Case(f"sea nb=3 select={sel} fder=1 nEF=3", case_sea, dict(nb=3, nk=1, nEF=3, fder=1, additive=True, select=sel), timeout=6000))
        out.append(Case("sea nb=4 select=[0,3] fder=1", case_sea, dict(nb=4, nk=1, nEF=2, fder=1, additive=True, select=[0, 3]), timeout=6000))
    out.append(Case("sea nb=3 select=[0,2] fder=1", case_sea, dict(nb=3, nk=1, nEF=2, fder=1, additive=True, select=[0, 2]), timeout=1200))
    out.append(Case("sea nb=2 select=[1] fder=0 refused", case_sea, dict(nb=2, nk=1, nEF=2, fder=0, additive=True, select=[1]), timeout=600))
    for fder in (0, 1):
        out.append(Case(f"tetra nb=2 fder={fder}", case_tetra, dict(nb=2, fder=fder, degenerate=False), timeout=1200 if q else 3000))
    out.append(Case("tetra nb=2 fder=0 degenerate pair", case_tetra, dict(nb=2, fder=0, degenerate=True), timeout=1200 if q else 3000))
    if not q:
        out.append(Case("tetra nb=3 fder=0", case_tetra, dict(nb=3, fder=0, degenerate=False), timeout=6000))
        out.append(Case("tetra nb=3 fder=1 degenerate pair", case_tetra, dict(nb=3, fder=1, degenerate=True), timeout=6000))
    for nb, nk in ((2, 1), (3, 1), (2, 2)) + (() if q else ((4, 1), (3, 2), (5, 1))):
        out.append(Case(f"cumdos nb={nb} nk={nk}", case_cumdos, dict(nb=nb, nk=nk, nEF=3), timeout=1200 if q else 3000))
    return out


# ------------------------------------------------------------------------------------------------------------
def replay(rec):
    w = rec["witness"]
    E = np.array(w["E"], dtype=float).reshape(w["nk"], w["nb"])
    nb, nk, nEF = w["nb"], w["nk"], w["nEF"]
    e0, h, thr = w["e0"], w["h"], w["thr"]
    Ef = e0 + h * np.arange(nEF)

    def groups(Ek):
        borders = [0] + [i for i in range(1, nb) if Ek[i] - Ek[i - 1] > thr] + [nb]
        return list(zip(borders, borders[1:]))
    if w["test"] == "tetra":
        nb = w["nb"]
        cen, cor, ef = np.array(w["cen"], float).reshape(1, nb), np.array(w["cor"], float).reshape(1, 4, nb), np.array(w["ef"], float)
        vals = np.array(w["vals"], float).reshape(1, nb)
        if np.abs(vals).max() == 0:
            vals = 1.0 + np.arange(nb, dtype=float).reshape(1, nb)
        thr, fder, vol = w["thr"], w["fder"], w["vol"]

        class StubFormulaT:
            ndim = 0
            transformTR = transform_ident
            transformInv = transform_ident
            additive = True
            def __init__(s, data_K, **kw): pass
            def trace(s, ik, inn, out): return np.array(vals[ik, list(inn)].sum())
        dk = mk_shell(cen, vol)
        dk.__dict__['tetraWeights'] = T.TetraWeights(cen, cor)
        res = ST.StaticCalculator(Efermi=ef, Formula=StubFormulaT, fder=fder, tetra=True, degen_thresh=thr, save_mode="")(dk).data
        groups = [(0, 2)] + [(b, b + 1) for b in range(2, nb)] if w["degenerate"] else [(b, b + 1) for b in range(nb)]
        want = np.zeros(2)
        for a, b_ in groups:
            wsum = sum(T.weights_tetra(ef, *cor[0, :, b], der=fder) for b in range(a, b_)) / (b_ - a)
            want += wsum * vals[0, a:b_].sum()
        want /= vol
        return bool(np.abs(res - want).max() > 1e-7 * max(1, np.abs(want).max())), f"tetra fder={fder}: {res.tolist()} expected {want.tolist()}"
    if w["test"] == "cumdos":
        res = ST.CumDOS(Efermi=Ef, degen_thresh=thr, save_mode="")(mk_shell(E, 2.0)).data
        bad = np.any(np.diff(res) < -1e-12) or np.any(res < -1e-12) or np.any(res > nb + 1e-12)
        for j in range(nEF):
            if np.all(E[:, 0] > Ef[j]) and abs(res[j]) > 1e-12:
                bad = True
            if np.all(E[:, -1] < Ef[j]) and abs(res[j] - nb) > 1e-12:
                bad = True
        return bool(bad), f"CumDOS={res.tolist()} E={E.tolist()} Ef={Ef.tolist()} thr={thr}"
    vals = np.array(w["vals"], dtype=float).reshape(nk, nb)
    Tn = np.array(w["T"], dtype=float).reshape(nk, nb + 1)
    if np.abs(vals).max() == 0:
        vals = 1.0 + np.arange(nk * nb, dtype=float).reshape(nk, nb)
    if np.abs(Tn).max() == 0:
        Tn = np.cumsum(np.arange(nk * (nb + 1), dtype=float).reshape(nk, nb + 1) ** 2 + 1, axis=1)
    additive, select, fder, vol = w["additive"], w["select"], w["fder"], w["vol"]

    class StubFormula:
        ndim = 0
        transformTR = transform_odd
        transformInv = transform_ident
        def __init__(s, data_K, **kw): pass
        @property
        def additive(s): return additive
        def trace(s, ik, inn, out):
            return np.array(vals[ik, list(inn)].sum()) if additive else np.array(Tn[ik, len(inn)])

    def sea(ef):
        tot = 0.0
        for k in range(nk):
            for a, b in groups(E[k]):
                if E[k, a:b].mean() <= ef:
                    v = vals[k, a:b].sum() if additive else Tn[k, b] - Tn[k, a]
                    if select is not None:
                        v *= sum(1 for s_ in select if a <= s_ < b) / (b - a)
                    tot += v
        return tot / nk / vol
    extra = {0: 0, 1: 1, 2: 1, 3: 2}[fder]
    S = np.array([sea(e0 + h * j) for j in range(-extra, nEF + extra)])
    if fder == 0:
        want = S
    elif fder == 1:
        want = (S[2:] - S[:-2]) / (2 * h)
    elif fder == 2:
        want = (S[2:] + S[:-2] - 2 * S[1:-1]) / h ** 2
    else:
        want = (S[4:] - S[:-4] - 2 * (S[3:-1] - S[1:-3])) / (2 * h ** 3)
    try:
        res = ST.StaticCalculator(Efermi=Ef, Formula=StubFormula, fder=fder, degen_thresh=thr, save_mode="", k_resolved=w["k_resolved"], select_bands=None if select is None else np.array(select))(mk_shell(E, vol))
    except NotImplementedError:
        return not (select is not None and fder == 0), "NotImplementedError"
    except Exception as e:
        return True, f"raises {type(e).__name__}: {e}"
    if select is not None and fder == 0:
        return True, "sea with select_bands did not raise"
    if not (res.transformTR is transform_odd and res.transformInv is transform_ident):
        return True, f"result carries TR={res.transformTR} Inv={res.transformInv}, formula declares TR=odd Inv=ident"
    got = res.data.sum(axis=0) / nk if w["k_resolved"] else res.data
    scale = max(1.0, np.abs(want).max())
    bad = np.abs(np.asarray(got).reshape(-1) - want).max() > 1e-7 * scale
    return bool(bad), f"got {np.asarray(got).tolist()} expected {want.tolist()} E={E.tolist()} Ef={Ef.tolist()} thr={thr} fder={fder} additive={additive}"
