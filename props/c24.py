"""C24 — wannierisation produces a valid gauge that honours the windows (one update step under LAPACK contracts)"""
import itertools
import numpy as np
from symx.core import *
from symx.core import z3, Ctx
from symx.npproxy import NpProxy, LinalgProxy, shadow
from symx.harness import Case
import symx.harness  # noqa (puts the repo on sys.path)
import wannierberri.wannierisation.kpoint_and_neighbours as KN
import wannierberri.utility as UT
from wannierberri.symmetry.sawf import VoidSymmetrizer

PROPERTY = "C24"
FUNCTIONS = ["wannierberri.wannierisation.kpoint_and_neighbours.Kpoint_and_neighbours.__init__", "Kpoint_and_neighbours.calc_Z",
             "Kpoint_and_neighbours.rotate_to_projections", "Kpoint_and_neighbours.update (localise=True/False, mix_ratio)",
             "Kpoint_and_neighbours.update_Mmn_opt", "wannierberri.utility.get_max_eig", "wannierberri.utility.orthogonalize",
             "wannierberri.wannierisation.wannierise.wannierise (frozen / free / deselected masks from the windows, up to Wannierizer.add_kpoint)"]
BOUNDS = dict(quick=dict(nband="2..4, every frozen/free/deselected pattern with <= 2 free bands, or 3 free bands of which <= 1 Wannier function is built",
                         num_wann="1..2", nnb=2,
                         data="Mmn, amn, neighbour U, wcc phases: arbitrary symbolic complex; wb symbolic > 0; mix_ratio symbolic in (0,1]",
                         steps="__init__ (projection step) + one update (localise=True and False) [+ a second update with Z mixing: nband<=3, <=2 free bands]",
                         eigenvalues="eigh returns pairwise distinct eigenvalues (ties, which only permute equal entries in argsort, are explored in the thorough tier)",
                         windows="wannierise masks: nband 2..4, one k-point, symbolic sorted energies, symbolic nested windows"),
              thorough=dict(nband="2..4, every pattern with <= 3 free bands (num_wann <= 2), <= 2 free bands (num_wann = 3), 4 free bands with one free Wannier function",
                            num_wann="1..3", nnb=2, data="as quick", steps="as quick; second update for <= 2 free bands or one free Wannier function",
                            eigenvalues="ties included for <= 2 free bands", windows="nband 2..5, explicit frozen_states as well"))
EXPLANATION = ("The real Kpoint_and_neighbours (construction = projection step, then update) and the real get_max_eig/orthogonalize run on symbolic overlaps, "
               "projections and neighbour gauges; the three LAPACK calls are replaced by their contracts written with unit-circle atoms (eigh: ascending "
               "eigenvalues + an arbitrary unitary = diag(phases).prod(complex Givens); svd: polar factor), so 'rows of deselected bands vanish', "
               "'(UU+)_ff = 1 for frozen f' and 'U+U = 1' become polynomial identities decided by normal form + z3.  The frozen/free/deselected masks that "
               "wannierise() derives from symbolic band energies and windows are checked against the window definition by z3 on every path.")
ASSUMPTIONS = ["nfrozen <= num_wann <= nfrozen + number of free bands (otherwise the code asserts / no gauge exists)",
               "b-vector weights wb > 0, 0 < mix_ratio <= 1", "no site symmetry (VoidSymmetrizer), mix_ratio_u = 1 (the documented default)",
               "np.linalg.inv of the localisation matrix succeeds (a singular matrix raises LinAlgError: no gauge is produced)",
               "LAPACK contracts: eigh returns ascending eigenvalues and a unitary eigenvector matrix for a Hermitian argument (hermiticity of the argument is "
               "itself an obligation); svd converges and U@VT is the polar factor",
               "windows: outer_min <= froz_min <= froz_max <= outer_max; band energies sorted ascending; explicitly frozen states lie inside the outer window "
               "(wannierise asserts 'Frozen bands should be included in the selected bands')"]
OUTSIDE = ["convergence / optimality of the iteration (which eigenvectors are the best ones), more than two successive updates",
           "site-symmetric runs (Symmetrizer_Uirr / Zirr, U_to_full_BZ), mix_ratio_u != 1 (np.linalg.eig branch), ray-parallel execution",
           "orthogonalize falling back to the un-orthogonalised matrix when LAPACK's SVD does not converge",
           "sizes above the stated bounds; rounding (real-number semantics of the code)"]
STUBS = ["np.linalg.eigh (utility.py): records its argument; returns fresh eigenvalues e_0<=e_1<=.. and an arbitrary unitary diag(phases).G01.G02..G(n-2,n-1) "
         "(complex Givens rotations, unit-circle atoms; completeness of the parametrisation is validated numerically on random unitaries in every run)",
         "np.linalg.svd (utility.py): (A, 1, 1) when A+A normalises exactly to 1 (the polar factor of an isometry is the isometry), (arbitrary unitary, s, 1) "
         "when A is square; any other matrix (never met on the unchanged code) gives an arbitrary isometry supported on the non-zero rows of A",
         "np.linalg.inv (kpoint_and_neighbours.py): an arbitrary complex matrix (only its polar factor is used, which the svd contract replaces by an arbitrary unitary)",
         "np.angle / abs in update_Mmn_opt (centres and spreads bookkeeping): fresh real / non-negative atoms",
         "Wannierizer (wannierise.py): records the masks passed to add_kpoint and stops the run (the k-point objects are covered by the other cases)"]
QUERY_TIMEOUT_MS = dict(quick=20000, thorough=60000)

_cnt = itertools.count()


def phase(name):
    return (SymC.of(1j) * SymC.var(name)).exp()


def unitary(name, n):
    """arbitrary n x n unitary: diag(phases) . G_01 . G_02 ... G_(n-2,n-1), G_ij a complex Givens rotation of columns i, j"""
    U = lift(np.eye(n))
    for i in range(n):
        for j in range(i + 1, n):
            th = SymC.var(f"{name}t{i}{j}")
            c, s, p = th.cos(), th.sin(), phase(f"{name}p{i}{j}")
            ci, cj = U[:, i].copy(), U[:, j].copy()
            U[:, i] = ci * c + cj * (s * p.conjugate())
            U[:, j] = cj * c - ci * (s * p)
    for i in range(n):
        U[i, :] = U[i, :] * phase(f"{name}d{i}")
    return U


def unitary_numeric(n, th, ph, d):
    U = np.eye(n, dtype=complex)
    for i in range(n):
        for j in range(i + 1, n):
            c, s, p = np.cos(th[i, j]), np.sin(th[i, j]), np.exp(1j * ph[i, j])
            ci, cj = U[:, i].copy(), U[:, j].copy()
            U[:, i] = ci * c + cj * (s * np.conj(p))
            U[:, j] = cj * c - ci * (s * p)
    return np.exp(1j * d)[:, None] * U


def decompose(V):
    """parameters (theta, phi, d) with unitary_numeric(...) == V: eliminate V[j,i] with columns i, j in reverse loop order"""
    n = len(V)
    V = V.astype(complex).copy()
    th, ph = np.zeros((n, n)), np.zeros((n, n))
    for i, j in reversed([(i, j) for i in range(n) for j in range(i + 1, n)]):
        a, b = V[j, i], V[j, j]              # (a, b) . G^+ = (0, r):  a c - b s conj(p) = 0
        if abs(a) > 0:
            p = np.exp(1j * (np.angle(a) - np.angle(b))) if abs(b) > 0 else 1.0
            th[i, j] = np.arctan2(abs(a), abs(b))
            ph[i, j] = -np.angle(p)
        c, s, p = np.cos(th[i, j]), np.sin(th[i, j]), np.exp(1j * ph[i, j])
        ci, cj = V[:, i].copy(), V[:, j].copy()  # V <- V . G^+ ,  G^+ = [[c, s p], [-s conj(p), c]]
        V[:, i] = ci * c - cj * (s * np.conj(p))
        V[:, j] = ci * (s * p) + cj * c
    return th, ph, np.angle(np.diag(V)), V


def is_identity(G):
    n = G.shape[0]
    return G.shape == (n, n) and all((SymC.of(G[i, j]) - (1 if i == j else 0)).iszero() for i in range(n) for j in range(n))


class Lin(LinalgProxy):
    """LAPACK by contract (see STUBS)"""
    log = []
    strict = False      # quick tier: eigenvalues pairwise distinct (ties only add paths with identical results: argsort is stable on them)

    def eigh(s, a, *args, **kw):
        if not is_sym(a):
            return s._r.eigh(a, *args, **kw)
        a = np.asarray(a, dtype=object)
        n = a.shape[0]
        k = next(_cnt)
        Lin.log.append(("eigh", a))
        e = symvec(f"eig{k}", (n,))
        if Ctx.cur is not None and n > 1:
            Ctx.cur.assume(*[(e[i].zreal() < e[i + 1].zreal()) if Lin.strict else (e[i].zreal() <= e[i + 1].zreal()) for i in range(n - 1)])
        return e, unitary(f"V{k}", n)

    def svd(s, a, full_matrices=True, **kw):
        if not is_sym(a):
            return s._r.svd(a, full_matrices=full_matrices, **kw)
        if full_matrices:
            raise Inconclusive("svd(full_matrices=True) on a symbolic matrix")
        a = np.asarray(a, dtype=object).view(SymArray)
        n, m = a.shape
        Lin.log.append(("svd", a))
        one = lift(np.eye(m))
        if is_identity(np.conjugate(a.T) @ a):
            return a, lift(np.ones(m)), one
        if n == m:
            k = next(_cnt)
            sv = symvec(f"sv{k}", (m,))
            return unitary(f"W{k}", n), sv, one
        # not reachable on the unchanged code: over-approximation "an arbitrary isometry supported on the non-zero rows of A" (the polar factor is one)
        rows = [i for i in range(n) if not all(SymC.of(x).iszero() for x in a[i])]
        if m <= len(rows) <= 4:
            k = next(_cnt)
            out = lift(np.zeros((n, m)))
            out[rows, :] = unitary(f"W{k}", len(rows))[:, :m]
            return out, symvec(f"sv{k}", (m,)), one
        raise Inconclusive(f"svd contract: {n}x{m} matrix that is not an exact isometry")

    def inv(s, a):
        if not is_sym(a):
            return s._r.inv(a)
        Lin.log.append(("inv", a))
        return symvec(f"inv{next(_cnt)}", np.shape(a), real=False)


class Np(NpProxy):
    def angle(s, x, **kw):
        if not is_sym(x):
            return s._np.angle(x, **kw)
        return symvec(f"angle{next(_cnt)}", np.shape(x))


def _asbool(r):
    """object array of decided booleans -> bool array (as numpy would have produced on concrete input)"""
    if isinstance(r, np.ndarray) and r.dtype == object:
        return np.array([bool(b) for b in r.flat], dtype=bool).reshape(r.shape)
    return r


class NpMasks(NpProxy):
    """np of wannierise.py: logical operations on masks decide their symbolic entries (fork) and return bool arrays"""

    def logical_not(s, x, *a, **k):
        return _asbool(np.logical_not(_asbool(np.asarray(x)), *a, **k))

    def logical_and(s, x, y, *a, **k):
        return _asbool(np.logical_and(_asbool(np.asarray(x)), _asbool(np.asarray(y)), *a, **k))


def abs_stub(x):
    if not is_sym(x):
        return abs(x)
    return symvec(f"abs{next(_cnt)}", np.shape(x))


def install():
    Lin.log = []
    shadow([KN, UT], proxy=Np(linalg=Lin(np.linalg)))
    KN.abs = abs_stub


# ------------------------------------------------------------------------------------------------------------
def patterns(nband, nw_max, free_max):
    """(frozen, free, num_wann): each band frozen 'Z', free 'F' or deselected 'D'"""
    out = []
    for pat in itertools.product("ZFD", repeat=nband):
        nz, nf = pat.count("Z"), pat.count("F")
        if nf > free_max or nz + nf == 0:
            continue
        for nw in range(max(1, nz), min(nw_max, nz + nf) + 1):
            out.append(("".join(pat), nw))
    return out


def neighbour_masks(pat, nnb):
    """neighbour 0 has the masks of the k-point itself, neighbour b the pattern rolled by b"""
    pats = ["".join(np.roll(list(pat), b)) for b in range(nnb)]
    return np.array([[c == "Z" for c in p] for p in pats]), np.array([[c == "F" for c in p] for p in pats])


def check_gauge(rec, U, frozen, free, nw, who, stage):
    U = np.asarray(U, dtype=object).view(SymArray)
    nband = len(frozen)
    rec.concrete(f"{who}: shape", U.shape == (nband, nw), f"{U.shape}", key=f"{stage}: U has the wrong shape")
    if U.shape != (nband, nw):
        return
    desel = ~(frozen | free)
    if desel.any():
        rec.eq(f"{who}: rows of deselected bands are 0", U[desel, :], lift(np.zeros((int(desel.sum()), nw))), key=f"{stage}: weight on a band outside the outer window")
    rec.eq(f"{who}: U+U = 1", np.conjugate(U.T) @ U, lift(np.eye(nw)), key=f"{stage}: columns of U not orthonormal")
    if frozen.any():
        P = U @ np.conjugate(U.T)
        rec.eq(f"{who}: (UU+)_ff = 1 for frozen f", sarr([P[f, f] for f in np.where(frozen)[0]]), lift(np.ones(int(frozen.sum()))),
               key=f"{stage}: frozen state not in the span of U")


def check_lapack_args(rec, who, stage):
    for kind, a in Lin.log:
        if kind == "eigh":
            a = np.asarray(a, dtype=object).view(SymArray)
            rec.eq(f"{who}: argument of eigh is Hermitian", a, np.conjugate(a.T), key=f"{stage}: eigh called with a non-Hermitian matrix")
    Lin.log.clear()


def case_step(rec, nband, nw, pats, nnb, second, strict=False):
    install()
    Lin.strict = strict
    Mmn = symvec("M", (nnb, nband, nband), real=False)
    amn = symvec("A", (nband, nw), real=False)
    Unb = symvec("N", (nnb, nband, nw), real=False)
    Unb2 = symvec("N2", (nnb, nband, nw), real=False)
    ph = symvec("P", (nw, nnb), real=False)
    wb = symvec("wb", (nnb,))
    mix = SymC.var("mix")
    bk = np.array([[0.5, 0.25, 0.125], [-0.25, 0.5, 1.0], [1.0, -1.0, 0.5]])[:nnb]
    ass = [w.zreal() > 0 for w in wb] + [mix.zreal() > 0, mix.zreal() <= 1]
    for pat in pats:
        frozen = np.array([c == "Z" for c in pat])
        free = np.array([c == "F" for c in pat])
        frozen_nb, free_nb = neighbour_masks(pat, nnb)
        for localise in (True, False):
            def body(rec):
                Lin.log.clear()
                rec.witness = lambda env: dict(test="step", pat=pat, nw=nw, nnb=nnb, localise=localise, second=second, Mmn=env.arr(Mmn), amn=env.arr(amn),
                                               Unb=env.arr(Unb), Unb2=env.arr(Unb2), ph=env.arr(ph), wb=[env.val(w) for w in wb], mix=env.val(mix), bk=bk.tolist())
                kp = KN.Kpoint_and_neighbours(Mmn.copy(), frozen.copy(), frozen_nb.copy(), free.copy(), free_nb.copy(), wb.copy(), bk.copy(), 0,
                                              VoidSymmetrizer(), VoidSymmetrizer(), amn.copy())
                check_lapack_args(rec, f"{pat} nW={nw} init", "projection step")
                check_gauge(rec, kp.get_U_opt_full(), frozen, free, nw, f"{pat} nW={nw} init", "projection step")
                U, wcc, r2 = kp.update([Unb[b] for b in range(nnb)], ph.copy(), localise=localise, mix_ratio=mix)
                who = f"{pat} nW={nw} update(localise={localise})"
                check_lapack_args(rec, who, f"update(localise={localise})")
                check_gauge(rec, U, frozen, free, nw, who, f"update(localise={localise})")
                rec.eq(f"{who}: get_U_opt_full() is the returned U", kp.get_U_opt_full(), U, key="update: stored U differs from the returned U")
                if second:
                    U, wcc, r2 = kp.update([Unb2[b] for b in range(nnb)], ph.copy(), localise=localise, mix_ratio=mix)
                    who = f"{pat} nW={nw} second update(localise={localise}, Z mixing)"
                    check_lapack_args(rec, who, f"second update(localise={localise})")
                    check_gauge(rec, U, frozen, free, nw, who, f"second update(localise={localise})")
            rec.explore(body, ass, max_seconds=600)


def case_stub_validation(rec, seed):
    """numeric validation of the LAPACK stand-ins: the Givens parametrisation reaches random unitaries; polar factor of an isometry is itself"""
    rng = np.random.default_rng(seed)
    worst = 0.0
    for n in (1, 2, 3, 4):
        for _ in range(20):
            V = np.linalg.qr(rng.normal(size=(n, n)) + 1j * rng.normal(size=(n, n)))[0]
            th, phi, d, D = decompose(V)
            worst = max(worst, np.abs(unitary_numeric(n, th, phi, d) - V).max(), np.abs(D - np.diag(np.diag(D))).max())
    rec.concrete("Givens parametrisation reproduces random unitaries (n<=4) to 1e-10", worst < 1e-10, f"worst {worst:.1e}", key="stub validation: unitary parametrisation incomplete")
    worst = 0.0
    for n, m in ((3, 2), (4, 2), (2, 2), (4, 3)):
        A = np.linalg.qr(rng.normal(size=(n, m)) + 1j * rng.normal(size=(n, m)))[0]
        worst = max(worst, np.abs(UT.orthogonalize(A) - A).max())
    rec.concrete("real orthogonalize(isometry) == isometry to 1e-10", worst < 1e-10, f"worst {worst:.1e}", key="stub validation: polar factor of an isometry")
    # symbolic: the parametrised unitary is unitary by normal form
    for n in (2, 3):
        W = unitary(f"T{n}", n)
        rec.eq(f"parametrised U({n}) is unitary", np.conjugate(W.T) @ W, lift(np.eye(n)), key="stub validation: parametrised unitary not unitary")


# ------------------------------------------------------------------------------------------------------------
class _Stop(Exception):
    pass


def case_windows(rec, nband, explicit, as_dict=False):
    """the masks wannierise() hands to the k-point objects, from symbolic energies and windows"""
    import wannierberri.wannierisation.wannierise as W
    import wannierberri.symmetry.sawf as SAWF
    shadow([W, UT, SAWF], proxy=NpMasks())      # sawf: VoidSymmetrizer.select_full_blocks copies the (symbolic) masks
    E = symvec("E", (nband,))
    fmin, fmax, omin, omax = [SymC.var(n) for n in ("froz_min", "froz_max", "outer_min", "outer_max")]
    ass = [E[i].zreal() <= E[i + 1].zreal() for i in range(nband - 1)] + [omin.zreal() <= fmin.zreal(), fmin.zreal() <= fmax.zreal(), fmax.zreal() <= omax.zreal()]
    ass += [c for ib in explicit for c in (omin.zreal() <= E[ib].zreal(), E[ib].zreal() <= omax.zreal())]   # "Frozen bands should be included in the selected bands"
    got = {}

    class WannierizerStub:
        def __init__(s, **kw):
            pass

        def add_kpoint(s, **kw):
            got.update(frozen=np.array(kw["frozen"], dtype=bool), free=np.array(kw["free"], dtype=bool))

        def get_U_opt_full(s):
            raise _Stop()
    W.Wannierizer = WannierizerStub

    class Obj:
        pass
    wd = Obj()
    wd.irreducible = False
    wd.mmn = Obj()
    wd.mmn.NK, wd.mmn.NB = 1, nband
    wd.mmn.data = {0: np.zeros((1, nband, nband))}
    wd.eig = Obj()
    wd.amn = Obj()
    wd.amn.NW, wd.amn.data, wd.amn.positions = 1, {0: np.zeros((nband, 1))}, None
    wd.chk = Obj()
    wd.chk.wannier_centers_cart = None
    wd.has_file = lambda name: True
    wd.bkvec = Obj()
    wd.bkvec.neighbours = np.array([[0]])
    wd.bkvec.bk_cart, wd.bkvec.wk, wd.bkvec.real_lattice = np.array([[0., 0, 1]]), np.array([1.0]), np.eye(3)
    import inspect
    thr = inspect.signature(UT.select_window_degen).parameters["thresh"].default    # wannierise() uses the default degeneracy threshold

    def body(rec):
        got.clear()
        wd.eig.data = {0: E.copy()}
        rec.witness = lambda env: dict(test="windows", E=[env.val(e) for e in E], win=[env.val(x) for x in (fmin, fmax, omin, omax)], explicit=explicit, as_dict=as_dict)
        try:
            W.wannierise(wd, froz_min=fmin, froz_max=fmax, outer_min=omin, outer_max=omax, frozen_states=({0: list(explicit)} if as_dict else list(explicit)),
                         parallel=False, sitesym=False)
        except _Stop:
            pass
        frozen, free = got["frozen"], got["free"]
        zb = lambda b: b.t if isinstance(b, SymB) else z3.BoolVal(bool(b))
        inw = lambda i, lo, hi: z3.And(zb(E[i] >= lo), zb(E[i] <= hi))
        gap = [zb(E[i + 1] - E[i] < thr) for i in range(nband - 1)]
        chain = lambda i, j: z3.And(*[gap[k] for k in range(min(i, j), max(i, j))]) if i != j else z3.BoolVal(True)
        facts_out, facts_fr, facts_in = [], [], []
        for i in range(nband):
            outer_i = z3.Or(*[z3.And(inw(j, omin, omax), chain(i, j)) for j in range(nband)])     # in the outer window, or degenerate with a band that is
            facts_out.append(z3.Implies(z3.Not(outer_i), z3.BoolVal(not frozen[i] and not free[i])) if i not in explicit else z3.BoolVal(True))
            froz_i = z3.And(inw(i, fmin, fmax), *[z3.Implies(chain(i, j), inw(j, fmin, fmax)) for j in range(nband)])
            facts_fr.append(z3.BoolVal(bool(frozen[i])) == (froz_i if i not in explicit else z3.BoolVal(True)))
            facts_in.append(z3.Implies(z3.And(outer_i, z3.BoolVal(not frozen[i])), z3.BoolVal(bool(free[i]))))
        rec.concrete("frozen and free are disjoint", not (frozen & free).any(), f"{frozen} {free}", key="wannierise: a band is both frozen and free")
        rec.fact("bands outside the outer window (and not degenerate with a band inside) are neither frozen nor free", z3.And(*facts_out),
                 key="wannierise: band outside the outer window is selected")
        rec.fact("frozen = whole multiplets inside the frozen window (+ explicit frozen_states)", z3.And(*facts_fr), key="wannierise: frozen mask differs from the frozen window")
        rec.fact("non-frozen bands of the outer window are free", z3.And(*facts_in), key="wannierise: band of the outer window is dropped")
    rec.explore(body, ass)


def plan(tier):
    """[(nband, num_wann, second update?, distinct eigenvalues only?, [patterns])] - the cost is driven by the number of free bands (size of the
    arbitrary eigenvector matrix), the number of columns taken from it and num_wann (size of the arbitrary polar factor)"""
    q = tier == "quick"
    groups = {}
    for nband in (2, 3, 4):
        for pat, nw in patterns(nband, 3, 4):
            nz, nf = pat.count("Z"), pat.count("F")
            nwf = nw - nz
            if q:
                ok = nw <= 2 and (nf <= 2 or (nf == 3 and nwf <= 1))
                second, strict = nf <= 2 and nband <= 3, True
            else:
                ok = (nw <= 2 and nf <= 3) or (nw == 3 and nf <= 2) or (nf == 4 and nwf <= 1 and nw <= 2)
                second = nw <= 2 and (nf <= 2 or (nf == 3 and nwf <= 1))
                strict = not (nf <= 2 and nw <= 2)
            if ok:
                groups.setdefault((nband, nw, second, strict), []).append(pat)
    return groups


def cases(tier, seed):
    q = tier == "quick"
    out = [Case("stub validation", case_stub_validation, dict(seed=seed))]
    for (nband, nw, second, strict), sel in sorted(plan(tier).items()):
        nchunk = max(1, len(sel) // (8 if q else 3))
        for k in range(nchunk):
            out.append(Case(f"step nband={nband} nW={nw} second={second} distinct-eigenvalues={strict} chunk {k}", case_step,
                            dict(nband=nband, nw=nw, pats=sel[k::nchunk], nnb=2, second=second, strict=strict), timeout=1500))
    for nband in ((2, 3, 4) if q else (2, 3, 4, 5)):
        out.append(Case(f"windows nband={nband}", case_windows, dict(nband=nband, explicit=()), timeout=1100))
        if not q or nband == 3:
            out.append(Case(f"windows nband={nband} frozen_states=[{nband - 2}]", case_windows, dict(nband=nband, explicit=(nband - 2,)), timeout=1100))
            out.append(Case(f"windows nband={nband} frozen_states={{0: [{nband - 1}]}}", case_windows, dict(nband=nband, explicit=(nband - 1,), as_dict=True), timeout=1100))
    return out


# ------------------------------------------------------------------------------------------------------------
def _fill(a, rng):
    a = np.asarray(a, dtype=complex)
    if a.size and np.abs(a).max() == 0:         # the model left these atoms free: any value will do, zeros would make LAPACK's input singular
        a = rng.normal(size=a.shape) + 1j * rng.normal(size=a.shape)
    return a


def replay(rec):
    """real Kpoint_and_neighbours / wannierise with real LAPACK on the model's doubles"""
    w = rec["witness"]
    if w["test"] == "windows":
        return _replay_windows(w)
    bad, note = _replay_step(w, 0.0)
    if bad is None:      # the model's (mostly zero) overlaps make the localisation matrix singular: same input, generically perturbed
        bad, note = _replay_step(w, 1e-2)
        note += " [witness perturbed by 1e-2: the model's overlaps give a singular localisation matrix]"
    return bool(bad), f"pattern {w['pat']} (Z frozen, F free, D deselected) num_wann={w['nw']} localise={w['localise']}: " + ("; ".join(bad or []) or "all gauge conditions hold to 1e-9") + note


def _replay_step(w, eps):
    from symx.harness import unarr
    rng = np.random.default_rng(1)
    pat, nw, nnb = w["pat"], w["nw"], w["nnb"]
    frozen = np.array([c == "Z" for c in pat])
    free = np.array([c == "F" for c in pat])
    frozen_nb, free_nb = neighbour_masks(pat, nnb)
    Mmn, amn, Unb, Unb2, ph = [_fill(unarr(w[k]), rng) for k in ("Mmn", "amn", "Unb", "Unb2", "ph")]
    if eps:
        Mmn, amn, Unb, Unb2 = [a + eps * (rng.normal(size=a.shape) + 1j * rng.normal(size=a.shape)) for a in (Mmn, amn, Unb, Unb2)]
    wb = np.array([x if x > 0 else 1.0 for x in w["wb"]])
    mix = w["mix"] if 0 < w["mix"] <= 1 else 0.5
    nonherm = []
    real_eigh = np.linalg.eigh

    def eigh_obs(a, *args, **kw):
        a = np.asarray(a)
        if a.size:
            nonherm.append(float(np.abs(a - a.conj().T).max() / (1e-300 + np.abs(a).max())))
        return real_eigh(a, *args, **kw)
    bad = []
    singular = False

    def gauge(U, who):
        U = np.asarray(U)
        if U.shape != (len(pat), nw):
            bad.append(f"{who}: shape {U.shape}")
            return
        sel = frozen | free
        if np.abs(U[~sel]).max(initial=0) > 1e-9:
            bad.append(f"{who}: |U[deselected]|={np.abs(U[~sel]).max():.2e}")
        e = np.abs(U.conj().T @ U - np.eye(nw)).max()
        if e > 1e-9:
            bad.append(f"{who}: |U+U-1|={e:.2e}")
        P = np.diag(U @ U.conj().T).real
        if frozen.any() and np.abs(P[frozen] - 1).max() > 1e-9:
            bad.append(f"{who}: (UU+)_ff={P[frozen].tolist()}")
    np.linalg.eigh = eigh_obs
    try:
        kp = KN.Kpoint_and_neighbours(Mmn.copy(), frozen.copy(), frozen_nb.copy(), free.copy(), free_nb.copy(), wb.copy(), np.array(w["bk"]), 0,
                                      VoidSymmetrizer(), VoidSymmetrizer(), amn.copy())
        gauge(kp.get_U_opt_full(), "init")
        U, _, _ = kp.update([Unb[b] for b in range(nnb)], ph.copy(), localise=w["localise"], mix_ratio=mix)
        gauge(U, "update")
        if np.shape(U) == np.shape(kp.get_U_opt_full()) and np.abs(U - kp.get_U_opt_full()).max() > 1e-12:
            bad.append("stored U differs from the returned U")
        if w["second"]:
            U, _, _ = kp.update([Unb2[b] for b in range(nnb)], ph.copy(), localise=w["localise"], mix_ratio=mix)
            gauge(U, "second update")
    except np.linalg.LinAlgError:
        singular = True
    except Exception as e:
        bad.append(f"raises {type(e).__name__}: {str(e)[:120]}")
    finally:
        np.linalg.eigh = real_eigh
    if nonherm and max(nonherm) > 1e-9:
        bad.append(f"eigh called with a non-Hermitian matrix (relative asymmetry {max(nonherm):.2e})")
    if singular and not bad:
        if not eps:
            return None, ""
        bad.append("np.linalg.inv raises LinAlgError (singular localisation matrix) even for generically perturbed overlaps: no gauge is produced")
    return bad, ""


def _replay_windows(w):
    import wannierberri.wannierisation.wannierise as W
    E = np.array(w["E"], dtype=float)
    nband = len(E)
    fmin, fmax, omin, omax = w["win"]
    explicit = list(w["explicit"])
    got = {}

    class WannierizerStub:
        def __init__(s, **kw):
            pass

        def add_kpoint(s, **kw):
            got.update(frozen=np.array(kw["frozen"], dtype=bool), free=np.array(kw["free"], dtype=bool))

        def get_U_opt_full(s):
            raise _Stop()

    class Obj:
        pass
    wd = Obj()
    wd.irreducible = False
    wd.mmn = Obj()
    wd.mmn.NK, wd.mmn.NB, wd.mmn.data = 1, nband, {0: np.zeros((1, nband, nband))}
    wd.eig = Obj()
    wd.eig.data = {0: E}
    wd.amn = Obj()
    wd.amn.NW, wd.amn.data, wd.amn.positions = 1, {0: np.zeros((nband, 1))}, None
    wd.chk = Obj()
    wd.chk.wannier_centers_cart = None
    wd.has_file = lambda name: True
    wd.bkvec = Obj()
    wd.bkvec.neighbours = np.array([[0]])
    wd.bkvec.bk_cart, wd.bkvec.wk, wd.bkvec.real_lattice = np.array([[0., 0, 1]]), np.array([1.0]), np.eye(3)
    real = W.Wannierizer
    W.Wannierizer = WannierizerStub
    import io, contextlib
    try:
        with contextlib.redirect_stdout(io.StringIO()):
            W.wannierise(wd, froz_min=fmin, froz_max=fmax, outer_min=omin, outer_max=omax, frozen_states=({0: explicit} if w.get("as_dict") else explicit),
                            parallel=False, sitesym=False)
    except _Stop:
        pass
    except Exception as e:
        return True, f"E={E.tolist()} windows={w['win']}: raises {type(e).__name__}: {str(e)[:150]}"
    finally:
        W.Wannierizer = real
    frozen, free = got["frozen"], got["free"]
    gap = (E[1:] - E[:-1]) < 1e-2
    chain = lambda i, j: all(gap[min(i, j):max(i, j)])
    inw = lambda i, lo, hi: lo <= E[i] <= hi
    bad = []
    for i in range(nband):
        outer_i = any(inw(j, omin, omax) and chain(i, j) for j in range(nband))
        froz_i = (inw(i, fmin, fmax) and all(inw(j, fmin, fmax) for j in range(nband) if chain(i, j))) or i in explicit
        if frozen[i] and free[i]:
            bad.append(f"band {i} both frozen and free")
        if not outer_i and i not in explicit and (frozen[i] or free[i]):
            bad.append(f"band {i} outside the outer window is selected")
        if bool(frozen[i]) != bool(froz_i):
            bad.append(f"band {i}: frozen={bool(frozen[i])}, frozen window says {bool(froz_i)}")
        if outer_i and not frozen[i] and not free[i]:
            bad.append(f"band {i} of the outer window is dropped")
    return bool(bad), f"E={E.tolist()} frozen window=[{fmin},{fmax}] outer window=[{omin},{omax}] frozen_states={explicit}: frozen={frozen.tolist()} free={free.tolist()} " + "; ".join(bad)
