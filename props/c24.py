"""C24 — wannierisation produces a valid gauge that honours the windows (one update step under LAPACK contracts)"""
import itertools
import numpy as np
from symx.core import *
from symx.core import z3, Ctx
from symx.npproxy import NpProxy, LinalgProxy, shadow
from symx.harness import Case
import symx.harness  # noqa (puts the repo on sys.path)
import wannierberri.wannierisation.kpoint_and_neighbours as KN
import wannierberri.utility as UT
from wannierberri.symmetry.sawf import VoidSymmetrizer

PROPERTY = "C24"
FUNCTIONS = ["wannierberri.wannierisation.kpoint_and_neighbours.Kpoint_and_neighbours.__init__", "Kpoint_and_neighbours.calc_Z",
             "Kpoint_and_neighbours.rotate_to_projections", "Kpoint_and_neighbours.update (localise=True/False, mix_ratio)",
             "Kpoint_and_neighbours.update_Mmn_opt", "wannierberri.utility.get_max_eig", "wannierberri.utility.orthogonalize",
             "wannierberri.wannierisation.wannierise.wannierise (frozen / free / deselected masks from the windows, up to Wannierizer.add_kpoint)",
             "wannierberri.wannierisation.wannierizer.Wannierizer (serial: add_kpoint, get_U_opt_full, update_Unb_all, update_all, update_wcc; thorough tier)"]
BOUNDS = dict(quick=dict(nband="2..4, every frozen/free/deselected pattern with <= 2 free bands, or 3 free bands of which <= 1 Wannier function is built",
                         num_wann="1..2", nnb=2,
                         data="Mmn, amn, neighbour U, wcc phases: arbitrary symbolic complex; wb symbolic > 0; mix_ratio symbolic in (0,1]",
                         steps="__init__ (projection step) + one update (localise=True and False) [+ a second update with Z mixing: nband<=3, <=2 free bands]",
                         eigenvalues="eigh returns pairwise distinct eigenvalues (ties, which only permute equal entries in argsort, are explored in the thorough tier)",
                         windows="wannierise masks: nband 2..4, one k-point, symbolic sorted energies, symbolic nested windows"),
              thorough=dict(nband="2..4: every pattern with <= 3 free bands (num_wann <= 2), <= 2 free bands (num_wann = 3), 4 free bands with one free Wannier function; "
                                  "5: every pattern with <= 2 free bands (num_wann <= 2), every second one for num_wann = 3, 8 patterns with num_wann = 4",
                            num_wann="1..4", nnb="2; 3 (nband <= 4) and 4 (nband <= 3) with <= 2 free bands", data="as quick",
                            steps="projection step + up to three composed updates (Z mixing with symbolic mix_ratio) for nnb = 3, 4; two for nnb = 2 where affordable",
                            eigenvalues="ties included for <= 2 free bands, nband <= 4, nnb = 2",
                            kpoints="real serial Wannierizer on rings of 2 and 3 k-points with different masks per k-point (214 rings, nband 2..4, num_wann 1..2): "
                                    "projection step, update_Unb_all, 2-3 update_all iterations in which every neighbour gauge is the U the code produced before",
                            windows="nband 2..6 symbolic nested windows; list and dict frozen_states (also a dict entry for an absent k-point); default outer window, "
                                    "default / empty (froz_min > froz_max) frozen window, all defaults; init = amn / random / restart; two k-points (nband 2..3) and "
                                    "three k-points (nband 2) incl. 'the neighbour masks passed are those of the neighbouring k-point'"))
EXPLANATION = ("The real Kpoint_and_neighbours (construction = projection step, then update) and the real get_max_eig/orthogonalize run on symbolic overlaps, "
               "projections and neighbour gauges; the three LAPACK calls are replaced by their contracts written with unit-circle atoms (eigh: ascending "
               "eigenvalues + an arbitrary unitary = diag(phases).prod(complex Givens); svd: polar factor), so 'rows of deselected bands vanish', "
               "'(UU+)_ff = 1 for frozen f' and 'U+U = 1' become polynomial identities decided by normal form + z3.  The frozen/free/deselected masks that "
               "wannierise() derives from symbolic band energies and windows are checked against the window definition by z3 on every path.")
ASSUMPTIONS = ["nfrozen <= num_wann <= nfrozen + number of free bands (otherwise the code asserts / no gauge exists)",
               "b-vector weights wb > 0, 0 < mix_ratio <= 1", "no site symmetry (VoidSymmetrizer), mix_ratio_u = 1 (the documented default)",
               "np.linalg.inv of the localisation matrix succeeds (a singular matrix raises LinAlgError: no gauge is produced)",
               "LAPACK contracts: eigh returns ascending eigenvalues and a unitary eigenvector matrix for a Hermitian argument (hermiticity of the argument is "
               "itself an obligation); svd converges and U@VT is the polar factor",
               "windows: outer_min <= froz_min <= froz_max <= outer_max; band energies sorted ascending; explicitly frozen states lie inside the outer window "
               "(wannierise asserts 'Frozen bands should be included in the selected bands')"]
OUTSIDE = ["convergence / optimality of the iteration (which eigenvectors are the best ones), more than three successive updates",
           "site-symmetric runs (Symmetrizer_Uirr / Zirr, U_to_full_BZ), mix_ratio_u != 1 (np.linalg.eig branch), ray-parallel execution",
           "orthogonalize falling back to the un-orthogonalised matrix when LAPACK's SVD does not converge",
           "sizes above the stated bounds; rounding (real-number semantics of the code)"]
STUBS = ["np.linalg.eigh (utility.py): records its argument; returns fresh eigenvalues e_0<=e_1<=.. and an arbitrary unitary diag(phases).G01.G02..G(n-2,n-1) "
         "(complex Givens rotations, unit-circle atoms; completeness of the parametrisation is validated numerically on random unitaries in every run)",
         "np.linalg.svd (utility.py): (A, 1, 1) when A+A normalises exactly to 1 (the polar factor of an isometry is the isometry), (arbitrary unitary, s, 1) "
         "when A is square; any other matrix (never met on the unchanged code) gives an arbitrary isometry supported on the non-zero rows of A",
         "np.linalg.inv (kpoint_and_neighbours.py): an arbitrary complex matrix (only its polar factor is used, which the svd contract replaces by an arbitrary unitary)",
         "np.angle / abs in update_Mmn_opt (centres and spreads bookkeeping): fresh real / non-negative atoms",
         "Wannierizer (wannierise.py): records the masks passed to add_kpoint and stops the run (the k-point objects are covered by the other cases)"]
QUERY_TIMEOUT_MS = dict(quick=20000, thorough=60000)

_cnt = itertools.count()


def phase(name):
    return (SymC.of(1j) * SymC.var(name)).exp()


def unitary(name, n):
    """arbitrary n x n unitary: diag(phases) . G_01 . G_02 ... G_(n-2,n-1), G_ij a complex Givens rotation of columns i, j"""
    U = lift(np.eye(n))
    for i in range(n):
        for j in range(i + 1, n):
            th = SymC.var(f"{name}t{i}{j}")
            c, s, p = th.cos(), th.sin(), phase(f"{name}p{i}{j}")
            ci, cj = U[:, i].copy(), U[:, j].copy()
            U[:, i] = ci * c + cj * (s * p.conjugate())
            U[:, j] = cj * c - ci * (s * p)
    for i in range(n):
        U[i, :] = U[i, :] * phase(f"{name}d{i}")
    return U


def unitary_numeric(n, th, ph, d):
    U = np.eye(n, dtype=complex)
    for i in range(n):
        for j in range(i + 1, n):
            c, s, p = np.cos(th[i, j]), np.sin(th[i, j]), np.exp(1j * ph[i, j])
            ci, cj = U[:, i].copy(), U[:, j].copy()
            U[:, i] = ci * c + cj * (s * np.conj(p))
            U[:, j] = cj * c - ci * (s * p)
    return np.exp(1j * d)[:, None] * U


def decompose(V):
    """parameters (theta, phi, d) with unitary_numeric(...) == V: eliminate V[j,i] with columns i, j in reverse loop order"""
    n = len(V)
    V = V.astype(complex).copy()
    th, ph = np.zeros((n, n)), np.zeros((n, n))
    for i, j in reversed([(i, j) for i in range(n) for j in range(i + 1, n)]):
        a, b = V[j, i], V[j, j]              # (a, b) . G^+ = (0, r):  a c - b s conj(p) = 0
        if abs(a) > 0:
            p = np.exp(1j * (np.angle(a) - np.angle(b))) if abs(b) > 0 else 1.0
            th[i, j] = np.arctan2(abs(a), abs(b))
            ph[i, j] = -np.angle(p)
        c, s, p = np.cos(th[i, j]), np.sin(th[i, j]), np.exp(1j * ph[i, j])
        ci, cj = V[:, i].copy(), V[:, j].copy()  # V <- V . G^+ ,  G^+ = [[c, s p], [-s conj(p), c]]
        V[:, i] = ci * c - cj * (s * np.conj(p))
        V[:, j] = ci * (s * p) + cj * c
    return th, ph, np.angle(np.diag(V)), V


def is_identity(G):
    n = G.shape[0]
    return G.shape == (n, n) and all((SymC.of(G[i, j]) - (1 if i == j else 0)).iszero() for i in range(n) for j in range(n))


class Lin(LinalgProxy):
    """LAPACK by contract (see STUBS)"""
    log = []
    strict = False      # quick tier: eigenvalues pairwise distinct (ties only add paths with identical results: argsort is stable on them)

    def eigh(s, a, *args, **kw):
        if not is_sym(a):
            return s._r.eigh(a, *args, **kw)
        a = np.asarray(a, dtype=object)
        n = a.shape[0]
        k = next(_cnt)
        Lin.log.append(("eigh", a))
        e = symvec(f"eig{k}", (n,))
        if Ctx.cur is not None and n > 1:
            Ctx.cur.assume(*[(e[i].zreal() < e[i + 1].zreal()) if Lin.strict else (e[i].zreal() <= e[i + 1].zreal()) for i in range(n - 1)])
        return e, unitary(f"V{k}", n)

    def svd(s, a, full_matrices=True, **kw):
        if not is_sym(a):
            return s._r.svd(a, full_matrices=full_matrices, **kw)
        if full_matrices:
            raise Inconclusive("svd(full_matrices=True) on a symbolic matrix")
        a = np.asarray(a, dtype=object).view(SymArray)
        n, m = a.shape
        Lin.log.append(("svd", a))
        one = lift(np.eye(m))
        if is_identity(np.conjugate(a.T) @ a):
            return a, lift(np.ones(m)), one
        if n == m:
            k = next(_cnt)
            sv = symvec(f"sv{k}", (m,))
            return unitary(f"W{k}", n), sv, one
        # not reachable on the unchanged code: over-approximation "an arbitrary isometry supported on the non-zero rows of A" (the polar factor is one)
        rows = [i for i in range(n) if not all(SymC.of(x).iszero() for x in a[i])]
        if m <= len(rows) <= 4:
            k = next(_cnt)
            out = lift(np.zeros((n, m)))
            out[rows, :] = unitary(f"W{k}", len(rows))[:, :m]
            return out, symvec(f"sv{k}", (m,)), one
        raise Inconclusive(f"svd contract: {n}x{m} matrix that is not an exact isometry")

    def inv(s, a):
        if not is_sym(a):
            return s._r.inv(a)
        Lin.log.append(("inv", a))
        return symvec(f"inv{next(_cnt)}", np.shape(a), real=False)


class Np(NpProxy):
    def angle(s, x, **kw):
        if not is_sym(x):
            return s._np.angle(x, **kw)
        return symvec(f"angle{next(_cnt)}", np.shape(x))


def _asbool(r):
    """object array of decided booleans -> bool array (as numpy would have produced on concrete input)"""
    if isinstance(r, np.ndarray) and r.dtype == object:
        return np.array([bool(b) for b in r.flat], dtype=bool).reshape(r.shape)
    return r


class NpMasks(NpProxy):
    """np of wannierise.py: logical operations on masks decide their symbolic entries (fork) and return bool arrays"""

    def logical_not(s, x, *a, **k):
        return _asbool(np.logical_not(_asbool(np.asarray(x)), *a, **k))

    def logical_and(s, x, y, *a, **k):
        return _asbool(np.logical_and(_asbool(np.asarray(x)), _asbool(np.asarray(y)), *a, **k))


def abs_stub(x):
    if not is_sym(x):
        return abs(x)
    return symvec(f"abs{next(_cnt)}", np.shape(x))


def install():
    Lin.log = []
    shadow([KN, UT], proxy=Np(linalg=Lin(np.linalg)))
    KN.abs = abs_stub


# ------------------------------------------------------------------------------------------------------------
def patterns(nband, nw_max, free_max):
    """(frozen, free, num_wann): each band frozen 'Z', free 'F' or deselected 'D'"""
    out = []
    for pat in itertools.product("ZFD", repeat=nband):
        nz, nf = pat.count("Z"), pat.count("F")
        if nf > free_max or nz + nf == 0:
            continue
        for nw in range(max(1, nz), min(nw_max, nz + nf) + 1):
            out.append(("".join(pat), nw))
    return out


def neighbour_masks(pat, nnb):
    """neighbour 0 has the masks of the k-point itself, neighbour b the pattern rolled by b"""
    pats = ["".join(np.roll(list(pat), b)) for b in range(nnb)]
    return np.array([[c == "Z" for c in p] for p in pats]), np.array([[c == "F" for c in p] for p in pats])


def check_gauge(rec, U, frozen, free, nw, who, stage):
    U = np.asarray(U, dtype=object).view(SymArray)
    nband = len(frozen)
    rec.concrete(f"{who}: shape", U.shape == (nband, nw), f"{U.shape}", key=f"{stage}: U has the wrong shape")
    if U.shape != (nband, nw):
        return
    desel = ~(frozen | free)
    if desel.any():
        rec.eq(f"{who}: rows of deselected bands are 0", U[desel, :], lift(np.zeros((int(desel.sum()), nw))), key=f"{stage}: weight on a band outside the outer window")
    rec.eq(f"{who}: U+U = 1", np.conjugate(U.T) @ U, lift(np.eye(nw)), key=f"{stage}: columns of U not orthonormal")
    if frozen.any():
        P = U @ np.conjugate(U.T)
        rec.eq(f"{who}: (UU+)_ff = 1 for frozen f", sarr([P[f, f] for f in np.where(frozen)[0]]), lift(np.ones(int(frozen.sum()))),
               key=f"{stage}: frozen state not in the span of U")


def check_lapack_args(rec, who, stage):
    for kind, a in Lin.log:
        if kind == "eigh":
            a = np.asarray(a, dtype=object).view(SymArray)
            rec.eq(f"{who}: argument of eigh is Hermitian", a, np.conjugate(a.T), key=f"{stage}: eigh called with a non-Hermitian matrix")
    Lin.log.clear()


def case_step(rec, nband, nw, pats, nnb, second, strict=False, third=False):
    install()
    Lin.strict = strict
    Mmn = symvec("M", (nnb, nband, nband), real=False)
    amn = symvec("A", (nband, nw), real=False)
    Unb = symvec("N", (nnb, nband, nw), real=False)
    Unb2 = symvec("N2", (nnb, nband, nw), real=False)
    ph = symvec("P", (nw, nnb), real=False)
    wb = symvec("wb", (nnb,))
    mix = SymC.var("mix")
    bk = np.array([[0.5, 0.25, 0.125], [-0.25, 0.5, 1.0], [1.0, -1.0, 0.5], [0.75, 0.5, -0.25]])[:nnb]
    ass = [w.zreal() > 0 for w in wb] + [mix.zreal() > 0, mix.zreal() <= 1]
    for pat in pats:
        frozen = np.array([c == "Z" for c in pat])
        free = np.array([c == "F" for c in pat])
        frozen_nb, free_nb = neighbour_masks(pat, nnb)
        for localise in (True, False):
            def body(rec):
                Lin.log.clear()
                rec.witness = lambda env: dict(test="step", pat=pat, nw=nw, nnb=nnb, localise=localise, second=second, third=third, Mmn=env.arr(Mmn), amn=env.arr(amn),
                                               Unb=env.arr(Unb), Unb2=env.arr(Unb2), ph=env.arr(ph), wb=[env.val(w) for w in wb], mix=env.val(mix), bk=bk.tolist())
                kp = KN.Kpoint_and_neighbours(Mmn.copy(), frozen.copy(), frozen_nb.copy(), free.copy(), free_nb.copy(), wb.copy(), bk.copy(), 0,
                                              VoidSymmetrizer(), VoidSymmetrizer(), amn.copy())
                check_lapack_args(rec, f"{pat} nW={nw} init", "projection step")
                check_gauge(rec, kp.get_U_opt_full(), frozen, free, nw, f"{pat} nW={nw} init", "projection step")
                U, wcc, r2 = kp.update([Unb[b] for b in range(nnb)], ph.copy(), localise=localise, mix_ratio=mix)
                who = f"{pat} nW={nw} update(localise={localise})"
                check_lapack_args(rec, who, f"update(localise={localise})")
                check_gauge(rec, U, frozen, free, nw, who, f"update(localise={localise})")
                rec.eq(f"{who}: get_U_opt_full() is the returned U", kp.get_U_opt_full(), U, key="update: stored U differs from the returned U")
                if second:
                    U, wcc, r2 = kp.update([Unb2[b] for b in range(nnb)], ph.copy(), localise=localise, mix_ratio=mix)
                    who = f"{pat} nW={nw} second update(localise={localise}, Z mixing)"
                    check_lapack_args(rec, who, f"second update(localise={localise})")
                    check_gauge(rec, U, frozen, free, nw, who, f"second update(localise={localise})")
                if third:
                    U, wcc, r2 = kp.update([Unb[b] for b in range(nnb)], ph.copy(), localise=localise, mix_ratio=mix)
                    who = f"{pat} nW={nw} third update(localise={localise}, Z mixing)"
                    check_lapack_args(rec, who, f"third update(localise={localise})")
                    check_gauge(rec, U, frozen, free, nw, who, f"third update(localise={localise})")
            rec.explore(body, ass, max_seconds=3000)


def case_stub_validation(rec, seed):
    """numeric validation of the LAPACK stand-ins: the Givens parametrisation reaches random unitaries; polar factor of an isometry is itself"""
    rng = np.random.default_rng(seed)
    worst = 0.0
    for n in (1, 2, 3, 4):
        for _ in range(20):
            V = np.linalg.qr(rng.normal(size=(n, n)) + 1j * rng.normal(size=(n, n)))[0]
            th, phi, d, D = decompose(V)
            worst = max(worst, np.abs(unitary_numeric(n, th, phi, d) - V).max(), np.abs(D - np.diag(np.diag(D))).max())
    rec.concrete("Givens parametrisation reproduces random unitaries (n<=4) to 1e-10", worst < 1e-10, f"worst {worst:.1e}", key="stub validation: unitary parametrisation incomplete")
    worst = 0.0
    for n, m in ((3, 2), (4, 2), (2, 2), (4, 3)):
        A = np.linalg.qr(rng.normal(size=(n, m)) + 1j * rng.normal(size=(n, m)))[0]
        worst = max(worst, np.abs(UT.orthogonalize(A) - A).max())
    rec.concrete("real orthogonalize(isometry) == isometry to 1e-10", worst < 1e-10, f"worst {worst:.1e}", key="stub validation: polar factor of an isometry")
    # symbolic: the parametrised unitary is unitary by normal form
    for n in (2, 3):
        W = unitary(f"T{n}", n)
        rec.eq(f"parametrised U({n}) is unitary", np.conjugate(W.T) @ W, lift(np.eye(n)), key="stub validation: parametrised unitary not unitary")


# ------------------------------------------------------------------------------------------------------------
class _Stop(Exception):
    pass


def case_windows(rec, nband, explicit, as_dict=False):
    """the masks wannierise() hands to the k-point objects, from symbolic energies and windows"""
    import wannierberri.wannierisation.wannierise as W
    import wannierberri.symmetry.sawf as SAWF
    shadow([W, UT, SAWF], proxy=NpMasks())      # sawf: VoidSymmetrizer.select_full_blocks copies the (symbolic) masks
    E = symvec("E", (nband,))
    fmin, fmax, omin, omax = [SymC.var(n) for n in ("froz_min", "froz_max", "outer_min", "outer_max")]
    ass = [E[i].zreal() <= E[i + 1].zreal() for i in range(nband - 1)] + [omin.zreal() <= fmin.zreal(), fmin.zreal() <= fmax.zreal(), fmax.zreal() <= omax.zreal()]
    ass += [c for ib in explicit for c in (omin.zreal() <= E[ib].zreal(), E[ib].zreal() <= omax.zreal())]   # "Frozen bands should be included in the selected bands"
    got = {}

    class WannierizerStub:
        def __init__(s, **kw):
            pass

        def add_kpoint(s, **kw):
            got.update(frozen=np.array(kw["frozen"], dtype=bool), free=np.array(kw["free"], dtype=bool))

        def get_U_opt_full(s):
            raise _Stop()
    W.Wannierizer = WannierizerStub

    class Obj:
        pass
    wd = Obj()
    wd.irreducible = False
    wd.mmn = Obj()
    wd.mmn.NK, wd.mmn.NB = 1, nband
    wd.mmn.data = {0: np.zeros((1, nband, nband))}
    wd.eig = Obj()
    wd.amn = Obj()
    wd.amn.NW, wd.amn.data, wd.amn.positions = 1, {0: np.zeros((nband, 1))}, None
    wd.chk = Obj()
    wd.chk.wannier_centers_cart = None
    wd.has_file = lambda name: True
    wd.bkvec = Obj()
    wd.bkvec.neighbours = np.array([[0]])
    wd.bkvec.bk_cart, wd.bkvec.wk, wd.bkvec.real_lattice = np.array([[0., 0, 1]]), np.array([1.0]), np.eye(3)
    import inspect
    thr = inspect.signature(UT.select_window_degen).parameters["thresh"].default    # wannierise() uses the default degeneracy threshold

    def body(rec):
        got.clear()
        wd.eig.data = {0: E.copy()}
        rec.witness = lambda env: dict(test="windows", E=[env.val(e) for e in E], win=[env.val(x) for x in (fmin, fmax, omin, omax)], explicit=explicit, as_dict=as_dict)
        try:
            W.wannierise(wd, froz_min=fmin, froz_max=fmax, outer_min=omin, outer_max=omax, frozen_states=({0: list(explicit)} if as_dict else list(explicit)),
                         parallel=False, sitesym=False)
        except _Stop:
            pass
        frozen, free = got["frozen"], got["free"]
        zb = lambda b: b.t if isinstance(b, SymB) else z3.BoolVal(bool(b))
        inw = lambda i, lo, hi: z3.And(zb(E[i] >= lo), zb(E[i] <= hi))
        gap = [zb(E[i + 1] - E[i] < thr) for i in range(nband - 1)]
        chain = lambda i, j: z3.And(*[gap[k] for k in range(min(i, j), max(i, j))]) if i != j else z3.BoolVal(True)
        facts_out, facts_fr, facts_in = [], [], []
        for i in range(nband):
            outer_i = z3.Or(*[z3.And(inw(j, omin, omax), chain(i, j)) for j in range(nband)])     # in the outer window, or degenerate with a band that is
            facts_out.append(z3.Implies(z3.Not(outer_i), z3.BoolVal(not frozen[i] and not free[i])) if i not in explicit else z3.BoolVal(True))
            froz_i = z3.And(inw(i, fmin, fmax), *[z3.Implies(chain(i, j), inw(j, fmin, fmax)) for j in range(nband)])
            facts_fr.append(z3.BoolVal(bool(frozen[i])) == (froz_i if i not in explicit else z3.BoolVal(True)))
            facts_in.append(z3.Implies(z3.And(outer_i, z3.BoolVal(not frozen[i])), z3.BoolVal(bool(free[i]))))
        rec.concrete("frozen and free are disjoint", not (frozen & free).any(), f"{frozen} {free}", key="wannierise: a band is both frozen and free")
        rec.fact("bands outside the outer window (and not degenerate with a band inside) are neither frozen nor free", z3.And(*facts_out),
                 key="wannierise: band outside the outer window is selected")
        rec.fact("frozen = whole multiplets inside the frozen window (+ explicit frozen_states)", z3.And(*facts_fr), key="wannierise: frozen mask differs from the frozen window")
        rec.fact("non-frozen bands of the outer window are free", z3.And(*facts_in), key="wannierise: band of the outer window is dropped")
    rec.explore(body, ass)


def _wandata(NK, nband, E, init):
    """stand-in WannierData with exactly the attributes wannierise() reads before the k-point objects are built"""
    class Obj:
        pass
    wd = Obj()
    wd.irreducible = False
    wd.wannierised = init == "restart"
    wd.mmn = Obj()
    wd.mmn.NK, wd.mmn.NB = NK, nband
    wd.mmn.data = {k: np.zeros((1, nband, nband)) for k in range(NK)}
    wd.eig = Obj()
    wd.eig.data = {k: E[k] for k in range(NK)}
    wd.amn = Obj()
    wd.amn.NW, wd.amn.data, wd.amn.positions = 1, {k: np.zeros((nband, 1)) for k in range(NK)}, None
    wd.chk = Obj()
    wd.chk.wannier_centers_cart, wd.chk.num_wann, wd.chk.v_matrix = None, 1, {k: np.zeros((nband, 1)) for k in range(NK)}
    wd.has_file = lambda name: True
    wd.bkvec = Obj()
    wd.bkvec.neighbours = np.array([[(k + 1) % NK] for k in range(NK)])
    wd.bkvec.bk_cart, wd.bkvec.wk, wd.bkvec.real_lattice = np.array([[0., 0, 1]]), np.array([1.0]), np.eye(3)
    return wd


class _WannierizerStub:
    got = []

    def __init__(s, **kw):
        pass

    def add_kpoint(s, **kw):
        _WannierizerStub.got.append(dict(frozen=np.array(kw["frozen"], dtype=bool), free=np.array(kw["free"], dtype=bool),
                                         frozen_nb=np.array(kw["frozen_nb"], dtype=bool), free_nb=np.array(kw["free_nb"], dtype=bool)))

    def get_U_opt_full(s):
        raise _Stop()


def _window_kwargs(mode, win, explicit, init):
    fmin, fmax, omin, omax = win
    kw = dict(frozen_states=explicit, parallel=False, sitesym=False, init=init)
    if mode not in ("froz_default", "all_default"):
        kw.update(froz_min=fmin, froz_max=fmax)
    if mode not in ("outer_default", "all_default"):
        kw.update(outer_min=omin, outer_max=omax)
    if init == "random":
        kw.update(num_wann=1)
    return kw


def _window_bounds(mode, win):
    """the windows in force: the documented defaults are an empty frozen window and an unbounded outer window"""
    fmin, fmax, omin, omax = win
    if mode in ("froz_default", "all_default"):
        fmin, fmax = np.inf, -np.inf
    if mode in ("outer_default", "all_default"):
        omin, omax = -np.inf, np.inf
    return fmin, fmax, omin, omax


def case_windows2(rec, nband, NK, mode, init="amn", explicit=None):
    """every mask branch of wannierise(): NK k-points (each the neighbour of the other), default / empty windows, list / dict frozen_states
    (a dict entry for a k-point that is not in the run is ignored), the three init modes"""
    import wannierberri.wannierisation.wannierise as W
    import wannierberri.symmetry.sawf as SAWF
    shadow([W, UT, SAWF], proxy=NpMasks())
    W.Wannierizer = _WannierizerStub
    explicit = explicit if explicit is not None else []
    E = symvec("E", (NK, nband))
    win = [SymC.var(n) for n in ("froz_min", "froz_max", "outer_min", "outer_max")]
    fmin, fmax, omin, omax = _window_bounds(mode, win)
    zr = lambda x: x.zreal()
    ass = [zr(E[k, i]) <= zr(E[k, i + 1]) for k in range(NK) for i in range(nband - 1)]
    outer_given, froz_given = not isinstance(omin, float), not isinstance(fmin, float)
    if outer_given:
        ass.append(zr(omin) <= zr(omax))
    if froz_given:
        ass.append(zr(fmax) < zr(fmin) if mode == "froz_empty" else zr(fmin) <= zr(fmax))
        if outer_given:
            ass += [zr(omin) <= zr(fmin), zr(fmax) <= zr(omax)] if mode != "froz_empty" else []
    expl = lambda k: [ib for ib in (explicit.get(k, []) if isinstance(explicit, dict) else explicit)]
    if outer_given:
        ass += [c for k in range(NK) for ib in expl(k) for c in (zr(omin) <= zr(E[k, ib]), zr(E[k, ib]) <= zr(omax))]
    import inspect
    thr = inspect.signature(UT.select_window_degen).parameters["thresh"].default

    def body(rec):
        _WannierizerStub.got = []
        wd = _wandata(NK, nband, [E[k].copy() for k in range(NK)], init)
        rec.witness = lambda env: dict(test="windows2", E=[[env.val(e) for e in E[k]] for k in range(NK)], win=[env.val(x) for x in win], mode=mode, init=init,
                                       explicit=explicit, NK=NK)
        try:
            W.wannierise(wd, **_window_kwargs(mode, win, explicit, init))
        except _Stop:
            pass
        got = _WannierizerStub.got
        rec.concrete("one k-point object per k-point", len(got) == NK, f"{len(got)}", key="wannierise: wrong number of k-point objects")
        zb = lambda b: b.t if isinstance(b, SymB) else z3.BoolVal(bool(b))
        for k in range(min(NK, len(got))):
            frozen, free = got[k]["frozen"], got[k]["free"]
            nbk = (k + 1) % NK
            inw = lambda i, lo, hi: z3.And(zb(E[k, i] >= lo), zb(E[k, i] <= hi))
            gap = [zb(E[k, i + 1] - E[k, i] < thr) for i in range(nband - 1)]
            chain = lambda i, j: z3.And(*[gap[m] for m in range(min(i, j), max(i, j))]) if i != j else z3.BoolVal(True)
            f_out, f_fr, f_in = [], [], []
            for i in range(nband):
                ex = i in expl(k)
                outer_i = z3.Or(*[z3.And(inw(j, omin, omax), chain(i, j)) for j in range(nband)])
                f_out.append(z3.BoolVal(True) if ex else z3.Implies(z3.Not(outer_i), z3.BoolVal(not frozen[i] and not free[i])))
                froz_i = z3.And(inw(i, fmin, fmax), *[z3.Implies(chain(i, j), inw(j, fmin, fmax)) for j in range(nband)])
                f_fr.append(z3.BoolVal(bool(frozen[i])) == (z3.BoolVal(True) if ex else froz_i))
                f_in.append(z3.Implies(z3.And(outer_i, z3.BoolVal(not frozen[i])), z3.BoolVal(bool(free[i]))))
            rec.concrete(f"k={k}: frozen and free are disjoint", not (frozen & free).any(), f"{frozen} {free}", key="wannierise: a band is both frozen and free")
            rec.fact(f"k={k}: bands outside the outer window (and not degenerate with a band inside) are neither frozen nor free", z3.And(*f_out),
                     key="wannierise: band outside the outer window is selected")
            rec.fact(f"k={k}: frozen = whole multiplets inside the frozen window (+ explicit frozen_states)", z3.And(*f_fr),
                     key="wannierise: frozen mask differs from the frozen window")
            rec.fact(f"k={k}: non-frozen bands of the outer window are free", z3.And(*f_in), key="wannierise: band of the outer window is dropped")
            if len(got) == NK:
                ok = np.array_equal(got[k]["frozen_nb"], got[nbk]["frozen"][None, :]) and np.array_equal(got[k]["free_nb"], got[nbk]["free"][None, :])
                rec.concrete(f"k={k}: neighbour masks are the masks of the neighbouring k-point", ok, key="wannierise: neighbour masks do not belong to the neighbour")
    rec.explore(body, ass, maxpaths=100000, max_seconds=3000)


def case_wannierizer_group(rec, configs):
    for pats, nw, iters in configs:
        case_wannierizer(rec, pats, nw, iters)


def case_wannierizer(rec, pats, nw, iters, strict=True):
    """the serial Wannierizer driving several k-points that are each other's neighbours, the way wannierise() does: the neighbour gauges of every
    iteration are the U matrices the code produced in the previous one (not arbitrary matrices)"""
    import wannierberri.wannierisation.wannierizer as WZ
    install()
    shadow([WZ], proxy=Np(linalg=Lin(np.linalg)))
    Lin.strict = strict
    NK, nband = len(pats), len(pats[0])
    neigh = [[(k + 1) % NK, (k - 1) % NK] for k in range(NK)]
    nnb = 2
    Mmn = symvec("M", (NK, nnb, nband, nband), real=False)
    amn = symvec("A", (NK, nband, nw), real=False)
    wb = symvec("wb", (nnb,))
    mix = SymC.var("mix")
    bk = np.array([[0.5, 0.25, 0.125], [-0.5, -0.25, -0.125]])
    frozen = np.array([[c == "Z" for c in p] for p in pats])
    free = np.array([[c == "F" for c in p] for p in pats])
    ass = [w.zreal() > 0 for w in wb] + [mix.zreal() > 0, mix.zreal() <= 1]
    for localise in (True, False):
        def body(rec):
            Lin.log.clear()
            rec.witness = lambda env: dict(test="wannierizer", pats=pats, nw=nw, iters=iters, localise=localise, Mmn=env.arr(Mmn), amn=env.arr(amn),
                                           wb=[env.val(w) for w in wb], mix=env.val(mix), bk=bk.tolist())
            wz = WZ.Wannierizer(real_lattice=np.eye(3), bk_cart=bk.copy(), parallel=False, symmetrizer=VoidSymmetrizer(NK=NK), wcc_red=np.zeros((nw, 3)))
            for k in range(NK):
                wz.add_kpoint(Mmn=Mmn[k].copy(), frozen=frozen[k], frozen_nb=frozen[neigh[k]], free=free[k], free_nb=free[neigh[k]], wb=wb.copy(), bk=bk.copy(),
                              symmetrizer_Zirr=VoidSymmetrizer(), symmetrizer_Uirr=VoidSymmetrizer(), ikirr=k, amn=amn[k].copy(), weight=1 / NK)
            U = wz.get_U_opt_full()
            check_lapack_args(rec, "projection step", "Wannierizer projection step")
            for k in range(NK):
                check_gauge(rec, U[k], frozen[k], free[k], nw, f"k={k} {pats[k]} init", "Wannierizer projection step")
            wz.update_Unb_all([[U[b] for b in neigh[k]] for k in range(NK)])
            for it in range(iters):
                U = wz.update_all([[U[b] for b in neigh[k]] for k in range(NK)], mix_ratio=mix, mix_ratio_u=1, localise=localise)
                check_lapack_args(rec, f"iteration {it}", f"Wannierizer iteration(localise={localise})")
                for k in range(NK):
                    check_gauge(rec, U[k], frozen[k], free[k], nw, f"k={k} {pats[k]} iteration {it} localise={localise}", f"Wannierizer iteration(localise={localise})")
        rec.explore(body, ass, max_seconds=3000)


def plan(tier):
    """[(nband, num_wann, second update?, distinct eigenvalues only?, [patterns])] - the cost is driven by the number of free bands (size of the
    arbitrary eigenvector matrix), the number of columns taken from it and num_wann (size of the arbitrary polar factor)"""
    q = tier == "quick"
    groups = {}
    for nband in (2, 3, 4):
        for pat, nw in patterns(nband, 3, 4):
            nz, nf = pat.count("Z"), pat.count("F")
            nwf = nw - nz
            if q:
                ok = nw <= 2 and (nf <= 2 or (nf == 3 and nwf <= 1))
                second, strict = nf <= 2 and nband <= 3, True
            else:
                ok = (nw <= 2 and nf <= 3) or (nw == 3 and nf <= 2) or (nf == 4 and nwf <= 1 and nw <= 2)
                second = nw <= 2 and (nf <= 2 or (nf == 3 and nwf <= 1))
                strict = not (nf <= 2 and nw <= 2)
            if ok:
                groups.setdefault((nband, nw, second, strict), []).append(pat)
    return groups


def plan_deep():
    """additional thorough-tier step groups {(nband, num_wann, nnb, second, third, strict): [patterns]}"""
    groups = {}
    add = lambda key, pat: groups.setdefault(key, []).append(pat)
    for pat, nw in patterns(5, 4, 2):                        # five bands: every pattern with <= 2 free bands
        nz, nf = pat.count("Z"), pat.count("F")
        if nw <= 2 or (nw == 3 and sum(i for i, c in enumerate(pat) if c == "Z") % 2 == 0):      # num_wann = 3: every second pattern (5 s each)
            add((5, nw, 2, nw <= 2, False, True), pat)
        elif nw == 4 and pat in ("ZZZFD", "DZFZZ", "ZZZFF", "FZZFZ", "ZZFFD", "FDZFZ", "ZZZZF", "ZDFZF"):
            add((5, 4, 2, False, False, True), pat)         # 4x4 polar factor: 25 s per path, a selection
    for nband in (2, 3, 4):                                  # more neighbours, three composed updates
        for pat, nw in patterns(nband, 2, 2):
            add((nband, nw, 3, True, True, True), pat)
            if nband <= 3:
                add((nband, nw, 4, True, True, True), pat)
    return groups


def wannierizer_plan():
    """[(patterns of the k-points, num_wann, iterations)]: rings of 2 and 3 k-points whose masks differ from k-point to k-point"""
    out = []
    for nband, nw, steps in ((2, 1, (1, 2)), (3, 1, (1, 4)), (3, 2, (1, 5)), (4, 2, (7,)), (4, 1, (11,))):
        pats = [p for p, n in patterns(nband, 2, 2) if n == nw]
        for st in steps:
            out += [([pats[i], pats[(i + st) % len(pats)]], nw, 3) for i in range(len(pats))]
        if nband == 3:
            out += [([pats[i], pats[(i + 2) % len(pats)], pats[(i + 7) % len(pats)]], nw, 2) for i in range(len(pats))]
    return out


def cases(tier, seed):
    q = tier == "quick"
    T = 1500 if q else 5400
    out = [Case("stub validation", case_stub_validation, dict(seed=seed))]
    for (nband, nw, second, strict), sel in sorted(plan(tier).items()):
        nchunk = max(1, len(sel) // (8 if q else 3))
        for k in range(nchunk):
            out.append(Case(f"step nband={nband} nW={nw} second={second} distinct-eigenvalues={strict} chunk {k}", case_step,
                            dict(nband=nband, nw=nw, pats=sel[k::nchunk], nnb=2, second=second, strict=strict), timeout=T))
    for nband in ((2, 3, 4) if q else (2, 3, 4, 5)):
        out.append(Case(f"windows nband={nband}", case_windows, dict(nband=nband, explicit=()), timeout=1100 if q else T))
        if not q or nband == 3:
            out.append(Case(f"windows nband={nband} frozen_states=[{nband - 2}]", case_windows, dict(nband=nband, explicit=(nband - 2,)), timeout=1100 if q else T))
            out.append(Case(f"windows nband={nband} frozen_states={{0: [{nband - 1}]}}", case_windows, dict(nband=nband, explicit=(nband - 1,), as_dict=True),
                            timeout=1100 if q else T))
    if q:
        return out
    # ---- thorough only ----------------------------------------------------------------------------------------
    for (nband, nw, nnb, second, third, strict), sel in sorted(plan_deep().items()):
        per = 2 if nw == 4 else (6 if nband == 5 and nw == 3 else 12)
        nchunk = max(1, -(-len(sel) // per))
        for k in range(nchunk):
            out.append(Case(f"step nband={nband} nW={nw} nnb={nnb} updates={1 + second + third} chunk {k}", case_step,
                            dict(nband=nband, nw=nw, pats=sel[k::nchunk], nnb=nnb, second=second, strict=strict, third=third), timeout=T))
    wp = wannierizer_plan()
    for k in range(0, len(wp), 8):
        out.append(Case(f"wannierizer rings {k}..{min(k + 8, len(wp)) - 1} ({'-'.join(wp[k][0])} nW={wp[k][1]} ...)", case_wannierizer_group, dict(configs=wp[k:k + 8]), timeout=T))
    out.append(Case("windows nband=6", case_windows2, dict(nband=6, NK=1, mode="nested"), timeout=T))
    for nband in (2, 3, 4, 5):
        for mode, init in (("outer_default", "amn"), ("froz_default", "random"), ("all_default", "restart"), ("froz_empty", "amn")):
            out.append(Case(f"windows nband={nband} {mode} init={init}", case_windows2, dict(nband=nband, NK=1, mode=mode, init=init), timeout=T))
        out.append(Case(f"windows nband={nband} outer_default frozen_states=[0]", case_windows2, dict(nband=nband, NK=1, mode="outer_default", explicit=[0]), timeout=T))
    for nband in (2, 3):
        out.append(Case(f"windows two k-points nband={nband}", case_windows2, dict(nband=nband, NK=2, mode="nested"), timeout=T))
        out.append(Case(f"windows two k-points nband={nband} frozen_states={{1: [0], 5: [1]}}", case_windows2,
                        dict(nband=nband, NK=2, mode="nested", explicit={1: [0], 5: [1]}), timeout=T))
    out.append(Case("windows three k-points nband=2 froz_default", case_windows2, dict(nband=2, NK=3, mode="froz_default"), timeout=T))
    return out


# ------------------------------------------------------------------------------------------------------------
def _fill(a, rng):
    a = np.asarray(a, dtype=complex)
    if a.size and np.abs(a).max() == 0:         # the model left these atoms free: any value will do, zeros would make LAPACK's input singular
        a = rng.normal(size=a.shape) + 1j * rng.normal(size=a.shape)
    return a


def replay(rec):
    """real Kpoint_and_neighbours / wannierise with real LAPACK on the model's doubles"""
    w = rec["witness"]
    if w["test"] == "windows":
        return _replay_windows(w)
    if w["test"] == "windows2":
        return _replay_windows2(w)
    if w["test"] == "wannierizer":
        return _replay_wannierizer(w)
    bad, note = _replay_step(w, 0.0)
    if bad is None:      # the model's (mostly zero) overlaps make the localisation matrix singular: same input, generically perturbed
        bad, note = _replay_step(w, 1e-2)
        note += " [witness perturbed by 1e-2: the model's overlaps give a singular localisation matrix]"
    return bool(bad), f"pattern {w['pat']} (Z frozen, F free, D deselected) num_wann={w['nw']} localise={w['localise']}: " + ("; ".join(bad or []) or "all gauge conditions hold to 1e-9") + note


def _replay_step(w, eps):
    from symx.harness import unarr
    rng = np.random.default_rng(1)
    pat, nw, nnb = w["pat"], w["nw"], w["nnb"]
    frozen = np.array([c == "Z" for c in pat])
    free = np.array([c == "F" for c in pat])
    frozen_nb, free_nb = neighbour_masks(pat, nnb)
    Mmn, amn, Unb, Unb2, ph = [_fill(unarr(w[k]), rng) for k in ("Mmn", "amn", "Unb", "Unb2", "ph")]
    if eps:
        Mmn, amn, Unb, Unb2 = [a + eps * (rng.normal(size=a.shape) + 1j * rng.normal(size=a.shape)) for a in (Mmn, amn, Unb, Unb2)]
    wb = np.array([x if x > 0 else 1.0 for x in w["wb"]])
    mix = w["mix"] if 0 < w["mix"] <= 1 else 0.5
    nonherm = []
    real_eigh = np.linalg.eigh

    def eigh_obs(a, *args, **kw):
        a = np.asarray(a)
        if a.size:
            nonherm.append(float(np.abs(a - a.conj().T).max() / (1e-300 + np.abs(a).max())))
        return real_eigh(a, *args, **kw)
    bad = []
    singular = False

    def gauge(U, who):
        U = np.asarray(U)
        if U.shape != (len(pat), nw):
            bad.append(f"{who}: shape {U.shape}")
            return
        sel = frozen | free
        if np.abs(U[~sel]).max(initial=0) > 1e-9:
            bad.append(f"{who}: |U[deselected]|={np.abs(U[~sel]).max():.2e}")
        e = np.abs(U.conj().T @ U - np.eye(nw)).max()
        if e > 1e-9:
            bad.append(f"{who}: |U+U-1|={e:.2e}")
        P = np.diag(U @ U.conj().T).real
        if frozen.any() and np.abs(P[frozen] - 1).max() > 1e-9:
            bad.append(f"{who}: (UU+)_ff={P[frozen].tolist()}")
    np.linalg.eigh = eigh_obs
    try:
        kp = KN.Kpoint_and_neighbours(Mmn.copy(), frozen.copy(), frozen_nb.copy(), free.copy(), free_nb.copy(), wb.copy(), np.array(w["bk"]), 0,
                                      VoidSymmetrizer(), VoidSymmetrizer(), amn.copy())
        gauge(kp.get_U_opt_full(), "init")
        U, _, _ = kp.update([Unb[b] for b in range(nnb)], ph.copy(), localise=w["localise"], mix_ratio=mix)
        gauge(U, "update")
        if np.shape(U) == np.shape(kp.get_U_opt_full()) and np.abs(U - kp.get_U_opt_full()).max() > 1e-12:
            bad.append("stored U differs from the returned U")
        if w["second"]:
            U, _, _ = kp.update([Unb2[b] for b in range(nnb)], ph.copy(), localise=w["localise"], mix_ratio=mix)
            gauge(U, "second update")
        if w.get("third"):
            U, _, _ = kp.update([Unb[b] for b in range(nnb)], ph.copy(), localise=w["localise"], mix_ratio=mix)
            gauge(U, "third update")
    except np.linalg.LinAlgError:
        singular = True
    except Exception as e:
        bad.append(f"raises {type(e).__name__}: {str(e)[:120]}")
    finally:
        np.linalg.eigh = real_eigh
    if nonherm and max(nonherm) > 1e-9:
        bad.append(f"eigh called with a non-Hermitian matrix (relative asymmetry {max(nonherm):.2e})")
    if singular and not bad:
        if not eps:
            return None, ""
        bad.append("np.linalg.inv raises LinAlgError (singular localisation matrix) even for generically perturbed overlaps: no gauge is produced")
    return bad, ""


def _replay_windows(w):
    import wannierberri.wannierisation.wannierise as W
    E = np.array(w["E"], dtype=float)
    nband = len(E)
    fmin, fmax, omin, omax = w["win"]
    explicit = list(w["explicit"])
    got = {}

    class WannierizerStub:
        def __init__(s, **kw):
            pass

        def add_kpoint(s, **kw):
            got.update(frozen=np.array(kw["frozen"], dtype=bool), free=np.array(kw["free"], dtype=bool))

        def get_U_opt_full(s):
            raise _Stop()

    class Obj:
        pass
    wd = Obj()
    wd.irreducible = False
    wd.mmn = Obj()
    wd.mmn.NK, wd.mmn.NB, wd.mmn.data = 1, nband, {0: np.zeros((1, nband, nband))}
    wd.eig = Obj()
    wd.eig.data = {0: E}
    wd.amn = Obj()
    wd.amn.NW, wd.amn.data, wd.amn.positions = 1, {0: np.zeros((nband, 1))}, None
    wd.chk = Obj()
    wd.chk.wannier_centers_cart = None
    wd.has_file = lambda name: True
    wd.bkvec = Obj()
    wd.bkvec.neighbours = np.array([[0]])
    wd.bkvec.bk_cart, wd.bkvec.wk, wd.bkvec.real_lattice = np.array([[0., 0, 1]]), np.array([1.0]), np.eye(3)
    real = W.Wannierizer
    W.Wannierizer = WannierizerStub
    import io, contextlib
    try:
        with contextlib.redirect_stdout(io.StringIO()):
            W.wannierise(wd, froz_min=fmin, froz_max=fmax, outer_min=omin, outer_max=omax, frozen_states=({0: explicit} if w.get("as_dict") else explicit),
                            parallel=False, sitesym=False)
    except _Stop:
        pass
    except Exception as e:
        return True, f"E={E.tolist()} windows={w['win']}: raises {type(e).__name__}: {str(e)[:150]}"
    finally:
        W.Wannierizer = real
    frozen, free = got["frozen"], got["free"]
    gap = (E[1:] - E[:-1]) < 1e-2
    chain = lambda i, j: all(gap[min(i, j):max(i, j)])
    inw = lambda i, lo, hi: lo <= E[i] <= hi
    bad = []
    for i in range(nband):
        outer_i = any(inw(j, omin, omax) and chain(i, j) for j in range(nband))
        froz_i = (inw(i, fmin, fmax) and all(inw(j, fmin, fmax) for j in range(nband) if chain(i, j))) or i in explicit
        if frozen[i] and free[i]:
            bad.append(f"band {i} both frozen and free")
        if not outer_i and i not in explicit and (frozen[i] or free[i]):
            bad.append(f"band {i} outside the outer window is selected")
        if bool(frozen[i]) != bool(froz_i):
            bad.append(f"band {i}: frozen={bool(frozen[i])}, frozen window says {bool(froz_i)}")
        if outer_i and not frozen[i] and not free[i]:
            bad.append(f"band {i} of the outer window is dropped")
    return bool(bad), f"E={E.tolist()} frozen window=[{fmin},{fmax}] outer window=[{omin},{omax}] frozen_states={explicit}: frozen={frozen.tolist()} free={free.tolist()} " + "; ".join(bad)


def _replay_windows2(w):
    import wannierberri.wannierisation.wannierise as W
    import io, contextlib
    E = np.array(w["E"], dtype=float)
    NK, nband = E.shape
    explicit = {int(k): v for k, v in w["explicit"].items()} if isinstance(w["explicit"], dict) else list(w["explicit"])
    fmin, fmax, omin, omax = _window_bounds(w["mode"], w["win"])
    real = W.Wannierizer
    W.Wannierizer = _WannierizerStub
    _WannierizerStub.got = []
    try:
        with contextlib.redirect_stdout(io.StringIO()):
            W.wannierise(_wandata(NK, nband, E, w["init"]), **_window_kwargs(w["mode"], w["win"], explicit, w["init"]))
    except _Stop:
        pass
    except Exception as e:
        return True, f"E={E.tolist()} windows={w['win']} mode={w['mode']}: raises {type(e).__name__}: {str(e)[:150]}"
    finally:
        W.Wannierizer = real
    got = _WannierizerStub.got
    bad = [] if len(got) == NK else [f"{len(got)} k-point objects for {NK} k-points"]
    for k in range(min(NK, len(got))):
        frozen, free = got[k]["frozen"], got[k]["free"]
        ex = explicit.get(k, []) if isinstance(explicit, dict) else explicit
        gap = (E[k, 1:] - E[k, :-1]) < 1e-2
        chain = lambda i, j: all(gap[min(i, j):max(i, j)])
        inw = lambda i, lo, hi: lo <= E[k, i] <= hi
        for i in range(nband):
            outer_i = any(inw(j, omin, omax) and chain(i, j) for j in range(nband))
            froz_i = (inw(i, fmin, fmax) and all(inw(j, fmin, fmax) for j in range(nband) if chain(i, j))) or i in ex
            if frozen[i] and free[i]:
                bad.append(f"k={k} band {i} both frozen and free")
            if not outer_i and i not in ex and (frozen[i] or free[i]):
                bad.append(f"k={k} band {i} outside the outer window is selected")
            if bool(frozen[i]) != bool(froz_i):
                bad.append(f"k={k} band {i}: frozen={bool(frozen[i])}, frozen window says {bool(froz_i)}")
            if outer_i and not frozen[i] and not free[i]:
                bad.append(f"k={k} band {i} of the outer window is dropped")
        nbk = (k + 1) % NK
        if len(got) == NK and not (np.array_equal(got[k]["frozen_nb"], got[nbk]["frozen"][None, :]) and np.array_equal(got[k]["free_nb"], got[nbk]["free"][None, :])):
            bad.append(f"k={k}: neighbour masks are not those of k-point {nbk}")
    return bool(bad), f"E={E.tolist()} frozen window=[{fmin},{fmax}] outer window=[{omin},{omax}] frozen_states={explicit} init={w['init']}: " + "; ".join(bad)


def _replay_wannierizer(w):
    import wannierberri.wannierisation.wannierizer as WZ
    from symx.harness import unarr
    rng = np.random.default_rng(2)
    pats, nw = w["pats"], w["nw"]
    NK, nband = len(pats), len(pats[0])
    neigh = [[(k + 1) % NK, (k - 1) % NK] for k in range(NK)]
    frozen = np.array([[c == "Z" for c in p] for p in pats])
    free = np.array([[c == "F" for c in p] for p in pats])
    Mmn, amn = _fill(unarr(w["Mmn"]), rng), _fill(unarr(w["amn"]), rng)
    wb = np.array([x if x > 0 else 1.0 for x in w["wb"]])
    mix = w["mix"] if 0 < w["mix"] <= 1 else 0.5
    bk = np.array(w["bk"])
    bad = []

    def gauge(U, k, who):
        U = np.asarray(U)
        if U.shape != (nband, nw):
            return bad.append(f"{who}: shape {U.shape}")
        sel = frozen[k] | free[k]
        if np.abs(U[~sel]).max(initial=0) > 1e-9:
            bad.append(f"{who}: |U[deselected]|={np.abs(U[~sel]).max():.2e}")
        if np.abs(U.conj().T @ U - np.eye(nw)).max() > 1e-9:
            bad.append(f"{who}: |U+U-1|={np.abs(U.conj().T @ U - np.eye(nw)).max():.2e}")
        P = np.diag(U @ U.conj().T).real
        if frozen[k].any() and np.abs(P[frozen[k]] - 1).max() > 1e-9:
            bad.append(f"{who}: (UU+)_ff={P[frozen[k]].tolist()}")
    for eps in (0.0, 1e-2):
        bad.clear()
        M = Mmn + eps * (rng.normal(size=Mmn.shape) + 1j * rng.normal(size=Mmn.shape))
        try:
            wz = WZ.Wannierizer(real_lattice=np.eye(3), bk_cart=bk.copy(), parallel=False, symmetrizer=VoidSymmetrizer(NK=NK), wcc_red=np.zeros((nw, 3)))
            for k in range(NK):
                wz.add_kpoint(Mmn=M[k].copy(), frozen=frozen[k], frozen_nb=frozen[neigh[k]], free=free[k], free_nb=free[neigh[k]], wb=wb.copy(), bk=bk.copy(),
                              symmetrizer_Zirr=VoidSymmetrizer(), symmetrizer_Uirr=VoidSymmetrizer(), ikirr=k, amn=amn[k].copy(), weight=1 / NK)
            U = wz.get_U_opt_full()
            for k in range(NK):
                gauge(U[k], k, f"k={k} init")
            wz.update_Unb_all([[U[b] for b in neigh[k]] for k in range(NK)])
            for it in range(w["iters"]):
                U = wz.update_all([[U[b] for b in neigh[k]] for k in range(NK)], mix_ratio=mix, mix_ratio_u=1, localise=w["localise"])
                for k in range(NK):
                    gauge(U[k], k, f"k={k} iteration {it}")
            break
        except np.linalg.LinAlgError:
            if eps:
                bad.append("np.linalg.inv raises LinAlgError even for generically perturbed overlaps: no gauge is produced")
        except Exception as e:
            bad.append(f"raises {type(e).__name__}: {str(e)[:120]}")
            break
    return bool(bad), f"Wannierizer patterns {pats} num_wann={nw} localise={w['localise']}: " + ("; ".join(bad) or "all gauge conditions hold to 1e-9")
