"""C26 — system interpolation reproduces its endpoints"""
import itertools, warnings
from types import SimpleNamespace
import numpy as np
from symx.core import *
from symx.core import z3
from symx.npproxy import NpProxy, shadow
from symx.harness import Case
import symx.harness  # noqa (puts the repo on sys.path)
import wannierberri.system.system_R as SR, wannierberri.fourier.rvectors as RV, wannierberri.fourier.fft as FF, wannierberri.utility as UT
import wannierberri.system.interpolate as IP, wannierberri.data_K.data_K_R as DKR, wannierberri.data_K.data_K as DK
import wannierberri.system.system_soc as SSOC, wannierberri.data_K.data_K_soc as DKS, wannierberri.w90files.soc as WSOC

PROPERTY = "C26"
FUNCTIONS = ["wannierberri.system.interpolate.SystemInterpolator.__init__/interpolate", "wannierberri.system.interpolate.SystemInterpolatorSOC.__init__/interpolate",
             "wannierberri.fourier.rvectors.Rvectors.set_fft_R_to_k/R_to_k (k-list mode)", "wannierberri.data_K.data_K_R.Data_K_R.HH_K/Xbar",
             "wannierberri.data_K.data_K_soc.Data_K_soc.HH_K", "wannierberri.system.system_soc.SystemSOC.set_soc_axis"]
BOUNDS = dict(quick=dict(num_wann="1..2", R_sets="pairs of R-vector sets (equal / subset / overlapping only at R=0), 3..5 vectors each", matrices="Ham, AA, SS (SS in one system only: excluded key); "
                         "SOC variant (nspin 1->1, 2->2, 1->2, 2->1): dV_soc_wann_*, overlap_up_down, Ham_SOC, SS + up/down subsystems", data="symbolic complex, X(-R)=X(R)^+", centres="symbolic",
                         alpha="symbolic real (and the constants 0, 1)", k="symbolic (one free unit-circle phase per R-vector), 1 k-point", use_pointgroup="-1, 0, 1"),
              thorough=dict(num_wann="1..6", R_sets="as quick plus sets that are not (or only partly) closed under inversion, up to 13 vectors; three / four different R-sets in the chains",
                            matrices="Ham, AA, BB, CC, SS, OO, GG, SA, SHA (0, 1 and 2 cartesian indices) with key sets that differ between the systems; SOC variant nb 1..3", data="symbolic complex",
                            centres="symbolic", alpha="symbolic alpha and beta (and the constants 0, 1)", k="symbolic, 1..3 k-points", use_pointgroup="-1, 0, 1",
                            compositions="two results of one interpolator alive at once, one of them modified in place; interpolation of an interpolated system with a third system "
                                         "and of that with a fourth one at gamma = 1/4 (plain and SOC, nspin mixes 1/1/2, 2/1/2, 1/2/1, 2/2/2, 1/1/1, 2/2/1)"))
EXPLANATION = ("Two System_R (or SystemSOC) objects are built on different R-vector sets with symbolic matrices and centres; the real SystemInterpolator is run with a symbolic alpha "
               "and with alpha=0, 1.  z3 decides, entry by entry, that every interpolated real-space matrix and the centres equal (1-alpha)*X0 + alpha*X1 on the union R-set with zero fill, "
               "that the end points equal the zero-filled inputs, and that H(k) / Xbar(.,der=0) of the end points (real Data_K_R / Data_K_soc on a k-list with symbolic k, i.e. one free "
               "phase per R-vector) equal those of the original systems on their own R-sets.  The thorough tier adds chains - interpolate(beta) of an interpolated system with a third system is the nested affine "
               "combination, also in H(k) - and results alive at once: a result modified in place changes neither an earlier result nor later ones.")
ASSUMPTIONS = ["both systems share lattice and num_wann (documented)", "matrices present in only one system are excluded (documented warning); checked as such"]
OUTSIDE = ["k-derivatives (Xbar der>=1) of the interpolated system: interpolate() mixes wannier_centers_cart but leaves rvec.shifts_*_red at system0's values; the property as stated "
           "(Hamiltonian and matrices at every k) does not cover derivatives - recorded as an observation (note), not as a violation",
           "evaluate_k / calculators on the interpolated system (eigen-decomposition)", "R-sets and num_wann above the stated bounds"]
STUBS = ["grid stand-in with FFT=(1,1,1) for Data_K_R(k_list=...)", "UU_K = identity put into the Data_K cache (no eigh)"]

LAT = np.array([[1.0, 0, 0], [0.25, 1.5, 0], [0, 0.5, 2.0]])
MODS = [SR, RV, FF, UT, IP, DKR, DK, SSOC, DKS, WSOC]
CART = dict(Ham=(), AA=(3,), SS=(3,), BB=(3,), CC=(3,), OO=(3,), GG=(3, 3), SA=(3, 3), SHA=(3, 3), dV_soc_wann_0_0=(3,), dV_soc_wann_1_1=(3,), dV_soc_wann_0_1=(3,), overlap_up_down=())
RSETS = dict(A=[(0, 0, 0), (1, 0, 0), (-1, 0, 0)],
             B=[(0, 0, 0), (0, 1, 0), (0, -1, 0), (1, 0, 0), (-1, 0, 0)],
             C=[(0, 1, -1), (0, 0, 0), (0, -1, 1)],
             D=[(1, 0, 0), (0, 0, 0), (0, 0, 1)],                       # not closed under inversion
             E=[(0, 0, 0), (1, 1, 0), (-1, -1, 0), (0, 0, 1), (0, 0, -1), (1, 0, 0), (-1, 0, 0)],
             F=[(0, 0, 0), (1, 0, 0), (-1, 0, 0), (0, 1, 0), (0, -1, 0), (0, 0, 1), (0, 0, -1), (1, 1, 0), (-1, -1, 0), (1, -1, 1), (-1, 1, -1), (2, 0, 0), (-2, 0, 0)],
             G=[(0, 0, 0), (2, 0, 0), (0, -1, 1), (1, -1, 1), (-1, 1, -1)])           # partly closed under inversion


# ------------------------------------------------------------------------------------------------------------
# data: spec (json) -> arrays (symbolic or concrete) ; the obligations below are written once and run on both
def arrays_for(spec):
    """symbolic inputs of a case"""
    nb = spec["nb"]
    A = {}
    for w in range(len(spec["iR"])):
        iR = spec["iR"][w]
        A[f"c{w}"] = symvec(f"c{w}", (nb, 3))
        for key in spec["keys"][w]:
            A[f"X{w}_{key}"] = hermR(f"X{w}{key}", iR, nb, CART[key], hermitian=key != "dV_soc_wann_0_1" and key != "overlap_up_down")
    A["alpha"] = sarr([SymC.var("alpha"), SymC.var("beta")][:2 if spec.get("chain") else 1])
    return A


def mk_system(spec, A, w, keys=None, pre=""):
    iR = spec["iR"][w]
    s = SR.System_R(silent=True)
    s.set_real_lattice(real_lattice=LAT)
    s.num_wann = spec["nb"]
    cred = A[f"{pre}c{w}"]
    s.wannier_centers_cart = cred.dot(LAT)
    s.rvec = RV.Rvectors(lattice=LAT, iRvec=np.array(iR), shifts_left_red=cred.copy())
    for key in (spec["keys"][w] if keys is None else keys):
        s.set_R_mat(key, A[f"{pre}X{w}_{key}"].copy())
    s.set_pointgroup()
    return s


def zero_fill(X, iR_from, iR_to, xp):
    """harness's own statement of 're-embedding on another R-set'"""
    iR_from = [tuple(int(x) for x in r) for r in iR_from]
    out = xp.zeros((len(iR_to),) + X.shape[1:], dtype=complex)
    for i, r in enumerate(iR_to):
        r = tuple(int(x) for x in r)
        if r in iR_from:
            out[i] = X[iR_from.index(r)]
    return out


GRID = SimpleNamespace(FFT=np.array([1, 1, 1]))


def datak(system, k, cls=None):
    dk = (cls or DKR.Data_K_R)(system, dK=None, grid=GRID, k_list=k)
    dk.__dict__["UU_K"] = np.eye(system.num_wann)[None].repeat(len(k), axis=0)
    return dk


def obligations(rec, spec, A, k, xp):
    al = A["alpha"][0]
    s0, s1 = mk_system(spec, A, 0), mk_system(spec, A, 1)
    ip = IP.SystemInterpolator(s0, s1, use_pointgroup=spec["use_pg"])
    union = sorted(set(map(tuple, spec["iR"][0])) | set(map(tuple, spec["iR"][1])))
    common = sorted(set(spec["keys"][0]) & set(spec["keys"][1]))
    # --- R-set union and re-embedding -------------------------------------------------------------------
    for w, s in ((0, ip.system0), (1, ip.system1)):
        got = [tuple(int(x) for x in r) for r in s.rvec.iRvec]
        rec.concrete(f"system{w}: R-set is the union, each R once", sorted(got) == union, detail=f"{got}", key="SystemInterpolator.__init__ R-set is not the union")
        rec.concrete(f"system{w}: only the common matrices are kept", sorted(s._XX_R) == common, detail=f"{sorted(s._XX_R)}", key="SystemInterpolator.__init__ keeps a matrix present in one system only")
        for key in common:
            rec.eq(f"system{w} {key}: re-embedded with zero fill", s._XX_R[key], zero_fill(A[f"X{w}_{key}"], spec["iR"][w], got, xp),
                   key="SystemInterpolator.__init__ re-embedding differs from zero fill on the union R-set")
    # --- linear mix -------------------------------------------------------------------------------------
    sa, e0, e1 = ip.interpolate(al), ip.interpolate(0.0), ip.interpolate(1.0)
    iRn = [tuple(int(x) for x in r) for r in sa.rvec.iRvec]
    rec.concrete("interpolated system: R-set is the union", sorted(iRn) == union and all([tuple(int(x) for x in r) for r in e.rvec.iRvec] == iRn for e in (e0, e1)),
                 key="interpolate R-set is not the union")
    rec.concrete("interpolated system: exactly the common matrices", all(sorted(e._XX_R) == common for e in (sa, e0, e1)), key="interpolate matrix set differs from the common keys")
    c0, c1 = A["c0"].dot(LAT), A["c1"].dot(LAT)
    for key in common:
        z0, z1 = zero_fill(A[f"X0_{key}"], spec["iR"][0], iRn, xp), zero_fill(A[f"X1_{key}"], spec["iR"][1], iRn, xp)
        rec.eq(f"{key}(alpha) == (1-alpha)*X0 + alpha*X1 on the union R-set", sa._XX_R[key], (1 - al) * z0 + al * z1, key="interpolate matrices not (1-alpha)*X0+alpha*X1")
        rec.eq(f"{key}(alpha) affine: == (1-alpha)*{key}(0) + alpha*{key}(1)", sa._XX_R[key], (1 - al) * e0._XX_R[key] + al * e1._XX_R[key], key="interpolate matrices not affine in alpha")
        rec.eq(f"{key}(0) == system0", e0._XX_R[key], z0, key="interpolate(0) matrices differ from system0")
        rec.eq(f"{key}(1) == system1", e1._XX_R[key], z1, key="interpolate(1) matrices differ from system1")
    rec.eq("centres(alpha) == (1-alpha)*c0 + alpha*c1", sa.wannier_centers_cart, (1 - al) * c0 + al * c1, key="interpolate centres not affine in alpha")
    rec.eq("centres(0) == system0", e0.wannier_centers_cart, c0, key="interpolate(0) centres differ from system0")
    rec.eq("centres(1) == system1", e1.wannier_centers_cart, c1, key="interpolate(1) centres differ from system1")
    rec.concrete("num_wann, lattice kept", all(e.num_wann == spec["nb"] and np.allclose(np.asarray(e.real_lattice, dtype=float), LAT) for e in (sa, e0, e1)), key="interpolate changes num_wann/lattice")
    # --- k space: end points against the ORIGINAL systems on their own R-sets -------------------------------
    dka, dk0, dk1 = datak(sa, k), datak(e0, k), datak(e1, k)
    o0, o1 = datak(mk_system(spec, A, 0), k), datak(mk_system(spec, A, 1), k)
    rec.eq("H(k) at alpha=0 == H(k) of system0", dk0.HH_K, o0.HH_K, key="interpolate(0) H(k) differs from system0")
    rec.eq("H(k) at alpha=1 == H(k) of system1", dk1.HH_K, o1.HH_K, key="interpolate(1) H(k) differs from system1")
    rec.eq("H_alpha(k) == (1-alpha) H0(k) + alpha H1(k)", dka.HH_K, (1 - al) * o0.HH_K + al * o1.HH_K, key="interpolate H(k) not affine in alpha")
    for key in common:
        rec.eq(f"Xbar({key},0) at alpha=0 == system0", dk0.Xbar(key, 0), o0.Xbar(key, 0), key="interpolate(0) Xbar(der=0) differs from system0")
        rec.eq(f"Xbar({key},0) at alpha=1 == system1", dk1.Xbar(key, 0), o1.Xbar(key, 0), key="interpolate(1) Xbar(der=0) differs from system1")
    # observation only (see OUTSIDE): derivative data of the end point alpha=1
    d = np.asarray(e1.rvec.shifts_left_red - A["c1"], dtype=object)
    if any(not SymC.of(x).iszero() for x in d.flat) if d.dtype == object else False:
        rec.note("observation: interpolate(1).rvec.shifts_left_red are system0's centres while wannier_centers_cart are system1's (k-derivatives of the end point are not those of system1); outside the stated property")


# ------------------------------------------------------------------------------------------------------------
# SOC variant.  spec["nspin"] = [nspin of system0, nspin of system1]; a non-magnetic system (nspin=1) uses its up channel as its down channel
def soc_arrays_for(spec):
    nb = spec["nb"]
    A = {}
    for w in range(len(spec["iR"])):
        for ud, tag in enumerate(("u", "d")[:spec["nspin"][w]]):
            iR = spec["iRud"][w][ud]
            A[f"{tag}c{w}"] = symvec(f"{tag}c{w}", (nb, 3))
            A[f"{tag}X{w}_Ham"] = hermR(f"{tag}H{w}", iR, nb)
        iR = spec["iR"][w]
        for key in soc_keys(spec["nspin"][w]):
            A[f"X{w}_{key}"] = hermR(f"X{w}{key[-6:]}", iR, nb, CART[key], hermitian=key in ("dV_soc_wann_0_0", "dV_soc_wann_1_1"))
    A["alpha"] = sarr([SymC.var("alpha"), SymC.var("beta")][:2 if spec.get("chain") else 1])
    A["angles"] = sarr([SymC.var("theta"), SymC.var("phi"), SymC.var("asoc")])
    return A


def soc_keys(nspin):
    return ["dV_soc_wann_0_0"] + (["dV_soc_wann_1_1", "dV_soc_wann_0_1", "overlap_up_down"] if nspin == 2 else [])


def mk_soc(spec, A, w):
    sub = []
    for ud, tag in enumerate(("u", "d")[:spec["nspin"][w]]):
        sp = dict(nb=spec["nb"], iR={w: spec["iRud"][w][ud]}, keys={w: ["Ham"]})
        sub.append(mk_system(sp, A, w, pre=tag))
    s = SSOC.SystemSOC(*sub, silent=True)
    s.rvec = RV.Rvectors(lattice=LAT, iRvec=np.array(spec["iR"][w]), shifts_left_red=s.wannier_centers_cart.dot(np.linalg.inv(LAT)))
    for key in soc_keys(spec["nspin"][w]):
        s.set_R_mat(key, A[f"X{w}_{key}"].copy())
    s.has_soc = True
    th, ph, a = A["angles"]
    s.set_soc_axis(theta=th, phi=ph, alpha_soc=a)
    return s


def soc_obligations(rec, spec, A, k, xp):
    al = A["alpha"][0]
    ns = spec["nspin"]
    s0, s1 = mk_soc(spec, A, 0), mk_soc(spec, A, 1)
    ip = IP.SystemInterpolatorSOC(s0, s1, use_pointgroup=-1)
    sa, e0, e1 = ip.interpolate(al), ip.interpolate(0.0), ip.interpolate(1.0)
    union = sorted(set(map(tuple, spec["iR"][0])) | set(map(tuple, spec["iR"][1])))
    iRn = [tuple(int(x) for x in r) for r in sa.rvec.iRvec]
    rec.concrete("SOC: R-set of the interpolated SOC matrices is the union", sorted(iRn) == union, key="SystemInterpolatorSOC R-set is not the union")
    keys = sorted((set(soc_keys(ns[0])) & set(soc_keys(ns[1]))) | {"Ham_SOC", "SS"})        # matrices present in both systems
    rec.concrete("SOC: exactly the common SOC matrices kept", all(sorted(e._XX_R) == keys for e in (sa, e0, e1)), detail=str(sorted(sa._XX_R)), key="SystemInterpolatorSOC matrix set")
    o = [mk_soc(spec, A, 0), mk_soc(spec, A, 1)]
    for key in keys:
        z0, z1 = (zero_fill(o[w]._XX_R[key], spec["iR"][w], iRn, xp) for w in (0, 1))
        rec.eq(f"SOC {key}(alpha) == (1-alpha)*X0 + alpha*X1", sa._XX_R[key], (1 - al) * z0 + al * z1, key="SystemInterpolatorSOC matrices not (1-alpha)*X0+alpha*X1")
        rec.eq(f"SOC {key}(0) == system0", e0._XX_R[key], z0, key="SystemInterpolatorSOC interpolate(0) differs from system0")
        rec.eq(f"SOC {key}(1) == system1", e1._XX_R[key], z1, key="SystemInterpolatorSOC interpolate(1) differs from system1")
    nsn = max(ns)           # one magnetic end point makes the interpolated system magnetic
    rec.concrete("SOC: nspin of the interpolated system (2 as soon as one end point is magnetic)", all(e.nspin == nsn and (nsn == 2 or e.system_down is e.system_up) for e in (sa, e0, e1)),
                 detail=f"nspin={sa.nspin}", key="SystemInterpolatorSOC nspin of the interpolated system")
    for ud, tag in enumerate(("up", "down")[:nsn]):
        iRw = [spec["iRud"][w][min(ud, ns[w] - 1)] for w in (0, 1)]          # the down channel of a non-magnetic system is its up channel
        subw = [getattr(o[w], "system_" + tag) for w in (0, 1)]
        unionud = sorted(set(map(tuple, iRw[0])) | set(map(tuple, iRw[1])))
        for nm, e, coef in (("alpha", sa, (1 - al, al)), ("0", e0, (1, 0)), ("1", e1, (0, 1))):
            sub = getattr(e, "system_" + tag)
            iRs = [tuple(int(x) for x in r) for r in sub.rvec.iRvec]
            rec.concrete(f"SOC system_{tag}({nm}): R-set is the union", sorted(iRs) == unionud, key="SystemInterpolatorSOC subsystem R-set is not the union")
            z0, z1 = (zero_fill(subw[w]._XX_R["Ham"], iRw[w], iRs, xp) for w in (0, 1))
            rec.eq(f"SOC system_{tag} Ham({nm}) == (1-alpha)*H0 + alpha*H1", sub._XX_R["Ham"], coef[0] * z0 + coef[1] * z1, key=f"SystemInterpolatorSOC system_{tag} Ham not (1-alpha)*X0+alpha*X1")
            rec.eq(f"SOC system_{tag} centres({nm}) affine", sub.wannier_centers_cart, coef[0] * subw[0].wannier_centers_cart + coef[1] * subw[1].wannier_centers_cart,
                   key=f"SystemInterpolatorSOC system_{tag} centres not affine")
    rec.eq("SOC centres(alpha) affine", sa.wannier_centers_cart, (1 - al) * o[0].wannier_centers_cart + al * o[1].wannier_centers_cart, key="SystemInterpolatorSOC centres not affine")
    H = [datak(x, k, DKS.Data_K_soc).HH_K for x in (e0, e1, sa, o[0], o[1])]
    rec.eq("SOC H(k) at alpha=0 == H(k) of system0", H[0], H[3], key="SystemInterpolatorSOC interpolate(0) H(k) differs from system0")
    rec.eq("SOC H(k) at alpha=1 == H(k) of system1", H[1], H[4], key="SystemInterpolatorSOC interpolate(1) H(k) differs from system1")
    rec.eq("SOC H_alpha(k) affine", H[2], (1 - al) * H[3] + al * H[4], key="SystemInterpolatorSOC H(k) not affine in alpha")



# ------------------------------------------------------------------------------------------------------------
# thorough tier: several results alive at once, and chains (interpolation of an interpolated system with a third one)
def tl(iRvec):
    return [tuple(int(x) for x in r) for r in iRvec]


def chain_obligations(rec, spec, A, k, xp):
    al, be = A["alpha"]
    iRs, keys = spec["iR"], spec["keys"]
    common01 = sorted(set(keys[0]) & set(keys[1]))
    common = sorted(set(common01) & set(keys[2]))
    cc = [A[f"c{w}"].dot(LAT) for w in range(3)]
    ip01 = IP.SystemInterpolator(mk_system(spec, A, 0), mk_system(spec, A, 1), use_pointgroup=-1)
    ra, rb = ip01.interpolate(al), ip01.interpolate(be)
    iR01 = tl(ra.rvec.iRvec)
    mix01 = lambda key, a, iRt: (1 - a) * zero_fill(A[f"X0_{key}"], iRs[0], iRt, xp) + a * zero_fill(A[f"X1_{key}"], iRs[1], iRt, xp)
    for key in common01:
        rec.eq(f"two results alive: {key}(alpha)", ra._XX_R[key], mix01(key, al, iR01), key="interpolate matrices not (1-alpha)*X0+alpha*X1")
        rec.eq(f"two results alive: {key}(beta)", rb._XX_R[key], mix01(key, be, iR01), key="interpolate matrices not (1-alpha)*X0+alpha*X1")
    # the second result is modified in place: neither the first result nor the interpolator may notice
    for key in rb._XX_R:
        rb._XX_R[key][...] = rb._XX_R[key] * 3 + 1
    rb.wannier_centers_cart[...] = rb.wannier_centers_cart * 2 + 1
    rb.rvec.shifts_left_red[...] = rb.rvec.shifts_left_red + 1
    rc = ip01.interpolate(al)
    for key in common01:
        rec.eq(f"after modifying another result in place: {key}(alpha) of the first result unchanged", ra._XX_R[key], mix01(key, al, iR01), key="interpolate results share data with each other")
        rec.eq(f"after modifying a result in place: a new interpolate(alpha) is unaffected ({key})", rc._XX_R[key], mix01(key, al, iR01), key="interpolate results share data with the interpolator")
    rec.eq("after modifying another result in place: centres of the first result unchanged", ra.wannier_centers_cart, (1 - al) * cc[0] + al * cc[1], key="interpolate results share data with each other")
    rec.eq("after modifying a result in place: centres of a new interpolate(alpha)", rc.wannier_centers_cart, (1 - al) * cc[0] + al * cc[1], key="interpolate results share data with the interpolator")
    rec.eq("after modifying a result in place: shifts of a new interpolate(alpha) are system0's", rc.rvec.shifts_left_red, A["c0"], key="interpolate results share data with the interpolator")
    # chain: interpolate the interpolated system with a third system
    ip2 = IP.SystemInterpolator(ra, mk_system(spec, A, 2), use_pointgroup=-1)
    r, e0, e1 = ip2.interpolate(be), ip2.interpolate(0.0), ip2.interpolate(1.0)
    iRn = tl(r.rvec.iRvec)
    union = sorted(set(map(tuple, iRs[0])) | set(map(tuple, iRs[1])) | set(map(tuple, iRs[2])))
    rec.concrete("chain: R-set is the union of the three R-sets, each once", sorted(iRn) == union, detail=str(iRn), key="chained interpolation R-set is not the union")
    rec.concrete("chain: exactly the matrices common to the three systems", all(sorted(e._XX_R) == common for e in (r, e0, e1)), detail=str(sorted(r._XX_R)), key="chained interpolation matrix set")
    for key in common:
        z2 = zero_fill(A[f"X2_{key}"], iRs[2], iRn, xp)
        rec.eq(f"chain: {key}(alpha,beta) == (1-beta)((1-alpha)X0+alpha X1) + beta X2", r._XX_R[key], (1 - be) * mix01(key, al, iRn) + be * z2, key="chained interpolation is not the nested affine combination")
        rec.eq(f"chain: {key}(alpha,0) == the intermediate system", e0._XX_R[key], mix01(key, al, iRn), key="chained interpolate(0) differs from the intermediate system")
        rec.eq(f"chain: {key}(alpha,1) == system2", e1._XX_R[key], z2, key="chained interpolate(1) differs from system2")
    rec.eq("chain: centres nested affine", r.wannier_centers_cart, (1 - be) * ((1 - al) * cc[0] + al * cc[1]) + be * cc[2], key="chained interpolation centres")
    d = [datak(mk_system(spec, A, w), k) for w in range(3)]
    dr, d1 = datak(r, k), datak(e1, k)
    rec.eq("chain: H(k) == (1-beta)((1-alpha)H0+alpha H1) + beta H2 with H_i of the original systems on their own R-sets", dr.HH_K,
           (1 - be) * ((1 - al) * d[0].HH_K + al * d[1].HH_K) + be * d[2].HH_K, key="chained interpolation H(k)")
    rec.eq("chain: H(k) at beta=1 == H(k) of system2", d1.HH_K, d[2].HH_K, key="chained interpolate(1) H(k) differs from system2")
    if len(iRs) == 4:
        chain4(rec, spec, A, k, xp, r, al, be, d, cc)
    for key in common:
        rec.eq(f"chain: Xbar({key},0) nested affine", dr.Xbar(key, 0), (1 - be) * ((1 - al) * d[0].Xbar(key, 0) + al * d[1].Xbar(key, 0)) + be * d[2].Xbar(key, 0), key="chained interpolation Xbar(der=0)")


def chain4(rec, spec, A, k, xp, r, al, be, d, cc):
    """a third link: the twice interpolated system with a fourth system at the fixed ratio gamma = 1/4"""
    iRs, keys = spec["iR"], spec["keys"]
    ga = 0.25
    common = sorted(set(keys[0]) & set(keys[1]) & set(keys[2]) & set(keys[3]))
    r3 = IP.SystemInterpolator(r, mk_system(spec, A, 3), use_pointgroup=-1).interpolate(ga)
    iRn = tl(r3.rvec.iRvec)
    rec.concrete("chain of three: R-set is the union of the four R-sets", sorted(iRn) == sorted(set().union(*[set(map(tuple, x)) for x in iRs])), key="chained interpolation R-set is not the union")
    rec.concrete("chain of three: exactly the matrices common to the four systems", sorted(r3._XX_R) == common, detail=str(sorted(r3._XX_R)), key="chained interpolation matrix set")
    nest = lambda x: (1 - ga) * ((1 - be) * ((1 - al) * x[0] + al * x[1]) + be * x[2]) + ga * x[3]
    for key in common:
        rec.eq(f"chain of three: {key} nested affine", r3._XX_R[key], nest([zero_fill(A[f"X{w}_{key}"], iRs[w], iRn, xp) for w in range(4)]), key="chained interpolation is not the nested affine combination")
    rec.eq("chain of three: centres nested affine", r3.wannier_centers_cart, nest(cc + [A["c3"].dot(LAT)]), key="chained interpolation centres")
    d3 = datak(mk_system(spec, A, 3), k)
    rec.eq("chain of three: H(k) nested affine in the H(k) of the four original systems", datak(r3, k).HH_K, nest([x.HH_K for x in d] + [d3.HH_K]), key="chained interpolation H(k)")


def soc_chain_obligations(rec, spec, A, k, xp):
    al, be = A["alpha"]
    ns = spec["nspin"]
    o = [mk_soc(spec, A, w) for w in range(3)]
    ip01 = IP.SystemInterpolatorSOC(mk_soc(spec, A, 0), mk_soc(spec, A, 1), use_pointgroup=-1)
    ra = ip01.interpolate(al)
    ip2 = IP.SystemInterpolatorSOC(ra, mk_soc(spec, A, 2), use_pointgroup=-1)
    r, e0, e1 = ip2.interpolate(be), ip2.interpolate(0.0), ip2.interpolate(1.0)
    iRn = tl(r.rvec.iRvec)
    union = sorted(set(map(tuple, spec["iR"][0])) | set(map(tuple, spec["iR"][1])) | set(map(tuple, spec["iR"][2])))
    rec.concrete("SOC chain: R-set is the union of the three", sorted(iRn) == union, key="chained SystemInterpolatorSOC R-set is not the union")
    keys = sorted((set(soc_keys(ns[0])) & set(soc_keys(ns[1])) & set(soc_keys(ns[2]))) | {"Ham_SOC", "SS"})
    rec.concrete("SOC chain: exactly the common SOC matrices", sorted(r._XX_R) == keys, detail=str(sorted(r._XX_R)), key="chained SystemInterpolatorSOC matrix set")
    nest = lambda x0, x1, x2: (1 - be) * ((1 - al) * x0 + al * x1) + be * x2
    for key in keys:
        z = [zero_fill(o[w]._XX_R[key], spec["iR"][w], iRn, xp) for w in range(3)]
        rec.eq(f"SOC chain: {key} nested affine", r._XX_R[key], nest(*z), key="chained SystemInterpolatorSOC matrices")
        rec.eq(f"SOC chain: {key}(alpha,1) == system2", e1._XX_R[key], z[2], key="chained SystemInterpolatorSOC interpolate(1) differs from system2")
    nsn = max(ns)
    rec.concrete("SOC chain: nspin", r.nspin == nsn and (nsn == 2 or r.system_down is r.system_up), detail=f"{r.nspin}", key="chained SystemInterpolatorSOC nspin")
    for ud, tag in enumerate(("up", "down")[:nsn]):
        iRw = [spec["iRud"][w][min(ud, ns[w] - 1)] for w in range(3)]
        subw = [getattr(o[w], "system_" + tag) for w in range(3)]
        sub = getattr(r, "system_" + tag)
        iRs = tl(sub.rvec.iRvec)
        rec.concrete(f"SOC chain system_{tag}: R-set is the union", sorted(iRs) == sorted(set(map(tuple, iRw[0])) | set(map(tuple, iRw[1])) | set(map(tuple, iRw[2]))), key="chained SystemInterpolatorSOC subsystem R-set")
        rec.eq(f"SOC chain system_{tag}: Ham nested affine", sub._XX_R["Ham"], nest(*[zero_fill(subw[w]._XX_R["Ham"], iRw[w], iRs, xp) for w in range(3)]), key=f"chained SystemInterpolatorSOC system_{tag} Ham")
        rec.eq(f"SOC chain system_{tag}: centres nested affine", sub.wannier_centers_cart, nest(*[subw[w].wannier_centers_cart for w in range(3)]), key=f"chained SystemInterpolatorSOC system_{tag} centres")
    H = [datak(x, k, DKS.Data_K_soc).HH_K for x in (r, e0, e1, ra, o[0], o[1], o[2])]
    rec.eq("SOC chain: H(k) nested affine in the H(k) of the three original systems", H[0], nest(H[4], H[5], H[6]), key="chained SystemInterpolatorSOC H(k)")
    rec.eq("SOC chain: H(k) at beta=0 == intermediate system", H[1], H[3], key="chained SystemInterpolatorSOC interpolate(0) H(k)")
    rec.eq("SOC chain: H(k) at beta=1 == system2", H[2], H[6], key="chained SystemInterpolatorSOC interpolate(1) H(k)")


def pick(spec):
    soc = "nspin" in spec
    if spec.get("chain"):
        return (soc_arrays_for, soc_chain_obligations) if soc else (arrays_for, chain_obligations)
    return (soc_arrays_for, soc_obligations) if soc else (arrays_for, obligations)


# ------------------------------------------------------------------------------------------------------------
def case_interp(rec, spec):
    warnings.filterwarnings("ignore")
    shadow(MODS)
    mkA, ob = pick(spec)
    A = mkA(spec)
    k = symvec("k", (spec["nk"], 3))

    def body(rec):
        rec.witness = lambda env: dict(spec=spec, arrays={n: env.arr(a) for n, a in A.items()})
        ob(rec, spec, A, k, NpProxy())
    rec.explore(body, [])


def cases(tier, seed):
    q = tier == "quick"
    out = []
    pairs = [("A", "A"), ("A", "B"), ("B", "C")] + ([] if q else [("B", "A"), ("D", "B"), ("E", "C"), ("C", "E")])
    keysets = [(["Ham", "AA"], ["Ham", "AA", "SS"]), (["Ham"], ["Ham"])] + ([] if q else [(["Ham", "SS", "AA"], ["Ham", "SS"])])
    for nb in ((1, 2) if q else (1, 2, 3)):
        for (a, b), (k0, k1) in itertools.product(pairs, keysets):
            if q and nb == 2 and (a, b) == ("A", "A"):
                continue
            for pg in ((-1,) if (nb > 1 or (a, b) != ("A", "B")) else (-1, 0, 1)):
                spec = dict(nb=nb, iR=[RSETS[a], RSETS[b]], keys=[k0, k1], use_pg=pg, nk=1 if q else 2)
                out.append(Case(f"interp nb={nb} R={a}/{b} keys={'+'.join(k0)}/{'+'.join(k1)} pg={pg}", case_interp, dict(spec=spec), timeout=3000))
    for nspin in ([1, 1], [2, 2], [1, 2], [2, 1]):
        for nb in ((1,) if q else (1, 2, 3)):
            spec = dict(nb=nb, nspin=nspin, iR=[RSETS["A"], RSETS["C"]], iRud=[[RSETS["A"], RSETS["B"]], [RSETS["B"], RSETS["C"]]], nk=1)
            out.append(Case(f"interpSOC nspin={nspin[0]}->{nspin[1]} nb={nb}", case_interp, dict(spec=spec), timeout=3000))
    if not q:
        many0, many1, many2 = ["Ham", "AA", "BB", "CC", "SS", "GG", "SA"], ["Ham", "AA", "SS", "GG", "SA", "OO", "SHA"], ["GG", "Ham", "SA", "AA", "CC"]
        for nb, (a, b) in ((1, ("F", "G")), (2, ("F", "E")), (2, ("G", "F")), (3, ("E", "G")), (4, ("B", "C")), (4, ("A", "E")), (3, ("F", "F")), (5, ("G", "B")), (6, ("A", "C")), (4, ("F", "G"))):
            spec = dict(nb=nb, iR=[RSETS[a], RSETS[b]], keys=[many0, many1], use_pg=-1, nk=3 if nb < 3 else 1)
            out.append(Case(f"interp nb={nb} R={a}/{b} keys={'+'.join(many0)}/{'+'.join(many1)}", case_interp, dict(spec=spec), timeout=3000))
        for nb, trip in ((1, "ABC"), (1, "EDF"), (2, "ABC"), (2, "GFA"), (3, "CBE"), (2, "FFA"), (3, "ADG"), (4, "BCA"), (3, "FGE"), (5, "ACB")):
            for ks in ((["Ham", "AA"], ["Ham", "AA", "SS"], ["AA", "Ham"]), (many0, many1, many2)):
                spec = dict(nb=nb, iR=[RSETS[t] for t in trip], keys=list(ks), use_pg=-1, nk=2 if nb < 3 else 1, chain=True)
                out.append(Case(f"chain+alive nb={nb} R={'/'.join(trip)} keys={'|'.join('+'.join(x) for x in ks)}", case_interp, dict(spec=spec), timeout=3000))
        for nb, quad in ((1, "ABCE"), (2, "GFAD"), (3, "CBEA"), (2, "FEGB")):
            for ks in ((["Ham", "AA"], ["Ham", "AA", "SS"], ["AA", "Ham"], ["Ham", "AA", "BB"]), (many0, many1, many2, ["SA", "AA", "Ham", "GG", "BB"])):
                spec = dict(nb=nb, iR=[RSETS[t] for t in quad], keys=list(ks), use_pg=-1, nk=1, chain=True)
                out.append(Case(f"chain of three nb={nb} R={'/'.join(quad)} keys={'|'.join('+'.join(x) for x in ks)}", case_interp, dict(spec=spec), timeout=3000))
        for nspin in ([1, 1, 2], [2, 1, 2], [1, 2, 1], [2, 2, 2], [1, 1, 1], [2, 2, 1]):
            for nb in (1, 2, 3):
                if nb == 3 and nspin not in ([2, 1, 2], [1, 2, 1]):
                    continue
                spec = dict(nb=nb, nspin=nspin, iR=[RSETS["A"], RSETS["C"], RSETS["B"]], iRud=[[RSETS["A"], RSETS["B"]], [RSETS["B"], RSETS["C"]], [RSETS["E"], RSETS["A"]]], nk=1, chain=True)
                out.append(Case(f"chainSOC nspin={'->'.join(map(str, nspin))} nb={nb}", case_interp, dict(spec=spec), timeout=3000))
    return out


# ------------------------------------------------------------------------------------------------------------
class NumRec:
    """replay-side recorder: the same obligations evaluated on concrete doubles with the unshadowed real code"""

    def __init__(s):
        s.bad = []

    def eq(s, name, a, b, key=None, **kw):
        a, b = np.asarray(a, dtype=complex), np.asarray(b, dtype=complex)
        ok = (a.shape == b.shape or b.size == 1) and np.allclose(a, b, rtol=1e-9, atol=1e-9 * (1 + np.abs(b).max(initial=0)))
        if not ok:
            s.bad.append(name)

    def close(s, name, a, b, tol, bound=1.0, key=None):
        s.eq(name, a, b)

    def concrete(s, name, ok, detail="", key=None):
        if not ok:
            s.bad.append(name + " " + detail)

    def note(s, txt):
        pass


KREPLAY = np.array([[0.1234, -0.3217, 0.4561], [0.377, 0.291, -0.113], [-0.2113, 0.0719, 0.3307]])


def replay(rec):
    import traceback
    from symx.harness import unarr
    w = rec["witness"]
    spec = w["spec"]
    A = {n: unarr(a) for n, a in w["arrays"].items()}
    if all(np.abs(a).max(initial=0) == 0 for n, a in A.items()):
        rng = np.random.default_rng(1)
        full = pick(spec)[0](spec)
        # an exception path leaves all atoms free: use a generic point of the input space (hermitian structure kept by evaluating the symbolic arrays)
        from symx.harness import CompleteEnv
        env = CompleteEnv()
        for a in full.values():
            for x in a.flat:
                for at in SymC.of(x).atoms():
                    env.setdefault(at, Fr(int(rng.integers(-8, 9)), 8))
        A = {n: np.asarray(env.val(a)) for n, a in full.items()}
    A = {n: (a.real if n[-2:-1] == "c" or n in ("alpha", "angles") else a.astype(complex)) for n, a in A.items()}
    nr = NumRec()
    try:
        pick(spec)[1](nr, spec, A, KREPLAY[:spec["nk"]], np)
    except Exception as e:
        tb = traceback.format_exc()
        if "wannierberri" in tb.split("obligations")[-1]:
            return True, f"raises {type(e).__name__}: {e}"
        raise
    return bool(nr.bad), f"alpha={A['alpha'].tolist()} failed: {nr.bad[:4]}"
