"""C22 — finite-difference b-vectors satisfy the completeness relation (partial: see OUTSIDE)"""
import itertools, math
import numpy as np
from symx.core import *
from symx.core import z3
from symx.npproxy import NpProxy, LinalgProxy, shadow
from symx.lifted import int_model
from symx.harness import Case
import symx.harness  # noqa (puts the repo on sys.path)
import wannierberri.w90files.bkvectors as BK

PROPERTY = "C22"
FUNCTIONS = ["wannierberri.w90files.bkvectors.BKVectors.__init__ / from_kpoints / from_nnkp / kpt_red", "wannierberri.w90files.nnkp.parse_nnkp", "wannierberri.w90files.bkvectors.BKVectors.find_G_and_neighbours", "BKVectors.get_shell_weights", "BKVectors.k_to_shells",
             "BKVectors.find_bk_vectors", "BKVectors.get_projector_shell_cart", "bkvectors.is_parallel_shell"]
BOUNDS = dict(
    quick=dict(neighbours="meshes up to 3x2x2; k-point order = symbolic permutation (z3 integers); b-vectors = symbolic integers in the search box [-2N,2N]; "
                          "1 symbolic b with one irreducible k at an enumerated position (all meshes), 2 b's x 2 k's (meshes <=4 points), all k's (2 points)",
               weights="complete sets of linearly independent shells (harness-selected, shortest first) of 6 concrete lattices (sc, fcc, bcc, hexagonal, orthorhombic, triclinic), also with the last shell dropped, with every shell stretched by a symbolic factor, or one fully symbolic +-b shell; "
                       "LAPACK svd output = unconstrained fresh atoms u, s, vh (one-shell sets: sc, fcc, bcc) or u=1, s=1, vh fresh, which still reaches every weight vector (all sets); bk_complete_tol symbolic in [1e-8,1e-3]",
               shells="6 lattices x meshes (1,1,1),(2,2,2),(2,2,1)/(3,2,1) and the sheared cell with the Gamma-only mesh: kmesh_tol symbolic in [1e-9,1e-5]",
               object="__init__: symbolic 3x3 reciprocal lattice and weights, meshes 2x3x4, 3x1x2; from_kpoints: mono/tric/hex 2x3x4, fcc 3x2x2, bcc 2x2x3, mono 3x3x2, and 2D / 1D / Gamma-only meshes (5x3x1, 1x6x1, 4x1x1, 3x2x1, 1x3x2, 1x4x1, 1x1x1) on three strongly sheared, "
                      "non-reduced cells and the triclinic one; seeded k-point order, symbolic kmesh_tol",
               nnkp="from_nnkp: hex 1x1x1 / ortho 2x2x1 / fcc 2x2x2 with every transposition of the shell-ordered neighbour list, sc 2x3x4 with every rotation, hex 2x2x1 and mono 2x3x4 seeded shuffles; other k-points listed in seeded orders"),
    thorough=dict(neighbours="meshes up to 27 points (3x3x3, 4x3x2, 2x4x3, 5x2x2, 6x3x1, 1x7x2, ...), one symbolic b with one k at three enumerated positions; 2 b's x 2 k's up to 6 points, 2 b's x 1 k up to 12 points",
                  weights="as quick plus complete shell sets, sets with the last shell dropped and symbolically stretched sets of 12 further cell/mesh combinations that need 3 to 6 shells "
                          "(base-centred orthorhombic, tetragonal, rhombohedral, body-centred tetragonal and face-centred orthorhombic with anisotropic meshes, two triclinic and three sheared cells)",
                  shells="17 cells x meshes (1,1,1),(2,2,2),(3,2,1) (+ (3,3,3),(4,4,2) for the quick family)",
                  object="from_kpoints: 17 cells x meshes 2x3x4, 4x2x3, 5x3x1, 1x6x1, 3x2x5, 4x4x2, 1x1x1, 3x3x3 (bct/fco with isotropic meshes excluded, see OUTSIDE)",
                  nnkp="from_nnkp: 12 further cell/mesh combinations, each with every transposition, every rotation and three seeded shuffles of the neighbour list; two successive symbolic transpositions "
                       "(double swaps, 3-cycles) for hex 1x1x1, ortho 2x2x1, tetra 2x3x4, hex 2x3x4"))
EXPLANATION = ("(a) The real find_G_and_neighbours runs on a k-point list whose order is a symbolic permutation of the mesh and on symbolic integer b-vectors; z3 (linear integer "
               "arithmetic with constant moduli) proves k+b = k_nb + G*mp for the neighbour it returns and that the 'no neighbour' exit is unreachable. "
               "(b) The real get_shell_weights runs with np.linalg.svd replaced by unconstrained atoms: on every normally returning path the returned (wk, bk_cart) satisfy "
               "||sum_b w_b b b^T - 1|| <= bk_complete_tol, wk is constant on each shell, rows of bk_cart/bk_grid stay paired. "
               "(c) The real k_to_shells / find_bk_vectors run on concrete lattices with a symbolic kmesh_tol: shells are whole (all mesh vectors of one length), closed under b->-b, "
               "weights equal on +-b, completeness holds. (d) The real BKVectors.__init__ runs on a fully symbolic reciprocal lattice (bk_cart must equal bk_grid.(recip_lattice[i]/mp_grid[i]) identically), "
               "and the whole from_kpoints pipeline builds the object on anisotropic meshes of monoclinic/triclinic/hexagonal/fcc/bcc lattices and on 2D/1D/Gamma-only meshes of strongly sheared non-reduced cells (shells at the edge of the search box): the object's own bk_cart, wk, bk_grid, G, neighbours "
               "must satisfy completeness, image, closure, whole shells and the neighbour identity. (e) The real BKVectors.from_nnkp reads a .nnkp text written by the harness (in-memory file) "
               "whose neighbour list is the shell order with a symbolic transposition / rotation (z3 integers) or a seeded shuffle, with symbolic kmesh_tol; same obligations on the object, "
               "plus bk_grid / neighbours / G in the order of the file.")
ASSUMPTIONS = ["complete Gamma-centred mesh, each point once (find_G_and_neighbours)", "b-vectors inside the search box of find_bk_vectors (|b_i| <= 2 N_i)",
               "(b) only normally returning paths: the singular-value guard and the completeness guard may reject (string / RuntimeError as documented)",
               "(c) kmesh_tol in [1e-9,1e-5]; the 6 lattices x meshes of the family all possess a complete set of independent shells inside the search box (checked by the harness's own selection), so 'Could not find a complete set' counts as a violation there"]
OUTSIDE = ["body-centred tetragonal and face-centred orthorhombic cells with isotropic meshes (and any cell whose first shell spans all three directions without being complete): find_bk_vectors raises 'Could not find a complete set' there although a complete set exists (reported; proposed_fixes/C22-find_bk_vectors-parallel-shell-test.diff; cases listed in PENDING_FIX)", ".nnkp neighbour lists beyond one symbolic transposition / rotation of the shell order and seeded shuffles (all NNB! orders)", "the shell search for EVERY lattice (argsort over >=124 symbolic norms and LAPACK SVD): only the concrete lattice family of (c)",
           "that LAPACK's svd is accurate (the weights are only required to pass the code's own completeness guard)", "meshes above the stated sizes",
           "perturbed k-point coordinates in find_G_and_neighbours (np.rint absorbs them; rounding is covered in C23)"]
STUBS = ["open() in bkvectors: in-memory file holding the .nnkp text written by the harness", "np.linalg.svd on symbolic input: fresh unconstrained atoms of the right shapes (u (n,n), s (n,), vh (n,9)); variant 2: u=identity, s=ones, vh fresh",
         "integer scalars SymI (z3 Int terms) with + - * // % == for k-point / b-vector components; np.all over symbolic comparisons = one conjunction",
         "np.zeros(dtype=int) returns an object array in (a) so that symbolic G can be stored", "print silenced"]


# ------------------------------------------------------------------------------------------------------------
# (a) symbolic integers
class SymI:
    """integer-valued scalar: python int or z3 Int term"""
    __slots__ = ("t",)

    def __init__(s, t):
        s.t = int(t) if isinstance(t, (int, np.integer)) else t

    @property
    def conc(s):
        return isinstance(s.t, int)

    @staticmethod
    def _t(o):
        if isinstance(o, SymI):
            return o.t
        if isinstance(o, (int, np.integer)):
            return int(o)
        if isinstance(o, (float, np.floating)) and float(o).is_integer():
            return int(o)
        return None

    def _bin(s, o, f):
        t = SymI._t(o)
        if t is None:
            return NotImplemented
        return SymI(f(s.t, t))

    def __add__(s, o):
        return s._bin(o, lambda a, b: a + b)
    __radd__ = __add__

    def __sub__(s, o):
        return s._bin(o, lambda a, b: a - b)

    def __rsub__(s, o):
        return s._bin(o, lambda a, b: b - a)

    def __neg__(s):
        return SymI(-s.t)

    def __mul__(s, o):
        if isinstance(o, SymQ):
            return o * s
        return s._bin(o, lambda a, b: a * b)
    __rmul__ = __mul__

    def __floordiv__(s, o):           # divisor: positive python int (z3 integer division is floor division then)
        t = SymI._t(o)
        assert isinstance(t, int) and t > 0
        return SymI(s.t // t if s.conc else s.t / t)

    def __mod__(s, o):
        t = SymI._t(o)
        assert isinstance(t, int) and t > 0
        return SymI(s.t % t)

    def __truediv__(s, o):
        t = SymI._t(o)
        assert isinstance(t, int) and t > 0
        return SymQ(s, t)

    def __eq__(s, o):
        t = SymI._t(o)
        if t is None:
            return NotImplemented
        r = s.t == t
        return bool(r) if isinstance(r, bool) else SymB(r)

    def __ne__(s, o):
        r = s.__eq__(o)
        return r if r is NotImplemented else (not r if isinstance(r, bool) else ~r)

    __hash__ = None

    def rint(s):
        return s

    def __int__(s):
        if not s.conc:
            raise Inconclusive("int() of a symbolic integer")
        return s.t

    __index__ = __int__

    def __repr__(s):
        return f"SymI({s.t})"


class SymQ:
    """SymI / positive int (reduced k-point coordinate); only multiplication back to an integer is needed"""
    __slots__ = ("n", "d")

    def __init__(s, n, d):
        s.n, s.d = n, d

    def __mul__(s, o):
        t = SymI._t(o)
        if not isinstance(t, int) or t % s.d:
            raise Inconclusive("reduced coordinate times a non-multiple of its denominator")
        return s.n * (t // s.d)
    __rmul__ = __mul__


class IArr(SymArray):
    def astype(s, dtype, *a, **k):
        if dtype in (int, np.int64, 'int'):
            return s.copy()
        return super().astype(dtype, *a, **k)


class Np22a(NpProxy):
    def zeros(s, shape, dtype=None, **k):
        if dtype in (int, 'int', np.int64):
            a = np.empty(shape, dtype=object)
            a[...] = 0
            return a.view(IArr)
        return super().zeros(shape, dtype, **k)

    def all(s, x, *a, **k):
        if isinstance(x, np.ndarray) and x.dtype == object:
            lits = list(x.flat)
            if all(isinstance(b, (bool, np.bool_)) for b in lits):
                return all(lits)
            if any(isinstance(b, (bool, np.bool_)) and not b for b in lits):
                return False
            sb = [b for b in lits if isinstance(b, SymB)]
            return bool(SymB(z3.And(*[b.t for b in sb])))
        return super().all(x, *a, **k)


def sym_mesh_order(mesh):
    """k_int[j] = integer coordinates of the j-th listed k-point: nk pairwise distinct points of the N1xN2xN3 box (= any ordering of the complete mesh).
    The surjectivity clauses (every mesh point is somewhere in the list) follow by counting and are stated explicitly to help the solver."""
    nk = int(np.prod(mesh))
    pts = list(itertools.product(*[range(n) for n in mesh]))
    c = [[z3.Int(f"k{j}_{a}") for a in range(3)] for j in range(nk)]
    ass = [z3.And(c[j][a] >= 0, c[j][a] < mesh[a]) for j in range(nk) for a in range(3)]
    ass += [z3.Or(*[c[i][a] != c[j][a] for a in range(3)]) for i in range(nk) for j in range(i)]
    ass += [z3.Or(*[z3.And(*[c[j][a] == v[a] for a in range(3)]) for j in range(nk)]) for v in pts]
    k = np.empty((nk, 3), dtype=object)
    for j in range(nk):
        for a in range(3):
            k[j, a] = SymI(c[j][a])
    return c, ass, k.view(IArr)


def residue_lemmas(rec, mesh, kint, bk, kk, nnb):
    """definitional extension r = (k+b) mod N (linear: k+b = r + N q, 0<=r<N) and, for every listed k-point j, the lemma
    ((k+b-k_j) % N == 0)  <=>  OR_v (k_j == v and r == v); each lemma is proved by the solver from the definitions alone and then added as a fact"""
    from symx import smt
    nk = kint.shape[0]
    defs, lems = [], []
    bad = 0
    for ik in kk:
        for ib in range(nnb):
            for a in range(3):
                N = mesh[a]
                t = kint[ik, a] + bk[ib, a]
                r, q = z3.Int(f"r{ik}_{ib}_{a}"), z3.Int(f"q{ik}_{ib}_{a}")
                d = [r >= 0, r < N, t.t == r + N * q, z3.Or(*[r == v for v in range(N)])]
                defs += d
                mine = []
                for j in range(nk):
                    kj = kint[j, a]
                    mine.append((((t - kj) % N) == 0).t == z3.Or(*[z3.And(kj.t == v, r == v) for v in range(N)]))
                v = smt.check_fact("lemma", z3.And(*mine), d + [z3.And(kint[j, a].t >= 0, kint[j, a].t < N) for j in range(nk)], 60000)
                bad += v.status != "unsat"
                lems += mine
    return defs + lems, bad


def case_neighbours(rec, mesh, nnb, kptirr):
    shadow([BK], Np22a(), print=lambda *a, **k: None)
    mesh = tuple(mesh)
    nk = int(np.prod(mesh))
    pts = list(itertools.product(*[range(n) for n in mesh]))
    c, ass, kint = sym_mesh_order(mesh)
    b = [[z3.Int(f"b{i}_{a}") for a in range(3)] for i in range(nnb)]
    for i in range(nnb):
        for a in range(3):
            ass += [b[i][a] >= -2 * mesh[a], b[i][a] <= 2 * mesh[a]]
    bk = np.empty((nnb, 3), dtype=object)
    kred = np.empty((nk, 3), dtype=object)
    for i in range(nnb):
        for a in range(3):
            bk[i, a] = SymI(b[i][a])
    for j in range(nk):
        for a in range(3):
            kred[j, a] = kint[j, a] / mesh[a]
    bk, kred = bk.view(IArr), kred.view(IArr)
    ints = [x for r in c for x in r] + [x for r in b for x in r]
    mp = np.array(mesh)
    kk_all = list(range(nk)) if kptirr is None else list(kptirr)
    lem, nbad = residue_lemmas(rec, mesh, kint, bk, kk_all, nnb)
    ass += lem

    def body(rec):
        state = dict(neg=None)

        def witness(env):
            vals = int_model(list(Ctx.cur.pc) + ([state["neg"]] if state["neg"] is not None else []), ints)
            if vals is None:
                return dict(test="neighbours", error="no integer model")
            order = [pts.index(tuple(vals[3 * j: 3 * j + 3])) for j in range(nk)]
            return dict(test="neighbours", mesh=list(mesh), order=order, b=[vals[3 * nk + 3 * i: 3 * nk + 3 * i + 3] for i in range(nnb)], kptirr=kptirr)
        rec.witness = witness
        rec.concrete("residue lemmas proved from their definitions", nbad == 0, key="C22 harness lemma not proved")
        try:
            G, nb = BK.BKVectors.find_G_and_neighbours(kred, bk, mp, kptirr=kptirr)
        except RuntimeError as e:
            rec.concrete("every b-vector finds a neighbour on a complete mesh", False, detail=str(e)[:120], key="find_G_and_neighbours: no neighbour found on a complete mesh")
            return
        kk = list(range(nk)) if kptirr is None else list(kptirr)
        rec.concrete("G and neighbours have an entry for every requested k", sorted(G.keys()) == sorted(kk) == sorted(nb.keys()), key="find_G_and_neighbours: wrong keys")
        facts = []
        ok_idx = True
        for ik in kk:
            for ib in range(nnb):
                j = nb[ik][ib]
                if isinstance(j, SymI):
                    j = int(j)
                j = int(j)
                ok_idx = ok_idx and 0 <= j < nk
                for a in range(3):
                    g = G[ik][ib][a]
                    g = g.t if isinstance(g, SymI) else int(g)
                    facts.append(kint[ik, a].t + b[ib][a] == kint[j % nk, a].t + g * mesh[a])
        rec.concrete("neighbour indices are valid k-point indices", ok_idx, key="find_G_and_neighbours: neighbour index out of range")
        fact = z3.And(*facts)
        state["neg"] = z3.Not(fact)
        rec.fact("k + b == k_neighbour + G*mp for every requested k and every b", fact, key="find_G_and_neighbours: k+b != k_nb+G*mp")
        state["neg"] = None
    rec.explore(body, ass)


# ------------------------------------------------------------------------------------------------------------
# (b) shell weights under an arbitrary SVD
class Norm2:
    """np.linalg.norm(X) of a symbolic matrix kept as its square; comparison with a non-negative t compares the squares (no sqrt atom)"""

    def __init__(s, sq):
        s.sq = sq

    def _c(s, o, op):
        o = SymC.of(o)
        if o.isconst() and float(o) < 0:
            return op(1.0, 0.0)
        return op(s.sq, o * o)               # the harness assumes t >= 1e-8 > 0 for symbolic t

    def __lt__(s, o):
        return s._c(o, lambda a, b: a < b)

    def __le__(s, o):
        return s._c(o, lambda a, b: a <= b)

    def __gt__(s, o):
        return s._c(o, lambda a, b: a > b)

    def __ge__(s, o):
        return s._c(o, lambda a, b: a >= b)

    def __format__(s, spec):
        return "sqrt(<symbolic>)"


class SvdStub(LinalgProxy):
    """np.linalg.svd(A, full_matrices=False) on symbolic A: fresh unconstrained atoms (mode 'free') or u=1, s=1, vh fresh (mode 'v')"""

    def __init__(s, real, mode):
        super().__init__(real)
        s.mode = mode
        s.calls = []
        s.norms = []

    def svd(s, a, full_matrices=True, **kw):
        if not is_sym(a) and s.mode == "real":
            return s._r.svd(a, full_matrices=full_matrices, **kw)
        n, m = a.shape
        assert not full_matrices and n <= m
        t = len(s.calls)
        if s.mode == "free":
            u, sv = symvec(f"u{t}", (n, n)), symvec(f"s{t}", (n,))
        else:
            u, sv = lift(np.eye(n)), lift(np.ones(n))
        vh = symvec(f"v{t}", (n, m))
        s.calls.append((np.asarray(a, dtype=object).copy(), u, sv, vh))
        return u, sv, vh

    def norm(s, x, ord=None, axis=None, **kw):
        if is_sym(x) and ord is None and axis is None:
            x = np.asarray(x, dtype=object)
            r = Norm2(SymC.of((x * x).sum()))
            s.norms.append(r)
            return r
        return super().norm(x, ord=ord, axis=axis, **kw)


LATTICES = dict(
    sc=np.eye(3) * 1.7, fcc=np.array([[-1, 0, 1], [0, 1, 1], [-1, 1, 0]]) * 1.1, bcc=np.array([[1, 1, -1], [-1, 1, 1], [1, -1, 1]]) * 0.9,
    hex=np.array([[1, 0, 0], [-0.5, math.sqrt(3) / 2, 0], [0, 0, 1.6]]) * 1.3, ortho=np.diag([1.0, 1.3, 1.9]),
    tric=np.array([[1.0, 0.1, 0.2], [0.15, 1.2, -0.1], [0.05, 0.3, 1.5]]), mono=np.array([[1.0, 0.0, 0.0], [0.0, 1.2, 0.0], [0.45, 0.0, 1.5]]),
    # strongly sheared, non-reduced cells (large off-diagonal components): short mesh vectors reach the edge of the search box
    shear=np.array([[1.0, 0.0, 0.0], [0.0, 1.1, 0.0], [0.5, 0.0, 0.2]]) * 1.4, shear2=np.array([[1.0, 0.3, 0.0], [0.9, 0.5, 0.0], [0.4, 0.45, 0.3]]),
    skew=np.array([[0.94, 0.77, 0.73], [0.19, 0.57, 0.08], [0.92, 0.80, 0.53]]),
    # thorough tier: cells that need three or four shells
    bco=np.array([[1.0, 0.6, 0.0], [-1.0, 0.6, 0.0], [0.0, 0.0, 0.9]]), bct=np.array([[0.0, 1.0, 0.7], [1.0, 0.0, 0.7], [1.0, 1.0, 0.0]]) * 0.8,
    rhomb=np.array([[1.0, 0.25, 0.25], [0.25, 1.0, 0.25], [0.25, 0.25, 1.0]]), tetra=np.diag([1.0, 1.0, 1.45]),
    tric2=np.array([[1.1, 0.0, 0.0], [0.35, 0.95, 0.0], [0.2, -0.3, 1.3]]), fco=np.array([[-1.0, 1.2, 1.5], [1.0, -1.2, 1.5], [1.0, 1.2, -1.5]]) * 0.5)


def concrete_shells(name, mesh, nshell):
    """harness-owned shell selection for a concrete lattice (independent of the code under test): mesh vectors of the search box grouped by length;
    shells are added in order of length while their matrices sum_b b b^T stay linearly independent, until 1 is in their span. nshell<0 drops the last shells."""
    basis = LATTICES[name] / np.array(mesh)[:, None]
    box = np.array([v for v in itertools.product(*[range(-2 * m, 2 * m + 1) for m in mesh]) if any(v)])
    cart = box @ basis
    ln = np.linalg.norm(cart, axis=1)
    srt = np.argsort(ln, kind="stable")
    box, cart, ln = box[srt], cart[srt], ln[srt]
    brd = [0] + [i for i in range(1, len(ln)) if ln[i] - ln[i - 1] > 1e-7] + [len(ln)]
    sl, sc, mats = [], [], []
    for a, b in zip(brd, brd[1:]):
        M = (cart[a:b].T @ cart[a:b]).reshape(9)
        if np.linalg.matrix_rank(np.array(mats + [M]), tol=1e-8) < len(mats) + 1:
            continue
        mats.append(M)
        sl.append(box[a:b])
        sc.append(cart[a:b])
        w = np.linalg.lstsq(np.array(mats).T, np.eye(3).reshape(9), rcond=None)[0]
        if np.linalg.norm(np.array(mats).T @ w - np.eye(3).reshape(9)) < 1e-10:
            break
    else:
        raise RuntimeError("harness: no complete shell set")
    if nshell < 0:
        sl, sc = sl[:nshell], sc[:nshell]
    return sl, sc


def case_weights(rec, source, nshell, mode, msg_if_fail, mesh=(1, 1, 1), scaled=False):
    lin = SvdStub(np.linalg, mode)
    pre = None if source == "sym" else concrete_shells(source, mesh, nshell)       # concrete run before the stubs are installed
    shadow([BK], NpProxy(linalg=lin), print=lambda *a, **k: None)
    if source == "sym":
        # symbolic shells: shell i = {+b, -b} (i even) or {+b, -b, +c, -c} (i odd), b, c symbolic cartesian vectors
        sl, sc = [], []
        for i in range(nshell):
            vs = [symvec(f"b{i}_{m}", (3,)) for m in range(1 + i % 2)]
            sc.append(sarr(np.array([v * sg for v in vs for sg in (1, -1)], dtype=object)))
            sl.append(np.array([[(i + 1) * sg * (m + 1), m, 0] for m in range(1 + i % 2) for sg in (1, -1)]))
        shells_w = None
    else:
        sl, sc = pre
        nshell = len(sc)
        shells_w = [c.tolist() for c in sc]
        sc = [lift(c) for c in sc]
        if scaled:                                 # every shell stretched by its own symbolic factor
            lam = symvec("lam", (nshell,), lo=0.5, hi=2.0)
            sc = [c * lam[i] for i, c in enumerate(sc)]
            shells_w = None
    tol = SymC.var("bk_tol", 1e-8, 1e-3)
    ass = [tol.zreal() >= 1e-8, tol.zreal() <= 1e-3]
    if source != "sym" and scaled:
        ass += [z for l in lam for z in (l.zreal() >= 0.5, l.zreal() <= 2.0)]
    I3 = lift(np.eye(3))

    def body(rec):
        del lin.calls[:]
        del lin.norms[:]
        rec.witness = lambda env: dict(test="weights", source=source, mesh=list(mesh), nshell=nshell, msg_if_fail=msg_if_fail, tol=env.val(tol),
                                       shells=shells_w or [env.val(np.asarray(c, dtype=object)).tolist() for c in sc], klatt=[np.asarray(l).tolist() for l in sl],
                                       svd=[[env.val(u).tolist(), env.val(s_).tolist(), env.val(vh).tolist()] for _, u, s_, vh in lin.calls])
        try:
            out = BK.BKVectors.get_shell_weights([l.copy() for l in sl], [c.copy() for c in sc], bk_complete_tol=tol, msg_if_fail=msg_if_fail)
        except RuntimeError:
            rec.concrete("rejection by RuntimeError only without msg_if_fail", not msg_if_fail, key="get_shell_weights raises although msg_if_fail=True")
            return
        if isinstance(out, str):
            rec.concrete("rejection message only with msg_if_fail", msg_if_fail and out in ("zero singular value", "incomplete shells"), detail=out,
                         key="get_shell_weights returns an unexpected message")
            return
        wk, bk_cart, bk_grid = out
        A, u, sv, vh = lin.calls[0]
        # the matrix handed to LAPACK is the list of shell matrices sum_{b in shell} b b^T
        want_A = sarr(np.array([[sum((c[m, i] * c[m, j] for m in range(len(c))), SymC.of(0)) for i in range(3) for j in range(3)] for c in sc], dtype=object))
        rec.eq("matrix given to svd = [sum_{b in shell} b_i b_j]", sarr(A), want_A, key="get_shell_weights: wrong shell matrix")
        # weights constant on a shell; rows stay paired
        off = np.cumsum([0] + [len(c) for c in sc])
        wk_o = np.asarray(wk, dtype=object)
        rec.concrete("one weight per returned b-vector", len(wk_o) == off[-1], key="get_shell_weights: weights not constant on a shell / misaligned")
        want_w = [wk_o[off[i]] if off[i] < len(wk_o) else SymC.of(0) for i, c in enumerate(sc) for _ in range(len(c))]
        want_cart = np.concatenate([np.asarray(c, dtype=object) for c in sc])
        want_grid = np.concatenate([np.asarray(l) for l in sl])
        rec.eq("wk constant on each shell", sarr(wk_o), sarr(want_w), key="get_shell_weights: weights not constant on a shell / misaligned")
        rec.eq("bk_cart rows = shell vectors in order", sarr(np.asarray(bk_cart, dtype=object)), sarr(want_cart), key="get_shell_weights: bk_cart misaligned")
        rec.concrete("bk_grid rows = shell lattice vectors in the same order", np.array_equal(np.asarray(bk_grid), want_grid), key="get_shell_weights: bk_grid misaligned with bk_cart")
        # completeness of what is returned
        wk_, bc = np.asarray(wk, dtype=object), np.asarray(bk_cart, dtype=object)
        S = sarr(np.array([[sum((wk_[m] * bc[m, i] * bc[m, j] for m in range(len(wk_))), SymC.of(0)) for j in range(3)] for i in range(3)], dtype=object))
        tested = lin.norms[0]                     # the residual the code's completeness guard compared with bk_complete_tol
        D = np.asarray(S - I3, dtype=object)
        rec.eq("residual tested by the guard == || sum_b w_b b b^T - 1 ||^2 of the returned (wk, bk_cart)", tested.sq, SymC.of((D * D).sum()),
               key="get_shell_weights returns weights that violate completeness")
        rec.fact("|| sum_b w_b b b^T - 1 || <= bk_complete_tol on every normal return", tested <= tol, key="get_shell_weights returns weights that violate completeness")
    rec.explore(body, ass)


# ------------------------------------------------------------------------------------------------------------
# (c) concrete lattices, symbolic kmesh_tol
class Lin22c(LinalgProxy):
    def norm(s, x, ord=None, axis=None, **kw):
        r = super().norm(x, ord=ord, axis=axis, **kw)
        return r.view(SymArray) if isinstance(r, np.ndarray) and not isinstance(r, SymArray) else r


class Np22c(NpProxy):
    """(c): only kmesh_tol is symbolic, so every allocation stays concrete numpy"""

    def zeros(s, *a, **k):
        return np.zeros(*a, **k)

    def eye(s, *a, **k):
        return np.eye(*a, **k)

    def array(s, x, dtype=None, **k):
        r = super().array(x, dtype=dtype, **k)
        return r.view(SymArray) if isinstance(r, np.ndarray) and not isinstance(r, SymArray) and r.dtype != object else r


def check_shell_structure(mesh, rl, wk, bk_cart, bk_grid, lim):
    """plain numpy judgement shared with replay: closure, whole shells, equal weights on +-b, completeness, grid/cart pairing"""
    wk, bk_cart, bk_grid = np.asarray(wk, dtype=float), np.asarray(bk_cart, dtype=float), np.asarray(bk_grid, dtype=int)
    basis = rl / np.array(mesh)[:, None]
    rows = {tuple(r): i for i, r in enumerate(bk_grid.tolist())}
    msgs = []
    if len(rows) != len(bk_grid):
        msgs.append("repeated b-vector")
    if not np.allclose(bk_grid @ basis, bk_cart, atol=1e-10):
        msgs.append("bk_cart != bk_grid . basis")
    for r, i in rows.items():
        m = tuple(-x for x in r)
        if m not in rows:
            msgs.append(f"-b missing for {r}")
        elif abs(wk[rows[m]] - wk[i]) > 1e-9 * (1 + abs(wk[i])):
            msgs.append(f"w(b) != w(-b) for {r}")
    S = np.einsum('b,bi,bj->ij', wk, bk_cart, bk_cart)
    if np.linalg.norm(S - np.eye(3)) > 1e-5:
        msgs.append(f"completeness residual {np.linalg.norm(S - np.eye(3)):.2e}")
    # whole shells: every mesh vector in the search box with the length of a selected vector is selected, with the same weight
    box = np.array([(i, j, k) for i in range(-lim[0], lim[0] + 1) for j in range(-lim[1], lim[1] + 1) for k in range(-lim[2], lim[2] + 1)])
    blen = np.linalg.norm(box @ basis, axis=1)
    sel_len = np.linalg.norm(bk_cart, axis=1)
    for v, l in zip(box.tolist(), blen):
        near = np.where(np.abs(sel_len - l) < 1e-6)[0]
        if l > 1e-6 and len(near) and tuple(v) not in rows:
            msgs.append(f"mesh vector {v} of a selected shell (|b|={l:.6f}) is missing")
            break
    for i in range(len(wk)):
        same = np.where(np.abs(sel_len - sel_len[i]) < 1e-6)[0]
        if np.abs(wk[same] - wk[i]).max() > 1e-9 * (1 + abs(wk[i])):
            msgs.append("weights differ inside a shell")
            break
    return msgs


def case_shells(rec, name, mesh):
    shadow([BK], Np22c(linalg=Lin22c(np.linalg)), print=lambda *a, **k: None)
    rl = LATTICES[name]
    kt = SymC.var("kmesh_tol", 1e-9, 1e-5)
    ass = [kt.zreal() >= 1e-9, kt.zreal() <= 1e-5]
    mesh = tuple(mesh)

    def body(rec):
        rec.witness = lambda env: dict(test="shells", lattice=name, mesh=list(mesh), kmesh_tol=env.val(kt))
        try:
            wk, bk_cart, bk_grid = BK.BKVectors.find_bk_vectors(rl.copy(), np.array(mesh), kmesh_tol=kt, bk_complete_tol=1e-5, search_supercell=2)
        except RuntimeError as e:
            if "Could not find a complete set" in str(e):
                # the harness-owned selection (concrete_shells) finds a complete set of independent shells inside the same search box for every lattice of this family
                rec.concrete("find_bk_vectors finds b-vectors on a standard lattice that has a complete shell set in the search box", False, detail=str(e)[:100],
                             key="find_bk_vectors: no b-vectors found although a complete shell set exists")
                return
            raise
        msgs = check_shell_structure(mesh, rl, wk, bk_cart, bk_grid, [2 * m for m in mesh])
        rec.concrete("b-vectors: whole shells, closed under b->-b with equal weights, complete, bk_cart = bk_grid.basis", not msgs, detail="; ".join(msgs[:3]),
                     key="find_bk_vectors: shell structure / closure / completeness violated")
    rec.explore(body, ass, max_forks=400000)


# ------------------------------------------------------------------------------------------------------------
# (d) the BKVectors object itself
def concrete_neighbour_data(mesh, bk_grid, seed):
    """concrete k-point list (seeded order) with its neighbour tables from the real (unshadowed) find_G_and_neighbours"""
    pts = np.array(list(itertools.product(*[range(n) for n in mesh])))
    order = np.random.default_rng(seed).permutation(len(pts))
    kg = pts[order]
    G, nb = BK.BKVectors.find_G_and_neighbours(kg / np.array(mesh)[None, :], np.array(bk_grid), np.array(mesh))
    return kg, G, nb


def case_object_symbolic_lattice(rec, mesh, seed):
    """BKVectors.__init__ on a fully symbolic reciprocal lattice and symbolic weights: bk_cart must be the image of bk_grid in the basis recip_lattice[i]/mp_grid[i]"""
    mesh = tuple(mesh)
    bg = np.array([[1, 0, 0], [-1, 0, 0], [0, 1, 0], [0, -1, 0], [0, 0, 1], [0, 0, -1], [1, 1, 0], [-1, -1, 0], [1, -1, 1], [-1, 1, -1], [0, 2, -1], [0, -2, 1]])
    kg, G, nb = concrete_neighbour_data(mesh, bg, seed)
    shadow([BK], NpProxy(), print=lambda *a, **k: None)
    L = symvec("L", (3, 3))
    w = symvec("w", (len(bg),))

    def body(rec):
        rec.witness = lambda env: dict(test="object-sym", mesh=list(mesh), seed=seed, L=env.val(L).tolist(), w=env.val(w).tolist(), bk_grid=bg.tolist())
        obj = BK.BKVectors(recip_lattice=L.copy(), mp_grid=np.array(mesh), wk=w.copy(), bk_grid=bg.copy(), G=G, neighbours=nb, kpt_grid=kg.copy())
        want = sarr(np.array([[sum((int(bg[b, i]) * L[i, j] / mesh[i] for i in range(3)), SymC.of(0)) for j in range(3)] for b in range(len(bg))], dtype=object))
        rec.eq("bk_cart == bk_grid . (recip_lattice[i] / mp_grid[i]) for every reciprocal lattice", sarr(np.asarray(obj.bk_cart, dtype=object)), want,
               key="BKVectors.__init__: bk_cart is not the Cartesian image of bk_grid")
        rec.eq("wk stored unchanged", sarr(np.asarray(obj.wk, dtype=object)), w, key="BKVectors.__init__: wk altered")
        ok = np.array_equal(np.asarray(obj.bk_grid), bg) and np.allclose(np.asarray(obj.bk_red, dtype=float), bg / np.array(mesh)[None, :]) and \
            np.allclose(np.asarray(obj.kpt_red, dtype=float), kg / np.array(mesh)[None, :]) and obj.NNB == len(bg) and obj.NK == len(kg)
        rec.concrete("bk_grid, bk_red = bk_grid/mp, kpt_red = kpt_grid/mp, NNB, NK", bool(ok), key="BKVectors.__init__: grid attributes wrong")
    rec.explore(body, [])


def judge_object(mesh, rl, kpt_int, wk, bk_cart, bk_grid, G, nb):
    msgs = check_shell_structure(mesh, rl, wk, bk_cart, bk_grid, [2 * m for m in mesh])
    mp = np.array(mesh)
    bg = np.asarray(bk_grid, dtype=int)
    for ik in range(len(kpt_int)):
        for ib in range(len(bg)):
            j = int(nb[ik][ib])
            if not (0 <= j < len(kpt_int)) or not np.array_equal(kpt_int[ik] + bg[ib], kpt_int[j] + np.asarray(G[ik][ib]) * mp):
                msgs.append(f"k+b != k_nb+G*mp at k={ik} b={ib}")
                return msgs
    return msgs


def case_object(rec, name, mesh, seed):
    """the real BKVectors.from_kpoints pipeline (find_bk_vectors, find_G_and_neighbours, __init__) on a concrete lattice with an anisotropic mesh, k-points in a seeded order,
    symbolic kmesh_tol: the OBJECT's own bk_cart, wk, bk_grid, neighbours, G must satisfy the property"""
    shadow([BK], Np22c(linalg=Lin22c(np.linalg)), print=lambda *a, **k: None)
    rl = LATTICES[name]
    mesh = tuple(mesh)
    kt = SymC.var("kmesh_tol", 1e-9, 1e-5)
    ass = [kt.zreal() >= 1e-9, kt.zreal() <= 1e-5]
    pts = np.array(list(itertools.product(*[range(n) for n in mesh])))
    kint = pts[np.random.default_rng(seed).permutation(len(pts))]

    def body(rec):
        rec.witness = lambda env: dict(test="object", lattice=name, mesh=list(mesh), seed=seed, kmesh_tol=env.val(kt))
        try:
            obj = BK.BKVectors.from_kpoints(recip_lattice=rl.copy(), mp_grid=np.array(mesh), kpoints_red=kint / np.array(mesh)[None, :], kmesh_tol=kt)
        except RuntimeError as e:
            if "Could not find a complete set" in str(e):
                rec.concrete("find_bk_vectors finds b-vectors on a standard lattice that has a complete shell set in the search box", False, detail=str(e)[:100],
                             key="find_bk_vectors: no b-vectors found although a complete shell set exists")
                return
            raise
        msgs = judge_object(mesh, rl, np.asarray(obj.kpt_grid), obj.wk, obj.bk_cart, obj.bk_grid, obj.G, obj.neighbours)
        rec.concrete("BKVectors object: sum_b w_b b b^T = 1 with its own bk_cart/wk, bk_cart = bk_grid.(recip_lattice/mp per axis), whole shells, b->-b closure, k+b = k_nb+G",
                     not msgs, detail="; ".join(msgs[:3]), key="BKVectors object violates completeness / bk_cart image / closure / neighbour identity")
    rec.explore(body, ass, max_forks=400000)


# ------------------------------------------------------------------------------------------------------------
# (e) the from_nnkp entry point: .nnkp text written by the harness, neighbour list of the first k-point in a symbolic order
def nnkp_data(name, mesh, seed):
    """harness-owned content of a .nnkp file for a concrete lattice: k-points (seeded order), the complete set of independent shells, exact neighbour tables"""
    sl, sc = concrete_shells(name, mesh, 0)
    bvec = np.concatenate(sl)                                # shell by shell, ascending |b|
    shell_of = np.concatenate([[i] * len(x) for i, x in enumerate(sl)])
    pts = np.array(list(itertools.product(*[range(n) for n in mesh])))
    kint = pts[np.random.default_rng(seed).permutation(len(pts))]
    index = {tuple(p): i for i, p in enumerate(kint.tolist())}
    mp = np.array(mesh)
    table = {}
    for ik, k in enumerate(kint):
        for ib, b in enumerate(bvec):
            t = k + b
            table[ik, ib] = (index[tuple((t % mp).tolist())], (t // mp).tolist())
    return bvec, shell_of, kint, table


def nnkp_text(name, mesh, kint, bvec, table, order, seed):
    """the blocks BKVectors.from_nnkp reads; neighbours of the first k-point in the given order, those of the other k-points in seeded orders of their own"""
    real = 2 * np.pi * np.linalg.inv(LATTICES[name]).T
    out = ["begin real_lattice"] + ["  ".join(repr(float(x)) for x in row) for row in real] + ["end real_lattice", "", "begin kpoints", f"  {len(kint)}"]
    out += ["  ".join(f"{x:14.8f}" for x in k / np.array(mesh)) for k in kint] + ["end kpoints", "", "begin nnkpts", f"  {len(bvec)}"]
    rng = np.random.default_rng(seed + 1)
    for ik in range(len(kint)):
        o = list(order) if ik == 0 else rng.permutation(len(bvec)).tolist()
        for ib in o:
            j, G = table[ik, ib]
            out.append(f"{ik + 1:6d}{j + 1:6d}   {G[0]:4d}{G[1]:4d}{G[2]:4d}")
    return "\n".join(out + ["end nnkpts", ""])


def judge_nnkp(mesh, rl, kint, bvec, table, order, obj):
    msgs = judge_object(mesh, rl, np.asarray(obj.kpt_grid), obj.wk, obj.bk_cart, obj.bk_grid, obj.G, obj.neighbours)
    if not np.array_equal(np.asarray(obj.kpt_grid), kint):
        msgs.append("kpt_grid differs from the k-points of the file")
    if not np.array_equal(np.asarray(obj.bk_grid), bvec[list(order)]):
        msgs.append("bk_grid is not in the order of the neighbour list of the file")
    else:
        for ik in range(len(kint)):
            for pos, ib in enumerate(order):
                j, G = table[ik, ib]
                if int(obj.neighbours[ik][pos]) != j or list(np.asarray(obj.G[ik][pos]).tolist()) != G:
                    msgs.append(f"neighbour/G of k={ik}, b={bvec[ib].tolist()} differ from the file")
                    return msgs
    return msgs


def case_nnkp(rec, name, mesh, seed, model):
    from symx.tok import MemFS
    from symx.lifted import sym_choice
    mesh = tuple(mesh)
    rl = LATTICES[name]
    bvec, shell_of, kint, table = nnkp_data(name, mesh, seed)
    nnb = len(bvec)
    fs = MemFS()
    shadow([BK], Np22c(linalg=Lin22c(np.linalg)), print=lambda *a, **k: None, open=fs.open)
    kt = SymC.var("kmesh_tol", 1e-9, 1e-5)
    ass = [kt.zreal() >= 1e-9, kt.zreal() <= 1e-5]
    if model == "swap":                       # shell order with two symbolic positions exchanged (covers every transposition, incl. across shells)
        i, ai, pi = sym_choice("ni", list(range(nnb)))
        j, aj, pj = sym_choice("nj", list(range(nnb)))
        ass += ai + aj + [pi < pj]
    elif model == "rotate":                   # shell order rotated by a symbolic offset
        i, ai, pi = sym_choice("ni", list(range(nnb)))
        ass += ai
    elif model == "swap2":                    # two symbolic transpositions one after the other (3-cycles and double swaps)
        i, ai, pi = sym_choice("ni", list(range(nnb)))
        j, aj, pj = sym_choice("nj", list(range(nnb)))
        i2, ai2, pi2 = sym_choice("ni2", list(range(nnb)))
        j2, aj2, pj2 = sym_choice("nj2", list(range(nnb)))
        ass += ai + aj + ai2 + aj2 + [pi < pj, pi2 < pj2]
    base = list(range(nnb)) if not model.startswith("shuffle") else np.random.default_rng(seed + 7 + int(model[7:] or 0)).permutation(nnb).tolist()

    def body(rec):
        order = list(base)
        if model == "swap":
            a, b = int(i.concretize()), int(j.concretize())
            order[a], order[b] = order[b], order[a]
        elif model == "rotate":
            a = int(i.concretize())
            order = order[a:] + order[:a]
        elif model == "swap2":
            a, b, c, d = int(i.concretize()), int(j.concretize()), int(i2.concretize()), int(j2.concretize())
            order[a], order[b] = order[b], order[a]
            order[c], order[d] = order[d], order[c]
        rec.witness = lambda env, order=order: dict(test="nnkp", lattice=name, mesh=list(mesh), seed=seed, order=order, kmesh_tol=env.val(kt))
        fs.files["harness.nnkp"] = nnkp_text(name, mesh, kint, bvec, table, order, seed)
        try:
            obj = BK.BKVectors.from_nnkp("harness.nnkp", kmesh_tol=kt, bk_complete_tol=1e-5)
        except RuntimeError as e:
            rec.concrete("from_nnkp accepts a consistent .nnkp file", False, detail=str(e)[:120], key="BKVectors.from_nnkp rejects a consistent .nnkp file")
            return
        msgs = judge_nnkp(mesh, rl, kint, bvec, table, order, obj)
        shell_sorted = all(shell_of[order[n]] <= shell_of[order[n + 1]] for n in range(nnb - 1))
        rec.concrete("from_nnkp object: sum_b w_b b b^T = 1 with its own bk_cart/wk, bk_cart = bk_grid.basis, b->-b closure with equal weights, whole shells, "
                     "bk_grid / neighbours / G in the order of the file", not msgs, detail=("shell-ordered list: " if shell_sorted else "list not ordered by shells: ") + "; ".join(msgs[:3]),
                     key="BKVectors.from_nnkp object violates completeness / closure / file order")
    rec.explore(body, ass, max_forks=400000)


# lattice/mesh combinations on which the code as it is raises 'Could not find a complete set of bk vectors' although a complete set of independent shells exists
# (is_parallel_shell discards every shell after one that spans all three directions); to be added to the deep tier once /verif/proposed_fixes/C22-find_bk_vectors-parallel-shell-test.diff is in
PENDING_FIX = []      # (was: bct / fco with isotropic meshes; the cases are part of the tiers now, see known_findings.json)


# ------------------------------------------------------------------------------------------------------------
def cases(tier, seed):
    q = tier == "quick"
    out = []
    meshes = [(2, 1, 1), (1, 3, 1), (2, 2, 1), (1, 2, 3), (3, 2, 2)] + ([] if q else [(2, 2, 2), (4, 3, 1), (4, 3, 2)])
    for mesh in meshes:
        nk = int(np.prod(mesh))
        for pos in sorted({0, nk // 2, nk - 1}):
            out.append(Case(f"neighbours mesh={mesh} 1 symbolic b, k at position {pos}", case_neighbours, dict(mesh=mesh, nnb=1, kptirr=[pos]), timeout=900))
        if nk <= (4 if q else 6):
            out.append(Case(f"neighbours mesh={mesh} 2 symbolic b, 2 irreducible k", case_neighbours, dict(mesh=mesh, nnb=2, kptirr=[nk - 1, 0]), timeout=900))
        if nk <= 2 or (not q and nk <= 3):
            out.append(Case(f"neighbours mesh={mesh} 2 symbolic b, all k", case_neighbours, dict(mesh=mesh, nnb=2, kptirr=None), timeout=900))
    wcases = [("sc", 0, (1, 1, 1), "free", False), ("sc", 0, (1, 1, 1), "free", True), ("fcc", 0, (2, 2, 2), "free", False), ("sym", 1, (1, 1, 1), "free", True)]
    wcases += [(n, 0, m, "v", f) for n, m, f in [("sc", (2, 2, 2), True), ("fcc", (2, 2, 2), False), ("bcc", (1, 1, 1), False), ("hex", (2, 2, 1), True), ("ortho", (2, 2, 1), False),
                                                  ("tric", (1, 1, 1), False)]]
    wcases += [("ortho", -1, (1, 1, 1), "v", True), ("hex", -1, (1, 1, 1), "v", False), ("hex*", 0, (1, 1, 1), "v", False), ("ortho*", 0, (2, 2, 1), "v", True)]
    if not q:
        wcases += [("bcc", 0, (1, 1, 1), "free", True), ("tric", 0, (3, 2, 1), "v", True), ("tric", -1, (1, 1, 1), "v", True), ("tric*", 0, (1, 1, 1), "v", False)]
    for src, ns, mesh, mode, msg in wcases:
        what = "complete set" if ns == 0 else (f"last {-ns} shell(s) dropped" if ns < 0 else f"{ns} symbolic shell(s)")
        if src.endswith("*"):
            what += ", each shell scaled by a symbolic factor in [0.5,2]"
        out.append(Case(f"weights shells={src}{mesh} ({what}) svd={mode} msg_if_fail={msg}", case_weights,
                        dict(source=src.rstrip("*"), nshell=ns, mode=mode, msg_if_fail=msg, mesh=mesh, scaled=src.endswith("*")), timeout=900))
    for name in ("sc", "fcc", "bcc", "hex", "ortho", "tric", "shear"):
        for mesh in ([(1, 1, 1)] if name == "shear" else [(1, 1, 1), (2, 2, 2), (2, 2, 1) if name in ("sc", "hex", "ortho") else (3, 2, 1)]) + ([] if q else [(3, 3, 3), (4, 4, 2)]):
            out.append(Case(f"shells lattice={name} mesh={mesh} symbolic kmesh_tol", case_shells, dict(name=name, mesh=mesh), timeout=1500))
    for mesh in [(2, 3, 4), (3, 1, 2)] + ([] if q else [(1, 1, 1), (4, 2, 3)]):
        out.append(Case(f"object: BKVectors.__init__ on a symbolic reciprocal lattice, mesh={mesh}", case_object_symbolic_lattice, dict(mesh=mesh, seed=seed), timeout=900))
    for name, mesh in [("mono", (2, 3, 4)), ("tric", (2, 3, 4)), ("hex", (2, 3, 4)), ("fcc", (3, 2, 2)), ("bcc", (2, 2, 3)), ("mono", (3, 3, 2))] + \
            ([] if q else [("tric", (4, 3, 2)), ("hex", (3, 2, 5)), ("sc", (2, 3, 4)), ("ortho", (4, 2, 3)), ("mono", (3, 3, 4))]):
        out.append(Case(f"object: BKVectors.from_kpoints lattice={name} anisotropic mesh={mesh} symbolic kmesh_tol", case_object, dict(name=name, mesh=mesh, seed=seed), timeout=1500))
    # 2D / 1D / Gamma-only meshes (N3 = 1, N1 = 1, N2 = 1) on sheared, non-reduced cells: shells that reach the edge of the search box
    low = [("shear", (5, 3, 1)), ("shear", (1, 1, 1)), ("shear", (1, 6, 1)), ("shear2", (4, 1, 1)), ("shear2", (3, 2, 1)), ("skew", (1, 1, 1)), ("skew", (1, 3, 2)), ("tric", (1, 4, 1))]
    if not q:
        low += [("shear", (5, 1, 1)), ("shear", (1, 1, 4)), ("shear2", (1, 1, 1)), ("shear2", (1, 5, 1)), ("skew", (5, 3, 1)), ("skew", (2, 1, 1)), ("mono", (1, 1, 6)), ("hex", (6, 1, 1)), ("fcc", (1, 1, 1))]
    # cells whose first shell spans all three directions without being complete (body-centred tetragonal, face-centred orthorhombic)
    for name, mesh in [("bct", (2, 2, 2))] + ([] if q else [("fco", (2, 2, 2))]):
        out.append(Case(f"object: BKVectors.from_kpoints lattice={name} mesh={mesh} symbolic kmesh_tol", case_object, dict(name=name, mesh=mesh, seed=seed), timeout=1500))
    for name, mesh in low:
        out.append(Case(f"object: BKVectors.from_kpoints lattice={name} low-dimensional mesh={mesh} symbolic kmesh_tol", case_object, dict(name=name, mesh=mesh, seed=seed), timeout=1500))
    nn = [("hex", (1, 1, 1), "swap"), ("ortho", (2, 2, 1), "swap"), ("sc", (2, 3, 4), "rotate"), ("hex", (2, 2, 1), "shuffle"), ("mono", (2, 3, 4), "shuffle"), ("fcc", (2, 2, 2), "swap")]
    if not q:
        nn += [("tric", (1, 1, 1), "swap"), ("mono", (2, 3, 4), "swap"), ("hex", (2, 3, 4), "rotate"), ("ortho", (1, 1, 1), "rotate"), ("tric", (2, 3, 4), "shuffle"), ("bcc", (2, 2, 3), "swap")]
    if not q:
        # ---- deep tier: every cell of the family through every entry point ------------------------------------------------------
        # (bct and fco with isotropic meshes are left out: on the code as it is find_bk_vectors raises 'Could not find a complete set' there, see PENDING_FIX)
        family = [n for n in LATTICES]
        for name in family:
            for mesh in [(2, 3, 4), (4, 2, 3), (5, 3, 1), (1, 6, 1), (3, 2, 5), (4, 4, 2), (1, 1, 1), (3, 3, 3)]:
                if (name, mesh) in PENDING_FIX or any(c.kwargs.get("name") == name and c.kwargs.get("mesh") == mesh and c.fn is case_object for c in out):
                    continue
                out.append(Case(f"object: BKVectors.from_kpoints lattice={name} mesh={mesh} symbolic kmesh_tol", case_object, dict(name=name, mesh=mesh, seed=seed), timeout=3000))
            for mesh in [(1, 1, 1), (2, 2, 2), (3, 2, 1)]:
                if (name, mesh) in PENDING_FIX or any(c.kwargs.get("name") == name and c.kwargs.get("mesh") == mesh and c.fn is case_shells for c in out):
                    continue
                out.append(Case(f"shells lattice={name} mesh={mesh} symbolic kmesh_tol", case_shells, dict(name=name, mesh=mesh), timeout=3000))
        # cells that need 3..6 shells: weights under the arbitrary-SVD stub
        for name, mesh in [("bco", (1, 1, 1)), ("bco", (2, 3, 4)), ("tetra", (2, 3, 4)), ("rhomb", (5, 3, 1)), ("rhomb", (1, 6, 1)), ("bct", (1, 6, 1)), ("fco", (4, 4, 2)), ("tric2", (1, 1, 1)),
                           ("shear2", (2, 2, 2)), ("skew", (1, 1, 1)), ("mono", (2, 3, 4)), ("bct", (2, 3, 4))]:
            for ns, scaled, msg in ((0, False, False), (0, True, True), (-1, False, True)):
                what = ("complete set" if ns == 0 else "last shell dropped") + (", each shell scaled by a symbolic factor in [0.5,2]" if scaled else "")
                out.append(Case(f"weights shells={name}{mesh} ({what}) svd=v msg_if_fail={msg}", case_weights, dict(source=name, nshell=ns, mode="v", msg_if_fail=msg, mesh=mesh, scaled=scaled), timeout=3000))
        # neighbour tables on larger meshes
        for mesh in [(3, 3, 3), (5, 2, 2), (2, 2, 5), (2, 4, 3), (6, 3, 1), (1, 7, 2)]:     # 32 points (4x4x2): the unreachability of the 'no neighbour' exit is no longer decided within the cap
            nk = int(np.prod(mesh))
            for pos in sorted({0, nk // 3, nk - 1}):
                out.append(Case(f"neighbours mesh={mesh} 1 symbolic b, k at position {pos}", case_neighbours, dict(mesh=mesh, nnb=1, kptirr=[pos]), timeout=3000))
        for mesh in [(2, 2, 2), (4, 3, 1), (3, 2, 2)]:
            out.append(Case(f"neighbours mesh={mesh} 2 symbolic b, 1 irreducible k", case_neighbours, dict(mesh=mesh, nnb=2, kptirr=[1]), timeout=3000))
        # .nnkp files: more cells, larger permutations of the neighbour list
        for name, mesh in [("hex", (2, 2, 1)), ("ortho", (1, 1, 1)), ("tetra", (2, 3, 4)), ("bco", (1, 1, 1)), ("tric2", (1, 1, 1)), ("rhomb", (5, 3, 1)), ("bct", (2, 3, 4)), ("shear", (5, 3, 1)),
                           ("skew", (2, 2, 2)), ("fco", (4, 4, 2)), ("mono", (3, 3, 2)), ("sc", (4, 2, 3))]:
            for model in ("swap", "rotate", "shuffle1", "shuffle2", "shuffle3"):
                nn.append((name, mesh, model))
        nn += [("hex", (1, 1, 1), "swap2"), ("ortho", (2, 2, 1), "swap2"), ("tetra", (2, 3, 4), "swap2"), ("hex", (2, 3, 4), "swap2")]
    for name, mesh, model in nn:
        out.append(Case(f"nnkp: BKVectors.from_nnkp lattice={name} mesh={mesh} neighbour list of the file: {model}", case_nnkp, dict(name=name, mesh=mesh, seed=seed, model=model), timeout=1500))
    return out


# ------------------------------------------------------------------------------------------------------------
def replay(rec):
    import io, contextlib
    w = rec["witness"]
    buf = io.StringIO()
    if w["test"] == "neighbours":
        mesh = tuple(w["mesh"])
        pts = list(itertools.product(*[range(n) for n in mesh]))
        kint = np.array([pts[p] for p in w["order"]])
        kred = kint / np.array(mesh)[None, :]
        bk = np.array(w["b"], dtype=int)
        try:
            with contextlib.redirect_stdout(buf):
                G, nb = BK.BKVectors.find_G_and_neighbours(kred, bk, np.array(mesh), kptirr=w["kptirr"])
        except RuntimeError as e:
            return True, f"mesh={mesh} order={w['order']} b={w['b']}: RuntimeError {str(e)[:100]}"
        bad = []
        for ik in (range(len(kint)) if w["kptirr"] is None else w["kptirr"]):
            for ib in range(len(bk)):
                j = int(nb[ik][ib])
                if not (0 <= j < len(kint)) or not np.array_equal(kint[ik] + bk[ib], kint[j] + np.array(G[ik][ib]) * np.array(mesh)):
                    bad.append((ik, ib, j, np.array(G[ik][ib]).tolist()))
        return bool(bad), f"mesh={mesh} order={w['order']} b={w['b']}: k+b != k_nb+G*mp at (ik, ib, nb, G)={bad[:3]}"
    if w["test"] == "weights":
        shells = [np.array(c, dtype=float) for c in w["shells"]]
        klatt = [np.array(l, dtype=int) for l in w["klatt"]]
        if all(np.abs(c).max() == 0 for c in shells):
            shells = [np.array([[1.0 + i, 0.3 * m, 0.1 * (m + i)] for m in range(len(c) // 2) for _ in (0, 1)]) * np.array([1, -1] * (len(c) // 2))[:, None] for i, c in enumerate(shells)]
        svd = w["svd"]
        real_svd = np.linalg.svd

        def fake_svd(a, full_matrices=True, **kw):
            u, s, vh = (np.array(x, dtype=float) for x in svd[0])
            if np.abs(u).max() == 0 and np.abs(vh).max() == 0:
                return real_svd(a, full_matrices=full_matrices, **kw)
            return u, s, vh
        np.linalg.svd = fake_svd            # the model's 'LAPACK output' is part of the counterexample
        try:
            with contextlib.redirect_stdout(buf):
                out = BK.BKVectors.get_shell_weights(klatt, shells, bk_complete_tol=w["tol"], msg_if_fail=w["msg_if_fail"])
        except RuntimeError:
            return bool(w["msg_if_fail"]), "RuntimeError with msg_if_fail=True"
        finally:
            np.linalg.svd = real_svd
        if isinstance(out, str):
            return (not w["msg_if_fail"]), f"message {out!r}"
        wk, bk_cart, bk_grid = out
        S = np.einsum('b,bi,bj->ij', wk, bk_cart, bk_cart)
        resid = np.linalg.norm(S - np.eye(3))
        paired = np.array_equal(bk_grid, np.concatenate(klatt)) and np.allclose(bk_cart, np.concatenate(shells))
        const = all(np.ptp(wk[sum(map(len, shells[:i])):sum(map(len, shells[:i + 1]))]) <= 1e-12 * (1 + np.abs(wk).max()) for i in range(len(shells)))
        return bool(resid > w["tol"] * (1 + 1e-9) or not paired or not const), f"residual {resid:.3e} vs tol {w['tol']:.3e}; rows paired: {paired}; weights constant on shells: {const}"
    if w["test"] == "shells":
        rl = LATTICES[w["lattice"]]
        mesh = tuple(w["mesh"])
        kt = w["kmesh_tol"] or 1e-7
        try:
            with contextlib.redirect_stdout(buf):
                wk, bk_cart, bk_grid = BK.BKVectors.find_bk_vectors(rl.copy(), np.array(mesh), kmesh_tol=kt, bk_complete_tol=1e-5, search_supercell=2)
        except RuntimeError as e:
            concrete_shells(w["lattice"], mesh, 0)        # raises if the harness finds no complete set either
            return True, f"lattice={w['lattice']} mesh={mesh} kmesh_tol={kt}: {str(e)[:80]} although a complete set of independent shells exists in the search box"
        msgs = check_shell_structure(mesh, rl, wk, bk_cart, bk_grid, [2 * m for m in mesh])
        return bool(msgs), f"lattice={w['lattice']} mesh={mesh} kmesh_tol={kt}: " + "; ".join(msgs[:3])
    if w["test"] == "object-sym":
        mesh = tuple(w["mesh"])
        bg = np.array(w["bk_grid"])
        L, wk = np.array(w["L"], dtype=float), np.array(w["w"], dtype=float)
        if np.abs(L).max() == 0:
            L = LATTICES["tric"].copy()
        kg, G, nb = concrete_neighbour_data(mesh, bg, w["seed"])
        with contextlib.redirect_stdout(buf):
            obj = BK.BKVectors(recip_lattice=L, mp_grid=np.array(mesh), wk=wk, bk_grid=bg, G=G, neighbours=nb, kpt_grid=kg)
        err = np.abs(obj.bk_cart - bg @ (L / np.array(mesh)[:, None])).max()
        return bool(err > 1e-9 * (1 + np.abs(L).max()) or not np.allclose(obj.wk, wk)), f"mesh={mesh} recip_lattice={L.tolist()}: max|bk_cart - bk_grid.(recip_lattice/mp)|={err:.3g}"
    if w["test"] == "object":
        rl = LATTICES[w["lattice"]]
        mesh = tuple(w["mesh"])
        kt = w["kmesh_tol"] or 1e-7
        pts = np.array(list(itertools.product(*[range(n) for n in mesh])))
        kint = pts[np.random.default_rng(w["seed"]).permutation(len(pts))]
        try:
            with contextlib.redirect_stdout(buf):
                obj = BK.BKVectors.from_kpoints(recip_lattice=rl.copy(), mp_grid=np.array(mesh), kpoints_red=kint / np.array(mesh)[None, :], kmesh_tol=kt)
        except RuntimeError as e:
            concrete_shells(w["lattice"], mesh, 0)
            return True, f"lattice={w['lattice']} mesh={mesh}: {str(e)[:80]}"
        msgs = judge_object(mesh, rl, obj.kpt_grid, obj.wk, obj.bk_cart, obj.bk_grid, obj.G, obj.neighbours)
        return bool(msgs), f"BKVectors.from_kpoints lattice={w['lattice']} mesh={mesh} kmesh_tol={kt}: " + "; ".join(msgs[:3])
    if w["test"] == "nnkp":
        import tempfile, os
        name, mesh = w["lattice"], tuple(w["mesh"])
        bvec, shell_of, kint, table = nnkp_data(name, mesh, w["seed"])
        kt = w["kmesh_tol"] or 1e-7
        with tempfile.TemporaryDirectory() as d:
            path = os.path.join(d, "harness.nnkp")
            open(path, "w").write(nnkp_text(name, mesh, kint, bvec, table, w["order"], w["seed"]))
            try:
                with contextlib.redirect_stdout(buf):
                    obj = BK.BKVectors.from_nnkp(path, kmesh_tol=kt, bk_complete_tol=1e-5)
            except RuntimeError as e:
                return True, f"from_nnkp lattice={name} mesh={mesh} order={w['order']}: RuntimeError {str(e)[:80]}"
        msgs = judge_nnkp(mesh, LATTICES[name], kint, bvec, table, w["order"], obj)
        return bool(msgs), f"from_nnkp lattice={name} mesh={mesh} neighbour order of the file={w['order']} (shells {shell_of[w['order']].tolist()}): " + "; ".join(msgs[:3])
    raise ValueError(w["test"])
