"""C28 — Fermi-sea and Fermi-surface formulations agree: the part a solver can decide.

For every documented pair the sea calculator integrates  f * S  and the surface calculator  (d f / d E_F) * G .  The two integrals agree (up to
discretisation error) for every smooth periodic model exactly when, pointwise in k,

    S[.., a, ..] = d/dk_a  X[..]      and      G[.., a, ..] = v_a * X[..]          (same X, same slot for a, same constant factor)

because  int f d_a X = - int (d_a f) X = int (d f / d E_F) v_a X  over the periodic zone.  The pointwise statements are algebraic identities between
rational functions of the model's Taylor coefficients at k (H, dH, d2H, d3H, the external-term matrices and their derivatives) and the band energies;
they are decided here on the real formula classes and the real calculator classes."""
import numpy as np
from fractions import Fraction as Fr
from symx.core import *
from symx.core import z3, RULES, Poly
from symx.npproxy import shadow
from symx.harness import Case, unarr
import symx.harness  # noqa
from props import c08 as B
import wannierberri.calculators.static as ST
import wannierberri.formula.covariant as COV
from wannierberri.result import EnergyResult

PROPERTY = "C28"
FUNCTIONS = ["wannierberri.calculators.static.Ohmic_FermiSea/Ohmic_FermiSurf, BerryDipole_FermiSea/_FermiSurf, NLAHC_FermiSea/_FermiSurf, GME_spin_FermiSea/_FermiSurf, "
             "GME_orb_FermiSea/_FermiSurf, NLDrude_FermiSea/_FermiSurf/_Fermider2 (constructors and the post-processing in __call__: swapaxes, Hplus - 2 E_F Omega)",
             "wannierberri.formula.covariant.Der3E, Omega, DerOmega, Spin, DerSpin, Morb_H, Morb_Hpm, DerMorb_H, DerMorb, VelOmega, VelHplus, VelSpin, VelVel, VelVelVel, MassVel",
             "wannierberri.formula.elementary.InvMass, DerWln, DerDcov, Dcov, Eavln and the other building blocks they pull in",
             "wannierberri.formula.formula.Formula_ln.trace, Matrix_ln, Matrix_GenDer_ln, FormulaProduct",
             "wannierberri.data_K.data_K.Data_K.covariant, D_H, Dcov, dEig_inv (at k), get_A_H", "wannierberri.data_K.data_K_R.Data_K_R.Xbar (OO / GG derived from FF)", "wannierberri.result.EnergyResult.mul_array/__sub__/__mul__"]
BOUNDS = dict(quick=dict(nb="2 (plus two nb=3 cases: Berry dipole middle band, spin gyrotropic top band)", groups="each non-degenerate band as its own group (lower, upper)", variants="default switches (external terms on), external_terms=False, OO_uIu=True with OO derived from FF by the real Data_K_R.Xbar",
                         directions="all three k-directions of the displacement, all tensor components", E_F="two values (the results are affine in E_F)"),
              thorough=dict(nb="2 and 3", groups="every single band", variants="as quick", directions="as quick", E_F="as quick"))
EXPLANATION = ("The model at k is its Taylor jet: symbolic band energies, fully symbolic H-gauge matrices of the Hamiltonian derivatives (orders 1-3) and of every external-term "
               "matrix with its derivatives.  The jet at k + eps*e_a follows from first-order perturbation theory (U = 1 + eps*D, E + eps*diag dH); eps is a nilpotent atom "
               "(eps^2 -> 0 is a rewrite rule of the polynomial normal form), so running the REAL formula classes on the displaced jet is exact forward-mode differentiation: the "
               "eps-coefficient of the result is d/dk_a of the quantity.  The perturbation step itself is not trusted: H(eps) U = U E(eps) and U^dagger U = 1 modulo eps^2 are "
               "obligations.  The real calculator classes are instantiated and their __call__ post-processing runs for real; only StaticCalculator.__call__ (the Fermi-level "
               "bookkeeping, property C13) is replaced by 'factor * trace over one band group'.  Obligations, per pair, group, direction and component: sea result == "
               "d_a X, surface result == v_a X with a in the same slot, equal constant factors (NLDrude_Fermider2: factor/2 and v v v).")
ASSUMPTIONS = ["non-degenerate spectrum at k (gaps > 1 in the symbolic cases): first-order perturbation theory for the displaced jet; degenerate groups are traced gauge-invariantly by the same "
               "formula classes (property C04/C15) and are not displaced here",
               "comma-derivative indices commute; AA, SS, OO, rotAA, GG, CC and the Hamiltonian derivatives Hermitian in the band indices (as in C08)",
               "the continuum step (integration by parts over the periodic zone, f smooth) is analysis, not a solver obligation; discretisation error, convergence with the grid and "
               "the Fermi-Dirac smoother are outside",
               "orbital moment (non-additive formula) with external terms: the sea loop differentiates X(bands 0..n1) - X(bands 0..n0), the surface loop uses the band-resolved X; "
               "they coincide for the lowest band, and for every band with internal terms (both decided); for upper bands with independent symbolic AA/BB/CC/OO they differ, because "
               "the relations a real Wannier basis imposes between those matrices are not part of the jet - there each side is only checked against its own X",
               "NLDrude_Fermider2: the relation to the sea form needs two integrations by parts and the full symmetry of the integrated tensor; decided here: its integrand is v_a v_b v_c, "
               "its factor is half the sea factor, and InvMass_ab = d_a v_b (Ohmic pair)"]
OUTSIDE = ["grids, smoothers, temperatures, convergence (the 'up to discretisation error' clause)", "nb > 3", "tetrahedron weights",
           "degenerate band groups under displacement", "Hall_classic and the Zeeman calculators (not in the property's list)"]
STUBS = ["StaticCalculator.__call__ -> factor * (trace of self.Formula over one band group, additive / non-additive exactly as the real loop does), returned as a real EnergyResult",
         "displaced shell: dEig_inv = 1/dE - eps*dv/dE^2 (dual-number inverse, gaps assumed), delE_K = Re diag Xbar('Ham',1)", "np via module-level NpProxy (as C08)"]
QUERY_TIMEOUT_MS = dict(quick=30000, thorough=120000)
LEVEL_TEXT = ("Partial: the solver decides the pointwise algebraic core of the statement - for every listed sea/surface pair the sea integrand is the exact k-derivative of the quantity that the "
              "surface integrand multiplies by the band velocity, with the derivative / velocity index in the same slot of the result, the same sign and the same constant factor - for every "
              "2-band (thorough: 3-band, internal terms) model jet, by forward-mode differentiation THROUGH the real formula and calculator classes (nilpotent displacement atom).  "
              "From there equality of the two integrals for smooth periodic models is integration by parts (analysis, stated, not a solver obligation); the size of the discretisation "
              "error, grids, smoothers and temperatures are outside.  " + EXPLANATION)
TECHNIQUE = ("symbolic execution of the real formula / calculator classes on symbolic Taylor jets (object arrays of rational functions with a nilpotent displacement atom eps, eps^2 -> 0); "
             "z3 decides each order-0 / order-1 coefficient identity per path")

EPS = "eps28"
MODS = B.MODS + [ST]


# ---- nilpotent displacement ---------------------------------------------------------------------------------------------------------------------------------
def install_eps():
    RULES[EPS] = Poly()          # eps^2 -> 0
    return SymC.var(EPS)


def _split_poly(p):
    t0, t1 = {}, {}
    for m, c in p.t.items():
        e = dict(m).get(EPS, 0)
        if e == 0:
            t0[m] = c
        elif e == 1:
            t1[tuple((v, k) for v, k in m if v != EPS)] = c
        else:
            raise AssertionError("eps power > 1 survived the rewrite rule")
    return Poly(t0), Poly(t1)


def eps_split(x):
    """x = x0 + eps*x1 (mod eps^2) -> (x0, x1), both free of eps"""
    x = SymC.of(x)
    n0, n1 = _split_poly(x.n)
    dx = x.d.expand()
    if not any(EPS in dict(m) for m in dx.t):
        return SymC(n0, x.d), SymC(n1, x.d)
    d0, d1 = _split_poly(dx)
    D0 = SymC(d0)
    return SymC(n0) / D0, (SymC(n1) * D0 - SymC(n0) * SymC(d1)) / (D0 * D0)


def split_arr(a):
    a = np.asarray(a)
    a0, a1 = np.empty(a.shape, dtype=object), np.empty(a.shape, dtype=object)
    for idx in np.ndindex(*a.shape):
        a0[idx], a1[idx] = eps_split(a[idx])
    return a0, a1


# ---- jets ---------------------------------------------------------------------------------------------------------------------------------------------------
class BaseX(B.LazyX):
    """jet at k: as C08's LazyX, with Xbar('Ham',0) = diag(E)"""

    def __init__(s, nb, E, concrete=None):
        super().__init__(nb, concrete=concrete)
        s.E = E

    def make(s, name, der):
        if (name, der) == ("Ham", 0):
            sym = np.asarray(s.E).dtype == object
            A = np.zeros((1, s.nb, s.nb), dtype=object if sym else complex)
            for i in range(s.nb):
                A[0, i, i] = s.E[0, i]
            if sym:
                for idx in np.ndindex(*A.shape):
                    A[idx] = SymC.of(A[idx])
                A = A.view(SymArray)
            return A
        if s.concrete is not None and f"{name},{der}" not in s.concrete:
            # deterministic generic data for matrices the solver's model did not mention
            ncart, hermitian = B.SPEC[name]
            rng = np.random.default_rng(abs(hash((name, der))) % (2 ** 31))
            shape = (1, s.nb, s.nb) + (3,) * (ncart + der)
            A = (rng.normal(size=shape) + 1j * rng.normal(size=shape)) * 0.3
            if hermitian:
                A = A + np.conjugate(np.swapaxes(A, 1, 2))
            if name == "GG":
                A = (A + np.swapaxes(A, 3, 4)) * 0.5
            return B.sym_cart(A, der)
        return super().make(name, der)


class DispX(dict):
    """jet at k + e*e_a: Xbar' = U^dagger (X + e X_{,a}) U with U = 1 + e D, D_mn = (dH_a)_mn / (E_n - E_m)"""

    def __init__(s, X0, E, a, e, nb):
        super().__init__()
        s.X0, s.E, s.a, s.e, s.nb = X0, E, a, e, nb
        H1 = np.asarray(X0[("Ham", 1)])[0, :, :, a]
        s.sym = H1.dtype == object
        s.D = np.zeros((nb, nb), dtype=object if s.sym else complex)
        for m in range(nb):
            for n in range(nb):
                s.D[m, n] = H1[m, n] / (E[0, n] - E[0, m]) if m != n else (SymC.of(0) if s.sym else 0.0)
        s.v = np.array([H1[n, n] if s.sym else H1[n, n].real for n in range(nb)], dtype=object if s.sym else float)
        s.Ee = np.array([[E[0, n] + e * s.v[n] for n in range(nb)]], dtype=object if s.sym else float)
        if s.sym:
            s.Ee = s.Ee.view(SymArray)

    def __contains__(s, key):
        return key[0] in B.SPEC

    def __getitem__(s, key):
        if not dict.__contains__(s, key):
            dict.__setitem__(s, key, s.make(*key))
        return dict.__getitem__(s, key)

    def make(s, name, der):
        X = np.asarray(s.X0[(name, der)])
        Xn = np.asarray(s.X0[(name, der + 1)])[..., s.a]
        nb, e, D = s.nb, s.e, s.D
        R = np.empty(X.shape, dtype=X.dtype)
        for m in range(nb):
            for n in range(nb):
                acc = X[0, m, n] + e * Xn[0, m, n]
                for l in range(nb):
                    if l != n:
                        acc = acc + e * (X[0, m, l] * D[l, n])
                    if l != m:
                        acc = acc - e * (D[m, l] * X[0, l, n])
                R[0, m, n] = acc
        return R.view(SymArray) if s.sym else R

    def dEig_inv(s):
        nb = s.nb
        R = np.zeros((1, nb, nb), dtype=object if s.sym else float)
        for m in range(nb):
            for n in range(nb):
                if m != n:
                    dE, dv = s.E[0, m] - s.E[0, n], s.v[m] - s.v[n]
                    R[0, m, n] = 1 / dE - s.e * dv / (dE * dE)
                elif s.sym:
                    R[0, m, n] = SymC.of(0)
        return R.view(SymArray) if s.sym else R


class NoOO:
    """a system that stores FF but neither OO nor GG: the real Data_K_R.Xbar derives them from FF (the default of systems built with the OSD matrices)"""

    def has_R_mat(s, k):
        return k in B.SPEC and k not in ("OO", "GG")


class BaseXF(BaseX):
    def __contains__(s, key):
        return key[0] in B.SPEC and key[0] not in ("OO", "GG")


class DispXF(DispX):
    def __contains__(s, key):
        return key[0] in B.SPEC and key[0] not in ("OO", "GG")


def base_shell(nb, E, concrete=None, derive_OO=False):
    X0 = (BaseXF if derive_OO else BaseX)(nb, E, concrete=concrete)
    dk = B.shell(nb, E, X0)
    if derive_OO:
        dk.system = NoOO()
    return dk, X0


def disp_shell(nb, E, X0, a, e, derive_OO=False):
    DX = (DispXF if derive_OO else DispX)(X0, E, a, e, nb)
    dk = B.shell(nb, DX.Ee, DX)
    dk.__dict__["dEig_inv"] = DX.dEig_inv()
    if derive_OO:
        dk.system = NoOO()
    return dk, DX


# ---- the calculators: StaticCalculator.__call__ replaced by its meaning for one band group -------------------------------------------------------------------------
GROUP = [None]


def group_value(formula, n0, n1, NB):
    """what StaticCalculator.__call__ accumulates for the band group (n0, n1)"""
    if formula.additive:
        inn = np.arange(n0, n1)
        out = np.concatenate((np.arange(0, n0), np.arange(n1, NB)))
        return formula.trace(0, inn, out)
    vals = []
    for n in (n1, n0):
        vals.append(formula.trace(0, np.arange(0, n), np.arange(n, NB)))
    return vals[0] - vals[1]


def stub_call(self, data_K):
    formula = self.Formula(data_K, **self.kwargs_formula)
    v = np.asarray(group_value(formula, GROUP[0][0], GROUP[0][1], data_K.num_wann))
    fac = self.constant_factor if self.use_factor else np.sign(self.constant_factor)
    data = (v * fac)[None]
    if data.dtype == object:
        data = data.view(SymArray)
    return EnergyResult(self.Efermi, data, transformTR=formula.transformTR, transformInv=formula.transformInv, smoothers=[None], comment="", save_mode="")


class Patched:
    def __enter__(s):
        s.old = ST.StaticCalculator.__call__
        ST.StaticCalculator.__call__ = stub_call

    def __exit__(s, *a):
        ST.StaticCalculator.__call__ = s.old


def kw_for(cls, kw):
    return dict(kwargs_formula=dict(kw)) if kw else {}


def vel(dk, kw):
    return dk.covariant('Ham', commader=1)


# name -> (sea class, surf class, X builder(data_K, kw, Ef) -> list of (coefficient, formula), slot of the derivative / velocity index in the result, accepts kwargs_formula)
def _X_vel(dk, kw, Ef):
    return [(1, dk.covariant('Ham', commader=1))]


def _X_omega(dk, kw, Ef):
    return [(1, COV.Omega(dk, **kw))]


def _X_spin(dk, kw, Ef):
    return [(1, COV.Spin(dk))]


def _X_morb(dk, kw, Ef):
    return [(1, COV.Morb_Hpm(dk, sign=+1, **kw)), (-2 * Ef, COV.Omega(dk, **kw))]


def _X_mass(dk, kw, Ef):
    from wannierberri.formula.elementary import InvMass
    return [(1, InvMass(dk))]


PAIRS = {
    "Ohmic": (ST.Ohmic_FermiSea, ST.Ohmic_FermiSurf, _X_vel, "first", False),
    "BerryDipole": (ST.BerryDipole_FermiSea, ST.BerryDipole_FermiSurf, _X_omega, "first", True),
    "NLAHC": (ST.NLAHC_FermiSea, ST.NLAHC_FermiSurf, _X_omega, "first", True),
    "GME_spin": (ST.GME_spin_FermiSea, ST.GME_spin_FermiSurf, _X_spin, "first", False),
    "GME_orb": (ST.GME_orb_FermiSea, ST.GME_orb_FermiSurf, _X_morb, "first", True),
    "NLDrude": (ST.NLDrude_FermiSea, ST.NLDrude_FermiSurf, _X_mass, "last", False),
}


def band_value(formula, n0, n1, NB):
    """band-resolved value: the group against all other bands (what the additive surface formulas use)"""
    return formula.trace(0, np.arange(n0, n1), np.concatenate((np.arange(0, n0), np.arange(n1, NB))))


def X_value(dk, pair, kw, Ef, group, NB, band=False):
    tot = None
    for c, f in PAIRS[pair][2](dk, kw, Ef):
        v = np.asarray((band_value if band else group_value)(f, group[0], group[1], NB)) * c
        tot = v if tot is None else tot + v
    return tot


def run_calc(cls, dk, kw, Ef, group, accepts):
    GROUP[0] = group
    calc = cls(Efermi=np.array([float(Ef)]), use_factor=False, **(kw_for(cls, kw) if accepts else {}))
    with Patched():
        res = calc(dk)
    return np.asarray(res.data)[0], calc


def take(arr, slot, a):
    return arr[a] if slot == "first" else arr[..., a]


# ---- cases ----------------------------------------------------------------------------------------------------------------------------------------------------
def gapped(E):
    return [(E[0, i + 1] - E[0, i]).zreal() > 1 for i in range(E.shape[1] - 1)]


def case_pt(rec, nb):
    """the displaced jet is the eigen-decomposition of H(k + eps e_a) modulo eps^2"""
    shadow(MODS)
    e = install_eps()
    E = symvec("E", (1, nb))

    def body(rec):
        dk0, X0 = base_shell(nb, E)
        rec.witness = lambda env: dict(test="pt", nb=nb, E=env.val(E[0]).tolist(), X={f"{k[0]},{k[1]}": env.arr(v) for k, v in dict.items(X0)})
        for a in range(3):
            DX = DispX(X0, E, a, e, nb)
            H1 = np.asarray(X0[("Ham", 1)])[0, :, :, a]
            U = np.array([[(SymC.of(1) if m == n else SymC.of(0)) + e * DX.D[m, n] for n in range(nb)] for m in range(nb)], dtype=object)
            HW = np.array([[(E[0, m] if m == n else SymC.of(0)) + e * H1[m, n] for n in range(nb)] for m in range(nb)], dtype=object)
            for m in range(nb):
                for n in range(nb):
                    r = sum((HW[m, l] * U[l, n] for l in range(nb)), SymC.of(0)) - U[m, n] * DX.Ee[0, n]
                    r0, r1 = eps_split(r)
                    rec.eq(f"a={a} (H U - U E)[{m},{n}] = 0 mod eps^2, order 0", r0, 0, key="displaced jet: eigen-equation fails (harness oracle)")
                    rec.eq(f"a={a} (H U - U E)[{m},{n}] = 0 mod eps^2, order 1", r1, 0, key="displaced jet: eigen-equation fails (harness oracle)")
                    u = sum((U[l, m].conjugate() * U[l, n] for l in range(nb)), SymC.of(0)) - (1 if m == n else 0)
                    u0, u1 = eps_split(u)
                    rec.eq(f"a={a} (U^+ U - 1)[{m},{n}] order 0", u0, 0, key="displaced jet: U not unitary (harness oracle)")
                    rec.eq(f"a={a} (U^+ U - 1)[{m},{n}] order 1", u1, 0, key="displaced jet: U not unitary (harness oracle)")
            # the displaced first-derivative matrix is Hermitian and its diagonal is real: d/da of v_b is read from it
            V = np.asarray(DX[("Ham", 1)])
            for m in range(nb):
                for n in range(m, nb):
                    for b in range(3):
                        h0, h1 = eps_split(V[0, m, n, b] - V[0, n, m, b].conjugate())
                        rec.eq(f"a={a} displaced dH hermitian [{m},{n},{b}] order 0", h0, 0, key="displaced jet: dH not Hermitian (harness oracle)")
                        rec.eq(f"a={a} displaced dH hermitian [{m},{n},{b}] order 1", h1, 0, key="displaced jet: dH not Hermitian (harness oracle)")
    rec.explore(body, gapped(E) + [zvar(EPS) == 0])


def groups_for(nb):
    return [(i, i + 1) for i in range(nb)]


def case_pair(rec, pair, nb, kw, a, Ef, group, derive_OO=False):
    shadow(MODS)
    e = install_eps()
    E = symvec("E", (1, nb))
    sea_cls, surf_cls, _, slot, accepts = PAIRS[pair]
    kw = dict(kw)

    def body(rec):
        dk0, X0 = base_shell(nb, E, derive_OO=derive_OO)
        rec.witness = lambda env: dict(test="pair", pair=pair, nb=nb, kw=kw, a=a, Ef=float(Ef), group=list(group), derive_OO=derive_OO, E=env.val(E[0]).tolist(),
                                       X={f"{k[0]},{k[1]}": env.arr(v) for k, v in dict.items(X0)})
        sea, csea = run_calc(sea_cls, dk0, kw, Ef, group, accepts)
        surf, csurf = run_calc(surf_cls, dk0, kw, Ef, group, accepts)
        rec.concrete(f"{pair}: the two calculators carry the same constant factor", csea.constant_factor == csurf.constant_factor and csea.fder == 0 and csurf.fder == 1,
                     detail=f"{csea.constant_factor} / {csurf.constant_factor}; fder {csea.fder}/{csurf.fder}", key=f"{pair}: sea and surface calculators differ in constant factor or fder")
        X0v = X_value(dk0, pair, kw, Ef, group, nb)
        dke, DX = disp_shell(nb, E, X0, a, e, derive_OO=derive_OO)
        Xe = X_value(dke, pair, kw, Ef, group, nb)
        Xe0, Xe1 = split_arr(Xe)
        rec.eq(f"{pair}: X evaluated on the displaced jet reduces to X at eps=0", Xe0, np.asarray(X0v), key=f"{pair}: displaced evaluation inconsistent at eps=0 (harness oracle)")
        v_a = np.asarray(X0[("Ham", 1)])[0, group[0], group[0], a]
        Xband = np.asarray(X_value(dk0, pair, kw, Ef, group, nb, band=True))
        if pair != "GME_orb" or group[0] == 0 or kw.get("external_terms") is False:
            # the sea loop differentiates [X(bands 0..n1) - X(bands 0..n0)], the surface loop multiplies the band-resolved X by v: the same thing for additive formulas and,
            # for the orbital moment, for internal terms (with independent symbolic external matrices the two differ for upper bands: the consistency relations of a real
            # Wannier basis between AA, BB, CC, OO are not part of the jet - see ASSUMPTIONS)
            rec.eq(f"{pair} {kw}: X of the sea loop (set difference) == band-resolved X of the surface loop (group {group})", np.asarray(X0v), Xband,
                   key=f"{pair}: the quantity differentiated by the sea form differs from the band-resolved quantity of the surface form")
        ssea, ssurf = int(np.sign(csea.constant_factor)), int(np.sign(csurf.constant_factor))     # use_factor=False: the result carries the sign of the factor
        rec.eq(f"{pair} {kw}: sea integrand [.., a={a} ({slot}), ..] == d/dk_a X  (group {group}, E_F={Ef})", take(sea, slot, a), Xe1 * ssea,
               key=f"{pair}: Fermi-sea integrand is not the k-derivative of the quantity the Fermi-surface form multiplies by the velocity (index order / sign / term)")
        rec.eq(f"{pair} {kw}: surface integrand [.., a={a} ({slot}), ..] == v_a X  (group {group}, E_F={Ef})", take(surf, slot, a), Xband * v_a * ssurf,
               key=f"{pair}: Fermi-surface integrand is not velocity times the quantity differentiated by the Fermi-sea form (index order / sign)")
    rec.explore(body, gapped(E) + [zvar(EPS) == 0])


def case_fermider2(rec, nb, group):
    shadow(MODS)
    E = symvec("E", (1, nb))

    def body(rec):
        dk0, X0 = base_shell(nb, E)
        rec.witness = lambda env: dict(test="fermider2", nb=nb, group=list(group), E=env.val(E[0]).tolist(), X={f"{k[0]},{k[1]}": env.arr(v) for k, v in dict.items(X0)})
        r2, c2 = run_calc(ST.NLDrude_Fermider2, dk0, {}, 0.0, group, False)
        _, c0 = run_calc(ST.NLDrude_FermiSea, dk0, {}, 0.0, group, False)
        rec.concrete("NLDrude_Fermider2: factor is half the sea factor, fder=2", c2.constant_factor == c0.constant_factor / 2 and c2.fder == 2,
                     detail=f"{c2.constant_factor} vs {c0.constant_factor}", key="NLDrude_Fermider2: factor is not half the Fermi-sea factor")
        v = np.asarray(X0[("Ham", 1)])[0, group[0], group[0], :]
        want = np.empty((3, 3, 3), dtype=object)
        for i in np.ndindex(3, 3, 3):
            want[i] = v[i[0]] * v[i[1]] * v[i[2]]
        rec.eq("NLDrude_Fermider2 integrand == v_a v_b v_c", r2, want * int(np.sign(c2.constant_factor)), key="NLDrude_Fermider2: integrand is not v v v")
    rec.explore(body, gapped(E))


VARIANTS = [("", {}), ("external_terms=False", dict(external_terms=False))]


def cases(tier, seed):
    q = tier == "quick"
    out = [Case("perturbation step nb=2", case_pt, dict(nb=2), timeout=600)]
    if not q:
        out.append(Case("perturbation step nb=3", case_pt, dict(nb=3), timeout=1200))
    for pair, (_, _, _, _, accepts) in PAIRS.items():
        for vl, kw in (VARIANTS if accepts else VARIANTS[:1]):
            for nb in ((2,) if q else (2, 3)):
                for group in groups_for(nb):
                    for a in range(3):
                        efs = (Fr(0), Fr(3, 8)) if pair == "GME_orb" else (Fr(0),)
                        for Ef in efs:
                            if q and pair == "GME_orb" and Ef != 0 and (a != 1 or group != (0, 1)):
                                continue
                            if q and pair == "NLAHC" and a != 2:
                                continue      # same code as BerryDipole; the factor obligation is what it adds
                            out.append(Case(f"{pair} {vl} nb={nb} group={group} a={a} Ef={Ef}", case_pair, dict(pair=pair, nb=nb, kw=kw, a=a, Ef=Ef, group=group),
                                            timeout=900 if q else 3000))
    # OO_uIu=True on a system that stores FF but not OO: the real Data_K_R.Xbar derives OO and its comma-derivatives from FF
    for pair in ("BerryDipole", "GME_orb"):
        for group in groups_for(2):
            for a in ((1,) if q and pair == "GME_orb" else range(3)):
                if q and group != (0, 1) and a != 0:
                    continue
                out.append(Case(f"{pair} OO_uIu=True (OO derived from FF) nb=2 group={group} a={a} Ef=0", case_pair,
                                dict(pair=pair, nb=2, kw=dict(OO_uIu=True), a=a, Ef=Fr(0), group=group, derive_OO=True), timeout=900 if q else 3000))
    if q:
        out.append(Case("BerryDipole  nb=3 group=(1, 2) a=0 Ef=0", case_pair, dict(pair="BerryDipole", nb=3, kw={}, a=0, Ef=Fr(0), group=(1, 2)), timeout=900))
        out.append(Case("GME_spin  nb=3 group=(2, 3) a=1 Ef=0", case_pair, dict(pair="GME_spin", nb=3, kw={}, a=1, Ef=Fr(0), group=(2, 3)), timeout=900))
    out.append(Case("NLDrude_Fermider2 nb=2", case_fermider2, dict(nb=2, group=(0, 1)), timeout=600))
    return out


# ---- replay -----------------------------------------------------------------------------------------------------------------------------------------------------
def replay(rec):
    """float arithmetic on the real formula / calculator classes; d/dk_a by a central difference of the displaced jet (h = 1e-5, second-order terms of the jet kept)"""
    w = rec["witness"]
    nb = w["nb"]
    E = np.array(w["E"], dtype=float)[None]
    if nb > 1 and np.any(np.diff(E[0]) < 1e-3):
        E = np.cumsum(np.abs(E) + 1.1, axis=1)
    conc = w.get("X", {})
    dOO = bool(w.get("derive_OO"))
    dk0, X0 = base_shell(nb, E, concrete=conc, derive_OO=dOO)
    if w["test"] == "pt":
        worst = 0.0
        for a in range(3):
            h = 1e-5
            H1 = np.asarray(X0[("Ham", 1)])[0, :, :, a]
            DX = DispX(X0, E, a, h, nb)
            U = np.eye(nb) + h * DX.D
            HW = np.diag(E[0]) + h * H1
            worst = max(worst, np.abs(HW @ U - U @ np.diag(DX.Ee[0])).max() / h ** 2, np.abs(U.conj().T @ U - np.eye(nb)).max() / h ** 2)
        scale = 1 + max(np.abs(np.asarray(X0[("Ham", 1)])).max() ** 2, 1)
        return bool(worst > 1e3 * scale), f"residual / h^2 = {worst:.3e}"
    group = tuple(w["group"])
    if w["test"] == "fermider2":
        r2, c2 = run_calc(ST.NLDrude_Fermider2, dk0, {}, 0.0, group, False)
        _, c0 = run_calc(ST.NLDrude_FermiSea, dk0, {}, 0.0, group, False)
        v = np.asarray(X0[("Ham", 1)])[0, group[0], group[0], :].real
        err = np.abs(r2 - np.sign(c2.constant_factor) * np.einsum("a,b,c->abc", v, v, v)).max()
        bad = err > 1e-9 * (1 + np.abs(r2).max()) or c2.constant_factor != c0.constant_factor / 2 or c2.fder != 2
        return bool(bad), f"|integrand - vvv| = {err:.3e}; factors {c2.constant_factor} {c0.constant_factor}"
    pair, kw, a, Ef = w["pair"], w["kw"], w["a"], w["Ef"]
    sea_cls, surf_cls, _, slot, accepts = PAIRS[pair]
    sea, csea = run_calc(sea_cls, dk0, kw, Ef, group, accepts)
    surf, csurf = run_calc(surf_cls, dk0, kw, Ef, group, accepts)
    X0v = np.asarray(X_value(dk0, pair, kw, Ef, group, nb))
    h = 1e-5
    Xp = np.asarray(X_value(disp_shell(nb, E, X0, a, +h, derive_OO=dOO)[0], pair, kw, Ef, group, nb))
    Xm = np.asarray(X_value(disp_shell(nb, E, X0, a, -h, derive_OO=dOO)[0], pair, kw, Ef, group, nb))
    dX = (Xp - Xm) / (2 * h)
    v_a = np.asarray(X0[("Ham", 1)])[0, group[0], group[0], a].real
    e_sea = np.abs(take(sea, slot, a) - np.sign(csea.constant_factor) * dX).max()
    Xband = np.asarray(X_value(dk0, pair, kw, Ef, group, nb, band=True))
    e_surf = np.abs(take(surf, slot, a) - np.sign(csurf.constant_factor) * v_a * Xband).max()
    e_link = np.abs(Xband - X0v).max() if (pair != "GME_orb" or group[0] == 0 or kw.get("external_terms") is False) else 0.0
    scale = 1 + max(np.abs(sea).max(), np.abs(surf).max(), np.abs(dX).max())
    bad = e_sea > 1e-5 * scale or e_surf > 1e-9 * scale or e_link > 1e-9 * scale or csea.constant_factor != csurf.constant_factor or (csea.fder, csurf.fder) != (0, 1)
    return bool(bad), (f"{pair} {kw} group={group} a={a} E={E[0].tolist()}: |sea - d_a X| = {e_sea:.3e}, |surf - v_a X| = {e_surf:.3e}, |X_set - X_band| = {e_link:.3e} (scale {scale:.3e}); "
                       f"factors {csea.constant_factor} / {csurf.constant_factor}")
