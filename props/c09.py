"""C09 — point-group operations form a group acting on tensors"""
import math, random
import numpy as np
from fractions import Fraction as Fr
from symx.core import *
from symx.core import z3
import symx.core as core
from symx.npproxy import NpProxy, LinalgProxy, shadow
from symx.harness import Case
import symx.harness  # noqa (puts the repo on sys.path)
import wannierberri.symmetry.point_symmetry as PS
import wannierberri.result.energyresult as ER

PROPERTY = "C09"
FUNCTIONS = ["PointSymmetry.__init__/__mul__/__eq__/transform_reduced_vector/rotate/transform_tensor", "Rotation", "Mirror", "product",
             "from_string_prod", "PointGroup.__init__/as_dict/check_basis_symmetry/symmetric_grid/symmetrize/symmetrize_tensor/star",
             "Transform.__call__/as_dict", "TransformProduct", "transform_from_dict", "EnergyResult.transform"]
BOUNDS = dict(
    quick=dict(groups="12 (magnetic) point groups on compatible lattices: C1 Ci C2v D2h(fcc-free) C4v D4h C3v D6h Oh(fcc) grey C4 and D3d, black-white 4'mm' and 6'",
               tensors="rank 0..3, leading non-Cartesian axis of size 0/2, symbolic (complex where conjugation is involved), |data|<=1 for the 1e-12 tolerance",
               pairs="action law for g in generators + 3 further elements, h in the whole group", kinds="every (TR,Inv) Transform combination at rank 2, 2-3 per other rank", transforms="11 (TR,Inv) Transform combinations",
               star="symbolic k: a 3-parameter box in general position (all groups); 6 one-parameter lines k0+t*d, |t|<=1/16, through Gamma and a zone-boundary point (order <= 16); "
                    "2 planes and 2 three-parameter boxes at Gamma / zone boundary (order <= 4)"),
    thorough=dict(groups="all 32 point groups, their grey groups and 12 black-white groups", tensors="as quick", pairs="all pairs (g,h) for groups of order <= 24, generators + 3 further elements x whole group above",
                  transforms="11 (TR,Inv) Transform combinations", star="as quick plus 16 lines through 4 high-symmetry points for every group of order <= 16 and the 4 lines through Gamma for the larger groups (Th: 3, without the generic direction), 6 planes and 4 boxes for order <= 4, and 64 boxes of half width 1/8 tiling "
                       "[-1/2,1/2]^3 for Ci, C2v and 22'2'"))
EXPLANATION = ("Groups are built by the real PointGroup.__init__ from concrete generators; closure, identity, inverses, orthogonality and lattice invariance are decided "
               "by running the real __mul__/__eq__/transform_reduced_vector on the exact rational values of the stored doubles. The real transform_tensor, symmetrize_tensor, "
               "symmetrize, Transform and star then run on symbolic tensor data / a symbolic k-point; z3 decides the action law g(hT)=(gh)T, the explicit rotation formula, "
               "P^2=P, gP=P (tolerance shape, 1e-12 for |data|<=1) and, on every path chosen by star's tolerance comparisons, distinctness and completeness of the star (QF_NRA).")
ASSUMPTIONS = ["generators are orthogonal matrices of a crystallographic (magnetic) point group compatible with the lattice (documented input)",
               "transformTR / transformInv are commuting involutions (true for every pair used in /repo)",
               "|tensor data| <= 1 for tolerance-shaped obligations", "k-point inside the stated box"]
OUTSIDE = ["groups from a spacegroup object (irrep package) — only generator lists and the dictionary constructor are driven",
           "star(k): k outside the listed lines / planes / boxes — 2- and 3-parameter neighbourhoods of symmetry elements are covered only for groups of order <= 4 "
           "(for larger groups z3's nonlinear arithmetic does not finish the enumeration of the tolerance cells); completeness is claimed as 'linked by a chain of "
           "images closer than SYMMETRY_PRECISION', i.e. up to (|G|-1)*SYMMETRY_PRECISION, which is what the pairwise tolerance comparisons of the algorithm can guarantee",
           "gen_symmetric_tensor / get_symmetric_components (random data, string listing)", "IEEE rounding inside a single matrix product (doubles are exact rationals)"]
STUBS = ["np.linalg.norm(x, axis=-1).min() < c in PointGroup.star: returned as the equivalent z3 disjunction  OR_i sum_c x_ic^2 < c^2 (no sqrt atoms, no argmin forks)",
         "np.linalg.det/inv/norm on exact 3x3 rational matrices: adjugate formula / sqrt of the exact sum",
         "SymC.rint on a bounded symbolic value forks over the integer candidates (round-half-even)"]
QUERY_TIMEOUT_MS = dict(quick=20000, thorough=120000)

SQ3 = math.sqrt(3)


# ------------------------------------------------------------------------------------------------------------ groups
def lattices(seed):
    r = random.Random(seed)
    a = r.choice([1.0, 1.25, 2.5])
    c = r.choice([1.3, 1.75, 0.8]) * a
    b = r.choice([1.2, 1.125]) * a
    return dict(cub=np.eye(3) * a, fcc=np.array([[0, 1, 1], [1, 0, 1], [1, 1, 0]]) * a / 2, bcc=np.array([[-1, 1, 1], [1, -1, 1], [1, 1, -1]]) * a / 2,
                tet=np.diag([a, a, c]), ort=np.diag([a, b, c]), hex=np.array([[a, 0, 0], [-a / 2, a * SQ3 / 2, 0], [0, 0, c]]),
                rho=np.array([[a * math.cos(2 * math.pi * i / 3), a * math.sin(2 * math.pi * i / 3), c] for i in range(3)]),
                mon=np.array([[a, 0, 0], [0, b, 0], [0.3 * a, 0, c]]), tri=np.array([[a, 0, 0], [0.2 * a, b, 0], [0.3 * a, -0.1 * a, c]]))


C3d = ("rot", 3, (1, 1, 1))
POINT_GROUPS = dict(   # name -> (generators, lattice)
    C1=([], "tri"), Ci=(["Inversion"], "tri"), C2=(["C2y"], "mon"), Cs=(["My"], "mon"), C2h=(["C2y", "Inversion"], "mon"),
    D2=(["C2z", "C2x"], "ort"), C2v=(["C2z", "Mx"], "ort"), D2h=(["C2z", "C2x", "Inversion"], "ort"),
    C4=(["C4z"], "tet"), S4=(["Inversion*C4z"], "tet"), C4h=(["C4z", "Inversion"], "tet"), D4=(["C4z", "C2x"], "tet"), C4v=(["C4z", "Mx"], "tet"),
    D2d=(["Inversion*C4z", "C2x"], "tet"), D4h=(["C4z", "C2x", "Inversion"], "tet"),
    C3=(["C3z"], "rho"), S6=(["C3z", "Inversion"], "rho"), D3=(["C3z", "C2x"], "hex"), C3v=(["C3z", "Mx"], "hex"), D3d=(["C3z", "C2x", "Inversion"], "hex"),
    C6=(["C6z"], "hex"), C3h=(["C3z", "Mz"], "hex"), C6h=(["C6z", "Inversion"], "hex"), D6=(["C6z", "C2x"], "hex"), C6v=(["C6z", "Mx"], "hex"),
    D3h=(["C3z", "Mz", "C2x"], "hex"), D6h=(["C6z", "C2x", "Inversion"], "hex"),
    T=(["C2z", "C2x", C3d], "cub"), Th=(["C2z", "C2x", C3d, "Inversion"], "bcc"), O=(["C4z", "C4x"], "cub"), Td=(["Inversion*C4z", C3d], "fcc"),
    Oh=(["C4z", "C4x", "Inversion"], "fcc"))
ORDER = dict(C1=1, Ci=2, C2=2, Cs=2, C2h=4, D2=4, C2v=4, D2h=8, C4=4, S4=4, C4h=8, D4=8, C4v=8, D2d=8, D4h=16, C3=3, S6=6, D3=6, C3v=6, D3d=12, C6=6, C3h=6,
             C6h=12, D6=12, C6v=12, D3h=12, D6h=24, T=12, Th=24, O=24, Td=24, Oh=48)
BW_GROUPS = {   # black-white groups: name -> (generators, lattice, order)
    "-1'": (["TimeReversal*Inversion"], "tri", 2), "2'": (["TimeReversal*C2y"], "mon", 2), "2'/m": (["TimeReversal*C2y", "My"], "mon", 4),
    "22'2'": (["C2z", "TimeReversal*C2x"], "ort", 4), "m'm'm": (["TimeReversal*Mx", "TimeReversal*My", "Mz"], "ort", 8), "4'": (["TimeReversal*C4z"], "tet", 4),
    "4'mm'": (["TimeReversal*C4z", "Mx"], "tet", 8), "4/m'": (["C4z", "TimeReversal*Inversion"], "tet", 8), "32'": (["C3z", "TimeReversal*C2x"], "hex", 6),
    "6'": (["TimeReversal*C6z"], "hex", 6), "6'/m'": (["TimeReversal*C6z", "TimeReversal*Inversion"], "hex", 12), "m'-3'm": (["C4z", "C4x", "TimeReversal*Inversion"], "cub", 48)}


def group_spec(name):
    if name in BW_GROUPS:
        return BW_GROUPS[name]
    if name.endswith("1'"):   # grey group
        g, lat = POINT_GROUPS[name[:-2]]
        return g + ["TimeReversal"], lat, 2 * ORDER[name[:-2]]
    g, lat = POINT_GROUPS[name]
    return g, lat, ORDER[name]


class BuildFailed(Exception):
    pass


def build(name, seed=0, cap=20):
    """the real PointGroup on real doubles (call before shadowing); a construction that does not finish within `cap` seconds
    (the generation loop only stops at 1000 elements) or raises is a BuildFailed — reported as a violation by the axioms case"""
    import signal
    gens, lat, order = group_spec(name)

    def _alarm(*a):
        raise BuildFailed(f"PointGroup.__init__ did not terminate within {cap} s for the generators of {name}")
    old = signal.signal(signal.SIGALRM, _alarm)
    signal.alarm(cap)
    try:
        gens = [PS.Rotation(g[1], list(g[2])) if isinstance(g, tuple) else g for g in gens]
        pg = PS.PointGroup(gens, real_lattice=lattices(seed)[lat])
    except BuildFailed:
        raise
    except Exception as e:
        raise BuildFailed(f"PointGroup.__init__ raised {type(e).__name__}: {e}"[:300])
    finally:
        signal.alarm(0)
        signal.signal(signal.SIGALRM, old)
    return pg, gens, order


def group_names(tier):
    if tier == "quick":
        return ["C1", "Ci", "C2v", "D2h", "C4v", "D4h", "C3v", "D6h", "Oh", "C41'", "D3d1'", "4'mm'", "6'"]
    # all 32 point groups, the grey groups of a spread of them and the black-white groups; (the full list of 76 groups = 1712 cases did not
    # fit the thorough budget: the grey groups left out differ from the listed ones only by the factor group {E, T})
    grey = ["C1", "Ci", "C2", "C2v", "D2h", "C4", "C4v", "D4h", "C3v", "D3d", "C6", "D6h", "T", "Td", "Oh"]
    out = list(POINT_GROUPS) + [g + "1'" for g in grey if g in POINT_GROUPS] + list(BW_GROUPS)
    return list(dict.fromkeys(out))


# ------------------------------------------------------------------------------------------------------------ transforms
def tr_kinds(rank, lead):
    """(name, transformTR, transformInv, complex data?) — commuting involutions"""
    T = PS.Transform
    out = [("ident/ident", PS.transform_ident, PS.transform_ident, False), ("odd/ident", PS.transform_odd, PS.transform_ident, False),
           ("ident/odd", PS.transform_ident, PS.transform_odd, False), ("odd/odd", PS.transform_odd, PS.transform_odd, False),
           ("oddconj/ident", PS.transform_odd_conj, PS.transform_ident, True), ("conj/odd", T(conj=True), PS.transform_odd, True),
           ("prod(odd,odd)/prod(odd,ident)", PS.TransformProduct([PS.transform_odd, PS.transform_odd]), PS.TransformProduct([PS.transform_odd, PS.transform_ident]), False)]
    if rank >= 2:
        out.append(("trans/ident", PS.transform_trans, PS.transform_ident, False))
        n = len(lead) + rank
        out.append(("swap/odd", T(swap_axes=(n - 1, n - 2)), PS.transform_odd, False))
    if rank == 3:
        out.append(("oddtrans021/odd", PS.transform_odd_trans_021, PS.transform_odd, False))
        out.append(("oddtrans102/ident", PS.transform_odd_trans_102, PS.transform_ident, True))
    return out


def kind_by_name(rank, lead, name):
    return [k for k in tr_kinds(rank, lead) if k[0] == name][0]


def oracle_transform(g, T, rank, trTR, trInv):
    """harness's own statement: rotate every Cartesian index with the proper rotation R, then the TR / Inv transforms as plain out-of-place operations"""
    T = np.asarray(T)
    n = T.ndim
    R = lift(g.R) if T.dtype == object else g.R
    for ax in range(n - rank, n):
        T = np.moveaxis(np.tensordot(R, T, axes=(1, ax)), 0, ax)
    for flag, tr in ((g.TR, trTR), (g.Inv, trInv)):
        if flag:
            if tr.transpose_axes is not None:
                d0 = n - len(tr.transpose_axes)
                T = np.transpose(T, tuple(range(d0)) + tuple(d0 + a for a in tr.transpose_axes))
            elif tr.swap_axes is not None:
                T = np.swapaxes(T, *tr.swap_axes)
            if tr.conj:
                T = np.conjugate(T)
            T = T * tr.factor
    return T


# ------------------------------------------------------------------------------------------------------------ concrete group axioms (exact)
def _lifted(s):
    return PS.PointSymmetry(lift(s.R * s.iInv), s.TR)


def _fmat(A):
    return np.array([[SymC.of(x).fraction()[0] for x in row] for row in np.asarray(A, dtype=object)], dtype=object)


def case_axioms(rec, gname):
    rec.witness = lambda env: dict(test="axioms", group=gname)
    try:
        pg, gens, order = build(gname)
    except BuildFailed as e:
        rec.explore(lambda rec: rec.concrete("PointGroup.__init__ builds the finite group from valid generators", False, str(e), key="PointGroup.__init__ fails on valid generators"), [])
        return
    G = pg.symmetries
    n = len(G)
    shadow([PS])

    def body(rec):
        rec.witness = lambda env: dict(test="axioms", group=gname)
        rec.concrete("group order is the crystallographic one", n == order, f"{n} elements, expected {order}", key="PointGroup.__init__ wrong number of elements")
        L = [_lifted(s) for s in G]
        ident = _lifted(PS.Identity)
        ids = [i for i in range(n) if L[i] == ident]
        rec.concrete("identity present once", len(ids) == 1, str(ids), key="PointGroup has no / several identities")
        # elements pairwise distinct and well separated (so that 'equal within 1e-12' is unambiguous)
        sep = all(G[i].TR != G[j].TR or G[i].Inv != G[j].Inv or np.abs(_fmat(L[i].R - L[j].R)).max() > Fr(1, 1000) for i in range(n) for j in range(i))
        dup = any(L[i] == L[j] for i in range(n) for j in range(i))
        rec.concrete("elements pairwise distinct", sep and not dup, key="PointGroup lists an element twice")
        # orthogonality / proper part, exact
        orth = all(np.abs(_fmat(s.R @ s.R.T - lift(np.eye(3)))).max() < Fr(1, 10**12) and abs(SymC.of(NpProxy().linalg.det(s.R)).fraction()[0] - 1) < Fr(1, 10**12) for s in L)
        rec.concrete("R is a proper rotation to 1e-12 (exact arithmetic on the stored doubles)", orth, key="PointSymmetry.R not a proper rotation")
        # closure with the real __mul__/__eq__ on exact rationals
        table = np.full((n, n), -1)
        bad = []
        for i in range(n):
            for j in range(n):
                p = L[i] * L[j]
                pf = np.array(_fmat(p.R), dtype=float)
                cand = [k for k in range(n) if G[k].TR == p.TR and G[k].Inv == p.Inv and np.abs(G[k].R - pf).max() < 1e-6]
                if len(cand) == 1 and p == L[cand[0]]:
                    table[i, j] = cand[0]
                else:
                    bad.append((i, j))
                fl = G[i] * G[j]    # the same product in double arithmetic, the code's own membership test
                if fl not in G:
                    bad.append((i, j, "float"))
        rec.concrete("closed under __mul__ (result == exactly one element, tolerance 1e-12, exact arithmetic)", not bad, str(bad[:5]), key="PointGroup not closed under __mul__")
        if not bad and len(ids) == 1:
            e = ids[0]
            inv = all(any(table[i, j] == e and table[j, i] == e for j in range(n)) for i in range(n))
            rec.concrete("every element has a two-sided inverse", inv, key="PointGroup element without inverse")
            latin = all(len(set(table[i])) == n and len(set(table[:, i])) == n for i in range(n))
            rec.concrete("multiplication table is a latin square with neutral element", latin and all(table[e, i] == i == table[i, e] for i in range(n)),
                         key="PointGroup multiplication table inconsistent")
            assoc = all(table[table[i, j], k] == table[i, table[j, k]] for i in range(n) for j in range(n) for k in range(min(n, 12)))
            rec.concrete("multiplication table associative", assoc, key="PointGroup multiplication table inconsistent")
        # lattice invariance, exact: M_g = B R^T B^-1 * sign is an integer unimodular matrix within the code's tolerance
        Ms = {}
        ok_lat = True
        for nm, B in (("real", pg.real_lattice), ("recip", pg.recip_lattice)):
            for ig, s in enumerate(L):
                M = _fmat(s.transform_reduced_vector(lift(np.eye(3)), lift(B)))
                N = np.array([[round(x) for x in row] for row in M], dtype=object)
                det = (N[0, 0] * (N[1, 1] * N[2, 2] - N[1, 2] * N[2, 1]) - N[0, 1] * (N[1, 0] * N[2, 2] - N[1, 2] * N[2, 0]) + N[0, 2] * (N[1, 0] * N[2, 1] - N[1, 1] * N[2, 0]))
                if np.abs(M - N).max() > Fr(1, 10**6) or abs(det) != 1:
                    ok_lat = False
                Ms[nm, ig] = N
            ok_lat = ok_lat and bool(pg.check_basis_symmetry(B))
        rec.concrete("lattice and reciprocal lattice invariant (integer unimodular action within 1e-6, check_basis_symmetry True)", ok_lat, key="PointGroup does not leave its lattice invariant")
        # the reduced action is a homomorphism too (row-vector convention: k -> k M_g): M_{gh} = M_h M_g
        if not bad:
            hom = all((Ms["recip", int(table[i, j])] == Ms["recip", j].dot(Ms["recip", i])).all() for i in range(n) for j in range(n))
            rec.concrete("transform_reduced_vector is a group action on reduced coordinates", hom, key="transform_reduced_vector not a group action")
        # symmetric_grid(nk) == integer criterion  nk_i | N_ij nk_j  (all g, i, j)
        wrong = []
        for nk in np.ndindex(4, 4, 4):
            nk = tuple(x + 1 for x in nk)
            want = all(int(Ms["recip", ig][i, j]) * nk[j] % nk[i] == 0 for ig in range(n) for i in range(3) for j in range(3))
            if bool(pg.symmetric_grid(nk)) != want:
                wrong.append(nk)
        rec.concrete("symmetric_grid(nk) == 'every element maps the nk grid onto itself' for nk in 1..4^3", not wrong, str(wrong[:4]), key="symmetric_grid wrong")
        # dictionary round trip
        pg2 = PS.PointGroup(dictionary=pg.as_dict())
        same = pg2.size == n and all(a == b for a, b in zip(pg2.symmetries, G))
        rec.concrete("PointGroup(dictionary=as_dict()) is the same group", bool(same), key="PointGroup dictionary round trip")
    rec.explore(body, [])


# ------------------------------------------------------------------------------------------------------------ symbolic tensors
def _tensor(rank, lead, cplx):
    return symvec("T", tuple(lead) + (3,) * rank, real=not cplx)


def _wit(gname, rank, lead, kind, T, **kw):
    return lambda env: dict(group=gname, rank=rank, lead=list(lead), kind=kind, T=env.arr(T), **kw)


def case_tensor(rec, gname, rank, lead, action_kinds, project_kinds, allpairs):
    """action law + rotation formula (action_kinds) and projection properties of symmetrize_tensor / symmetrize (project_kinds)"""
    pg, gens, order = build(gname)
    G = pg.symmetries
    n = len(G)
    shadow([PS, ER])
    if allpairs:
        gsel = list(range(n))
    else:
        gsel = sorted(set([i for i in range(n) if any(G[i] == (PS.from_string_prod(g) if isinstance(g, str) else g) for g in gens)] + [n - 1, n // 2, n // 3]))

    def body(rec):
        for kind in action_kinds:
            _, trTR, trInv, cplx = kind_by_name(rank, lead, kind)
            T = _tensor(rank, lead, cplx)
            T0 = T.copy()
            hT = [h.transform_tensor(T, rank, trTR, trInv) for h in G]
            rec.witness = _wit(gname, rank, lead, kind, T, test="oracle")
            rec.close(f"{kind}: transform_tensor == rotation of every Cartesian index, then TR/Inv transforms", sarr(hT),
                      sarr([oracle_transform(h, T, rank, trTR, trInv) for h in G]), 1e-13, key=f"transform_tensor differs from the rotation formula")
            rec.eq(f"{kind}: input tensor not modified", T, T0, key="transform_tensor modifies its input")
            for ig in gsel:
                g = G[ig]
                rec.witness = _wit(gname, rank, lead, kind, T, test="action", g=ig)
                lhs = [g.transform_tensor(x, rank, trTR, trInv) for x in hT]
                rhs = [(g * h).transform_tensor(T, rank, trTR, trInv) for h in G]
                rec.close(f"{kind}: g(hT) == (g*h)T for all h, g=#{ig}", sarr(lhs), sarr(rhs), 1e-12, key="transform_tensor is not a group action")
        for kind in project_kinds:
            _, trTR, trInv, cplx = kind_by_name(rank, lead, kind)
            T = _tensor(rank, lead, cplx)
            rec.witness = _wit(gname, rank, lead, kind, T, test="project")
            P = pg.symmetrize_tensor(T, transformTR=trTR, transformInv=trInv, rank=rank)
            want = sum(oracle_transform(g, T, rank, trTR, trInv) for g in G) / n
            rec.close(f"{kind}: symmetrize_tensor == group average", P, want, 1e-12, key=f"symmetrize_tensor is not the group average")
            rec.close(f"{kind}: P(P T) == P T", pg.symmetrize_tensor(P, transformTR=trTR, transformInv=trInv, rank=rank), P, 1e-12, key=f"symmetrize_tensor not idempotent")
            rec.close(f"{kind}: g(P T) == P T for every g", sarr([g.transform_tensor(P, rank, trTR, trInv) for g in G]), sarr([P] * n), 1e-12,
                      key=f"symmetrized tensor not invariant")
            if len(lead) == 1:
                res = ER.EnergyResult([np.arange(lead[0]) * 0.5], T.copy(), transformTR=trTR, transformInv=trInv, rank=rank, save_mode="")
                rec.close(f"{kind}: PointGroup.symmetrize(EnergyResult) == symmetrize_tensor(data)", pg.symmetrize(res).data, P, 1e-12,
                          key=f"PointGroup.symmetrize differs from symmetrize_tensor")
    rec.explore(body, [])


def case_products(rec, gname):
    """product / from_string_prod: 'A*B' acts as A after B; reduced action vs Cartesian action"""
    pg, gens, order = build(gname)
    G = pg.symmetries
    shadow([PS])
    v = symvec("T", (3,))
    k = symvec("k", (3,))
    B = pg.recip_lattice
    names = [g for g in gens if isinstance(g, str)]
    odd = PS.transform_odd

    def body(rec):
        rec.witness = lambda env: dict(test="products", group=gname, T=env.arr(v), k=env.arr(k))
        for a in names:
            for b in names:
                ab = PS.from_string_prod(a + "*" + b)
                A, Bo = PS.from_string_prod(a), PS.from_string_prod(b)
                rec.close(f"from_string_prod('{a}*{b}') T == {a}({b} T)", ab.transform_tensor(v, 1, odd, odd),
                          A.transform_tensor(Bo.transform_tensor(v, 1, odd, odd), 1, odd, odd), 1e-12, key="from_string_prod order of factors")
                p3 = PS.product([A, Bo, A])
                rec.close("product([A,B,A]) T == A(B(A T))", p3.transform_tensor(v, 1, odd, PS.transform_ident),
                          A.transform_tensor(Bo.transform_tensor(A.transform_tensor(v, 1, odd, PS.transform_ident), 1, odd, PS.transform_ident), 1, odd, PS.transform_ident),
                          1e-12, key="product order of factors")
        kc = k @ lift(B)
        rec.close("reduced action == Cartesian action of a TR-odd, I-odd vector (k -> iTR*iInv*R k)",
                  sarr([g.transform_reduced_vector(k, B) @ lift(B) for g in G]), sarr([g.transform_tensor(kc, 1, odd, odd) for g in G]), 1e-9, bound=1.0,
                  key="transform_reduced_vector inconsistent with transform_tensor")
        rec.close("Cartesian action of k == iTR*iInv*(R @ k) (docstring)", sarr([g.transform_tensor(kc, 1, odd, odd) for g in G]),
                  sarr([(lift(g.R) @ kc) * (g.iTR * g.iInv) for g in G]), 1e-9, bound=1.0, key="transform_tensor of a vector is not iTR*iInv*R k")
    rec.explore(body, [])


def case_transforms(rec, rank, lead):
    """Transform.__call__ / TransformProduct / as_dict + transform_from_dict on symbolic data"""
    shadow([PS])
    T = _tensor(rank, lead, True)
    kinds = tr_kinds(rank, lead)

    def body(rec):
        trs = []
        for nm, a, b, _ in kinds:
            trs += [(nm + "[TR]", a), (nm + "[Inv]", b)]
        for nm, t in trs:
            rec.witness = lambda env, nm=nm: dict(test="transforms", rank=rank, lead=list(lead), kind=nm, T=env.arr(T))
            x = np.copy(T)
            r = t(x)
            fake = PS.PointSymmetry(np.eye(3), True)
            rec.eq(f"{nm}: Transform.__call__ == transpose/swap, conj, factor", r, oracle_transform(fake, T, rank, t, PS.transform_ident), key="Transform.__call__ wrong")
            rec.concrete(f"{nm}: works in place and returns its argument", r is x, key="Transform.__call__ not in place")
            rec.eq(f"{nm}: involution", t(np.copy(r)), T, key="Transform.__call__ wrong")
            d = t.as_dict()
            t2 = PS.transform_from_dict(dict(tr=np.array(d, dtype=object)), "tr")
            rec.eq(f"{nm}: transform_from_dict(as_dict) acts identically", t2(np.copy(T)), r, key="Transform dictionary round trip")
            rec.concrete(f"{nm}: transform_from_dict(as_dict) == original", t2 == t, key="Transform dictionary round trip")
        simple = [PS.transform_ident, PS.transform_odd]
        cj = [PS.transform_odd_conj, PS.Transform(conj=True)]
        for fam in (simple, cj):
            for a in fam:
                for b in fam:
                    for c in fam:
                        rec.witness = lambda env: dict(test="transforms", rank=rank, lead=list(lead), kind="product", T=env.arr(T))
                        tp = PS.TransformProduct([a, b, c])
                        want = T * (a.factor * b.factor * c.factor)
                        if a.conj:
                            want = np.conjugate(want)
                        rec.eq("TransformProduct == product of factors, common conjugation", tp(np.copy(T)), want, key="TransformProduct wrong")
        rec.concrete("transform_from_dict: missing / None key -> None", PS.transform_from_dict({}, "x") is None and PS.transform_from_dict(dict(x=None), "x") is None,
                     key="transform_from_dict missing key")
    rec.explore(body, [])


# ------------------------------------------------------------------------------------------------------------ star
def _sumsq_lt(row, c):
    """SymB for  sum_c row_c^2 < c^2 ; decided by exact interval arithmetic on the (linear) components where the declared atom bounds already settle it"""
    c = SymC.of(c)
    assert c.isconst() and float(c) > 0
    c2 = (c * c).fraction()[0]
    lo = hi = Fr(0)
    for x in row:
        iv = SymC.of(x).interval()
        if iv is None:
            lo, hi = Fr(0), None
            break
        a, b = iv
        lo += 0 if a <= 0 <= b else min(a * a, b * b)
        hi += max(a * a, b * b)
    if lo >= c2:
        return False
    if hi is not None and hi < c2:
        return True
    ss = sum((SymC.of(x) * SymC.of(x) for x in row), SymC.of(0))
    k = (ss.key(), c2)
    if k not in _LITS:          # one z3 term per distinct polynomial, shared by the code's decisions and the harness's obligations
        _LITS[k] = ss < c * c
    return _LITS[k]


class _NormMin:
    def __init__(s, rows):
        s.rows = rows

    def __lt__(s, c):
        out = False
        for row in s.rows:
            out = out | _sumsq_lt(row, c)
        return out


class _NormArr:
    def __init__(s, x):
        s.x = x

    def min(s):
        return _NormMin(list(s.x.reshape(-1, s.x.shape[-1])))


class StarLinalg(LinalgProxy):
    """norm(x, axis=-1) of symbolic x -> lazy object; only `.min() < c` is defined (== OR_i sum_c x_ic^2 < c^2)"""

    def norm(s, x, ord=None, axis=None, **kw):
        if not is_sym(x) or axis != -1:
            return LinalgProxy.norm(s, x, ord=ord, axis=axis, **kw)
        return _NormArr(np.asarray(x, dtype=object))


def _sb(b):
    return b if isinstance(b, SymB) else SymB(z3.BoolVal(bool(b)))


def _all(bs, op=z3.And, unit=True):
    """flat conjunction of SymB (constants folded)"""
    ts, atoms = [], set()
    for b in bs:
        t = z3.simplify(b.t) if z3.is_bool(b.t) and b.t.num_args() == 0 else b.t
        if (z3.is_true(t) and unit) or (z3.is_false(t) and not unit):
            continue
        if (z3.is_false(t) and unit) or (z3.is_true(t) and not unit):
            return _sb(not unit)
        ts.append(t)
        atoms |= b.atoms
    if not ts:
        return _sb(unit)
    return SymB(op(*ts) if len(ts) > 1 else ts[0], atoms)


def _any(bs):
    return _all(bs, z3.Or, False)


def _abstract(exprs):
    """replace every arithmetic atom by a propositional constant (same atom -> same constant): an unsat abstraction proves the original unsat"""
    atoms = {}
    seen = set()

    def walk(e):
        if e.get_id() in seen:
            return
        seen.add(e.get_id())
        if z3.is_app(e) and z3.is_bool(e) and e.num_args() and not z3.is_bool(e.arg(0)):
            atoms.setdefault(e.get_id(), (e, z3.Bool(f"atom!{e.get_id()}")))
            return
        for ch in e.children():
            walk(ch)
    for e in exprs:
        walk(e)
    sub = list(atoms.values())
    return [z3.substitute(e, *sub) for e in exprs]


def _fact(rec, name, f, key):
    """fact over the closeness literals: first decided propositionally (the literals of the path condition and of the fact are the same z3 terms),
    exact QF_NRA only if the propositional abstraction is satisfiable"""
    from symx import smt
    if not isinstance(f, SymB):
        return rec.fact(name, f, key=key)
    pc = rec._pc()
    ab = _abstract(list(pc) + [f.t])
    v = smt.check_fact(name, ab[-1], ab[:-1], rec.timeout_ms)
    if v.status != "unsat":
        v = smt.check_fact(name, f, pc, rec.timeout_ms, "QF_NRA")
    else:
        v.detail = "propositional abstraction over the tolerance literals unsat"
    return rec._account(v, key=key)


_LITS = {}


def _close_lit(a, b, tol):
    """'a and b coincide modulo the lattice within tol', written like the code's own test (difference, nearest integer shift, squared norm)"""
    d = a - b
    return _sumsq_lt(d - np.round(d), tol)


def _generic_centre(pg, half):
    """deterministic search for a rational k in general position: in the box of half width `half` no component of any difference of two images
    comes near a half-integer (no rounding tie) and no difference comes near a lattice vector"""
    Ns = [np.round(g.transform_reduced_vector(np.eye(3), pg.recip_lattice)) for g in pg.symmetries]
    D = np.array([a - b for a in Ns for b in Ns if np.abs(a - b).max() > 0] or [np.zeros((3, 3))])     # k -> k @ D[p]
    r = random.Random(9)
    while True:
        c = [Fr(r.randrange(1, 256), 512) for _ in range(3)]
        d = np.einsum("i,pij->pj", np.array(c, dtype=float), D)
        slack = half * np.abs(D).sum(axis=1) + 1e-3
        dist_half = np.abs(d * 2 - np.round(d * 2))       # distance of 2d to the nearest integer: small <=> d near an integer or half-integer
        moving = np.abs(D).sum(axis=1) > 0
        if np.all(dist_half[moving] > 2 * slack[moving]):
            return tuple(c)


def case_stars(rec, gname, regions):
    built = build(gname)
    for centre, dirs, half in regions:
        case_star(rec, gname, centre, dirs, half, built)


def case_star(rec, gname, centre, dirs, half, built):
    pg, gens, order = built
    G = pg.symmetries
    n = len(G)
    if centre == "generic":
        centre = _generic_centre(pg, float(half))
    shadow([PS], proxy=NpProxy(linalg=StarLinalg(np.linalg)))
    reset_registry()
    dk = symvec("dk", (len(dirs),), lo=-half, hi=half)      # k = centre + sum_a dk_a * dirs[a]
    k = sarr([SymC.of(Fr(c)) + sum((x * Fr(d[i]) for x, d in zip(dk, dirs)), SymC.of(0)) for i, c in enumerate(centre)])
    tol = Fr(PS.SYMMETRY_PRECISION)

    def body(rec):
        core.NRA_FALLBACK_MS = 20000          # branch conditions are quadratic in k: unknown from the incremental core is retried one-shot (nlsat)
        Ctx.cur.solver.set("timeout", 300)
        rec.witness = lambda env: dict(test="star", group=gname, k=[float(x) for x in env.val(k)])
        st = pg.star(k)
        imgs = [g.transform_reduced_vector(k, pg.recip_lattice) for g in G]
        m = len(st)
        rec.concrete("star is a non-empty (m,3) array with m <= |G|", 1 <= m <= n and np.shape(st) == (m, 3), key="star has wrong shape")
        rec.eq("first star element is the image under the first group element", st[0], imgs[0], key="star elements are not images")
        # every listed element is one of the images (exactly, same computation), in the original order
        pos, j = [], 0
        for a in st:
            while j < n and not all((x - y).iszero() for x, y in zip(a, imgs[j])):
                j += 1
            pos.append(j)
            j += 1
        rec.concrete("star elements are group images of k (in order)", all(p < n for p in pos), key="star elements are not images")
        # closeness literals built exactly like the code's own test (earlier minus later image, nearest lattice shift, squared norm < tol^2)
        close = {}
        for i in range(n):
            for j in range(i):
                close[j, i] = _close_lit(imgs[j], imgs[i], tol)
        f = _all([~_sb(close[pos[b], pos[a]]) for a in range(m) for b in range(a)])
        _fact(rec, "star elements pairwise distinct modulo the lattice (>= SYMMETRY_PRECISION)", f, key="star lists an image twice")
        # completeness: every image is linked to a listed one by a chain of pairs closer than SYMMETRY_PRECISION (=> within (|G|-1)*SYMMETRY_PRECISION)
        reach = {}
        for i in range(n):
            reach[i] = _sb(True) if i in pos else _any([_all([_sb(close[j, i]), reach[j]]) for j in range(i)])
        f = _all([reach[i] for i in range(n)])
        _fact(rec, "every image is linked to a star element by a chain of images closer than SYMMETRY_PRECISION", f, key="star misses an image")
    rec.explore(body, [])


# ------------------------------------------------------------------------------------------------------------ cases
E3 = ((1, 0, 0), (0, 1, 0), (0, 0, 1))


def star_regions(tier, order, gname=""):
    """(centre, directions, half width): k = centre + sum_a t_a * direction_a, |t_a| <= half.  3-parameter boxes where the number of tolerance
    cells stays small (small groups / generic position), 1- and 2-parameter families through the high-symmetry points otherwise"""
    H, Q = Fr(1, 2), Fr(1, 4)
    h = Fr(1, 16)
    generic = ("generic", E3, Fr(1, 512))
    lines = [(c, (d,), h) for c in ((0, 0, 0), (H, 0, 0), (0, 0, H), (H, H, 0)) for d in ((1, 0, 0), (0, 0, 1), (1, 1, 0), (1, 2, 3))]
    planes = [(c, ds, h) for c in ((0, 0, 0), (H, H, H)) for ds in (((1, 0, 0), (0, 1, 0)), ((1, 0, 0), (0, 0, 1)), ((1, 1, 0), (0, 0, 1)))]
    boxes = [(c, E3, h) for c in ((0, 0, 0), (H, 0, 0), (0, 0, Fr(5, 16)), (Q, Q, 0))]
    if tier == "quick":
        return [generic] + (lines[:6] if order <= 16 else []) + (planes[:2] + boxes[:2] if order <= 4 else [])
    if order > 16:
        # 24..96 operations: a line through a high-symmetry point crosses O(order^2) tolerance cells; the four-line chunks of the smaller groups ran past
        # 1500 s each (41 timeouts in the first thorough run), and single lines through
        # (1/2,0,0) still did (Oh); the big groups get the four lines through Gamma, one per case
        # (the generic direction (1,2,3) through Gamma ran past 1500 s for Th alone in the sizing run: left out there)
        return [generic] + [l for l in lines if l[0] == (0, 0, 0) and not (gname.startswith("Th") and l[1][0] == (1, 2, 3))]
    out = [generic] + lines
    if order <= 4:
        cs = [Fr(i, 4) - H + Fr(1, 8) for i in range(4)]
        out += planes + ([((a, b, c), E3, Fr(1, 8)) for a in cs for b in cs for c in cs] if gname in ("Ci", "C2v", "22'2'") else boxes)
    return out


def kinds_for(tier, rank, lead):
    """(kinds for the action law, kinds for the projection) of one (rank, leading axes) block"""
    names = [k[0] for k in tr_kinds(rank, lead)]
    if tier == "quick":
        act = {(0, (2,)): ["odd/odd", "oddconj/ident"], (1, (2,)): ["odd/ident", "ident/odd", "conj/odd"], (2, (2,)): ["oddconj/ident", "trans/ident"],
               (2, ()): [x for x in names if x not in ("oddconj/ident", "trans/ident")], (3, ()): ["oddtrans021/odd", "oddtrans102/ident"]}[rank, lead]
        pro = {(0, (2,)): ["oddconj/ident"], (1, (2,)): ["odd/ident", "conj/odd"], (2, (2,)): ["odd/ident"], (2, ()): ["odd/odd", "conj/odd", "trans/ident", "swap/odd"],
               (3, ()): ["oddtrans021/odd"]}[rank, lead]
        return act, pro
    if (rank, lead) == (2, ()):
        return ["trans/ident", "swap/odd"], ["trans/ident", "swap/odd"]
    if rank == 3:
        k3 = ["ident/ident", "odd/odd", "oddconj/ident", "trans/ident", "oddtrans021/odd", "oddtrans102/ident"]
        return k3, k3
    return names, names


def cases(tier, seed):
    out = []
    q = tier == "quick"
    for g in group_names(tier):
        order = group_spec(g)[2]
        out.append(Case(f"axioms {g}", case_axioms, dict(gname=g), timeout=900))
        out.append(Case(f"products {g}", case_products, dict(gname=g)))
        for rank, lead in ((0, (2,)), (1, (2,)), (2, (2,)), (2, ()), (3, ())):
            act, pro = kinds_for(tier, rank, lead)
            allpairs = not q and order <= 24
            chunk = 1 if (rank == 3 and order > 16) or (allpairs and order > 8 and rank >= 2) else (3 if order > 16 else 12)
            for i in range(0, max(len(act), len(pro)), chunk):
                a, p = act[i:i + chunk], pro[i:i + chunk]
                out.append(Case(f"tensor {g} rank={rank} lead={lead} action:{','.join(a)} project:{','.join(p)}", case_tensor,
                                dict(gname=g, rank=rank, lead=lead, action_kinds=a, project_kinds=p, allpairs=allpairs), timeout=1500))
        regs = star_regions(tier, order, g)
        big = [r for r in regs if (len(r[1]) == 3 or order > 16) and r[0] != "generic"]
        small = [r for r in regs if r not in big]
        for grp in [small[i:i + 4] for i in range(0, len(small), 4)] + [[r] for r in big]:
            nm = "; ".join(f"{c if c == 'generic' else [str(x) for x in c]}+t*{list(ds)} |t|<={h}" for c, ds, h in grp)
            out.append(Case(f"star {g} k={nm}", case_stars, dict(gname=g, regions=grp), timeout=1500))
    for rank, lead in ((0, (2,)), (1, ()), (2, (2,)), (3, ()), (3, (2,))):
        out.append(Case(f"transforms rank={rank} lead={lead}", case_transforms, dict(rank=rank, lead=lead)))
    return out


# ------------------------------------------------------------------------------------------------------------ replay
def _np_axioms(pg, order):
    G = pg.symmetries
    n = len(G)
    msgs = []
    if n != order:
        msgs.append(f"order {n} != {order}")
    def find(s):
        return [k for k in range(n) if G[k].TR == s.TR and G[k].Inv == s.Inv and np.abs(G[k].R - s.R).max() < 1e-9]
    if len(find(PS.Identity)) != 1:
        msgs.append("identity")
    for i in range(n):
        if len(find(G[i])) != 1:
            msgs.append(f"duplicate {i}")
        if np.abs(G[i].R @ G[i].R.T - np.eye(3)).max() > 1e-9 or abs(np.linalg.det(G[i].R) - 1) > 1e-9:
            msgs.append(f"not a rotation {i}")
        if not any(len(find(G[i] * G[j])) == 1 and find(G[i] * G[j]) == find(PS.Identity) for j in range(n)):
            msgs.append(f"no inverse {i}")
        for j in range(n):
            if len(find(G[i] * G[j])) != 1:
                msgs.append(f"not closed {i}*{j}")
    Ms = []
    for B in (pg.real_lattice, pg.recip_lattice):
        for s in G:
            M = s.transform_reduced_vector(np.eye(3), B)
            if np.abs(M - np.round(M)).max() > 1e-6 or abs(abs(np.linalg.det(np.round(M))) - 1) > 1e-9:
                msgs.append("lattice")
        if not pg.check_basis_symmetry(B):
            msgs.append("check_basis_symmetry")
    Ms = [np.round(s.transform_reduced_vector(np.eye(3), pg.recip_lattice)).astype(int) for s in G]
    for i in range(n):
        for j in range(n):
            kk = find(G[i] * G[j])
            if len(kk) == 1 and not (Ms[kk[0]] == Ms[j] @ Ms[i]).all():
                msgs.append(f"reduced action {i},{j}")
    for nk in np.ndindex(4, 4, 4):
        nk = tuple(x + 1 for x in nk)
        want = all(int(M[i, j]) * nk[j] % nk[i] == 0 for M in Ms for i in range(3) for j in range(3))
        if bool(pg.symmetric_grid(nk)) != want:
            msgs.append(f"symmetric_grid{nk}")
    try:
        pg2 = PS.PointGroup(dictionary=pg.as_dict())
        if pg2.size != n or not all(a == b for a, b in zip(pg2.symmetries, G)):
            msgs.append("dictionary")
    except Exception as e:
        msgs.append(f"dictionary {e!r}")
    return msgs


def _data(w, key="T"):
    from symx.harness import unarr
    T = unarr(w[key]).astype(complex)
    if np.abs(T).max() == 0:
        rng = np.random.default_rng(1)
        T = rng.uniform(-1, 1, T.shape) + 1j * rng.uniform(-1, 1, T.shape)
    return T


def replay(rec):
    w = rec["witness"]
    test = w["test"]
    if test == "transforms":
        rank, lead = w["rank"], tuple(w["lead"])
        T = _data(w)
        fake = PS.PointSymmetry(np.eye(3), True)
        errs = []
        for nm, a, b, _ in tr_kinds(rank, lead):
            for t in (a, b):
                x = T.copy()
                r = t(x)
                t2 = PS.transform_from_dict(dict(tr=np.array(t.as_dict(), dtype=object)), "tr")
                e = max(np.abs(r - oracle_transform(fake, T, rank, t, PS.transform_ident)).max(), np.abs(t(r.copy()) - T).max(), np.abs(t2(T.copy()) - r).max())
                if e > 1e-12 or r is not x or not (t2 == t):
                    errs.append(nm)
        for fam in ([PS.transform_ident, PS.transform_odd], [PS.transform_odd_conj, PS.Transform(conj=True)]):
            for a in fam:
                for b in fam:
                    want = T * (a.factor * b.factor)
                    want = want.conj() if a.conj else want
                    if np.abs(PS.TransformProduct([a, b])(T.copy()) - want).max() > 1e-12:
                        errs.append("product")
        return bool(errs), f"Transform kinds failing: {sorted(set(errs))}"
    try:
        pg, gens, order = build(w["group"])
    except BuildFailed as e:
        return True, f"group {w['group']}: {e}"
    G = pg.symmetries
    n = len(G)
    if test == "axioms":
        msgs = _np_axioms(pg, order)
        return bool(msgs), f"group {w['group']}: {msgs[:6]}"
    if test == "products":
        v, k = _data(w).real, _data(w, "k").real
        B = pg.recip_lattice
        odd, idn = PS.transform_odd, PS.transform_ident
        errs = []
        names = [g for g in gens if isinstance(g, str)]
        for a in names:
            for b in names:
                A, Bo = PS.from_string_prod(a), PS.from_string_prod(b)
                e1 = np.abs(PS.from_string_prod(a + "*" + b).transform_tensor(v, 1, odd, odd) - A.transform_tensor(Bo.transform_tensor(v, 1, odd, odd), 1, odd, odd)).max()
                e2 = np.abs(PS.product([A, Bo, A]).transform_tensor(v, 1, odd, idn) - A.transform_tensor(Bo.transform_tensor(A.transform_tensor(v, 1, odd, idn), 1, odd, idn), 1, odd, idn)).max()
                if max(e1, e2) > 1e-9:
                    errs.append(f"{a}*{b}")
        kc = k @ B
        for ig, g in enumerate(G):
            e3 = np.abs(g.transform_reduced_vector(k, B) @ B - g.transform_tensor(kc, 1, odd, odd)).max()
            e4 = np.abs(g.transform_tensor(kc, 1, odd, odd) - (g.R @ kc) * g.iTR * g.iInv).max()
            if max(e3, e4) > 1e-7 * (1 + np.abs(kc).max()):
                errs.append(f"vector action of element {ig}")
        return bool(errs), f"group {w['group']}: {errs[:6]}"
    if test == "star":
        k = np.array(w["k"], dtype=float)
        st = pg.star(k)
        imgs = [g.transform_reduced_vector(k, pg.recip_lattice) for g in G]
        d = lambda a, b: np.linalg.norm((a - b) - np.round(a - b))
        tol = PS.SYMMETRY_PRECISION
        twice = [(a, b) for a in range(len(st)) for b in range(a) if d(st[a], st[b]) < tol * 0.999]
        missed = [i for i in range(n) if min(d(imgs[i], s) for s in st) > tol * max(n - 1, 1) * 1.001] if len(st) else list(range(n))
        notimg = [a for a in range(len(st)) if min(np.abs(st[a] - im).max() for im in imgs) > 1e-12]
        return bool(twice or missed or notimg), f"group {w['group']} k={k.tolist()}: star has {len(st)} points; listed twice {twice[:3]}, images missing {missed[:3]}, not images {notimg[:3]}"
    rank, lead = w["rank"], tuple(w["lead"])
    _, trTR, trInv, cplx = kind_by_name(rank, lead, w["kind"])
    T = _data(w)
    if not cplx:
        T = T.real.copy()
    scale = 1e-9 * (1 + np.abs(T).max())
    if test in ("oracle", "action"):
        T0 = T.copy()
        hT = [h.transform_tensor(T, rank, trTR, trInv) for h in G]
        e0 = max(np.abs(a - oracle_transform(h, T, rank, trTR, trInv)).max() for a, h in zip(hT, G))
        mod = np.abs(T - T0).max()
        e1, worst = 0.0, None
        for ig in ([w["g"]] if test == "action" else range(n)):
            for ih, h in enumerate(G):
                e = np.abs(G[ig].transform_tensor(hT[ih], rank, trTR, trInv) - (G[ig] * h).transform_tensor(T, rank, trTR, trInv)).max()
                if e > e1:
                    e1, worst = e, (ig, ih)
        return bool(e0 > scale or e1 > scale or mod > 0), f"group {w['group']} rank {rank} {w['kind']}: |gT - rotation formula|={e0:.2e}, |g(hT)-(gh)T|={e1:.2e} at (g,h)={worst}, input modified by {mod:.1e}"
    if test == "project":
        P = pg.symmetrize_tensor(T, transformTR=trTR, transformInv=trInv, rank=rank)
        want = sum(oracle_transform(g, T, rank, trTR, trInv) for g in G) / n
        e0 = np.abs(P - want).max()
        e1 = np.abs(pg.symmetrize_tensor(P, transformTR=trTR, transformInv=trInv, rank=rank) - P).max()
        e2 = max(np.abs(g.transform_tensor(P, rank, trTR, trInv) - P).max() for g in G)
        e3 = 0.0
        if len(lead) == 1:
            res = ER.EnergyResult([np.arange(lead[0]) * 0.5], T.copy(), transformTR=trTR, transformInv=trInv, rank=rank, save_mode="")
            e3 = np.abs(pg.symmetrize(res).data - P).max()
        return bool(max(e0, e1, e2, e3) > scale), f"group {w['group']} rank {rank} {w['kind']}: |P-average|={e0:.2e} |PP-P|={e1:.2e} |gP-P|={e2:.2e} |symmetrize-P|={e3:.2e}"
    raise ValueError(test)
