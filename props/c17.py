"""C17 — energy smoothing applies every axis smoother"""
import numpy as np
from symx.core import *
from symx.core import z3
from symx.npproxy import NpProxy, shadow
from symx.harness import Case
import symx.harness  # noqa
import wannierberri.smoother as SM
import wannierberri.result.energyresult as ER

PROPERTY = "C17"
FUNCTIONS = ["wannierberri.smoother.AbstractSmoother.__init__/__call__", "wannierberri.smoother.get_smoother",
             "FermiDiracSmoother/GaussianSmoother/VoidSmoother", "wannierberri.result.energyresult.EnergyResult.dataSmooth/set_smoother"]
BOUNDS = dict(quick=dict(NE="3..5 per axis", energy_axes="1..2", rank="0..1", kernel="concrete Fermi-Dirac/Gaussian doubles for enumerated (dE, smear) "
                         "and a fully symbolic positive kernel of half width 1..2", data="symbolic complex"),
              thorough=dict(NE="2..9 per axis", energy_axes="1..3", rank="0..2", kernel="as quick, more (dE, smear) and half width 1..3", data="symbolic complex"))
EXPLANATION = ("The real smoothers and EnergyResult.dataSmooth run on symbolic data (and, in the kernel cases, on a symbolic positive kernel); "
               "linearity, constant preservation, axis locality, commutation and 'dataSmooth = composition of all axis smoothers' are polynomial identities decided by z3.")
ASSUMPTIONS = ["evenly spaced energy grid (documented)", "kernel weights positive (symbolic-kernel cases)"]
OUTSIDE = ["rounding of the float kernel normalisation (constant preservation is claimed to 1e-12 for concrete kernels, exactly for symbolic ones)"]
STUBS = ["np.zeros in smoother.py: a buffer allocated with a real dtype keeps only the real part of what is stored in it (numpy's cast), an object/complex buffer keeps everything"]


def mk_smoother(kind, NE, dE, smear):
    E = np.arange(NE) * dE
    if kind == "void":
        return SM.get_smoother(E, None, None)
    if kind == "FD":
        return SM.get_smoother(E, smear, "Fermi-Dirac")
    if kind == "G":
        return SM.get_smoother(E, smear, "Gaussian")
    if kind.startswith("sym"):
        ne1 = int(kind[3:])
        s = SM.GaussianSmoother(E, dE * ne1 / 8 * 1.0000001, maxdE=8)
        assert s.NE1 == ne1, (s.NE1, ne1)
        s.smt = symvec(f"w{NE}_{ne1}", (2 * ne1 + 1,))
        return s
    raise ValueError(kind)


def kernel_assumptions(sm):
    if isinstance(sm, SM.VoidSmoother) or not is_sym(sm.smt):
        return []
    return [w.zreal() > 0 for w in sm.smt]


def oracle_smooth(sm, A, axis):
    """harness's own statement of 'convolution with the truncated normalised kernel along axis'"""
    if isinstance(sm, SM.VoidSmoother):
        return A
    A = np.asarray(A, dtype=object)
    out = np.empty(A.shape, dtype=object)
    NE, NE1 = sm.NE, sm.NE1
    smt = np.asarray(sm.smt, dtype=object)
    for idx in np.ndindex(*A.shape):
        i = idx[axis]
        num = SymC.of(0)
        den = SymC.of(0)
        for j in range(max(0, i - NE1), min(NE, i + NE1 + 1)):
            w = SymC.of(smt[NE1 + (j - i)])
            jdx = idx[:axis] + (j,) + idx[axis + 1:]
            num = num + w * A[jdx]
            den = den + w
        out[idx] = num / den
    return out.view(SymArray)


def wit_sm(env, kinds, NEs, dE, smear):
    return dict(kinds=kinds, NEs=NEs, dE=dE, smear=smear,
                kernels=[None if not k.startswith("sym") else [env.val(w) for w in mk_kernel_atoms(k, ne)] for k, ne in zip(kinds, NEs)])


def mk_kernel_atoms(kind, NE):
    ne1 = int(kind[3:])
    return symvec(f"w{NE}_{ne1}", (2 * ne1 + 1,))


class RealSymArray(SymArray):
    """object array standing for a buffer that the code allocated with a REAL dtype: numpy casts assigned complex values to their real part (ComplexWarning)"""

    def __setitem__(s, idx, v):
        if isinstance(v, np.ndarray) and v.dtype == object:
            v = v.real
        elif isinstance(v, SymC):
            v = v.real
        return SymArray.__setitem__(s, idx, v)


class SMnp(NpProxy):
    """np for smoother.py: typed allocations keep their meaning — a float buffer holds real parts only"""

    def zeros(s, shape, dtype=None, **k):
        if dtype in (float, np.float64, 'float', 'float64'):
            a = np.empty(shape, dtype=object)
            a[...] = SymC.of(0)
            return a.view(RealSymArray)
        if dtype is not None and np.dtype(dtype) == np.dtype(object):
            return np.zeros(shape, dtype=object).view(SymArray)
        return NpProxy.zeros(s, shape, dtype=dtype, **k)


def cmp_(rec, kinds, name, a, b, key):
    """exact identity for symbolic kernels; 1e-12 (|data|<=1) for concrete kernels, whose float normalisation .sum() is rounded by numpy"""
    if all(k.startswith("sym") or k == "void" for k in kinds):
        return rec.eq(name, a, b, key=key)
    return rec.close(name + " (1e-12, |data|<=1)", a, b, 1e-12, bound=1.0, key=key)


def case_single(rec, kind, NE, dE, smear, trailing, axis_pos):
    """one smoother applied along one axis of an array with other (non-energy) axes before/after"""
    sm = mk_smoother(kind, NE, dE, smear)
    shadow([SM], proxy=SMnp())
    shape = list(trailing)
    shape.insert(axis_pos, NE)
    A = symvec("A", tuple(shape), real=False)
    B = symvec("B", tuple(shape), real=False)
    lam = SymC.var("lam")
    c = SymC.var("cre") + SymC.of(1j) * SymC.var("cim")
    ass = kernel_assumptions(sm)

    def body(rec):
        rec.witness = lambda env: dict(test="single", axis=axis_pos, A=env.arr(A), B=env.arr(B), lam=env.val(lam), c=env.val(c),
                                       **wit_sm(env, [kind], [NE], dE, smear))
        SA = sm(A, axis=axis_pos)
        SB = sm(B, axis=axis_pos)
        cmp_(rec, [kind], "smoother == truncated normalised convolution along the axis only", SA, oracle_smooth(sm, A, axis_pos),
             key="AbstractSmoother.__call__ differs from convolution along axis")
        rec.eq("linear: S(lam*A+B) == lam*S(A)+S(B)", sm(A * lam + B, axis=axis_pos), SA * lam + SB, key="smoother not linear")
        const = sarr(np.full(tuple(shape), None, dtype=object))
        const[...] = c
        if kind.startswith("sym") or kind == "void":
            rec.eq("constant preserved", sm(const, axis=axis_pos), const, key="smoother does not preserve constants")
        else:
            rec.close("constant preserved (1e-12)", sm(const, axis=axis_pos), const, 1e-12, bound=1.0, key="smoother does not preserve constants")
        rec.concrete("shape preserved", np.shape(SA) == tuple(shape), key="smoother changes shape")
    rec.explore(body, ass)


def case_result(rec, kinds, NEs, dE, smear, rank):
    """EnergyResult.dataSmooth with len(kinds) energy axes"""
    from wannierberri.symmetry.point_symmetry import transform_ident
    sms = [mk_smoother(k, ne, dE, smear) for k, ne in zip(kinds, NEs)]
    shadow([SM], proxy=SMnp())
    shape = tuple(NEs) + (3,) * rank
    data = symvec("D", shape, real=False)
    ass = sum((kernel_assumptions(s) for s in sms), [])

    def body(rec):
        rec.witness = lambda env: dict(test="result", data=env.arr(data), rank=rank, **wit_sm(env, kinds, NEs, dE, smear))
        res = ER.EnergyResult([np.arange(ne) * dE for ne in NEs], data.copy(), smoothers=sms, transformTR=transform_ident, transformInv=transform_ident,
                              rank=rank, save_mode="")
        got = res.dataSmooth
        want = data
        for i, s in enumerate(sms):
            want = oracle_smooth(s, want, i)
        cmp_(rec, kinds, "dataSmooth == every axis smoother applied in turn", got, want, key=f"dataSmooth with {len(kinds)} energy axes misses an axis smoother")
        if len(kinds) == 2:
            a = sms[0](sms[1](data, axis=1), axis=0)
            b = sms[1](sms[0](data, axis=0), axis=1)
            rec.eq("order of axis smoothers does not matter", a, b, key="axis smoothers do not commute")
        res0 = ER.EnergyResult([np.arange(ne) * dE for ne in NEs], data.copy(), smoothers=None, transformTR=transform_ident, transformInv=transform_ident,
                               rank=rank, save_mode="")
        rec.eq("no smoothers: unchanged", res0.dataSmooth, data, key="dataSmooth without smoothers changes data")
    rec.explore(body, ass)


def cases(tier, seed):
    out = []
    q = tier == "quick"
    params = [(0.1, 0.15)] if q else [(0.1, 0.15), (0.05, 0.2), (1.0, 0.3), (0.3, 0.05)]
    kinds1 = ["G", "sym1", "sym2", "void", "FD"]
    for dE, smear in params:
        for kind in kinds1:
            sm_par = smear * (11604.5 if kind == "FD" else 1)
            for NE in ((3, 5) if q else (2, 3, 4, 5, 7, 9)):
                if kind.startswith("sym") and int(kind[3:]) >= NE:
                    continue
                for trailing, pos in (((), 0), ((2,), 0), ((2,), 1), ((2, 3), 1), ((2, 3), 2), ((3, 2, 2), 2), ((2, 3, 2), 3)):
                    if q and len(trailing) >= 2 and NE > 3:
                        continue
                    if len(trailing) == 3 and kind not in ("G", "sym1"):
                        continue
                    out.append(Case(f"single {kind} NE={NE} dE={dE} smear={smear} trailing={trailing} axis={pos}", case_single,
                                    dict(kind=kind, NE=NE, dE=dE, smear=sm_par, trailing=trailing, axis_pos=pos)))
        for kinds in (["G"], ["sym1"], ["G", "G"], ["sym1", "sym1"], ["G", "void"], ["void", "sym1"], ["FD", "G"]) + (() if q else (["G", "G", "G"], ["sym1", "void", "sym1"], ["void", "void"], ["sym2", "sym1"])):
            for rank in ((0, 1) if q else (0, 1, 2)):
                NEs = [3, 4, 3][:len(kinds)] if q else [4, 5, 3][:len(kinds)]
                if q and len(kinds) > 2 and rank > 0:
                    continue
                if rank == 2 and len(kinds) > 2:
                    continue
                out.append(Case(f"result {kinds} NEs={NEs} rank={rank} dE={dE}", case_result,
                                dict(kinds=kinds, NEs=NEs, dE=dE, smear=smear if "FD" not in kinds else smear, rank=rank), timeout=900))
    return out


# ------------------------------------------------------------------------------------------------------------
def _real_smoother(kind, NE, dE, smear, kernel):
    E = np.arange(NE) * dE
    if kind == "void":
        return SM.VoidSmoother()
    if kind == "FD":
        return SM.get_smoother(E, smear, "Fermi-Dirac")
    if kind == "G":
        return SM.get_smoother(E, smear, "Gaussian")
    ne1 = int(kind[3:])
    s = SM.GaussianSmoother(E, dE * ne1 / 8 * 1.0000001, maxdE=8)
    s.smt = np.array(kernel, dtype=float)
    return s


def _np_oracle(sm, A, axis):
    if isinstance(sm, SM.VoidSmoother):
        return A
    out = np.zeros_like(A)
    for idx in np.ndindex(*A.shape):
        i = idx[axis]
        js = range(max(0, i - sm.NE1), min(sm.NE, i + sm.NE1 + 1))
        w = np.array([sm.smt[sm.NE1 + j - i] for j in js])
        out[idx] = sum(wj * A[idx[:axis] + (j,) + idx[axis + 1:]] for wj, j in zip(w, js)) / w.sum()
    return out


def replay(rec):
    from wannierberri.symmetry.point_symmetry import transform_ident
    from symx.harness import unarr
    w = rec["witness"]
    sms = [_real_smoother(k, ne, w["dE"], w["smear"], ker) for k, ne, ker in zip(w["kinds"], w["NEs"], w["kernels"])]
    if w["test"] == "result":
        data = unarr(w["data"]).astype(complex)
        if np.abs(data).max() == 0:
            data = data + np.arange(data.size).reshape(data.shape)
        res = ER.EnergyResult([np.arange(ne) * w["dE"] for ne in w["NEs"]], data.copy(), smoothers=sms, transformTR=transform_ident,
                              transformInv=transform_ident, rank=w["rank"], save_mode="")
        got = res.dataSmooth
        want = data
        for i, s in enumerate(sms):
            want = _np_oracle(s, want, i)
        err = np.abs(got - want).max()
        res0 = ER.EnergyResult([np.arange(ne) * w["dE"] for ne in w["NEs"]], data.copy(), smoothers=None, transformTR=transform_ident,
                               transformInv=transform_ident, rank=w["rank"], save_mode="")
        err0 = np.abs(res0.dataSmooth - data).max()
        comm = 0.0
        if len(sms) == 2:
            comm = np.abs(sms[0](sms[1](data, axis=1), axis=0) - sms[1](sms[0](data, axis=0), axis=1)).max()
        tol = 1e-9 * (1 + np.abs(data).max())
        return bool(err > tol or err0 > tol or comm > tol), f"kinds={w['kinds']} NEs={w['NEs']} |dataSmooth - all axis smoothers|max={err:.3e} void={err0:.1e} commutator={comm:.1e}"
    if w["test"] == "single":
        sm = sms[0]
        ax = w["axis"]
        A, B = unarr(w["A"]).astype(complex), unarr(w["B"]).astype(complex)
        if np.abs(A).max() == 0:
            A = A + np.arange(A.size).reshape(A.shape) + 1
        lam = w["lam"] or 2.0
        c = complex(*w["c"]) if isinstance(w["c"], list) else w["c"]
        c = c or 1.5
        tol = 1e-9 * (1 + np.abs(A).max() + np.abs(B).max())
        e1 = np.abs(sm(A, axis=ax) - _np_oracle(sm, A, ax)).max() if np.shape(sm(A, axis=ax)) == A.shape else np.inf
        e2 = np.abs(sm(A * lam + B, axis=ax) - (lam * sm(A, axis=ax) + sm(B, axis=ax))).max()
        e3 = np.abs(sm(np.full(A.shape, c, dtype=complex), axis=ax) - c).max()
        return bool(e1 > tol or e2 > tol or e3 > 1e-10 * (1 + abs(c))), f"kind={w['kinds']} axis={ax}: conv err={e1:.2e} linearity err={e2:.2e} constant err={e3:.2e}"
    raise ValueError(w["test"])
