"""C23 — Monkhorst-Pack mesh detection recovers the mesh"""
import random, itertools, math
from fractions import Fraction
import numpy as np
from symx.core import *
from symx.core import z3
import symx.core as _core
from symx.npproxy import NpProxy, LinalgProxy, shadow
from symx.lifted import Lifted, sym_permutation, sym_choice
from symx.harness import Case
import symx.harness  # noqa (puts the repo on sys.path)
import wannierberri.w90files.utility as U

PROPERTY = "C23"
FUNCTIONS = ["wannierberri.w90files.utility.get_mp_grid", "wannierberri.w90files.utility.grid_from_kpoints",
             "wannierberri.w90files.utility.is_round"]
DELTA = 4e-9
BOUNDS = dict(
    quick=dict(mesh="all N1xN2xN3 with N_i<=6 and <=24 points (edit lists); <=4 points (arbitrary selections); <=5 points (all orderings)",
               list="(a) every ordering of the complete mesh (symbolic permutation); (b) every list of nk-1..nk+1 entries drawn with repetition "
                    "from the mesh (symbolic selection: covers orderings, removals, duplications at once); (c) a seeded base ordering with one symbolic "
                    "edit: swap of two positions, removal of one position, duplication of one entry at any position, replacement of one entry by any mesh point; "
                    "(d) incomplete lists of whole planes: every non-empty symbolic subset of the planes of a 6-mesh (3 axis placements, 6x2x1), and for N=10, 12 the union of two "
                    "symbolic sub-meshes d1,d2|N minus one symbolic plane (2u5, 3u4, mesh without its finest planes, mixed denominators)",
               perturbation=f"every coordinate = double(m/N) + delta, delta symbolic in [-{DELTA},{DELTA}] (N<=50; 1e-10 for N>50)"),
    thorough=dict(mesh="as quick plus: all N_i<=6 meshes up to 36 points; N x1x1 / 1xNx1 / 1x1xN for N = 7..12 (prime and composite) with every single symbolic edit; 14 two- and three-dimensional meshes "
                       "with N_i up to 12 (7x2x1, 1x11x2, 9x2x2, 12x2x1, 5x7x1, 2x3x7, ...) with symbolic removal / swap / replacement; N in 16,25,50,97,100 (seeded order, one symbolic removal for N<=25 and N=100); "
                       "<=5 points (selections); <=6 points (all orderings)",
                  list="as quick plus: two symbolic edits at once (remove one entry then duplicate another at any position; swap two positions then remove one) on meshes up to 8 points; "
                       "coordinates outside [0,1): the centred convention [-1/2,1/2) (fixed order, one symbolic removal, one symbolic replacement) and one symbolic entry moved by a symbolic lattice vector in {-1,0,1}^3; "
                       "whole planes along two axes at once (product of two symbolic subsets of planes: 3x4x1, 6x2x1, 1x6x3, 4x1x6, 5x5x1, 6x4x1, 2x6x2)", perturbation="as quick (every coordinate of every point simultaneously)"))
EXPLANATION = ("The real get_mp_grid / grid_from_kpoints / is_round run on a list of k-points whose composition and order are finite-choice symbolic values "
               "(z3 integers: permutation, selection with repetition, one symbolic edit of a base ordering, or a symbolic subset of mesh planes) and whose coordinates carry a symbolic "
               "perturbation |delta|<=4e-9; rounding (np.round) and Fraction.limit_denominator are evaluated per alternative with z3 guards on delta. "
               "On each feasible path the result is compared with the specification: complete mesh => N / every point exactly once; incomplete => ValueError; "
               "duplicates counted once.")
ASSUMPTIONS = ["k-point coordinates lie within 4e-9 of the exact mesh values m/N (the perturbation np.round(.,8) and prec=1e-5 are meant to absorb); within 1e-10 for N>50, because "
               "get_mp_grid tolerates only N*(|error|+5e-9) < 5e-7 (observation: for N=97 an error of 3.4e-9, e.g. truncated instead of rounded 8-digit coordinates, raises AssertionError on a complete mesh)",
               "grid_from_kpoints(grid=None): the expected grid is the lcm of the coordinate denominators of the points present (docstring: 'it is assumed "
               "that all kpoints are on the grid'), so a subset that is itself a complete coarser mesh is accepted with the coarser grid",
               "get_mp_grid on an incomplete list: only 'normal return => every point lies on the returned grid, which divides N' is demanded (the completeness "
               "assertion is commented out in the code and the property does not require rejection there)"]
OUTSIDE = ["truncation (astype(int)) of values within 1e-12 of an integer (real-number and IEEE evaluation of k*N may land on different sides)", "all nk! orderings for meshes above the stated point counts (covered there by one symbolic edit of seeded base orderings only)",
           "IEEE rounding inside x*1e8 / rint / limit_denominator (real-number semantics; doubles taken exactly)",
           "denominators above 100 (not supported by the code)", "lists that contain the same point twice written in different unit cells (k and k+1): the property speaks of coordinates reduced to [0,1); shifted coordinates are covered only for lists without such pairs"]
STUBS = ["np.round on symbolic c+delta: finite set of candidate roundings with exact z3 guards (round-half-even), kept as a Lifted value (get_mp_grid) or forked (grid_from_kpoints)",
         "Fraction(x).limit_denominator(M) on symbolic x: the real limit_denominator is run on the interval midpoint, and the answer F is accepted only "
         "after the solver/interval check that x lies strictly between the midpoints to F's Farey neighbours of order M (contract: closest fraction); "
         "validated against the real Fraction on random doubles in the case 'stub validation'",
         "np.allclose on Lifted alternatives: evaluated per alternative", "warnings.warn: no-op",
         "ndarray.astype(int) on a bounded symbolic value: truncation towards zero, decided by forking over the integer candidates (harness-local array class KArr)"]


# ------------------------------------------------------------------------------------------------------------
# symbolic helpers
def interval(x):
    """exact interval (Fractions) of a polynomial SymC from the atom bounds"""
    x = SymC.of(x)
    if not x.d.is_one():
        raise Inconclusive('interval of a rational function')
    lo = hi = Fr(0)
    for m, c in x.n.t.items():
        a, b = c[0], c[0]
        for v, e in m:
            if v not in _core.BOUNDS:
                raise Inconclusive(f'no bounds for atom {v}')
            bl, bh = _core.BOUNDS[v]
            bl, bh = Fr(bl), Fr(bh)
            for _ in range(e):
                prods = [a * bl, a * bh, b * bl, b * bh]
                a, b = min(prods), max(prods)
        lo += a
        hi += b
    return lo, hi


def _rint_fr(q):
    """round half to even of a Fraction"""
    return round(q)


def collapse(v):
    return v.alts[0][1] if isinstance(v, Lifted) and len(v.alts) == 1 else v


class Np23(NpProxy):
    """np.round with a finite candidate set; allclose over alternatives"""

    def __init__(s, lifted):
        super().__init__(linalg=Linalg23(np.linalg))
        s.lifted = lifted

    def _rnd(s, x, dec):
        if isinstance(x, Lifted):
            return collapse(Lifted.lift(lambda v: s._rnd(v, dec), x))
        if isinstance(x, SymC):
            if x.isconst():
                return float(np.round(float(x), dec))
            y = x * 10 ** dec
            lo, hi = interval(y)
            nlo, nhi = _rint_fr(lo), _rint_fr(hi)
            if nlo == nhi:
                return float(nlo) / 10 ** dec if dec else float(nlo)
            yz = y.zreal()
            alts = []
            for n in range(nlo, nhi + 1):
                g = []
                if n > nlo:
                    b = z3.Q(2 * n - 1, 2)
                    g.append(yz >= b if n % 2 == 0 else yz > b)
                if n < nhi:
                    b = z3.Q(2 * n + 1, 2)
                    g.append(yz <= b if n % 2 == 0 else yz < b)
                alts.append((z3.And(*g), float(n) / 10 ** dec if dec else float(n)))
            r = Lifted(alts)
            return r if s.lifted else r.concretize()
        return float(np.round(x, dec))

    def round(s, x, decimals=0, **k):
        if isinstance(x, np.ndarray) and x.dtype == object:
            out = np.empty(x.shape, dtype=object)
            for i in np.ndindex(*x.shape):
                out[i] = s._rnd(x[i], decimals)
            return out.view(SymArray)
        if isinstance(x, (SymC, Lifted)):
            return s._rnd(x, decimals)
        return np.round(x, decimals, **k)

    def allclose(s, a, b, rtol=1e-5, atol=1e-8, **k):
        if isinstance(a, np.ndarray) and a.dtype == object and not is_sym(b):
            for v in a.flat:
                if not bool(Lifted.lift(lambda u: bool(abs(u - b) <= atol + rtol * abs(b)), v)):
                    return False
            return True
        return super().allclose(a, b, rtol=rtol, atol=atol, **k)


class Norm2:
    """value of np.linalg.norm(v) kept as its square; comparisons with a non-negative constant compare the squares (no sqrt atom)"""

    def __init__(s, sq):
        s.sq = sq

    def _c(s, o, op):
        o = float(o)
        if o < 0:
            return op(1.0, 0.0)
        t = Fr(o) ** 2
        lo, hi = interval(s.sq)                  # interval pre-filter (the four comparisons are monotone in sq): keeps the quadratic literal away from the solver
        a, b = op(lo, t), op(hi, t)              # when the bounds on delta already decide it
        if a == b:
            return bool(a)
        return op(s.sq, SymC.of(t))

    def __lt__(s, o):
        return s._c(o, lambda a, b: a < b)

    def __le__(s, o):
        return s._c(o, lambda a, b: a <= b)

    def __gt__(s, o):
        return s._c(o, lambda a, b: a > b)

    def __ge__(s, o):
        return s._c(o, lambda a, b: a >= b)


class Linalg23(LinalgProxy):
    def norm(s, x, ord=None, axis=None, **kw):
        if is_sym(x) and ord is None and axis is None:
            x = np.asarray(x, dtype=object)
            return Norm2(SymC.of((x * x).sum()))
        return super().norm(x, ord=ord, axis=axis, **kw)


def farey_neighbours(F, M):
    """largest fraction < F and smallest fraction > F with denominator <= M"""
    a, b = F.numerator, F.denominator
    prev = max(Fraction(-((-a * q) // b) - 1, q) for q in range(1, M + 1))
    nxt = min(Fraction((a * q) // b + 1, q) for q in range(1, M + 1))
    return prev, nxt


class FracStub:
    """Fraction(k) for k concrete / Lifted / symbolic; only limit_denominator is offered for non-concrete k"""

    def __new__(cls, k=0, *a):
        if a or not isinstance(k, (SymC, Lifted)):
            return Fraction(k, *a)
        if isinstance(k, SymC) and k.isconst():
            return Fraction(float(k))
        o = object.__new__(cls)
        o.k = k
        return o

    def limit_denominator(s, M=1000000):
        k = s.k
        if isinstance(k, Lifted):
            return collapse(Lifted.lift(lambda v: Fraction(v).limit_denominator(M), k))
        lo, hi = interval(k)
        F = Fraction((lo + hi) / 2).limit_denominator(M)
        for _ in range(4):
            prev, nxt = farey_neighbours(F, M)
            tlo, thi = (prev + F) / 2, (F + nxt) / 2
            above = True if lo > tlo else bool(k > SymC.of(tlo))
            if not above:
                if bool(k == SymC.of(tlo)):
                    raise Inconclusive("limit_denominator at an exact tie point")
                F = prev
                continue
            below = True if hi < thi else bool(k < SymC.of(thi))
            if not below:
                if bool(k == SymC.of(thi)):
                    raise Inconclusive("limit_denominator at an exact tie point")
                F = nxt
                continue
            return F
        raise Inconclusive("limit_denominator: value too far from the interval midpoint")


class NoWarn:
    @staticmethod
    def warn(*a, **k):
        pass


# ------------------------------------------------------------------------------------------------------------
# list models
def mesh_points(mesh):
    return [p for p in itertools.product(*[range(n) for n in mesh])]


def base_order(mesh, seed, which):
    nk = int(np.prod(mesh))
    idx = list(range(nk))
    if which == "reversed":
        return idx[::-1]
    if which == "shuffled":
        random.Random(f"{mesh}{seed}").shuffle(idx)
    return idx


def divisors(N):
    return [d for d in range(1, N + 1) if N % d == 0]


def build_list(model, mesh, seed, L=None, base="shuffled", first=None):
    """returns (make, assumptions): make() -> concrete index list on the current path (forks)"""
    nk = int(np.prod(mesh))
    if model == "perm":
        lst, ass, p = sym_permutation("p", list(range(nk)))
        if first is not None:
            ass = ass + [p[0] == first]
        return (lambda: [int(x.concretize()) for x in lst]), ass
    if model == "select":
        ch = [sym_choice(f"s{j}", list(range(nk))) for j in range(L)]
        return (lambda: [int(c[0].concretize()) for c in ch]), sum((c[1] for c in ch), []) + ([ch[0][2] == first] if first is not None else [])
    b = base_order(mesh, seed, base)
    n = len(b)
    if model in ("planes", "union", "planes2"):
        # incomplete lists made of whole planes along the finest axis (seeded order inside): "planes" keeps an arbitrary symbolic non-empty subset of the planes;
        # "union" keeps the planes of two sub-meshes d1, d2 | N (symbolic pair of divisors: union of two coarser meshes, or a mesh without its finest planes) minus one symbolic plane
        ax = int(np.argmax(mesh))
        N = mesh[ax]
        pts = mesh_points(mesh)
        if model == "planes2":                # whole planes along the two finest axes at once: the list is the product of two symbolic non-empty subsets of planes
            a1, a2 = [int(x) for x in np.argsort(mesh, kind="stable")[::-1][:2]]
            k1 = [sym_choice(f"keepA{j}", [0, 1]) for j in range(mesh[a1])]
            k2 = [sym_choice(f"keepB{j}", [0, 1]) for j in range(mesh[a2])]
            ass = sum((k[1] for k in k1 + k2), []) + [z3.Or(*[k[2] == 1 for k in k1]), z3.Or(*[k[2] == 1 for k in k2])]
            def make():
                s1 = {j for j in range(mesh[a1]) if int(k1[j][0].concretize())}
                s2 = {j for j in range(mesh[a2]) if int(k2[j][0].concretize())}
                return [p for p in b if pts[p][a1] in s1 and pts[p][a2] in s2]
            return make, ass
        if model == "planes":
            keep = [sym_choice(f"keep{j}", [0, 1]) for j in range(N)]
            ass = sum((k[1] for k in keep), []) + [z3.Or(*[k[2] == 1 for k in keep])]
            def make():
                kept = {j for j in range(N) if int(keep[j][0].concretize())}
                return [p for p in b if pts[p][ax] in kept]
            return make, ass
        divs = divisors(N)
        d1, a1, p1 = sym_choice("d1", divs)
        d2, a2, p2 = sym_choice("d2", divs)
        e, ae, pe = sym_choice("dropped", list(range(N + 1)))          # N = no extra plane removed
        def make():
            x, y, z = int(d1.concretize()), int(d2.concretize()), int(e.concretize())
            kept = {j for j in range(N) if j % (N // x) == 0 or j % (N // y) == 0} - {z}
            return [p for p in b if pts[p][ax] in kept]
        return make, a1 + a2 + ae + [p1 < p2]
    if model == "fixed":
        return (lambda: list(b)), []
    i, ai, pi = sym_choice("ei", list(range(n)))
    if model == "drop":
        def make():
            ii = int(i.concretize())
            return b[:ii] + b[ii + 1:]
        return make, ai
    if model == "swap":
        j, aj, pj = sym_choice("ej", list(range(n)))
        def make():
            ii, jj = int(i.concretize()), int(j.concretize())
            c = list(b)
            c[ii], c[jj] = c[jj], c[ii]
            return c
        return make, ai + aj + [pi < pj]
    if model == "dup":
        j, aj, pj = sym_choice("ej", list(range(n + 1)))
        def make():
            ii, jj = int(i.concretize()), int(j.concretize())
            c = list(b)
            c.insert(jj, b[ii])
            return c
        return make, ai + aj
    if model == "repl":
        m, am, pm = sym_choice("em", list(range(nk)))
        def make():
            ii, mm = int(i.concretize()), int(m.concretize())
            c = list(b)
            c[ii] = mm
            return c
        return make, ai + am
    if model == "drop_dup":                   # two edits: one symbolic entry removed, then one symbolic remaining entry duplicated at a symbolic position
        j, aj, pj = sym_choice("ej", list(range(n - 1)))
        k2, ak, pk = sym_choice("ek", list(range(n)))
        def make():
            ii, jj, kk = int(i.concretize()), int(j.concretize()), int(k2.concretize())
            c = b[:ii] + b[ii + 1:]
            c.insert(kk, c[jj])
            return c
        return make, ai + aj + ak
    if model == "swap_drop":                  # two edits: two symbolic positions exchanged, then one symbolic position removed
        j, aj, pj = sym_choice("ej", list(range(n)))
        k2, ak, pk = sym_choice("ek", list(range(n)))
        def make():
            ii, jj, kk = int(i.concretize()), int(j.concretize()), int(k2.concretize())
            c = list(b)
            c[ii], c[jj] = c[jj], c[ii]
            return c[:kk] + c[kk + 1:]
        return make, ai + aj + ak + [pi < pj]
    if model == "shift":                      # complete list; one symbolic entry written in another unit cell (symbolic integer shift in {-1,0,1}^3)
        sh = [sym_choice(f"sh{a}", [-1, 0, 1]) for a in range(3)]
        def make():
            ii = int(i.concretize())
            v = [int(x[0].concretize()) for x in sh]
            return list(b), {ii: v}
        return make, ai + sum((x[1] for x in sh), [])
    raise ValueError(model)


def trunc_fork(x):
    """int(x) (truncation towards zero, what ndarray.astype(int) does) of a bounded symbolic value: fork over the integer candidates"""
    if isinstance(x, Lifted):
        x = x.concretize()
    if not isinstance(x, SymC):
        return int(x)
    if x.isconst():
        return int(float(x))
    lo, hi = interval(x)
    nlo, nhi = math.trunc(lo), math.trunc(hi)
    if nlo == nhi:
        return nlo
    xz = x.zreal()
    alts = []
    eps = z3.Q(1, 10 ** 12)
    for n in range(nlo, nhi + 1):           # truncation = n, at least 1e-12 away from the integers where it jumps
        g = z3.And(xz > n - 1 + eps, xz < n + 1 - eps) if n == 0 else (z3.And(xz >= n + eps, xz < n + 1 - eps) if n > 0 else z3.And(xz > n - 1 + eps, xz <= n - eps))
        alts.append((g, n))
    alts.append((z3.Not(z3.Or(*[g for g, _ in alts])), None))
    r = Lifted(alts).concretize()
    if r is None:
        raise Assume("value within 1e-12 of an integer where truncation jumps: real-number and IEEE semantics may differ")
    return r


class KArr(SymArray):
    """k-point array: astype(int) on symbolic entries is decided by forking (truncation, as numpy does)"""

    def astype(s, dtype, *a, **k):
        if s.dtype == object and dtype in (int, np.int64, 'int'):
            return np.array([trunc_fork(x) for x in s.flat], dtype=int).reshape(s.shape)
        return super().astype(dtype, *a, **k)


def sym_kpoints(idx, mesh, dl, shifts=None):
    pts = mesh_points(mesh)
    k = np.empty((len(idx), 3), dtype=object)
    for j, p in enumerate(idx):
        for a in range(3):
            k[j, a] = SymC.of(pts[p][a] / mesh[a] + (shifts[j][a] if shifts and j in shifts else 0)) + dl[j, a]
    return k.view(KArr)


# ------------------------------------------------------------------------------------------------------------
# specification (exact rationals; shared with replay)
def spec(fn, mesh, idx, grid):
    """-> ('return', value-predicate description, expected) | ('raise', exception name)"""
    pts = mesh_points(mesh)
    present = [pts[p] for p in idx]
    nk = int(np.prod(mesh))
    complete = len(set(present)) == nk
    if fn == "get_mp_grid":
        return dict(complete=complete)
    if grid is None:
        g = tuple(int(np.lcm.reduce([Fraction(p[a], mesh[a]).denominator for p in present])) for a in range(3))
    else:
        g = tuple(grid)
    on = [tuple(Fraction(p[a] * g[a], mesh[a]) for a in range(3)) for p in present]
    on_int = [tuple(int(x) for x in t) if all(x.denominator == 1 for x in t) else None for t in on]
    distinct = set(t for t in on_int if t is not None)
    return dict(grid=g, on_int=on_int, ok=len(distinct) == int(np.prod(g)))


def judge(fn, mesh, idx, grid, outcome):
    """outcome = ('return', value) | ('raise', type name); -> (ok, text)"""
    sp = spec(fn, mesh, idx, grid)
    kind, val = outcome
    pts = mesh_points(mesh)
    if fn == "get_mp_grid":
        if kind == "raise":
            if val != "AssertionError":
                return False, f"raises {val}"
            return (not sp["complete"]), f"AssertionError on a {'complete' if sp['complete'] else 'incomplete'} mesh"
        g = tuple(int(x) for x in val)
        if sp["complete"]:
            return g == tuple(mesh), f"returned {g} for the complete mesh {tuple(mesh)}"
        on = all(Fraction(pts[p][a] * g[a], mesh[a]).denominator == 1 for p in idx for a in range(3))
        div = all(mesh[a] % g[a] == 0 for a in range(3))
        return on and div, f"returned {g}; all points on it: {on}; divides {tuple(mesh)}: {div}"
    if kind == "raise":
        if val != "ValueError":
            return False, f"raises {val}"
        return (not sp["ok"]), f"ValueError although the points form the complete mesh {sp['grid']}" if sp["ok"] else "ValueError (incomplete)"
    if not sp["ok"]:
        return False, f"returned {val} although the mesh {sp['grid']} is incomplete"
    if grid is None:
        g = tuple(int(x) for x in val)
        return g == sp["grid"], f"returned grid {g}, expected {sp['grid']}"
    sel = [int(i) for i in val]
    got = [sp["on_int"][i] if 0 <= i < len(idx) else None for i in sel]
    once = None not in got and len(set(got)) == len(got) == int(np.prod(sp["grid"])) and sel == sorted(sel)
    return once, f"selected indices {sel} -> grid points {got}"


# ------------------------------------------------------------------------------------------------------------
def delta_for(mesh):
    """perturbation bound: 4e-9 up to N=50; for larger N get_mp_grid itself only tolerates N*(|delta|+5e-9) < 5e-7 (np.round(k*N, 6)), so 1e-10 there"""
    return DELTA if max(mesh) <= 50 else 1e-10


def case_mesh(rec, fn, mesh, model, seed, L=None, base="shuffled", first=None, grid="mesh", conv="unit"):
    rec.case = f"{fn}[grid={grid}] mesh={mesh} {model} L={L} first={first}" + ("" if conv == "unit" else f" coordinates {conv}")
    proxy = Np23(lifted=(fn == "get_mp_grid"))
    shadow([U], proxy, Fraction=FracStub, warnings=NoWarn)
    make, ass = build_list(model, mesh, seed, L=L, base=base, first=first)
    nk = int(np.prod(mesh))
    Lmax = {"perm": nk, "select": L, "fixed": nk, "drop": nk - 1, "swap": nk, "dup": nk + 1, "repl": nk, "planes": nk, "union": nk, "planes2": nk, "drop_dup": nk, "swap_drop": nk - 1, "shift": nk}[model]
    dmax = delta_for(mesh)
    dl = symvec("d", (Lmax, 3), lo=-dmax, hi=dmax)
    ass = list(ass) + [z for d in dl.flat for z in (d.zreal() >= -dmax, d.zreal() <= dmax)]
    g = None if grid is None else (tuple(mesh) if grid == "mesh" else tuple(grid))

    nv0 = len(rec.violations)

    def body(rec):
        if len(rec.violations) - nv0 >= 3:
            # this job already produced counterexamples (exit code is 1 whatever follows): do not enumerate the remaining, possibly exponentially many, paths
            rec.note("a job with >=3 counterexamples is not explored further")
            raise Assume("job already has counterexamples")
        idx = make()
        idx, shifts = idx if isinstance(idx, tuple) else (idx, None)
        if conv == "centred":                  # the same points written in [-1/2, 1/2)
            P = mesh_points(mesh)
            shifts = {j: [-1 if 2 * P[p][a] >= mesh[a] else 0 for a in range(3)] for j, p in enumerate(idx)}
        k = sym_kpoints(idx, mesh, dl, shifts)
        rec.witness = lambda env, idx=idx, k=k: dict(fn=fn, mesh=list(mesh), idx=idx, grid=g, kpoints=env.val(k))
        try:
            if fn == "get_mp_grid":
                out = U.get_mp_grid(k)
                out = tuple(int(x.concretize()) if isinstance(x, Lifted) else int(x) for x in out)
            elif g is None:
                out = U.grid_from_kpoints(k)
            else:
                out = U.grid_from_kpoints(k, grid=g)
            outcome = ("return", [int(x) for x in out])
        except (AssertionError, ValueError, RuntimeError) as e:
            outcome = ("raise", type(e).__name__)
        ok, txt = judge(fn, mesh, idx, g, outcome)
        what = {"get_mp_grid": "get_mp_grid: complete mesh => N; otherwise returned grid contains all points",
                "grid_from_kpoints": "grid_from_kpoints: complete => grid / each point once; incomplete => ValueError"}[fn]
        rec.concrete(what, ok, detail=txt, key=f"{fn}(grid={'None' if g is None else 'given'}) {outcome[0]} disagrees with the specification")
    # path budget: the list model alone determines the number of paths on the code as it is (measured ratio 1.0; up to 12 for the sub-grid cases, which fork on round(0.5+-)); a changed code that forks on
    # every coordinate must end as 'budget exhausted' (inconclusive, never success) instead of running for hours
    expected = _weight(dict(mesh=mesh, model=model, L=L, first=first)) // (10 + nk)
    if conv == "centred" and fn == "grid_from_kpoints":
        expected *= 2                            # (no extra forks expected; margin for round(-0.5-) ties of sub-grid style cases)
    rec.explore(body, ass, maxpaths=(40 * expected + 60) if isinstance(grid, tuple) else (3 * expected) // 2 + 20)


def case_stub_validation(rec, seed):
    """the limit_denominator contract used by FracStub, checked against the real Fraction on concrete doubles"""
    rng = random.Random(seed)
    bad = []
    for _ in range(3000):
        M = rng.choice([7, 10, 100])
        x = rng.choice([rng.random(), rng.randrange(0, M) / rng.randrange(1, M + 1) + rng.uniform(-1e-8, 1e-8)])
        F = Fraction(x).limit_denominator(M)
        prev, nxt = farey_neighbours(F, M)
        if not ((prev + F) / 2 <= Fraction(x) <= (F + nxt) / 2) or prev >= F or nxt <= F:
            bad.append((x, M))
    def body(rec):
        rec.concrete("stub: limit_denominator(x) == F  <=>  x between the midpoints to F's Farey neighbours", not bad, detail=str(bad[:3]),
                     key="FracStub contract differs from fractions.Fraction")
    rec.explore(body, [], reach=False)


def all_meshes(maxpts, maxn=6):
    out = []
    for m in itertools.product(range(1, maxn + 1), repeat=3):
        if 2 <= m[0] * m[1] * m[2] <= maxpts:
            out.append(m)
    return out


def case_group(rec, jobs, seed):
    for j in jobs:
        case_mesh(rec, seed=seed, **j)


def _weight(j):
    nk = int(np.prod(j["mesh"]))
    mo = j["model"]
    p = {"perm": math.factorial(nk) // (nk if j.get("first") is not None else 1), "select": nk ** (j.get("L") or 0) // (nk if j.get("first") is not None else 1), "drop": nk,
         "dup": nk * (nk + 1), "repl": nk * nk, "swap": nk * (nk - 1) // 2, "fixed": 1,
         "planes2": 2 ** sum(sorted(j["mesh"])[1:]), "drop_dup": nk * (nk - 1) * nk, "swap_drop": nk * nk * (nk - 1) // 2, "shift": 27 * nk,
         "planes": 2 ** max(j["mesh"]) - 1, "union": len(divisors(max(j["mesh"]))) * (len(divisors(max(j["mesh"]))) - 1) // 2 * (max(j["mesh"]) + 1)}[mo]
    return p * (10 + nk)


def jobs_for(tier):
    q = tier == "quick"
    out = []
    fns = [("get_mp_grid", "mesh"), ("grid_from_kpoints", "mesh"), ("grid_from_kpoints", None)]
    rep = lambda m: sorted(m, reverse=True) == list(m)      # one representative per multiset of sizes
    def add(fn, grid, mesh, model, **kw):
        out.append(dict(fn=fn, grid=grid, mesh=mesh, model=model, **kw))
    # (a) all orderings of the complete mesh
    for mesh in all_meshes(4 if q else 6):
        nk = int(np.prod(mesh))
        if nk == 6 and not rep(mesh):
            continue
        for fn, grid in fns:
            if nk >= 5:
                for f in range(nk):
                    add(fn, grid, mesh, "perm", first=f)
            else:
                add(fn, grid, mesh, "perm")
    # (b) arbitrary selections with repetition (orderings, removals, duplications at once)
    for mesh in all_meshes(4 if q else 5):
        nk = int(np.prod(mesh))
        for fn, grid in fns:
            for L in range(max(1, nk - 1), nk + 2):
                if q and nk == 4 and (L > nk or (mesh != (2, 2, 1) and (L < nk or grid != "mesh" or fn == "get_mp_grid" or mesh not in [(1, 1, 4), (1, 2, 2)]))):
                    continue
                if nk == 5 and (L != nk or not rep(mesh) or grid is None):
                    continue
                if not q and nk == 4 and L > nk and not rep(mesh):
                    continue
                if nk ** L > 600:                      # split by the first entry so that the pieces can run in parallel
                    for f in range(nk):
                        add(fn, grid, mesh, "select", L=L, first=f)
                else:
                    add(fn, grid, mesh, "select", L=L)
    # (c) one symbolic edit of a base ordering
    for mesh in all_meshes(24 if q else 36):
        nk = int(np.prod(mesh))
        small = nk <= (4 if q else 8)
        if not (small or rep(mesh)):
            continue
        for fn, grid in fns:
            add(fn, grid, mesh, "drop")
            if small or nk <= (9 if q else 12):
                add(fn, grid, mesh, "repl")
            if small or nk <= (8 if q else 9):
                add(fn, grid, mesh, "dup")
                add(fn, grid, mesh, "swap", base="reversed")
    # incomplete lists of whole planes: mixed denominators, coarser sub-meshes, unions of coprime meshes (2 u 3 in 6, 2 u 5 in 10, 3 u 4 in 12)
    for mesh in [(6, 1, 1), (1, 6, 1), (1, 1, 6), (6, 2, 1)] + ([] if q else [(2, 1, 6), (1, 8, 1), (9, 1, 1)]):
        for fn, grid in fns:
            if grid is None or mesh == (6, 1, 1):
                add(fn, grid, mesh, "planes")
    for mesh in [(10, 1, 1), (1, 12, 1)] + ([] if q else [(1, 1, 10), (12, 1, 1), (1, 2, 12), (18, 1, 1), (1, 20, 1), (1, 1, 30)]):
        for fn, grid in fns:
            if grid is None or mesh in [(10, 1, 1), (12, 1, 1)]:
                add(fn, grid, mesh, "union")
    if not q:
        # larger meshes, prime and composite N up to 12
        for N in (7, 8, 9, 10, 11, 12):
            for ax in range(3):
                mesh = tuple(N if a == ax else 1 for a in range(3))
                for fn, grid in fns:
                    for mo in ("drop", "repl", "dup") + (("swap",) if ax == 0 else ()):
                        add(fn, grid, mesh, mo)
        for mesh in [(7, 2, 1), (1, 11, 2), (8, 3, 1), (9, 2, 2), (12, 2, 1), (10, 3, 1), (5, 7, 1), (2, 3, 7), (11, 3, 1), (12, 1, 3), (4, 9, 1), (3, 4, 3), (6, 6, 1), (2, 2, 9)]:
            for fn, grid in fns:
                add(fn, grid, mesh, "drop")
                add(fn, grid, mesh, "swap", base="reversed")
                if int(np.prod(mesh)) <= 24:
                    add(fn, grid, mesh, "repl")
        # two symbolic edits at once
        for mesh in [(2, 2, 1), (3, 2, 1), (1, 1, 5), (1, 7, 1), (2, 2, 2), (4, 2, 1), (3, 1, 3)]:
            for fn, grid in fns:
                add(fn, grid, mesh, "drop_dup")
                add(fn, grid, mesh, "swap_drop")
        # coordinates outside [0,1): centred convention and one entry in a symbolic neighbouring cell
        for mesh in [(2, 2, 1), (3, 2, 1), (1, 5, 2), (4, 3, 1), (6, 1, 1), (3, 3, 2), (1, 1, 7), (2, 4, 3)]:
            for fn, grid in fns:
                add(fn, grid, mesh, "shift")
                add(fn, grid, mesh, "drop", conv="centred")
                add(fn, grid, mesh, "fixed", conv="centred")
                if int(np.prod(mesh)) <= 12:
                    add(fn, grid, mesh, "repl", conv="centred")
        # whole planes along two axes at once
        for mesh in [(3, 4, 1), (6, 2, 1), (1, 6, 3), (4, 1, 6), (5, 5, 1), (6, 4, 1), (2, 6, 2)]:
            for fn, grid in fns:
                if grid is None or mesh in [(3, 4, 1), (6, 4, 1)]:
                    add(fn, grid, mesh, "planes2")
    # sub-grid selection: a finer mesh is given, the coarser grid is requested
    for mesh, grid in [((4, 1, 1), (2, 1, 1)), ((2, 4, 1), (2, 2, 1)), ((6, 1, 1), (3, 1, 1)), ((1, 6, 1), (1, 2, 1))]:
        add("grid_from_kpoints", grid, mesh, "perm" if np.prod(mesh) <= 4 else "repl")
        add("grid_from_kpoints", grid, mesh, "drop")
    if not q:
        for N in (7, 8, 9, 12, 16, 25, 50, 97, 100):
            for ax in range(3):
                mesh = tuple(N if a == ax else 1 for a in range(3))
                for fn, grid in fns:
                    add(fn, grid, mesh, "fixed")
                    if ax == 0 and (N <= 25 or (N == 100 and grid == "mesh")):
                        add(fn, grid, mesh, "drop")
    return out


def cases(tier, seed):
    out = [Case("stub validation", case_stub_validation, dict(seed=seed))]
    jobs = sorted(jobs_for(tier), key=_weight, reverse=True)
    ngroups = 36 if tier == "quick" else 160
    groups = [[0, []] for _ in range(ngroups)]
    for j in jobs:                                   # greedy balancing by estimated cost
        g = min(groups, key=lambda g: g[0])
        g[0] += _weight(j)
        g[1].append(j)
    for i, (w, js) in enumerate(groups):
        if js:
            fmt = lambda j: f"{j['fn']}[grid={j['grid']}] mesh={j['mesh']} {j['model']}" + "".join(f" {k}={j[k]}" for k in ("L", "first") if j.get(k) is not None)
            out.append(Case(f"group {i}: " + "; ".join(fmt(j) for j in js), case_group, dict(jobs=js, seed=seed), timeout=6000))
    return out


# ------------------------------------------------------------------------------------------------------------
def replay(rec):
    import warnings
    w = rec["witness"]
    fn, mesh, idx, grid = w["fn"], tuple(w["mesh"]), w["idx"], w["grid"]
    k = np.array(w["kpoints"], dtype=float).reshape(len(idx), 3)
    try:
        with warnings.catch_warnings():
            warnings.simplefilter("ignore")
            if fn == "get_mp_grid":
                out = U.get_mp_grid(k)
            elif grid is None:
                out = U.grid_from_kpoints(k)
            else:
                out = U.grid_from_kpoints(k, grid=tuple(grid))
        outcome = ("return", [int(x) for x in out])
    except Exception as e:
        outcome = ("raise", type(e).__name__)
    ok, txt = judge(fn, mesh, idx, None if grid is None else tuple(grid), outcome)
    return (not ok), f"{fn}(kpoints={k.tolist()}, grid={grid}) mesh={mesh}: {txt}"
