"""C18 — system files round-trip: npz directory, _tb.dat, _hr.dat + Wannier-centre (WT format) file"""
import os, sys, fnmatch
from fractions import Fraction as Fr
import numpy as np
from symx.core import *
from symx.core import z3, Ctx, zvar
from symx.npproxy import NpProxy
from symx.harness import Case
from symx import tok
import symx.harness  # noqa (puts the repo on sys.path)

PROPERTY = "C18"
FUNCTIONS = ["wannierberri.system.system_soc.SystemSOC.__init__/set_soc_axis/to_npz/from_npz/has_soc_R/get_system_R", "wannierberri.system.system_R.System_R.to_npz/from_npz/load_npz/set_R_mat/wannier_centers_red/do_at_end_of_init",
             "wannierberri.symmetry.point_symmetry.PointGroup.as_dict/__init__(dictionary=)/PointSymmetry.as_dict",
             "wannierberri.system.system_tb.write_tb_file/get_system_tb", "wannierberri.system.system_hr.write_hr_file/get_system_hr/write_WCC_WT_format/read_WCC_WT_format",
             "wannierberri.fourier.rvectors.Rvectors.__init__/iR0"]
BOUNDS = dict(quick=dict(SystemSOC="nspin 1 and 2, 1..2 orbitals per spin, spin-up on 3 and spin-down on 5 R-vectors with their own centres, SOC matrices on 3 R-vectors, "
                         "2 concrete spin axes, 8 listing orders (one symbolic choice applied to every directory)", num_wann="1..4 (text), 1..3 (npz)", nR="1, 3", lattice="3 concrete generic cells", centres="symbolic", matrices="Ham (+AA) symbolic complex",
                         listing_order="all 120 orders of 5 property files (+ Ham); 8 enumerated orders (symbolic choice) of the full 9-file directory x both orders of the matrix files",
                         WT_centres="one symbolic centre (3 coordinates, all sign / |x|<=1e-7 branches) at every position, the other centres concrete incl. 0, 5e-8, negative"),
              thorough=dict(num_wann="1..6 (_tb.dat), 1..7 (_hr.dat), 1..9 (WT centre file), 1..6 (npz), odd and even",
                            nR="1, 3, 5, 17, 31 (17/31: closed under inversion, components up to +-100 and 2-digit negatives, R=0 in the middle; the degeneracy-weight lines wrap after 15)",
                            lattice="3 concrete generic cells", centres="symbolic", matrices="Ham (+AA) symbolic complex; npz also BB, SS, OO(3x3) - up to 5 matrices",
                            listing_order="all 5040 x 2 orders of the 7 property files and 2 matrix files (matrix files listed after the property files in the first listing); all 720 orders of "
                            "6 property files; 8 orders of the property listing x all 120 orders of 5 matrix files; 8 orders of 10-property directories (with structure attributes)",
                            SystemSOC="nspin 1 and 2, 1..4 orbitals per spin, R-sets of spin-up / spin-down / SOC matrices all different (3, 5, 17 R-vectors in five combinations), 10 spin axes, 8 listing orders",
                            field_overflow="_tb.dat (nw<=3, nR<=5, Ham+AA) and _hr.dat (nw<=3): every choice of at most one '15.8e' field that fills its width (every negative number does) "
                            "or needs a 3-digit exponent (N fields -> N+1 paths)",
                            WT_centres="as quick, num_wann up to 9"))
EXPLANATION = ("A real System_R with symbolic Wannier centres and symbolic complex Ham/AA is written by the real writers into an in-memory file model (numbers become tokens "
               "carrying their format spec) and read back by the real readers; every token read is a fresh real within half a unit of the last printed digit (exact for repr).  "
               "z3 decides per entry that what is read at [iR,m,n(,a)] is what was written there to printed precision (column / loop order, Ndegen, the convention II<->I shift of AA, "
               "the even/odd interleave of the WT centre file), on every branch of the |x|>1e-7 tests; the order in which the directory listing returns the npz files is a symbolic permutation.  "
               "SystemSOC (spin-up/spin-down System_R + symbolic spin-orbit matrices, non-magnetic nspin=1 and magnetic nspin=2) is saved and re-loaded the same way: has_soc, nspin, every matrix "
               "of the three directories, the centres, the cell and the assembled Hamiltonian H_up (+) H_down + [has_soc]*Ham_SOC of the reloaded system are those of the saved one.  "
               "Thorough tier: R-sets of 17/31 vectors (wrapping degeneracy lines, multi-digit and negative components), up to 9 orbitals, up to 5 matrices with every order of the matrix listing, "
               "and the opt-in field-overflow model on the '15.8e' fields (one field per path rendered without its leading blanks).")
ASSUMPTIONS = ["field-overflow cases (thorough): at most one '15.8e' field per file fills or exceeds its width",
               "SystemSOC: the SOC matrices are set and set_soc_axis was called before saving (has_soc=True), the cell is set (to_npz cannot save cell=None)",
               "AA(R=0) has zero diagonal in convention I (System_R.check_AA_diag_zero; the centres live in wannier_centers_cart)",
               "the list of R-vectors contains R=0", "_hr.dat: real_lattice is passed to the reader (the format does not hold it)",
               "use_convention_II=False / convention_II_to_I=False: the centres are passed to the reader (that variant of the file does not hold them)"]
OUTSIDE = ["field overflow: more than one overflowing field per file; integer fields (R components, orbital numbers) are concrete and rendered by Python itself (3-digit negative R components are in "
           "the thorough sets); the '{:10}' fields of the WT centre file (repr, no fixed width) are always separated by blanks",
           "SystemSOC: symbolic spin axis (theta, phi concrete), magnetic space group from the cell (set_cell is called after set_soc_axis), k-space evaluation (Data_K_soc)",
           "symbolic lattice (three concrete generic lattices; np.savetxt prints 19 significant digits, exact for doubles)",
           "'same bands and Berry curvature' is the consequence of equal lattice/centres/R-vectors/matrices and is not evaluated separately (evaluate_k is not run)",
           "symmetry groups beyond {E}, {E,I}, {E,C2z,TR,C2z*TR} on matching lattices; magnetic / structure attributes other than positions, atom_labels, magnetic_moments",
           "legacy=True npz layout; decimal rendering itself; num_wann / nR above the bounds; listing orders beyond those stated in the quick tier"]
STUBS = ["open (system_tb, system_hr): symx.tok.MemFS; float (system_hr): float(token) -> symx.tok.sym_float, as dtype = float; np.array(list of str, dtype=float): tokens -> sym_float",
         "np.savetxt (system_tb): numpy's default '%.18e', one row per line", "np.savez/np.savez_compressed/np.load (system_R): in-memory store with numpy's conventions "
         "(arr_0 for positional arrays, '.npz' appended, values through np.asanyarray)", "os.makedirs/os.path.exists (system_R): in-memory directories",
         "glob.glob (system_R): the matching stored names in a symbolic order (z3 Int permutation, concretised by forking)", "termcolor.cprint / print: silent",
         "replay only: system_R.glob.glob returns the real directory content in the listing order of the counterexample (the order is the input)"]

import wannierberri.system.system_R as SR, wannierberri.system.system_tb as TB, wannierberri.system.system_hr as HR
import wannierberri.system.system as SY, wannierberri.symmetry.point_symmetry as PS, wannierberri.system.system_soc as SOCM
from wannierberri.fourier.rvectors import Rvectors
import wannierberri.fourier.rvectors as RV

LATTICES = [np.array([[2.0, 0.1, 0.0], [0.0, 2.25, 0.3], [0.2, 0.0, 2.5]]),
            np.array([[1.5, 0.0, 0.0], [0.0, 2.0, 0.0], [0.0, 0.0, 3.25]]),
            np.array([[0.0, 2.7, 2.7], [2.7, 0.0, 2.7], [2.7, 2.7, 0.0]]) + np.array([[0.01, 0, 0], [0, 0.02, 0], [0, 0, 0.03]])]
GROUPS = {"E": [], "I": ["Inversion"], "C2zT": ["C2z", "TimeReversal"]}      # C2zT needs LATTICES[1]
IRVECS = {1: [[0, 0, 0]], 3: [[1, 0, 0], [0, 0, 0], [-1, 0, 0]], 5: [[0, 1, -1], [-1, 0, 0], [0, -1, 1], [0, 0, 0], [1, 0, 0]]}


def _rset(n):
    """n R-vectors (n odd), closed under inversion, multi-digit and negative components, R=0 in the middle, one pair with 3-digit components"""
    half = [[k, -2 * k, 11 * k - 40] for k in range(1, (n - 1) // 2)] + [[100, -100, 7]]
    out = []
    for i, r in enumerate(half):
        out += [r, [-x for x in r]] if i % 2 else [[-x for x in r], r]
    return out[:n // 2] + [[0, 0, 0]] + out[n // 2:]


IRVECS[17], IRVECS[31] = _rset(17), _rset(31)       # more than 15 R-vectors: the degeneracy-weight lines of _tb.dat / _hr.dat wrap
DIR = "mem/sys"


# ---------------------------------------------------------------------------------------------------- stubs
def _has_str(x):
    return isinstance(x, str) or (isinstance(x, (list, tuple)) and any(_has_str(y) for y in x))


def _parse(x):
    return tok.sym_float(x) if isinstance(x, str) else [_parse(y) for y in x]


class TokFloat(float):
    """`float` of the module under test: float(token) gives the value read back; as a dtype it means float"""
    def __new__(cls, x=0.0):
        return tok.sym_float(x)


class TokNp(NpProxy):
    def __init__(s, fs):
        super().__init__()
        s.fs = fs

    def array(s, x, dtype=None, **k):
        if dtype is TokFloat:
            dtype = float
        if dtype in (float, 'float', np.float64) and _has_str(x):
            v = _parse(x)
            return super().array(v, **k) if is_sym(v) else np.array(v, dtype=float)
        return super().array(x, dtype=dtype, **k)

    def savetxt(s, f, X, fmt='%.18e', delimiter=' ', newline='\n', **k):
        for row in np.atleast_2d(np.asarray(X, dtype=object)):
            f.write(delimiter.join(format(v, fmt[1:]) for v in row) + newline)

    def _save(s, file, args, kwds):
        name = str(file)
        if not name.endswith(".npz"):
            name += ".npz"
        d = {f"arr_{i}": a for i, a in enumerate(args)}
        d.update(kwds)
        s.fs.files[name] = {k: (v if isinstance(v, np.ndarray) else np.asanyarray(v)) for k, v in d.items()}

    def savez(s, file, *args, **kwds):
        s._save(file, args, kwds)

    def savez_compressed(s, file, *args, **kwds):
        s._save(file, args, kwds)

    def load(s, file, allow_pickle=False, **k):
        name = str(file)
        if name not in s.fs.files:
            raise FileNotFoundError(name)
        d = s.fs.files[name]
        for v in d.values():
            if v.dtype == object and not allow_pickle and not any(isinstance(e, (SymC, SymB)) for e in v.flat):
                raise ValueError("Object arrays cannot be loaded when allow_pickle=False")
        return dict(d)


class MemOS:
    """os for system_R: directories live next to the MemFS files"""
    devnull = os.devnull

    def __init__(s, fs):
        s.fs, s.dirs = fs, set()
        s.path = s

    def makedirs(s, p, exist_ok=False):
        if p in s.dirs and not exist_ok:
            raise FileExistsError(p)
        s.dirs.add(p)

    def exists(s, p):
        return p in s.dirs or p in s.fs.files

    join, split, splitext = staticmethod(os.path.join), staticmethod(os.path.split), staticmethod(os.path.splitext)


class SymGlob:
    """glob.glob: the matching names of the in-memory store in an order chosen by `mode`:
       'all' - any permutation (integer-valued z3 unknowns, concretised position by position => one path per order);
       list of permutations of the sorted names - a symbolic choice among them.  decode(env) gives the listings of a model."""

    def __init__(s, fs, mode, first=None, shared=False):
        s.fs, s.mode, s.first, s.calls, s.names, s.kind, s.shared = fs, mode, first, 0, {}, {}, shared      # shared: one choice of order function for every listing

    @staticmethod
    def _int_in(v, n):
        return z3.Or(*[v == j for j in range(n)])

    def glob(s, pattern):
        names = sorted(n for n in s.fs.files if os.path.dirname(n) == os.path.dirname(pattern) and fnmatch.fnmatch(n, pattern))
        names = [n for n in names if "_XX_R_" not in n] + [n for n in names if "_XX_R_" in n]
        c, n = s.calls, len(names)
        s.calls += 1
        s.names[c] = names
        if n <= 1:
            s.kind[c] = None
            return names
        if s.mode == "all" or (c > 0 and not s.shared):
            nfree = n if c > 0 else sum("_XX_R_" not in x for x in names)      # first listing: matrix files stay last (they are filtered out by name there)
            s.kind[c] = ("perm", nfree)
            p = [zvar(f"ls{c}_{i}") for i in range(nfree)]
            Ctx.cur.assume(*[s._int_in(x, nfree) for x in p], z3.Distinct(*p))
            if c == 0 and s.first is not None:
                Ctx.cur.assume(p[0] == s.first)
            order = [next(j for j in range(nfree) if j == nfree - 1 or bool(SymB(p[i] == j))) for i in range(nfree)]
            return [names[j] for j in order] + names[nfree:]
        cv = 0 if s.shared else c
        s.kind[c] = ("choice", cv)
        ch = zvar(f"lsorder{cv}")
        Ctx.cur.assume(s._int_in(ch, len(s.mode)))
        k = next(j for j in range(len(s.mode)) if j == len(s.mode) - 1 or bool(SymB(ch == j)))
        return [names[j] for j in s.mode[k](n)]

    def decode(s, env):
        out = []
        for c in sorted(s.names):
            names, kind = s.names[c], s.kind[c]
            if kind is None:
                out.append(names)
            elif kind[0] == "perm" and f"ls{c}_0" in env:
                out.append([names[int(env[f"ls{c}_{i}"])] for i in range(kind[1])] + names[kind[1]:])
            elif kind[0] == "choice" and f"lsorder{kind[1]}" in env:
                out.append([names[j] for j in s.mode[int(env[f"lsorder{kind[1]}"])](len(names))])
            else:
                break
        return out


def install(mode="sorted", first=None, shared=False):
    fs = tok.MemFS()
    tok.overflow_model(False)
    p = TokNp(fs)
    for m in (SR, TB, HR, SY, SOCM, RV):
        m.np = p
    TB.open = HR.open = fs.open
    HR.float = TokFloat
    TB.cprint = HR.cprint = lambda *a, **k: None
    SR.os = SOCM.os = MemOS(fs)
    g = SymGlob(fs, [lambda n: list(range(n))] if mode == "sorted" else mode, first, shared)
    SR.glob = g
    return fs, g


# ---------------------------------------------------------------------------------------------------- building blocks
def mk_system(mod, nw, nR, lat, mats=("Ham",), group="E", wcc=None, sym=True, structure=False, tag=""):
    """System_R with symbolic centres and matrices (sym=False: concrete random doubles, for replay)"""
    rng = np.random.default_rng(7 * nw + nR + len(tag))
    s = mod.System_R(silent=True)
    s.real_lattice = LATTICES[lat].copy()
    s.num_wann = nw
    iRvec = np.array(IRVECS[nR])
    if wcc is None:
        wcc = symvec(tag + "c", (nw, 3)) if sym else rng.uniform(-1, 1, (nw, 3))
    s.wannier_centers_cart = wcc
    s.rvec = Rvectors(lattice=s.real_lattice, iRvec=iRvec, shifts_left_red=s.wannier_centers_red)
    vals = {}
    for key in mats:
        shape = (nR, nw, nw) + {"Ham": (), "OO": (3, 3)}.get(key, (3,))
        X = symvec(tag + key, shape, real=False) if sym else rng.uniform(-1, 1, shape) + 1j * rng.uniform(-1, 1, shape)
        if key == "AA":
            X[s.rvec.iR0, np.arange(nw), np.arange(nw)] = SymC.of(0) if sym else 0
        s.set_R_mat(key, X)
        vals[key] = X
    s.set_pointgroup(GROUPS[group])
    if structure:
        s.set_structure([[0, 0, 0], [0.5, 0.5, 0.5]], ["Fe", "Co"], magnetic_moments=[[0, 0, 1], [0, 0, -1]])
    return s, wcc, vals


def rel_close(r, x, printed, rel):
    """SymB / bool: |r - x| <= rel*|printed| (real scalars)"""
    r, x, printed = SymC.of(r), SymC.of(x), SymC.of(printed)
    d = r - x
    if d.iszero():
        return True
    dz, pz = d.zreal(), printed.zreal()
    return SymB(z3.And(dz <= rel * z3.If(pz >= 0, pz, -pz), -dz <= rel * z3.If(pz >= 0, pz, -pz)), atoms=d.atoms() | printed.atoms())


REL_E8 = z3.Q(1, 2 * 10 ** 8)      # '15.8e': 9 significant digits, half a unit of the last one relative to the leading digit


def mat_close(rec, name, got, want, printed, key):
    got, want, printed = (np.asarray(a, dtype=object) for a in (got, want, printed))
    if got.shape != want.shape:
        return rec.concrete(name, False, f"shape {got.shape} != {want.shape}", key=key)
    acc = True
    for g, w, p in zip(got.flat, want.flat, printed.flat):
        g, w, p = SymC.of(g), SymC.of(w), SymC.of(p)
        acc = rel_close(g.real, w.real, p.real, REL_E8) & rel_close(g.imag, w.imag, p.imag, REL_E8) & acc
    return rec.fact(name, acc, key=key)


def check_common(rec, fmt, back, s, nw, lat):
    rec.concrete(f"{fmt}: num_wann", int(back.num_wann) == nw, f"{back.num_wann}", key=f"{fmt} round trip changes num_wann")
    rec.concrete(f"{fmt}: iRvec", np.array_equal(back.rvec.iRvec, s.rvec.iRvec), f"{back.rvec.iRvec.tolist()}", key=f"{fmt} round trip changes iRvec")
    rec.concrete(f"{fmt}: real_lattice", np.array_equal(np.asarray(back.real_lattice, dtype=float), LATTICES[lat]), f"{back.real_lattice}", key=f"{fmt} round trip changes real_lattice")


# ---------------------------------------------------------------------------------------------------- _tb.dat
def case_tb(rec, combos):
    for c in combos:
        _tb(rec, **c)


def _tb(rec, nw, nR, lat, aa, conv, give_wcc, berry, overflow=False):
    """conv: True = write convention II / read II->I (default), False = both off; overflow: symx.tok field-overflow model on the '15.8e' fields"""
    fs, g = install()
    s, wcc, vals = mk_system(SR, nw, nR, lat, ("Ham", "AA") if aa else ("Ham",))
    iR0 = s.rvec.iR0

    def body(rec):
        tok.overflow_model(overflow)
        rec.witness = lambda env: dict(fmt="tb", nw=nw, nR=nR, lat=lat, aa=aa, conv=conv, give_wcc=give_wcc, berry=berry, wcc=env.arr(wcc),
                                       **{k: env.arr(v) for k, v in vals.items()})
        s.to_tb_file(tb_file=DIR + "_tb.dat", use_convention_II=conv)
        back = SR.System_R.from_tb_file(tb_file=DIR + "_tb.dat", convention_II_to_I=conv, berry=berry, silent=True, **(dict(wannier_centers_cart=wcc) if give_wcc else {}))
        check_common(rec, "tb", back, s, nw, lat)
        mat_close(rec, "tb: Ham[iR,m,n] to 9 digits", back.get_R_mat("Ham"), vals["Ham"], vals["Ham"], key="tb round trip: Ham differs from what was written")
        printed = None
        if aa:
            printed = vals["AA"].copy()
            if conv:
                printed[iR0, np.arange(nw), np.arange(nw)] += wcc
        # centres: either handed over, or recovered from the diagonal of the position block
        want_c = printed[iR0, np.arange(nw), np.arange(nw)].real if (aa and conv and not give_wcc) else wcc
        mat_close(rec, "tb: wannier_centers_cart to 9 digits", back.wannier_centers_cart, wcc, want_c, key="tb round trip: Wannier centres differ")
        rec.concrete("tb: AA present iff requested", back.has_R_mat("AA") == berry, key="tb round trip: AA presence")
        if berry and aa:
            mat_close(rec, "tb: AA[iR,m,n,a] (convention I) to 9 digits of the printed number", back.get_R_mat("AA"), vals["AA"], printed, key="tb round trip: AA differs (convention shift / order)")
    rec.explore(body)


# ---------------------------------------------------------------------------------------------------- _hr.dat + WT centres
WT_CONCRETE = [[0.25, -1.5, 3.0], [0.0, 5e-8, -2.0], [-0.75, 1.25, -5e-8], [4.0, 0.0, 0.5], [-3.5, 2.5, 1e-7], [1.75, -0.125, 6.0]]


def wt_oracle(x):
    return x if abs(x) > 1e-7 else 0.0


def case_hr(rec, combos):
    for c in combos:
        _hr(rec, **c)


def _hr(rec, nw, nR, lat, pos, full, overflow=False):
    """pos: index of the symbolic centre (None: all concrete); full: whole system through write_hr_file/get_system_hr, else only the centre file"""
    fs, g = install()
    c = symvec("c", (3,))
    wcc = sarr([[SymC.of(v) for v in WT_CONCRETE[i % len(WT_CONCRETE)]] if i != pos else list(c) for i in range(nw)])
    if pos is None:
        wcc = np.array(WT_CONCRETE[:nw])
    s, _, vals = mk_system(SR, nw, nR, lat, ("Ham",), wcc=wcc) if full else (None, None, {})

    def body(rec):
        tok.overflow_model(overflow)
        rec.witness = lambda env: dict(fmt="hr", nw=nw, nR=nR, lat=lat, full=full, wcc=env.arr(np.asarray(wcc, dtype=object)), **{k: env.arr(v) for k, v in vals.items()})
        if full:
            s.to_hr_file(seedname=DIR)
            back = SR.System_R.from_hr_file(seedname=DIR, real_lattice=LATTICES[lat].copy(), silent=True)
            got = back.wannier_centers_cart
            check_common(rec, "hr", back, s, nw, lat)
            mat_close(rec, "hr: Ham[iR,m,n] to 9 digits", back.get_R_mat("Ham"), vals["Ham"], vals["Ham"], key="hr round trip: Ham differs from what was written")
        else:
            HR.write_WCC_WT_format(DIR, wcc)
            got = HR.read_WCC_WT_format(DIR)
        want = [[wt_oracle(SymC.of(x)) for x in row] for row in np.asarray(wcc, dtype=object)]
        if np.shape(got) != (nw, 3):
            rec.concrete("hr: centres shape", False, f"{np.shape(got)}", key="hr round trip: Wannier centres differ")
        else:
            rec.eq("hr: centres (exact where |x|>1e-7, 0 otherwise) in the original order", got, sarr(want), key="hr round trip: Wannier centres differ")
    rec.explore(body)


# ---------------------------------------------------------------------------------------------------- npz directory
def sym_equal(a, b):
    return a.TR == b.TR and a.Inv == b.Inv and np.abs(np.asarray(a.R, dtype=float) - np.asarray(b.R, dtype=float)).max() < 1e-12


def check_npz(rec, s, back, nw, lat, vals, wcc, props):
    check_common(rec, "npz", back, s, nw, lat)
    rec.eq("npz: wannier_centers_cart", back.wannier_centers_cart, wcc, key="npz round trip: Wannier centres differ")
    rec.concrete("npz: set of R-matrices", set(back._XX_R) == set(vals), f"{sorted(back._XX_R)}", key="npz round trip: set of matrices differs")
    for k, v in vals.items():
        if back.has_R_mat(k):
            rec.eq(f"npz: {k}", back.get_R_mat(k), v, key=f"npz round trip: matrix {k} differs")
    if "periodic" in props:
        rec.concrete("npz: periodic / is_phonon", np.array_equal(back.periodic, s.periodic) and bool(back.is_phonon) == bool(s.is_phonon), key="npz round trip: periodic / is_phonon differ")
    if "pointgroup" in props:
        a, b = s.pointgroup.symmetries, back.pointgroup.symmetries
        rec.concrete("npz: point group", len(a) == len(b) and all(sym_equal(x, y) for x, y in zip(a, b)) and np.allclose(back.pointgroup.real_lattice, LATTICES[lat]),
                     f"{len(a)} vs {len(b)} symmetries", key="npz round trip: point group differs")
    for k in ("positions", "atom_labels", "magnetic_moments"):
        if hasattr(s, k):
            rec.concrete(f"npz: {k}", hasattr(back, k) and np.array_equal(np.asarray(getattr(back, k)), np.asarray(getattr(s, k))), key=f"npz round trip: {k} differs")


ALLPROPS = ['num_wann', 'real_lattice', 'iRvec', 'periodic', 'is_phonon', 'wannier_centers_cart', 'pointgroup']


def rot(k):
    return lambda n: [(i + k) % n for i in range(n)]


ORDERS8 = [lambda n: list(range(n)), lambda n: list(range(n))[::-1], rot(1), rot(2), rot(4), lambda n: list(range(1, n, 2)) + list(range(0, n, 2)),
           lambda n: [n - 1] + list(range(n - 1)), lambda n: list(range(n // 2, n))[::-1] + list(range(n // 2))]


def case_npz(rec, nw, nR, lat, group, mats, exclude, mode, first=None, structure=False):
    fs, g = install(ORDERS8 if mode == "orders8" else mode, first)
    s, wcc, vals = mk_system(SR, nw, nR, lat, mats, group, structure=structure)
    props = [p for p in ALLPROPS if p not in exclude]

    def body(rec):
        g.calls = 0
        fs.files.clear()
        rec.witness = lambda env: dict(fmt="npz", nw=nw, nR=nR, lat=lat, group=group, mats=list(mats), exclude=list(exclude), structure=structure, listing=g.decode(env),
                                       wcc=env.arr(wcc), **{k: env.arr(v) for k, v in vals.items()})
        s.to_npz(DIR, exclude_properties=exclude)
        back = SR.System_R.from_npz(DIR)
        check_npz(rec, s, back, nw, lat, vals, wcc, props)
    rec.explore(body, max_forks=100000)


# ---------------------------------------------------------------------------------------------------- SystemSOC npz directory
SOC_KEYS = {1: ["dV_soc_wann_0_0"], 2: ["dV_soc_wann_0_0", "dV_soc_wann_1_1", "dV_soc_wann_0_1", "overlap_up_down"]}


def mk_soc(nspin, norb, lat, theta, phi, sym=True, given=None, nRs=(3, 5, 3)):
    """SystemSOC from a spin-up (nRs[0] R-vectors) and, for nspin=2, a spin-down (nRs[1], other centres) System_R, symbolic SOC matrices on its own R-set (nRs[2]), axis (theta, phi);
    given: concrete values {name: array} (replay)"""
    given = given or {}
    up, cu, vu = mk_system(SR, norb, nRs[0], lat, ("Ham", "AA"), tag="u", sym=sym, wcc=given.get("uc"))
    vals = {"uc": cu, **{"u" + k: v for k, v in vu.items()}}
    down = None
    if nspin == 2:
        down, cd, vd = mk_system(SR, norb, nRs[1], lat, ("Ham", "AA"), tag="d", sym=sym, wcc=given.get("dc"))
        vals.update({"dc": cd, **{"d" + k: v for k, v in vd.items()}})
    for sysm, t in ((up, "u"), (down, "d")):
        for k in ("Ham", "AA"):
            if sysm is not None and t + k in given:
                sysm.set_R_mat(k, given[t + k], reset=True)
                vals[t + k] = given[t + k]
    soc = SOCM.SystemSOC(system_up=up, system_down=down)
    soc.set_pointgroup()
    soc.rvec = Rvectors(lattice=soc.real_lattice, iRvec=np.array(IRVECS[nRs[2]]), shifts_left_red=soc.wannier_centers_red)
    rng = np.random.default_rng(11)
    for k in SOC_KEYS[nspin]:
        shape = (nRs[2], norb, norb) + (() if k == "overlap_up_down" else (3,))
        X = given[k] if k in given else (symvec(k, shape, real=False) if sym else rng.uniform(-1, 1, shape) + 1j * rng.uniform(-1, 1, shape))
        soc.set_R_mat(k, X)
        vals[k] = X
    soc.has_soc = True
    soc.set_soc_axis(theta=theta, phi=phi, alpha_soc=1.0)
    soc.set_cell(positions=[[0, 0, 0]], typat=[1], magmoms_on_axis=[1 if nspin == 2 else 0])
    return soc, vals


def soc_hamiltonian(soc):
    """what the k-space code uses: spin-up / spin-down blocks plus, only if has_soc, Ham_SOC (on the merged R-set)"""
    import io, contextlib
    with contextlib.redirect_stdout(io.StringIO()):
        sr = soc.get_system_R()
    H = sr.get_R_mat("Ham")
    if not soc.has_soc:
        H = H.copy()
        from wannierberri.fourier.rvectors import merge_Rvectors
        _, maps = merge_Rvectors([soc.rvec, soc.system_up.rvec, soc.system_down.rvec])
        H[maps[0]] = H[maps[0]] - soc.get_R_mat("Ham_SOC")
    return sr.rvec.iRvec, H


def case_soc(rec, nspin, norb, lat, theta, phi, nRs=(3, 5, 3)):
    fs, g = install(ORDERS8, shared=True)
    soc, vals = mk_soc(nspin, norb, lat, theta, phi, nRs=nRs)
    iR_ref, H_ref = soc_hamiltonian(soc)

    def body(rec):
        g.calls = 0
        fs.files.clear()
        rec.witness = lambda env: dict(fmt="soc", nspin=nspin, norb=norb, lat=lat, theta=theta, phi=phi, nRs=list(nRs), listing=g.decode(env), vals={k: env.arr(np.asarray(v, dtype=object)) for k, v in vals.items()})
        soc.to_npz(DIR)
        back = SOCM.SystemSOC.from_npz(DIR)
        rec.concrete("soc npz: nspin, num_wann, iRvec, lattice", (back.nspin, int(back.num_wann)) == (nspin, 2 * norb) and np.array_equal(back.rvec.iRvec, soc.rvec.iRvec)
                     and np.array_equal(np.asarray(back.real_lattice, dtype=float), LATTICES[lat]), f"nspin={back.nspin} num_wann={back.num_wann}", key="SystemSOC npz round trip changes nspin/num_wann/iRvec/lattice")
        rec.concrete("soc npz: has_soc of the reloaded system", bool(back.has_soc) == bool(soc.has_soc), f"has_soc={back.has_soc} (saved system: {soc.has_soc})",
                     key="SystemSOC npz round trip loses has_soc")
        rec.concrete("soc npz: set of matrices", set(back._XX_R) == set(soc._XX_R), f"{sorted(back._XX_R)}", key="SystemSOC npz round trip: set of matrices differs")
        for k in soc._XX_R:
            if back.has_R_mat(k):
                rec.eq(f"soc npz: {k}", back.get_R_mat(k), soc.get_R_mat(k), key=f"SystemSOC npz round trip: matrix {k} differs")
        rec.eq("soc npz: wannier_centers_cart", back.wannier_centers_cart, soc.wannier_centers_cart, key="SystemSOC npz round trip: Wannier centres differ")
        for name, a, b in (("system_up", soc.system_up, back.system_up), ("system_down", soc.system_down, back.system_down)):
            rec.concrete(f"soc npz: {name} iRvec / matrices present", np.array_equal(a.rvec.iRvec, b.rvec.iRvec) and set(a._XX_R) == set(b._XX_R), key=f"SystemSOC npz round trip: {name} differs")
            rec.eq(f"soc npz: {name} centres", b.wannier_centers_cart, a.wannier_centers_cart, key=f"SystemSOC npz round trip: {name} differs")
            for k in a._XX_R:
                if b.has_R_mat(k):
                    rec.eq(f"soc npz: {name} {k}", b.get_R_mat(k), a.get_R_mat(k), key=f"SystemSOC npz round trip: {name} differs")
        rec.concrete("soc npz: spin-down is spin-up for nspin=1", (back.system_down is back.system_up) == (nspin == 1), key="SystemSOC npz round trip: system_down identity")
        rec.concrete("soc npz: cell", back.cell is not None and all(np.array_equal(np.asarray(back.cell[k]), soc.cell[k]) for k in soc.cell), f"{back.cell}", key="SystemSOC npz round trip: cell differs")
        iR, H = soc_hamiltonian(back)
        if np.array_equal(iR, iR_ref):
            rec.eq("soc npz: assembled Hamiltonian H_up (+) H_down + [has_soc] Ham_SOC of the reloaded system", H, H_ref, key="SystemSOC npz round trip: assembled Hamiltonian differs (SOC dropped)")
        else:
            rec.concrete("soc npz: merged R-vectors", False, f"{iR.tolist()}", key="SystemSOC npz round trip: assembled Hamiltonian differs (SOC dropped)")
    rec.explore(body)


# ---------------------------------------------------------------------------------------------------- cases
def cases(tier, seed):
    q = tier == "quick"
    out = []
    nws = (1, 2, 3, 4) if q else (1, 2, 3, 4, 5, 6)
    # _tb.dat: (aa, conv, give_wcc, berry)
    variants = [(True, True, False, True), (True, True, False, False), (True, True, True, True), (True, False, True, True), (False, True, False, False), (False, True, True, False)]
    for nw in nws[:3] if q else nws[:4]:
        for nR in ((1, 3) if q else (1, 3, 5)):
            combos = [dict(nw=nw, nR=nR, lat=(nw + nR + i) % 3, aa=v[0], conv=v[1], give_wcc=v[2], berry=v[3]) for i, v in enumerate(variants)]
            out.append(Case(f"tb nw={nw} nR={nR} with AA", case_tb, dict(combos=combos[:4]), timeout=900))
            out.append(Case(f"tb nw={nw} nR={nR} without AA", case_tb, dict(combos=combos[4:]), timeout=900))
    # _hr.dat + WT centres
    for nw in nws:
        out.append(Case(f"hr centre file nw={nw} symbolic centre at every position", case_hr, dict(combos=[dict(nw=nw, nR=1, lat=0, pos=p, full=False) for p in range(nw)]), timeout=900))
        if nw <= (3 if q else 4):
            out.append(Case(f"hr full system nw={nw}", case_hr, dict(combos=[dict(nw=nw, nR=nR, lat=nw % 3, pos=nw - 1, full=True) for nR in ((3,) if q else (1, 3, 5))]), timeout=900))
    # npz
    for nw, nR, lat, group, mats in ((1, 1, 0, "E", ("Ham",)), (2, 3, 1, "C2zT", ("Ham", "AA")), (3, 3, 2, "I", ("Ham", "AA"))):
        out.append(Case(f"npz nw={nw} nR={nR} group={group} full directory, 8 listing orders", case_npz,
                        dict(nw=nw, nR=nR, lat=lat, group=group, mats=mats, exclude=(), mode="orders8", structure=(nw == 2)), timeout=900))
    out.append(Case("npz nw=2 nR=3 directory of 5 property files + Ham, every listing order", case_npz,
                    dict(nw=2, nR=3, lat=0, group="E", mats=("Ham",), exclude=("is_phonon", "pointgroup"), mode="all"), timeout=900))
    for nspin, norb, lat, th, ph in ((1, 1, 0, 0.7, 0.4), (2, 1, 1, 0.7, 0.4), (1, 2, 2, 0.3, 1.1), (2, 2, 0, 0.0, 0.0)) + (() if q else ((1, 3, 1, 1.2, 2.0), (2, 3, 2, 2.1, 0.5))):
        out.append(Case(f"npz SystemSOC nspin={nspin} norb={norb} 8 listing orders", case_soc, dict(nspin=nspin, norb=norb, lat=lat, theta=th, phi=ph), timeout=900))
    if not q:
        T = 3000
        # more than 15 R-vectors (wrapping Ndegen lines), multi-digit / negative R components, more orbitals (odd and even)
        for nw, nR in ((1, 17), (2, 17), (3, 17), (4, 17), (1, 31), (2, 31), (3, 31), (5, 3), (6, 3), (5, 5)):
            combos = [dict(nw=nw, nR=nR, lat=(nw + nR + i) % 3, aa=v[0], conv=v[1], give_wcc=v[2], berry=v[3]) for i, v in enumerate(variants)]
            big = nw * nw * nR > 200
            out.append(Case(f"tb nw={nw} nR={nR} with AA", case_tb, dict(combos=combos[:1] + combos[2:3] if big else combos[:4]), timeout=T))
            out.append(Case(f"tb nw={nw} nR={nR} without AA", case_tb, dict(combos=combos[4:]), timeout=T))
        for nw, nR in ((1, 17), (2, 17), (3, 17), (4, 17), (2, 31), (3, 31), (5, 5), (6, 3), (7, 3)):
            out.append(Case(f"hr full system nw={nw} nR={nR}", case_hr, dict(combos=[dict(nw=nw, nR=nR, lat=nw % 3, pos=nw // 2, full=True)]), timeout=T))
        for nw in (7, 8, 9):
            out.append(Case(f"hr centre file nw={nw} symbolic centre at every position", case_hr, dict(combos=[dict(nw=nw, nR=1, lat=0, pos=p, full=False) for p in range(nw)]), timeout=T))
        # field-overflow model on the '15.8e' fields: every choice of at most one field that fills its width (negative numbers do) or needs a 3-digit exponent
        for nw, nR in ((1, 3), (2, 3), (2, 5), (3, 3)):
            out.append(Case(f"tb nw={nw} nR={nR} with AA, one '15.8e' field may fill / overflow its width", case_tb,
                            dict(combos=[dict(nw=nw, nR=nR, lat=nw % 3, aa=True, conv=True, give_wcc=False, berry=True, overflow=True)]), timeout=T))
            out.append(Case(f"hr full system nw={nw} nR={nR}, one '15.8e' field may fill / overflow its width", case_hr,
                            dict(combos=[dict(nw=nw, nR=nR, lat=nw % 3, pos=None, full=True, overflow=True)]), timeout=T))
        # more matrices per system: 8 orders of the property listing x all 120 orders of the matrix listing; more orbitals / R-vectors
        out.append(Case("npz nw=3 nR=5 five matrices (Ham AA BB SS OO), every order of the matrix listing x 8 orders of the property listing", case_npz,
                        dict(nw=3, nR=5, lat=2, group="I", mats=("Ham", "AA", "BB", "SS", "OO"), exclude=(), mode="orders8", structure=True), timeout=T))
        for nw, nR in ((4, 17), (5, 5), (6, 31)):
            out.append(Case(f"npz nw={nw} nR={nR} full directory with structure attributes, 8 listing orders", case_npz,
                            dict(nw=nw, nR=nR, lat=nw % 3, group="E" if nw % 3 != 1 else "C2zT", mats=("Ham", "AA", "SS"), exclude=(), mode="orders8", structure=True), timeout=T))
        out.append(Case("npz nw=1 nR=5 directory of 6 property files + Ham, every listing order", case_npz,
                        dict(nw=1, nR=5, lat=2, group="E", mats=("Ham",), exclude=("is_phonon",), mode="all"), timeout=T))
        # SOC systems whose three R-sets differ, more orbitals, more axes
        for nspin, norb, lat, th, ph, nRs in ((2, 1, 0, 0.4, 2.2, (5, 17, 3)), (2, 2, 1, 1.9, 0.3, (17, 5, 5)), (1, 2, 2, 2.8, 4.0, (17, 5, 5)), (2, 3, 0, 0.9, 5.1, (3, 17, 5)),
                                           (1, 4, 1, 1.1, 0.2, (5, 5, 17)), (2, 4, 2, 0.2, 3.3, (5, 3, 3))):
            out.append(Case(f"npz SystemSOC nspin={nspin} norb={norb} R-sets up/down/soc={nRs} 8 listing orders", case_soc,
                            dict(nspin=nspin, norb=norb, lat=lat, theta=th, phi=ph, nRs=nRs), timeout=T))
        for first in range(7):
            out.append(Case(f"npz nw=2 nR=3 full directory, every listing order starting with property file #{first}", case_npz,
                            dict(nw=2, nR=3, lat=1, group="C2zT", mats=("Ham", "AA"), exclude=(), mode="all", first=first), timeout=3000))
    return out


# ---------------------------------------------------------------------------------------------------- replay
def listing_glob(d, listing):
    """replay only: glob whose results come in the listing order of the counterexample (the order is the input); names are mapped from the in-memory directory to d"""
    listing = [[os.path.join(d, os.path.relpath(x, DIR)) for x in l] for l in listing]

    class G:
        n = 0

        @staticmethod
        def glob(p):
            real = sorted(__import__("glob").glob(p))
            l = listing[G.n] if G.n < len(listing) else real
            G.n += 1
            assert sorted(l) == real, (l, real)
            return l
    return G


def replay(rec):
    """real files in a scratch directory, unshadowed real code, concrete doubles"""
    import tempfile, shutil, warnings, io, contextlib, traceback
    from symx.harness import unarr
    from wannierberri.system.system_R import System_R
    import wannierberri.system.system_hr as hr
    warnings.simplefilter("ignore")
    w = rec["witness"]
    tmp = tempfile.mkdtemp(prefix="c18_")
    rng = np.random.default_rng(5)

    def fill(a):
        a = unarr(a)
        if np.abs(a).max() == 0:      # zero-filled model: any values will do
            a = rng.uniform(-1, 1, a.shape) + (1j * rng.uniform(-1, 1, a.shape) if np.iscomplexobj(a) else 0)
        return a

    def concrete_system(wcc, mats):
        s, _, _ = mk_system(sys.modules["wannierberri.system.system_R"], w["nw"], w["nR"], w["lat"], (), w.get("group", "E"), wcc=wcc, sym=False, structure=w.get("structure", False))
        for k, v in mats.items():
            if k == "AA":
                v[s.rvec.iR0, np.arange(w["nw"]), np.arange(w["nw"])] = 0
            s.set_R_mat(k, v)
        return s

    def excess(got, want, printed, rel=0.5e-8):
        got, want, printed = np.asarray(got), np.asarray(want), np.asarray(printed)
        if got.shape != want.shape:
            return np.inf
        f = lambda g, x, p: (np.abs(g - x) - rel * (1 + 1e-6) * np.abs(p) - 1e-15 * (np.abs(p) + np.abs(x))).max()
        return float(max(f(got.real, want.real, printed.real), f(got.imag, want.imag, printed.imag)))
    try:
        with contextlib.redirect_stdout(io.StringIO()):
            try:
                nw = w.get("nw")
                if w["fmt"] == "tb":
                    wcc = fill(w["wcc"]).real
                    mats = {k: fill(w[k]).astype(complex) for k in (("Ham", "AA") if w["aa"] else ("Ham",))}
                    s = concrete_system(wcc, mats)
                    f = os.path.join(tmp, "x_tb.dat")
                    s.to_tb_file(tb_file=f, use_convention_II=w["conv"])
                    b = System_R.from_tb_file(tb_file=f, convention_II_to_I=w["conv"], berry=w["berry"], silent=True, **(dict(wannier_centers_cart=wcc.copy()) if w["give_wcc"] else {}))
                    bad = []
                    if int(b.num_wann) != nw or not np.array_equal(b.rvec.iRvec, s.rvec.iRvec) or not np.array_equal(b.real_lattice, s.real_lattice):
                        bad.append("num_wann/iRvec/lattice")
                    if excess(b.get_R_mat("Ham"), mats["Ham"], mats["Ham"]) > 0:
                        bad.append("Ham")
                    if excess(b.wannier_centers_cart, wcc, wcc) > 0:
                        bad.append(f"centres {np.asarray(b.wannier_centers_cart).tolist()} vs {wcc.tolist()}")
                    if b.has_R_mat("AA") != w["berry"]:
                        bad.append("AA presence")
                    if w["berry"] and w["aa"]:
                        pr = mats["AA"].copy()
                        if w["conv"]:
                            pr[s.rvec.iR0, np.arange(nw), np.arange(nw)] += wcc
                        if excess(b.get_R_mat("AA"), mats["AA"], pr) > 0:
                            bad.append("AA")
                    return bool(bad), f"_tb.dat nw={nw} nR={w['nR']} AA={w['aa']} convention_II={w['conv']} centres_given={w['give_wcc']}: differing {bad}"
                if w["fmt"] == "hr":
                    wcc = unarr(w["wcc"]).real
                    want = np.where(np.abs(wcc) > 1e-7, wcc, 0.0)
                    if w["full"]:
                        H = fill(w["Ham"]).astype(complex)
                        s = concrete_system(wcc, dict(Ham=H))
                        seed = os.path.join(tmp, "x")
                        s.to_hr_file(seedname=seed)
                        b = System_R.from_hr_file(seedname=seed, real_lattice=s.real_lattice.copy(), silent=True)
                        got = b.wannier_centers_cart
                        bad = excess(b.get_R_mat("Ham"), H, H) > 0 or not np.array_equal(b.rvec.iRvec, s.rvec.iRvec) or int(b.num_wann) != nw
                    else:
                        hr.write_WCC_WT_format(os.path.join(tmp, "x"), wcc)
                        got = hr.read_WCC_WT_format(os.path.join(tmp, "x"))
                        bad = False
                    bad = bad or np.shape(got) != want.shape or not np.array_equal(got, want)
                    return bool(bad), f"_hr.dat/WT centres nw={nw} centres={wcc.tolist()} read back={np.asarray(got).tolist()}"
                if w["fmt"] == "npz":
                    import wannierberri.system.system_R as sr
                    wcc = fill(w["wcc"]).real
                    mats = {k: fill(w[k]).astype(complex) for k in w["mats"]}
                    s = concrete_system(wcc, mats)
                    d = os.path.join(tmp, "sys")
                    s.to_npz(d, exclude_properties=w["exclude"])
                    sr.glob = listing_glob(d, w["listing"])
                    b = System_R.from_npz(d)
                    bad = []
                    if int(b.num_wann) != nw or not np.array_equal(b.rvec.iRvec, s.rvec.iRvec) or not np.array_equal(b.real_lattice, s.real_lattice):
                        bad.append("num_wann/iRvec/lattice")
                    if not np.array_equal(b.wannier_centers_cart, wcc):
                        bad.append("centres")
                    if set(b._XX_R) != set(mats) or any(not np.array_equal(b.get_R_mat(k), v) for k, v in mats.items() if b.has_R_mat(k)):
                        bad.append("matrices")
                    if "pointgroup" not in w["exclude"] and not (len(b.pointgroup.symmetries) == len(s.pointgroup.symmetries) and all(sym_equal(x, y) for x, y in zip(s.pointgroup.symmetries, b.pointgroup.symmetries))):
                        bad.append("pointgroup")
                    if "periodic" not in w["exclude"] and not (np.array_equal(b.periodic, s.periodic) and bool(b.is_phonon) == bool(s.is_phonon)):
                        bad.append("periodic/is_phonon")
                    for k in ("positions", "atom_labels", "magnetic_moments"):
                        if hasattr(s, k) and not (hasattr(b, k) and np.array_equal(np.asarray(getattr(b, k)), np.asarray(getattr(s, k)))):
                            bad.append(k)
                    return bool(bad), f"npz nw={nw} listing={[[os.path.basename(x) for x in l] for l in w['listing']]}: differing {bad}"
                if w["fmt"] == "soc":
                    import wannierberri.system.system_R as sr
                    given = {k: fill(v) for k, v in w["vals"].items()}
                    given = {k: (v.real if k.endswith("c") and len(k) == 2 else v.astype(complex)) for k, v in given.items()}
                    soc, _ = mk_soc(w["nspin"], w["norb"], w["lat"], w["theta"], w["phi"], sym=False, given=given, nRs=tuple(w.get("nRs", (3, 5, 3))))
                    _, H_ref = soc_hamiltonian(soc)
                    d = os.path.join(tmp, "sys")
                    soc.to_npz(d)
                    sr.glob = listing_glob(d, w["listing"])
                    b = SOCM.SystemSOC.from_npz(d)
                    bad = []
                    if bool(b.has_soc) != bool(soc.has_soc):
                        bad.append(f"has_soc={b.has_soc} (saved: {soc.has_soc})")
                    if b.nspin != soc.nspin or set(b._XX_R) != set(soc._XX_R) or any(not np.array_equal(b.get_R_mat(k), v) for k, v in soc._XX_R.items() if b.has_R_mat(k)):
                        bad.append("nspin / SOC matrices")
                    for nm, x, y in (("system_up", soc.system_up, b.system_up), ("system_down", soc.system_down, b.system_down)):
                        if set(x._XX_R) != set(y._XX_R) or any(not np.array_equal(y.get_R_mat(k), v) for k, v in x._XX_R.items() if y.has_R_mat(k)) or not np.array_equal(x.wannier_centers_cart, y.wannier_centers_cart):
                            bad.append(nm)
                    _, H = soc_hamiltonian(b)
                    if H.shape != H_ref.shape or np.abs(H - H_ref).max() > 1e-12 * (1 + np.abs(H_ref).max()):
                        bad.append(f"assembled Hamiltonian differs by {np.abs(H - H_ref).max() if H.shape == H_ref.shape else 'shape'}")
                    return bool(bad), f"SystemSOC npz round trip nspin={w['nspin']} norb={w['norb']}: differing {bad}"
            except (KeyError, AttributeError, ValueError, AssertionError, TypeError, IndexError, FileNotFoundError, RuntimeError) as e:
                if not any("wannierberri" in fr.filename for fr in traceback.extract_tb(e.__traceback__)):
                    raise          # an error of this replay code, not of the code under test
                return True, (f"{w['fmt']} {({k: v for k, v in w.items() if k in ('nw', 'nR', 'aa', 'conv', 'give_wcc', 'berry', 'full', 'listing', 'nspin', 'norb')})}: raises {type(e).__name__}: {e} "
                              f"[{traceback.format_exc().strip().splitlines()[-3].strip()}]")
    finally:
        shutil.rmtree(tmp, ignore_errors=True)
    raise ValueError(w["fmt"])
