"""C07 — symmetry reduction and symmetrisation are exact for symmetric systems (bookkeeping level)"""
import os, io, contextlib
import numpy as np
from symx.core import *
from symx.core import z3
from symx.npproxy import shadow
from symx.harness import Case, unarr
from props import rundriver as D
from props.rundriver import RG
import wannierberri.symmetry.point_symmetry as PS
from wannierberri.symmetry.point_symmetry import PointGroup, transform_ident, transform_odd, transform_trans, transform_odd_conj, Transform
from wannierberri.result import EnergyResult
from wannierberri.grid import Grid

PROPERTY = "C07"
FUNCTIONS = ["TabulatorAll / TABresult.transform / KBandResult.transform / TABresult.to_grid (tabulation cases shared with C30)", "wannierberri.run_grid.run (use_irred_kpt=True, symmetrize=True  vs  use_irred_kpt=False, symmetrize=False)", "run_grid.process", "Grid.get_K_list (symmetry reduction, absorb)",
             "KpointBZparallel.star/absorb", "PointGroup.symmetrize / star", "PointSymmetry.transform_tensor/transform_reduced_vector/rotate", "Transform.__call__",
             "EnergyResult.transform/__add__/__mul__/__truediv__", "ResultDict arithmetic"]
BOUNDS = dict(quick=dict(groups="C4z; C4z+Inversion; C2z*TimeReversal+Inversion; Mx+My; C2x+C2y (cubic cell); C3z (hexagonal cell)", grids="NKdiv 2x2x1, 2x2x2, 3x3x1 (NKFFT 1)",
                         tensors="rank 0..2, 2 energy points, declared TR/Inv transforms: ident, odd, odd+conj, transpose", data="symbolic complex per-K tensors"),
              thorough=dict(groups="as quick + C6z, C4z+Mx+TimeReversal", grids="as quick + 4x4x1, 4x4x2", tensors="rank 0..3", data="symbolic"))
EXPLANATION = ("The real run() is executed twice on a stand-in system with a real PointGroup: irreducible K-points + symmetrisation, and the full grid without. The per-K results are "
               "symbolic tensors T(K) that satisfy the assumption 'the system has the group', T(gK) = g.T(K) with the declared TR/inversion transforms (free atoms only on one "
               "representative per orbit, made invariant under its stabiliser). z3 decides that both runs and the explicit full-grid mean agree (1e-12, |data|<=1: rotation matrices are doubles).")
ASSUMPTIONS = ["T(gK) = g.T(K) for every group element, imposed by construction with the harness's own statement of the action (rotation of every Cartesian index by the proper part, then the declared TR / inversion behaviour by its meaning: factor, conjugation, transposition) - independent of PointSymmetry.transform_tensor / Transform.__call__, which run() uses",
               "grid compatible with the group (run() itself asserts this)", "|data| <= 1 for the tolerance obligations"]
OUTSIDE = ["the calculators themselves (cut: per-K results are symbolic)", "tabulated per-k values only for the small groups I, TR, I+TR (C2z, Mz*TR thorough) of the shared C30 symmetric cases", "refinement together with symmetry (C10)",
           "groups / grids beyond the stated ones"]
STUBS = ["data_k_class stub", "calculator stub returning a covariant family of symbolic EnergyResult tensors"]

TRANSFORMS = dict(ident=transform_ident, odd=transform_odd, trans=transform_trans, oddconj=transform_odd_conj)


class SysG:
    periodic = np.array([True, True, True])
    NKFFT_recommended = np.array([1, 1, 1])

    def __init__(s, gens, lattice):
        s.real_lattice = lattice
        s.recip_lattice = 2 * np.pi * np.linalg.inv(lattice).T
        s.pointgroup = PointGroup(list(gens), real_lattice=lattice)


LATT = dict(cubic=np.eye(3), hex=np.array([[1, 0, 0], [-0.5, np.sqrt(3) / 2, 0], [0, 0, 1.3]]))


def kkey(k):
    return tuple(int(x) for x in np.round((np.asarray(k, float) % 1) * 720720).astype(np.int64) % 720720)


def own_action(g, T, rank, kTR, kInv):
    """the harness's own statement of how a point-group operation acts on a tensor field value (independent of PointSymmetry.transform_tensor and
    Transform.__call__): rotate every Cartesian index with the proper part R, then apply the declared TR / inversion behaviour by its meaning"""
    T = np.asarray(T)
    nd = T.ndim
    R = lift(np.asarray(g.R, dtype=float)) if T.dtype == object else np.asarray(g.R, dtype=float)
    for ax in range(nd - rank, nd):
        T = np.moveaxis(np.tensordot(T, R, axes=([ax], [1])), -1, ax)          # T'[..a..] = sum_b R[a,b] T[..b..]

    def declared(kind, X):
        if kind == "ident":
            return X
        if kind == "odd":
            return -X
        if kind == "oddconj":
            return -np.conjugate(X)
        if kind == "trans":                                                      # transposes the two tensor indices
            return np.swapaxes(X, -1, -2)
        raise ValueError(kind)
    if g.TR:
        T = declared(kTR, T)
    if g.Inv:
        T = declared(kInv, T)
    return T.view(SymArray) if T.dtype == object else T


def build_family(sysobj, NKdiv, rank, nE, kTR, kInv, name="T", atoms_values=None):
    """covariant family {K: tensor}: free atoms on one representative per orbit, made invariant under its stabiliser, images by own_action"""
    pg = sysobj.pointgroup
    N = np.array(NKdiv)
    pts = [np.array([x, y, z]) / N for x in range(N[0]) for y in range(N[1]) for z in range(N[2])]
    fam = {}
    atoms = []
    ia = 0
    for ip, k0 in enumerate(pts):
        if kkey(k0) in fam:
            continue
        if atoms_values is None:
            A = symvec(f"{name}{ip}", (nE,) + (3,) * rank, real=False, lo=-1, hi=1)
        else:
            A = atoms_values(ia, (nE,) + (3,) * rank)
        ia += 1
        atoms.append(A)
        images = [(g, g.transform_reduced_vector(k0, sysobj.recip_lattice)) for g in pg.symmetries]
        stab = [g for g, k in images if kkey(k) == kkey(k0)]
        T0 = None
        for g in stab:
            t = own_action(g, A, rank, kTR, kInv)
            T0 = t if T0 is None else T0 + t
        T0 = T0 / len(stab)
        T0 = T0.view(SymArray) if T0.dtype == object else T0
        for g, k in images:
            kk = kkey(k)
            assert kk in {kkey(p) for p in pts}, "grid not invariant under the group"
            if kk not in fam:
                fam[kk] = own_action(g, T0, rank, kTR, kInv)
    return fam, atoms, pts


class CovResult(EnergyResult):
    """EnergyResult whose refinement criterion is a constant (refinement is not part of this property; avoids |complex| comparisons)"""
    @property
    def max(s):
        return np.zeros(1)


def make_calc(fam, nE, rank, tTR, tInv):
    class Calc:
        allow_grid = True
        allow_path = False
        comment = "stub"

        def __call__(s, data):
            K = data.Kpoint
            T = fam[kkey(K.Kp_fullBZ)]
            return CovResult([np.arange(float(nE))], T.copy(), transformTR=tTR, transformInv=tInv, save_mode="", rank=rank)
    return Calc()


def do_run(sysobj, calc, NKdiv, irred):
    with contextlib.redirect_stdout(io.StringIO()):
        g = Grid(system=sysobj, NKdiv=NKdiv, NKFFT=(1, 1, 1))
        with D.TmpDir() as tmp:
            return RG.run(sysobj, g, {'c': calc}, data_k_class=D.DKstub, parallel=False, adpt_num_iter=0, use_irred_kpt=irred, symmetrize=irred,
                          file_Klist_path=tmp, fout_name=os.path.join(tmp, "out"))


def case_sym(rec, gens, latt, NKdiv, rank, tTR, tInv):
    D.setup_symbolic()
    shadow([PS])
    sysobj = SysG(gens, LATT[latt])
    nE = 2
    fam, atoms, pts = build_family(sysobj, NKdiv, rank, nE, tTR, tInv)

    def body(rec):
        rec.witness = lambda env: dict(gens=gens, latt=latt, NKdiv=NKdiv, rank=rank, tTR=tTR, tInv=tInv, atoms=[env.arr(a) for a in atoms])
        calc = make_calc(fam, nE, rank, TRANSFORMS[tTR], TRANSFORMS[tInv])
        old = D.ResultDict.savedata
        D.ResultDict.savedata = lambda *a, **k: None
        try:
            irr = do_run(sysobj, calc, NKdiv, True).results['c'].data
            full = do_run(sysobj, calc, NKdiv, False).results['c'].data
        finally:
            D.ResultDict.savedata = old
        want = None
        for p in pts:
            want = fam[kkey(p)] if want is None else want + fam[kkey(p)]
        want = want / len(pts)
        rec.close("irreducible K-points + symmetrisation == full grid without symmetrisation", irr, full, 1e-12, bound=1.0,
                  key=f"run(): irreducible+symmetrised result differs from the full-grid result (rank {rank}, TR={tTR}, Inv={tInv})")
        rec.close("full-grid run == explicit mean over the grid", full, want, 1e-12, bound=1.0, key="run(): full-grid result differs from the mean over the grid")
        rec.close("irreducible run == explicit mean over the grid", irr, want, 1e-12, bound=1.0,
                  key=f"run(): irreducible+symmetrised result differs from the mean over the grid (rank {rank}, TR={tTR}, Inv={tInv})")
    rec.explore(body, [])


GROUPS = [(["C4z"], "cubic"), (["C4z", "Inversion"], "cubic"), (["C2z*TimeReversal", "Inversion"], "cubic"), (["Mx", "My"], "cubic"), (["C2x", "C2y"], "cubic"), (["C3z"], "hex")]


def tabulation_cases(tier):
    """per-k values of a tabulating calculator: irreducible K-points + symmetrisation + TABresult.to_grid vs the full grid (the symmetric cases of the C30 harness,
    run here because C07's statement includes tabulation: real run(), TabulatorAll, TABresult/KBandResult.transform, PointGroup.symmetrize, to_grid averaging)"""
    from props import c30
    return [Case("tabulation: " + c.name, c.fn, c.kwargs, timeout=c.timeout) for c in c30.cases(tier, 0) if c.name.startswith("symmetric")]


def cases(tier, seed):
    q = tier == "quick"
    out = tabulation_cases(tier)
    groups = GROUPS + ([] if q else [(["C6z"], "hex"), (["C4z", "Mx", "TimeReversal"], "cubic")])
    for gens, latt in groups:
        grids = [(2, 2, 1), (2, 2, 2)] if latt == "cubic" else [(3, 3, 1)]
        if latt == "cubic" and gens[0] != "C4z":
            grids.append((3, 3, 1) if q else (3, 3, 2))
        if not q and latt == "cubic":
            grids += [(4, 4, 1)]
        for NK in grids:
            for rank, tTR, tInv in [(0, "ident", "ident"), (1, "odd", "ident"), (1, "ident", "odd"), (2, "trans", "ident"), (2, "odd", "odd"), (1, "oddconj", "odd")] + \
                    ([] if q else [(3, "odd", "odd"), (3, "ident", "ident"), (2, "ident", "odd")]):
                if q and rank == 2 and NK == (2, 2, 2):
                    continue
                out.append(Case(f"{gens} {latt} NK={NK} rank={rank} TR={tTR} Inv={tInv}", case_sym, dict(gens=gens, latt=latt, NKdiv=NK, rank=rank, tTR=tTR, tInv=tInv),
                                timeout=900 if q else 2400))
    return out


def replay(rec):
    w = rec["witness"]
    if "kind" in w and "P" in w:          # a tabulation case borrowed from the C30 harness
        from props import c30
        return c30.replay(rec)
    sysobj = SysG(w["gens"], LATT[w["latt"]])
    NKdiv = tuple(w["NKdiv"])
    rank, nE = w["rank"], 2
    tTR, tInv = TRANSFORMS[w["tTR"]], TRANSFORMS[w["tInv"]]
    rng = np.random.RandomState(7)

    def vals(ia, shape):
        A = unarr(w["atoms"][ia]).astype(complex) if ia < len(w["atoms"]) else np.zeros(shape, complex)
        if np.abs(A).max() == 0:
            A = rng.uniform(-1, 1, shape) + 1j * rng.uniform(-1, 1, shape)
        return A
    fam, _, pts = build_family(sysobj, NKdiv, rank, nE, w["tTR"], w["tInv"], atoms_values=vals)
    calc = make_calc(fam, nE, rank, tTR, tInv)
    old = D.ResultDict.savedata
    D.ResultDict.savedata = lambda *a, **k: None
    try:
        irr = do_run(sysobj, calc, NKdiv, True).results['c'].data
        full = do_run(sysobj, calc, NKdiv, False).results['c'].data
    finally:
        D.ResultDict.savedata = old
    want = sum(fam[kkey(p)] for p in pts) / len(pts)
    e1, e2, e3 = np.abs(irr - full).max(), np.abs(full - want).max(), np.abs(irr - want).max()
    return bool(max(e1, e2, e3) > 1e-9), f"|irr-full|={e1:.2e} |full-mean|={e2:.2e} |irr-mean|={e3:.2e} gens={w['gens']} NK={NKdiv} rank={rank} TR={w['tTR']} Inv={w['tInv']}"
