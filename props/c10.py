"""C10 — adaptive refinement keeps the reported integral consistent"""
import os
import numpy as np
from symx.core import *
from symx.core import z3
from symx.harness import Case
from props import rundriver as D
from props.rundriver import RG

PROPERTY = "C10"
FUNCTIONS = ["wannierberri.run_grid.run (whole refinement loop, serial)", "run_grid.process", "run_grid.write_factors",
             "KpointBZ.set_result/get_result/dump_result/clear_result/get_result_factor/max/set_factor/add_factor",
             "KpointBZparallel.divide/absorb/equiv/star/distGamma", "grid.Kpoint.exclude_equiv_points", "Grid.get_K_list",
             "PointGroup.symmetrize (rank-0 results)", "ResultDict/EnergyResult arithmetic"]
BOUNDS = dict(quick=dict(grid="NKdiv 2x2x1 / 2x1x1, NKFFT 1", iterations="adpt_num_iter <= 2", adpt_fac="1, 2", adpt_mesh="2, (2,1,1), 3",
                         symmetry="none, C4z, Inversion (use_irred_kpt True/False)", storage="memory, dump_results, allow_restart, discarded (adpt_num_iter=0)",
                         criteria="1 or 2 refinement criteria per K-point"),
              thorough=dict(grid="NKdiv 2x2x1, 2x2x2, 3x1x1, 3x3x1", iterations="<= 3 (4 on 2x1x1 with mesh (2,1,1))", adpt_fac="1, 2", adpt_mesh="2, (2,1,1), 3", symmetry="none, C4z, Inversion, C2z",
                            storage="all", criteria="1 or 2"))
EXPLANATION = ("The real run() is driven with a stub data_k_class and a stub calculator whose per-K result r(K) and refinement priorities p(K) are symbolic atoms; "
               "which K-points are refined is decided by forks on the priorities, so every refinement history within the bounds is one path. After every iteration "
               "the result handed to savedata (and the returned one) must equal sum_K factor_K r(K) recomputed from the current K list: a linear identity decided by z3.")
ASSUMPTIONS = ["priorities positive (the real ones are norms)", "deep-chain case: a single refinement history (the newest first child is always refined), per-K results symbolic", "np.argsort(x)[-k:] modelled by k rounds of max selection (ties resolved like the first maximum)",
               "every refined factor stays >= 9e-7 (children >= 3e-8) within the bounds, so run()'s 1e-8 filter on weight changes is never active (below 1e-8 the code ignores the change: outside the claim)"]
OUTSIDE = ["more iterations / larger grids than stated", "parallel mode (C12)", "the physical content of r(K) (cut at the calculator)"]
STUBS = ["data_k_class stub", "calculator stub returning symbolic EnergyResult", "np.argsort -> LazyTop in run_grid", "ResultDict.savedata spy (observation point)", "real pickle / np.save files in a temp dir"]


def case_run(rec, NKdiv, gens, niter, adpt_fac, adpt_mesh, store, irred=True, nprio=1, chain=False):
    D.setup_symbolic()
    reg = D.Registry(nprio)
    ass = reg.assumptions(80 if not chain else 200)
    if chain:
        # one deep history: the first child created in every iteration has by far the largest priority, all others are <= 1
        nchild = int(np.prod(adpt_mesh if not isinstance(adpt_mesh, int) else [adpt_mesh] * 3))
        n0 = int(np.prod(NKdiv))
        first = [0] + [n0 + nchild * l for l in range(niter)]
        for i in range(200):
            p = z3.Real(f"p{i}_0")
            if i in first:
                ass.append(p >= 10 ** (4 * (first.index(i) + 1)))
            else:
                ass.append(p <= 1)

    def body(rec):
        reg.reg.clear()
        reg.evals.clear()
        rec.witness = lambda env: dict(NKdiv=NKdiv, gens=gens, niter=niter, adpt_fac=adpt_fac, adpt_mesh=adpt_mesh, store=store, irred=irred, nprio=nprio, chain=chain,
                                       values=D.registry_values(env, reg))
        obs = D.Observer(reg)
        obs.install()
        try:
            with D.TmpDir() as tmp:
                sysobj = D.Sys(gens)
                res = D.do_run(sysobj, D.make_calc(reg), NKdiv, niter, tmp, use_irred_kpt=irred, symmetrize=irred, adpt_fac=adpt_fac, adpt_mesh=adpt_mesh, **store)
                final = SymC.of(res.results['c'].data[0])
                exp_final = obs.expected()
        finally:
            obs.uninstall()
        rec.concrete("one saved result per iteration", [s[0] for s in obs.snaps] == list(range(niter + 1)), detail=str([s[0] for s in obs.snaps]),
                     key="run() does not save a result after every iteration")
        for it, got, exp, ws in obs.snaps:
            rec.concrete(f"iteration {it}: all K-points with weight are evaluated", exp is not None, key="K-point with non-zero weight not evaluated")
            if exp is None:
                continue
            rec.eq(f"iteration {it}: saved result == sum_K factor_K r(K)", got, exp, key=f"saved result after an iteration differs from the weighted sum over the K list (storage={sorted(store)})")
            rec.concrete(f"iteration {it}: sum of weights == 1", abs(ws - 1) < 1e-9, detail=str(ws), key="K-point weights do not sum to 1")
        rec.eq("returned result == sum_K factor_K r(K)", final, exp_final, key="returned result differs from the weighted sum over the K list")
        rec.concrete("each K-point evaluated once", len(reg.evals) == len(set(reg.evals)), key="a K-point is evaluated twice")
    rec.explore(body, ass, maxpaths=20000)


def cases(tier, seed):
    q = tier == "quick"
    out = []
    stores = [("memory", {}), ("dump", dict(dump_results=True)), ("restart", dict(allow_restart=True))]
    for gens in [[], ["C4z"], ["Inversion"]] + ([] if q else [["C2z"]]):
        for name, st in stores:
            for fac in (1, 2):
                if fac == 2 and (name != "memory") and q:
                    continue
                out.append(Case(f"2x2x1 gens={gens} niter=2 fac={fac} mesh=2 store={name}", case_run,
                                dict(NKdiv=(2, 2, 1), gens=gens, niter=2 if fac == 1 else 1, adpt_fac=fac, adpt_mesh=2, store=st), timeout=900 if q else 3000))
    out.append(Case("2x1x1 noSym niter=2 mesh=(2,1,1) two criteria", case_run, dict(NKdiv=(2, 1, 1), gens=[], niter=2, adpt_fac=1, adpt_mesh=(2, 1, 1), store={}, nprio=2), timeout=900))
    out.append(Case("2x2x1 C4z niter=1 mesh=3", case_run, dict(NKdiv=(2, 2, 1), gens=["C4z"], niter=1, adpt_fac=1, adpt_mesh=3, store={}), timeout=900))
    out.append(Case("2x2x1 C4z niter=1 full grid (use_irred_kpt=False)", case_run, dict(NKdiv=(2, 2, 1), gens=["C4z"], niter=1, adpt_fac=1, adpt_mesh=2, store={}, irred=False), timeout=900))
    out.append(Case("3x1x1 noSym niter=1 mesh=2 (non-dyadic weights)", case_run, dict(NKdiv=(3, 1, 1), gens=[], niter=1, adpt_fac=1, adpt_mesh=2, store={}), timeout=900))
    out.append(Case("2x1x1 noSym niter=2 mesh=3 (non-dyadic weights)", case_run, dict(NKdiv=(2, 1, 1), gens=[], niter=2, adpt_fac=1, adpt_mesh=3, store={}, irred=False), timeout=1500))
    out.append(Case("2x1x1 noSym niter=5 mesh=3 deep chain (a K-point of weight 9.4e-7 is refined)", case_run,
                    dict(NKdiv=(2, 1, 1), gens=[], niter=5, adpt_fac=1, adpt_mesh=3, store={}, irred=False, chain=True), timeout=1500))
    out.append(Case("2x2x1 noSym niter=0 discarded", case_run, dict(NKdiv=(2, 2, 1), gens=[], niter=0, adpt_fac=1, adpt_mesh=2, store={}), timeout=600))
    if not q:
        out.append(Case("2x2x2 Inversion niter=2", case_run, dict(NKdiv=(2, 2, 2), gens=["Inversion"], niter=2, adpt_fac=1, adpt_mesh=2, store={}), timeout=3000))
        out.append(Case("2x1x1 noSym niter=3 mesh=(2,1,1)", case_run, dict(NKdiv=(2, 1, 1), gens=[], niter=3, adpt_fac=1, adpt_mesh=(2, 1, 1), store=dict(dump_results=True)), timeout=3000))
        for st_name, st in stores:
            out.append(Case(f"2x2x1 gens=['C4z'] niter=3 fac=1 mesh=2 store={st_name}", case_run, dict(NKdiv=(2, 2, 1), gens=["C4z"], niter=3, adpt_fac=1, adpt_mesh=2, store=st), timeout=6000))
        out.append(Case("2x2x1 gens=['C4z'] niter=1 fac=2 two criteria", case_run, dict(NKdiv=(2, 2, 1), gens=["C4z"], niter=1, adpt_fac=2, adpt_mesh=2, store={}, nprio=2), timeout=6000))
        out.append(Case("2x2x2 gens=['C4z'] niter=1 mesh=2", case_run, dict(NKdiv=(2, 2, 2), gens=["C4z"], niter=1, adpt_fac=1, adpt_mesh=2, store={}), timeout=6000))
        out.append(Case("3x3x1 gens=['C4z'] niter=2 mesh=2 (non-dyadic)", case_run, dict(NKdiv=(3, 3, 1), gens=["C4z"], niter=2, adpt_fac=1, adpt_mesh=2, store=dict(allow_restart=True)), timeout=6000))
        out.append(Case("2x1x1 noSym niter=4 mesh=(2,1,1) dump", case_run, dict(NKdiv=(2, 1, 1), gens=[], niter=4, adpt_fac=1, adpt_mesh=(2, 1, 1), store=dict(dump_results=True)), timeout=6000))
        out.append(Case("3x1x1 C2z niter=2 fac=2", case_run, dict(NKdiv=(3, 1, 1), gens=["C2z"], niter=2, adpt_fac=2, adpt_mesh=2, store=dict(allow_restart=True)), timeout=3000))
    # a run continued from the files of an earlier iteration (harness of C11): its obligations "saved result == weighted sum over the current K list"
    # and "weights sum to one" are this property on the K lists a restart produces
    from props import c11
    out += [c for c in c11.cases(tier, seed) if "continued from the earlier iteration" in c.name and ("store=restart" in c.name or not q)]
    return out


def replay(rec):
    w = rec["witness"]
    if w.get("test") == "earlier":
        from props import c11
        return c11.replay_earlier(w)
    reg = D.ConcreteRegistry(w["values"])
    reg.nprio = w["nprio"]
    obs = D.ConcreteObserver(reg)
    obs.install()
    try:
        with D.TmpDir() as tmp:
            sysobj = D.Sys(w["gens"])
            mesh = w["adpt_mesh"] if isinstance(w["adpt_mesh"], int) else tuple(w["adpt_mesh"])
            res = D.do_run(sysobj, D.make_concrete_calc(reg), tuple(w["NKdiv"]), w["niter"], tmp, use_irred_kpt=w["irred"], symmetrize=w["irred"],
                           adpt_fac=w["adpt_fac"], adpt_mesh=mesh, **w["store"])
            final = float(res.results['c'].data[0])
            exp_final = obs.expected()
    except Exception as e:
        return True, f"run() raises {type(e).__name__}: {e}"
    finally:
        obs.uninstall()
    msgs = []
    bad = [s[0] for s in obs.snaps] != list(range(w["niter"] + 1))
    for it, got, exp, ws in obs.snaps:
        if exp is None or abs(got - exp) > 1e-9 * max(1, abs(exp)) or abs(ws - 1) > 1e-9:
            bad = True
        msgs.append(f"iter {it}: saved {got} expected {exp} sum_w {ws}")
    if exp_final is None or abs(final - exp_final) > 1e-9 * max(1, abs(exp_final)):
        bad = True
    if len(reg.evals) != len(set(reg.evals)):
        bad = True
        msgs.append("K-point evaluated twice")
    return bool(bad), "; ".join(msgs) + f"; returned {final} expected {exp_final}"
