"""C32 — tight-binding imports reproduce the source model"""
import sys, types, math, cmath, itertools, collections
import numpy as np
from symx.core import *
from symx.core import z3
from symx.npproxy import NpProxy, shadow
from symx.harness import Case
import symx.harness  # noqa (puts the repo on sys.path)
import wannierberri.system.system_tb_py as TB
import wannierberri.models as MODELS

PROPERTY = "C32"
FUNCTIONS = ["wannierberri.system.system_tb_py.get_system_tb_py (tbmodels, pythtb 2.0 and pythtb 1.x layouts, spinless and spinful)",
             "wannierberri.models.Haldane_ptb", "wannierberri.models.Haldane_tbm",
             "wannierberri.fourier.rvectors.Rvectors.set_fft_R_to_k/R_to_k (k-list transform, used to evaluate the imported H(k))"]
BOUNDS = dict(
    quick=dict(dim="1..3", orbitals="1..3", hoppings="<=4 incl. R=0, repeated pairs, R and -R on different pairs, repeated (i,j,R) entries and both members of a conjugate pair (all layouts)", amplitudes="symbolic complex (2x2 symbolic complex blocks if spinful)",
               onsite="symbolic real (2x2 symbolic Hermitian blocks if spinful)", k="3 generic concrete k-points (|error|<=1e-12 for |data|<=1) and one fully symbolic k (exact)",
               builders="Haldane_ptb (new and 1.x API branch) vs Haldane_tbm with symbolic delta, hop1, hop2 and symbolic phi (unit-circle atoms)"),
    thorough=dict(dim="1..3", orbitals="1..6 (spinful up to 4, i.e. 8x8)", hoppings="quick family plus a seeded family of 48 TBmodels and 120 PythTB model shapes: up to 10 hoppings (+ repeated entries and conjugate partners), "
                  "R components in [-3,3], two lattice sets (the second strongly non-orthogonal), both PythTB layouts", amplitudes="as quick", onsite="as quick", k="5 concrete + symbolic",
                  builders="as quick, plus every subset of {delta, hop1, hop2, phi} symbolic with the others at the builders' defaults, both pythtb API branches"))
EXPLANATION = ("The real get_system_tb_py runs on duck-typed model objects (exactly the attributes it reads) whose hopping amplitudes and on-site terms are symbolic; "
               "the Hamiltonian it builds is evaluated with the code's own k-list transform and compared by z3 with a short statement of each library's documented H(k) "
               "(PythTB convention I / TBmodels convention 1 incl. orbital-position phases at concrete k; TBmodels convention 2 = R-only gauge at symbolic k), up to the diagonal gauge exp(2 pi i k.t); Ham(-R)=Ham(R)^+ is checked exactly. "
               "The builder pair Haldane_ptb/Haldane_tbm runs with symbolic parameters against recording stand-ins of the pythtb/tbmodels modules and both records are imported "
               "by the real importer; the two systems must be identical polynomials in the parameters.")
ASSUMPTIONS = ["TBmodels: model.hop is a dict R -> matrix; H(k) = sum over its keys + h.c. (the documented hamilton()), also when both R and -R are keys (tbmodels itself folds such pairs before storing)",
               "PythTB: the hopping list may contain the same (i,j,R) several times and both members of a conjugate pair (i,j,R)/(j,i,-R) (set_hop(..., allow_conjugate_pair=True)): documented behaviour = the terms add up; "
               "no R=0 i==j hopping (rejected by pythtb itself)",
               "lattice vectors and orbital positions are concrete (enumerated), amplitudes symbolic"]
OUTSIDE = ["TBmodels models without a unit cell (uc=None): get_system_tb_py needs model.uc and raises AttributeError; TBmodels positions outside [0,1) never reach the importer (tbmodels maps them into the home cell itself)", "whether reducing PythTB orbital positions into the home cell without shifting the hopping R-vectors preserves position-dependent quantities (energies are unaffected; only centres == positions mod lattice vectors is demanded)", "band energies themselves (eigenvalues): equality of H(k) up to a diagonal unitary gauge implies equal energies", "other bundled builders have no TBmodels twin (only the Haldane pair exists)",
           "pythtb/tbmodels internals: the recording stand-ins implement the documented set_onsite/set_hop/add_hop/on_site semantics and are validated against the installed libraries on concrete parameters",
           "symbolic-k identity treats the phases of different R as independent unit-circle atoms and removes the PythTB position phases analytically; the full convention-I formula is checked at concrete k"]
STUBS = ["pythtb stand-in module (__version__, Lattice, TBModel / tb_model with set_onsite, set_hop recording what the real classes expose: lat_vecs/_lat, get_orb_vecs/_orb, norb/_norb, hoppings/_hoppings, _nspin, _site_energies)",
         "tbmodels stand-in module (Model(on_site, uc, dim, occ, pos), add_hop as documented: H_{o1,o2}(R)=overlap, conjugate implied, R=0 and negative-half R folded as tbmodels does)",
         "np proxy in system_tb_py: dtype=complex allocations symbolic, everything else (lattice, centres, R-vectors) concrete numpy", "print/cprint silenced"]

TWO_PI_J = 2j * np.pi


class Np32(NpProxy):
    """only complex allocations are symbolic; lattice / centres / R-vectors stay concrete numpy"""

    def zeros(s, shape, dtype=None, **k):
        if dtype in (complex, np.complex128, 'complex'):
            return super().zeros(shape, dtype)
        return np.zeros(shape, dtype=dtype or float)

    def eye(s, n, *a, **k):
        return np.eye(n, *a, **k)


def _quiet():
    shadow([TB], Np32(), print=lambda *a, **k: None, cprint=lambda *a, **k: None)


# ------------------------------------------------------------------------------------------------------------
# duck-typed models (exactly the attributes get_system_tb_py reads)
class Duck:
    pass


LATS = {1: [[1.3]], 2: [[1.0, 0.0], [0.5, 0.9]], 3: [[1.0, 0.1, 0.0], [0.2, 1.1, 0.0], [0.0, 0.3, 0.8]]}
POS = {1: [[0.0], [0.25], [0.6], [0.85], [0.4], [0.125]], 2: [[1 / 3, 1 / 3], [2 / 3, 0.5], [0.1, 0.8], [0.55, 0.05], [0.9, 0.35], [0.2, 0.15]],
       3: [[0.0, 0.0, 0.0], [0.25, 0.5, 0.125], [0.5, 0.75, 0.3], [0.7, 0.2, 0.9], [0.1, 0.9, 0.6], [0.85, 0.4, 0.45]], }
LATS_B = {1: [[0.7]], 2: [[1.0, 0.8], [-0.3, 1.1]], 3: [[1.0, 0.9, 0.0], [0.2, 0.6, 0.7], [-0.5, 0.3, 0.8]]}      # strongly non-orthogonal cells (thorough tier)
_LATV = ["A"]


def lat(dim):
    return (LATS if _LATV[0] == "A" else LATS_B)[dim]


def tbm_duck(dim, size, hop):
    m = Duck()
    m.uc = np.array(lat(dim))
    m.size = size
    m.pos = np.array(POS[dim][:size])
    m.hop = hop
    return m


def ptb_pos(dim, norb):
    """PythTB accepts orbital positions outside the home cell: the last orbital is moved out"""
    pos = [list(p) for p in POS[dim][:norb]]
    pos[-1] = [x + (1 if a == 0 else -1) for a, x in enumerate(pos[-1])]
    return pos


def ptb_duck(layout, dim, norb, nspin, hops, onsite):
    """hops: list of (amp, i, j, R tuple)"""
    m = Duck()
    lat_, orb = np.array(lat(dim)), np.array(ptb_pos(dim, norb))
    if layout == "1.x":
        m._lat, m._orb, m._norb = lat_, orb, norb
        m._hoppings = [[a, i, j, np.array(R)] for a, i, j, R in hops]
    else:
        m.lat_vecs, m.norb = lat_, norb
        m.get_orb_vecs = lambda cartesian=False: orb if not cartesian else orb @ lat_
        m.hoppings = []
        for a, i, j, R in hops:
            d = dict(amplitude=a, from_orbital=i, to_orbital=j)
            if any(R):
                d["lattice_vector"] = list(R)       # pythtb 2.0 omits the key for R=0
            m.hoppings.append(d)
    m._nspin = nspin
    m._site_energies = onsite
    return m


def fake_pythtb(ver):
    mod = types.ModuleType("pythtb")
    mod.__version__ = ver
    return mod


class patched_modules:
    def __init__(s, **mods):
        s.mods = mods

    def __enter__(s):
        s.saved = {k: sys.modules.get(k) for k in s.mods}
        sys.modules.update(s.mods)

    def __exit__(s, *a):
        for k, v in s.saved.items():
            if v is None:
                sys.modules.pop(k, None)
            else:
                sys.modules[k] = v


# ------------------------------------------------------------------------------------------------------------
# references: each library's documented H(k)
def phase(k, v):
    """exp(2 pi i k.v) with the same operation order as the code under test (k.v first, then * 2j*pi)"""
    x = sum((k[a] * v[a] for a in range(len(v))), 0)
    x = TWO_PI_J * x
    return x.exp() if isinstance(x, SymC) else cmath.exp(x)


def href_tbmodels(hop, k, size, pos=None):
    """TBmodels: H(k) = sum_R hop[R] exp(2 pi i k.R) + h.c.   (convention 2; convention 1 conjugates with exp(2 pi i k.pos))"""
    H = np.zeros((size, size), dtype=object)
    for R, h in hop.items():
        H = H + np.asarray(h, dtype=object) * phase(k, R)
    H = H + np.conjugate(H.T)
    if pos is not None:                                  # convention 1: conj(p_i) H_ij p_j with p_i = exp(2 pi i k.pos_i)
        P = gauge(k, pos, 1)
        H = np.conjugate(P)[:, None] * H * P[None, :]
    return H


def href_pythtb(hops, onsite, k, norb, nspin, pos, with_positions):
    """PythTB (convention I): H_ij(k) = sum_hops amp exp(2 pi i k.(R + t_j - t_i)) [block (i,j)] + h.c. + onsite_i [block (i,i)]"""
    n = norb * nspin
    H = np.zeros((n, n), dtype=object)
    for a, i, j, R in hops:
        v = [R[d] + (pos[j][d] - pos[i][d] if with_positions else 0) for d in range(len(R))]
        blk = np.zeros((n, n), dtype=object)
        if nspin == 1:
            blk[i, j] = a
        else:
            blk[2 * i:2 * i + 2, 2 * j:2 * j + 2] = a
        H = H + blk * phase(k, v)
    H = H + np.conjugate(H.T)
    for i in range(norb):
        if nspin == 1:
            H[i, i] = H[i, i] + onsite[i]
        else:
            H[2 * i:2 * i + 2, 2 * i:2 * i + 2] = H[2 * i:2 * i + 2, 2 * i:2 * i + 2] + onsite[i]
    return H


def gauge(k, pos, nspin):
    """D = diag(exp(2 pi i k.t_i)):  H_WB (phases exp(ikR) only) = D H_conventionI D^+"""
    d = []
    for p in pos:
        d += [phase(k, list(p))] * nspin
    return np.array(d, dtype=object if any(isinstance(x, SymC) for x in d) else complex)


def h_wb(system, klist, hermitian=False):
    """the imported system's H(k) through the code's own k-list transform"""
    rv = system.rvec.copy()
    rv.set_fft_R_to_k(NK=None, num_wann=system.num_wann, k_list=klist)
    return rv.R_to_k(system.get_R_mat('Ham').copy(), hermitian=hermitian)


KCONC = [[0.1, 0.2, 0.35], [0.37, -0.11, 0.05], [0.5, 0.25, 0.8], [0.013, 0.77, 0.61], [0.9, 0.45, 0.123]]


def pad3(v):
    return list(v) + [0] * (3 - len(v))


def check_import(rec, system, dim, n, nspin, pos, Rs, href_conv, href_Ronly, tag, nkc):
    """obligations shared by all layouts"""
    # R-vector set
    want = sorted(set([tuple(pad3(R)) for R in Rs] + [tuple(pad3([-x for x in R])) for R in Rs] + [(0, 0, 0)]))
    got = sorted(tuple(int(x) for x in r) for r in system.rvec.iRvec)
    rec.concrete(f"{tag}: R-vectors = {{0}} U {{+-R of the hoppings}}", got == want, detail=f"{got} vs {want}", key=f"{tag} import: wrong R-vector set")
    Ham = system.get_R_mat('Ham')
    rec.concrete(f"{tag}: shape of Ham_R", Ham.shape == (len(want), n, n), detail=str(Ham.shape), key=f"{tag} import: wrong Ham_R shape")
    # hermiticity in R space
    idx = {r: i for i, r in enumerate(got)}
    HmR = sarr(np.array([np.conjugate(np.asarray(Ham[idx[tuple(-x for x in r)]], dtype=object).T) for r in got], dtype=object))
    rec.eq(f"{tag}: Ham(-R) == Ham(R)^+", Ham, HmR, key=f"{tag} import: Ham_R not Hermitian")
    # centres and lattice
    wc = np.array([pad3(np.array(p)) for p in pos for _ in range(nspin)])
    rl = np.eye(3)
    rl[:dim, :dim] = np.array(lat(dim))
    dwc = np.asarray(system.wannier_centers_red, dtype=float) - wc if np.shape(system.wannier_centers_red) == wc.shape else np.full(wc.shape, 0.5)
    ok = np.allclose(dwc, np.round(dwc), atol=1e-12) and np.allclose(system.real_lattice, rl, atol=1e-12) and system.num_wann == n
    rec.concrete(f"{tag}: lattice, centres (equal to the orbital positions up to lattice vectors), num_wann", bool(ok), key=f"{tag} import: lattice / centres / num_wann differ from the model")
    # H(k) at concrete k: documented formula incl. position phases, gauge transformed
    kc = np.array(KCONC[:nkc])
    Hk = h_wb(system, kc)
    for ik, k in enumerate(kc):
        D = gauge(k[:dim], pos, nspin)
        ref = href_conv(k[:dim])
        ref = D[:, None] * ref * np.conjugate(D)[None, :]
        rec.close(f"{tag}: H_WB(k) == D H_lib(k) D^+ at k={k[:dim].tolist()} (1e-12, |data|<=1)", Hk[ik], sarr(ref), 1e-12, bound=1.0,
                  key=f"{tag} import: H(k) differs from the library's documented H(k)")
    # symbolic k, phases exp(2 pi i k.R) as unit-circle atoms (exact)
    ks = symvec("k", (1, 3))
    Hs = h_wb(system, ks)
    rec.eq(f"{tag}: H_WB(k) == H_lib(k) in the R-only gauge, symbolic k", Hs[0], sarr(href_Ronly(ks[0, :dim])), key=f"{tag} import: H(k) differs from the library's documented H(k)")


# ------------------------------------------------------------------------------------------------------------
def sym_hop_mats(Rs, size):
    return {tuple(R): symvec(f"h{i}", (size, size), real=False) for i, R in enumerate(Rs)}


def case_tbm(rec, dim, size, Rs, nkc, latv="A"):
    _LATV[0] = latv
    _quiet()
    hop = sym_hop_mats(Rs, size)

    def body(rec):
        rec.witness = lambda env: dict(kind="tbm", latv=latv, dim=dim, size=size, Rs=[list(R) for R in Rs], hop=[env.arr(hop[tuple(R)]) for R in Rs], nkc=nkc)
        model = tbm_duck(dim, size, {R: h.copy() for R, h in hop.items()})
        system = TB.get_system_tb_py(model, 'tbmodels')
        pos = POS[dim][:size]
        check_import(rec, system, dim, size, 1, pos, Rs, lambda k: href_tbmodels(hop, k, size, pos), lambda k: href_tbmodels(hop, k, size), "tbmodels", nkc)
    rec.explore(body, [])


def sym_ptb_data(hopspec, norb, nspin):
    hops = []
    for n, (i, j, R) in enumerate(hopspec):
        a = symvec(f"t{n}", (2, 2), real=False) if nspin == 2 else (SymC.var(f"t{n}r") + SymC.of(1j) * SymC.var(f"t{n}i"))
        hops.append((a, i, j, tuple(R)))
    if nspin == 1:
        onsite = symvec("e", (norb,))
    else:
        onsite = sarr(np.array([herm(f"e{i}", 2) for i in range(norb)], dtype=object))
    return hops, onsite


def case_ptb(rec, layout, dim, norb, nspin, hopspec, nkc, latv="A"):
    _LATV[0] = latv
    _quiet()
    hops, onsite = sym_ptb_data(hopspec, norb, nspin)
    pos = ptb_pos(dim, norb)

    def body(rec):
        rec.witness = lambda env: dict(kind="ptb", latv=latv, layout=layout, dim=dim, norb=norb, nspin=nspin, hopspec=[[i, j, list(R)] for i, j, R in hopspec],
                                       amps=[env.arr(np.asarray(a, dtype=object)) for a, *_ in hops], onsite=env.arr(onsite), nkc=nkc)
        model = ptb_duck(layout, dim, norb, nspin, [(a.copy() if isinstance(a, np.ndarray) else a, i, j, R) for a, i, j, R in hops], onsite.copy())
        with patched_modules(pythtb=fake_pythtb("1.9.0" if layout == "1.x" else "2.0.0")):
            system = TB.get_system_tb_py(model, 'pythtb')
        check_import(rec, system, dim, norb * nspin, nspin, pos, [R for *_, R in hops],
                     lambda k: href_pythtb(hops, onsite, k, norb, nspin, pos, True), lambda k: href_pythtb(hops, onsite, k, norb, nspin, pos, False),
                     f"pythtb {layout} nspin={nspin}", nkc)
    rec.explore(body, [])


# ------------------------------------------------------------------------------------------------------------
# recording stand-ins for the builder pair
def make_pythtb_standin(ver):
    mod = fake_pythtb(ver)

    class Lattice:
        def __init__(s, lat_vecs, orb_vecs, periodic_dirs=()):
            s.lat_vecs, s.orb_vecs, s.periodic_dirs = np.array(lat_vecs, dtype=float), np.array(orb_vecs, dtype=float), periodic_dirs

    class _Rec:
        def _init(s, lat, orb, spinful):
            s._lat_, s._orb_ = np.array(lat, dtype=float), np.array(orb, dtype=float)
            s._n = len(s._orb_)
            s._nspin = 2 if spinful else 1
            s._site_energies = sarr([SymC.of(0)] * s._n)
            s._hops = []

        def set_onsite(s, onsite_en, ind_i=None, mode="set"):
            """documented: sets (mode='set') the on-site energy of every orbital (list) or of orbital ind_i"""
            vals = list(onsite_en) if ind_i is None else None
            for i in range(s._n):
                if ind_i is None:
                    s._site_energies[i] = SymC.of(vals[i])
                elif i == ind_i:
                    s._site_energies[i] = SymC.of(onsite_en)

        def set_hop(s, hop_amp, ind_i, ind_j, ind_R=None, mode="set", allow_conjugate_pair=False):
            """documented: amplitude of hopping from orbital i in the home cell to orbital j in cell R: <i,0|H|j,R> = amp (conjugate implied)"""
            R = [0] * s._lat_.shape[0] if ind_R is None else [int(x) for x in ind_R]
            for n, (a, i, j, R2) in enumerate(s._hops):
                if (i, j, R2) == (ind_i, ind_j, R):
                    s._hops[n] = (hop_amp if mode == "set" else a + hop_amp, i, j, R)
                    return
                if (i, j, R2) == (ind_j, ind_i, [-x for x in R]) and not allow_conjugate_pair:
                    raise ValueError("conjugate partner already set")
            s._hops.append((hop_amp, ind_i, ind_j, R))

    class TBModel(_Rec):                                  # pythtb >= 2.0
        def __init__(s, lattice, spinful=False):
            s._init(lattice.lat_vecs, lattice.orb_vecs, spinful)

        lat_vecs = property(lambda s: s._lat_)
        norb = property(lambda s: s._n)

        def get_orb_vecs(s, cartesian=False):
            return s._orb_ @ s._lat_ if cartesian else s._orb_

        @property
        def hoppings(s):
            out = []
            for a, i, j, R in s._hops:
                d = dict(amplitude=a, from_orbital=i, to_orbital=j)
                if any(R):
                    d["lattice_vector"] = list(R)
                out.append(d)
            return out

    class tb_model(_Rec):                                 # pythtb 1.x
        def __init__(s, dim_k, dim_r, lat=None, orb=None, per=None, nspin=1):
            s._init(lat, orb, nspin == 2)

        _lat = property(lambda s: s._lat_)
        _orb = property(lambda s: s._orb_)
        _norb = property(lambda s: s._n)
        _hoppings = property(lambda s: [[a, i, j, np.array(R)] for a, i, j, R in s._hops])

    mod.Lattice, mod.TBModel, mod.tb_model = Lattice, TBModel, tb_model
    return mod


def make_tbmodels_standin():
    mod = types.ModuleType("tbmodels")
    mod.__version__ = "1.4.3"

    class Model:
        def __init__(s, *, on_site=None, hop=None, size=None, dim=None, occ=None, pos=None, uc=None, **kw):
            s.size = len(on_site) if size is None else size
            s.dim = dim
            s.uc = None if uc is None else np.array(uc)
            s.pos = np.array(pos, dtype=float) % 1
            assert np.all(np.floor(np.array(pos)) == 0), "stand-in: positions must lie in the home cell"
            s.occ = occ
            s.hop = collections.OrderedDict()
            if on_site is not None:
                s._add((0,) * dim, [(i, i, SymC.of(e) * SymC.of(0.5)) for i, e in enumerate(on_site)])

        def _add(s, R, entries):
            if R not in s.hop:
                s.hop[R] = sarr(np.full((s.size, s.size), SymC.of(0), dtype=object))
            for i, j, v in entries:
                s.hop[R][i, j] = s.hop[R][i, j] + v

        def add_hop(s, overlap, orbital_1, orbital_2, R):
            """documented: H_{o1,o2}(R) = <o1,0|H|o2,R> += overlap, the conjugate is implied; stored as tbmodels stores it
            (R=0: half of overlap and of its conjugate; first non-zero component of R negative: folded to -R)"""
            R = tuple(int(x) for x in R)
            ov = SymC.of(overlap)
            nz = [x for x in R if x != 0]
            if not nz:
                s._add(R, [(orbital_1, orbital_2, ov / 2), (orbital_2, orbital_1, ov.conjugate() / 2)])
            elif nz[0] > 0:
                s._add(R, [(orbital_1, orbital_2, ov)])
            else:
                s._add(tuple(-x for x in R), [(orbital_2, orbital_1, ov.conjugate())])

    mod.Model = Model
    return mod


def ham_by_R(system):
    Ham = system.get_R_mat('Ham')
    return {tuple(int(x) for x in r): Ham[i] for i, r in enumerate(system.rvec.iRvec)}


def case_builders(rec, ptb_version, symbolic=("delta", "hop1", "hop2", "phi")):
    """the parameters named in `symbolic` are symbolic, the others are left at the builders' defaults"""
    _quiet()
    undo = shadow([MODELS])
    delta, hop1, hop2, phi = SymC.var("delta"), SymC.var("hop1"), SymC.var("hop2"), SymC.var("phi")
    c, s_ = phi.cos(), phi.sin()
    kw = {k: v for k, v in dict(delta=delta, hop1=hop1, hop2=hop2, phi=phi).items() if k in symbolic}

    def body(rec):
        rec.witness = lambda env: dict(kind="builders", symbolic=list(symbolic), delta=env.val(delta), hop1=env.val(hop1), hop2=env.val(hop2), cos_phi=env.val(c), sin_phi=env.val(s_))
        with patched_modules(pythtb=make_pythtb_standin(ptb_version), tbmodels=make_tbmodels_standin()):
            mp = MODELS.Haldane_ptb(**kw)
            mt = MODELS.Haldane_tbm(**kw)
            sp = TB.get_system_tb_py(mp, 'pythtb')
            st = TB.get_system_tb_py(mt, 'tbmodels')
        same_geo = np.allclose(sp.real_lattice, st.real_lattice, atol=1e-12) and np.allclose(sp.wannier_centers_red, st.wannier_centers_red, atol=1e-12) and sp.num_wann == st.num_wann
        rec.concrete("Haldane_ptb / Haldane_tbm: same lattice, centres, num_wann", bool(same_geo), key="Haldane builders: geometry differs")
        hp, ht = ham_by_R(sp), ham_by_R(st)
        zero = sarr(np.full((2, 2), SymC.of(0), dtype=object))
        for R in sorted(set(hp) | set(ht)):
            what = "on-site / R=0 block" if R == (0, 0, 0) else "hopping blocks R!=0"
            rec.eq(f"Haldane_ptb == Haldane_tbm : Ham(R={R})", hp.get(R, zero), ht.get(R, zero),
                   key=f"Haldane_ptb and Haldane_tbm built with the same parameters differ in the {what}")
    rec.explore(body, [])
    undo()


# ------------------------------------------------------------------------------------------------------------
# validation of stand-ins and references against the installed libraries (concrete)
def case_validation(rec, seed):
    import warnings, io, contextlib
    rng = np.random.default_rng(seed)
    notes = []
    bad = []
    try:
        import pythtb, tbmodels
    except Exception as e:                                    # pragma: no cover
        rec.note(f"stand-in validation skipped: {e!r}")
        pythtb = tbmodels = None
    if pythtb is not None:
        with warnings.catch_warnings(), contextlib.redirect_stderr(io.StringIO()):
            warnings.simplefilter("ignore")
            for trial in range(4):
                d, h1, h2, ph = rng.uniform(-1, 1, 4)
                # recording stand-ins vs real classes: what the importer reads
                real_p = MODELS.Haldane_ptb(d, h1, h2, ph)
                real_t = MODELS.Haldane_tbm(d, h1, h2, ph)
                with patched_modules(pythtb=make_pythtb_standin("2.0.0"), tbmodels=make_tbmodels_standin()):
                    rec_p = MODELS.Haldane_ptb(d, h1, h2, ph)
                    rec_t = MODELS.Haldane_tbm(d, h1, h2, ph)
                f = lambda x: complex(x)
                hp_real = [(f(h["amplitude"]), h["from_orbital"], h["to_orbital"], tuple(h.get("lattice_vector", ()))) for h in real_p.hoppings]
                hp_rec = [(f(h["amplitude"]), h["from_orbital"], h["to_orbital"], tuple(h.get("lattice_vector", ()))) for h in rec_p.hoppings]
                if not (len(hp_real) == len(hp_rec) and all(abs(a[0] - b[0]) < 1e-12 and a[1:] == b[1:] for a, b in zip(hp_real, hp_rec))
                        and np.allclose(np.array([f(x) for x in rec_p._site_energies]), real_p._site_energies) and np.allclose(rec_p.lat_vecs, real_p.lat_vecs)
                        and np.allclose(rec_p.get_orb_vecs(cartesian=False), real_p.get_orb_vecs(cartesian=False)) and rec_p.norb == real_p.norb and rec_p._nspin == real_p._nspin):
                    bad.append(("pythtb stand-in", trial))
                ht_real = {tuple(R): np.array(h) for R, h in real_t.hop.items()}
                ht_rec = {R: np.array([[f(x) for x in row] for row in h]) for R, h in rec_t.hop.items()}
                if not (set(ht_real) == set(ht_rec) and all(np.allclose(ht_real[R], ht_rec[R]) for R in ht_real) and np.allclose(real_t.pos, rec_t.pos)
                        and np.allclose(real_t.uc, rec_t.uc) and real_t.size == rec_t.size):
                    bad.append(("tbmodels stand-in", trial))
                # references vs the libraries' own H(k)
                for k in KCONC[:3]:
                    k2 = k[:2]
                    Href = href_tbmodels({R: h for R, h in ht_real.items()}, k2, 2).astype(complex)
                    if not np.allclose(Href, real_t.hamilton(k2, convention=2)):
                        bad.append(("tbmodels reference", trial))
                    Href = href_tbmodels({R: h for R, h in ht_real.items()}, k2, 2, real_t.pos).astype(complex)
                    if not np.allclose(Href, real_t.hamilton(k2, convention=1)):
                        bad.append(("tbmodels reference (convention 1)", trial))
                    pos = real_p.get_orb_vecs(cartesian=False)
                    Href = href_pythtb([(a, i, j, R if R else (0, 0)) for a, i, j, R in hp_real], real_p._site_energies, k2, 2, 1, pos, True).astype(complex)
                    Hlib = np.array(real_p.hamiltonian(k_pts=[k2]))[0]
                    if not np.allclose(Href, Hlib):
                        bad.append(("pythtb reference", trial))
            # conjugate pairs / accumulated hoppings: the library adds the terms up, and so does the reference
            lat1 = pythtb.Lattice(lat_vecs=LATS[1], orb_vecs=POS[1][:2], periodic_dirs=[0])
            mc = pythtb.TBModel(lat1)
            mc.set_onsite([0.3, -0.2])
            mc.set_hop(0.3 + 0.1j, 0, 1, [1])
            mc.set_hop(0.5 - 0.2j, 1, 0, [-1], allow_conjugate_pair=True)
            mc.set_hop(0.7, 0, 1, [0])
            mc.set_hop(0.2j, 1, 0, [0], allow_conjugate_pair=True)
            hc = [(complex(h["amplitude"]), h["from_orbital"], h["to_orbital"], tuple(h.get("lattice_vector", (0,)))) for h in mc.hoppings]
            if len(hc) != 4:
                bad.append(("pythtb keeps both members of a conjugate pair", len(hc)))
            for k in KCONC[:3]:
                Href = href_pythtb(hc, mc._site_energies, k[:1], 2, 1, POS[1][:2], True).astype(complex)
                if not np.allclose(Href, np.array(mc.hamiltonian(k_pts=[k[:1]]))[0]):
                    bad.append(("pythtb conjugate-pair reference", 0))
            # spinful reference vs pythtb
            lat = pythtb.Lattice(lat_vecs=LATS[2], orb_vecs=POS[2][:2], periodic_dirs=[0, 1])
            m = pythtb.TBModel(lattice=lat, spinful=True)
            e0, e1 = rng.normal(size=(2, 2, 2)) + 1j * rng.normal(size=(2, 2, 2))
            e0, e1 = e0 + e0.conj().T, e1 + e1.conj().T
            m.set_onsite([e0, e1])
            a1, a2 = rng.normal(size=(2, 2, 2)) + 1j * rng.normal(size=(2, 2, 2))
            m.set_hop(a1, 0, 1, [1, 0])
            m.set_hop(a2, 1, 1, [0, -1])
            hops = [(np.array(h["amplitude"]), h["from_orbital"], h["to_orbital"], tuple(h.get("lattice_vector", (0, 0)))) for h in m.hoppings]
            for k in KCONC[:3]:
                Href = href_pythtb(hops, m._site_energies, k[:2], 2, 2, POS[2][:2], True).astype(complex)
                Hlib = np.array(m.hamiltonian(k_pts=[k[:2]], flatten_spin_axis=True))[0]
                if not np.allclose(Href, Hlib):
                    bad.append(("pythtb spinful reference", 0))

    def body(rec):
        rec.concrete("stand-ins record what pythtb 2.0 / tbmodels expose; reference H(k) formulas equal the libraries' own H(k)", not bad, detail=str(bad[:4]),
                     key="C32 stand-in / reference validation against the installed libraries failed")
    rec.explore(body, [], reach=False)


# ------------------------------------------------------------------------------------------------------------
def random_specs(seed):
    """thorough tier: seeded family of model shapes (the amplitudes stay symbolic): 1..6 orbitals, up to 10 hoppings, R components in [-3,3], repeated entries, conjugate pairs"""
    import random
    rng = random.Random(f"c32-{seed}")
    tb, pt = [], []
    for n in range(48):
        dim, size = rng.choice([1, 2, 3]), rng.choice([1, 2, 3, 4, 5, 6])
        Rs = []
        for _ in range(rng.randint(1, 6)):
            R = tuple(rng.randint(-3, 3) for _ in range(dim))
            if R not in Rs:
                Rs.append(R)
            if rng.random() < 0.25 and tuple(-x for x in R) not in Rs:
                Rs.append(tuple(-x for x in R))
        tb.append((rng.choice("AB"), (dim, size, Rs)))
    for n in range(120):
        dim, norb = rng.choice([1, 2, 3]), rng.choice([1, 2, 3, 4, 5, 6])
        hs = []
        for _ in range(rng.randint(1, 10 if norb <= 4 else 7)):
            i, j = rng.randrange(norb), rng.randrange(norb)
            R = tuple(rng.randint(-3, 3) for _ in range(dim))
            if i == j and not any(R):
                R = tuple([1] + [0] * (dim - 1))
            hs.append((i, j, R))
            u = rng.random()
            if u < 0.2:
                hs.append((j, i, tuple(-x for x in R)))          # conjugate partner
            elif u < 0.35:
                hs.append((i, j, R))                              # the same entry again
        nspin = rng.choice([1, 1, 2]) if norb <= 4 else 1
        pt.append((rng.choice("AB"), rng.choice(["2.0", "1.x"]), nspin, (dim, norb, hs)))
    return tb, pt


def cases(tier, seed):
    q = tier == "quick"
    nkc = 3 if q else 5
    out = [Case("validation of stand-ins and references against pythtb / tbmodels", case_validation, dict(seed=seed)),
           Case("builders Haldane_ptb(new API) vs Haldane_tbm, symbolic parameters", case_builders, dict(ptb_version="2.0.0")),
           Case("builders Haldane_ptb(1.x API) vs Haldane_tbm, symbolic parameters", case_builders, dict(ptb_version="1.9.0"))]
    # TBmodels layouts: R=0 plus positive-half R's
    tbm = [(1, 1, [(0,)]), (1, 2, [(0,), (1,)]), (1, 3, [(1,), (2,)]), (2, 2, [(0, 0), (1, 0), (0, 1)]), (2, 2, [(1, -1), (0, 0), (1, 1)]), (2, 3, [(0, 0), (0, 2)]),
           (3, 2, [(0, 0, 0), (1, 0, -1), (0, 1, 1)]), (3, 1, [(0, 0, 1)]), (2, 1, [(0, 0)]), (2, 2, []),
           # both members of a +-R pair present: the terms add up
           (1, 2, [(1,), (-1,)]), (2, 2, [(0, 0), (1, 0), (-1, 0)]), (3, 1, [(0, 0, 1), (0, 0, -1)])]
    if not q:
        tbm += [(3, 3, [(0, 0, 0), (1, 1, 1), (0, 0, 2), (1, -1, 0)]), (2, 4, [(0, 0), (1, 0), (0, 1), (1, 1), (1, -1)]), (1, 4, [(0,), (1,), (2,), (3,)])]
    for dim, size, Rs in tbm:
        out.append(Case(f"tbmodels dim={dim} size={size} R={Rs}", case_tbm, dict(dim=dim, size=size, Rs=Rs, nkc=nkc), timeout=900))
    # PythTB layouts: (i, j, R)
    ptb = [(1, 1, [(0, 0, (1,))]), (1, 2, [(0, 1, (0,)), (1, 0, (1,)), (0, 0, (2,))]), (2, 2, [(0, 1, (0, 0)), (1, 0, (1, 0)), (1, 0, (0, 1)), (0, 0, (1, -1))]),
           (2, 3, [(0, 1, (0, 0)), (0, 1, (1, 0)), (2, 1, (-1, 0)), (2, 2, (0, 1))]), (3, 2, [(0, 1, (0, 0, 0)), (1, 1, (0, 0, 1)), (0, 1, (-1, 1, 0))]),
           (3, 3, [(0, 2, (1, 0, 0)), (1, 2, (-1, 0, 0)), (0, 1, (0, 0, 0)), (1, 0, (0, -1, 1))]), (2, 1, []), (2, 2, [(0, 1, (0, 0))]), (1, 3, [(0, 1, (0,)), (1, 2, (0,))]),
           # repeated (i,j,R) entries and both members of a conjugate pair (allow_conjugate_pair=True): the terms add up
           (1, 2, [(0, 1, (1,)), (1, 0, (-1,))]), (1, 2, [(0, 1, (0,)), (1, 0, (0,)), (0, 1, (0,))]), (2, 2, [(0, 1, (1, 0)), (0, 1, (1, 0)), (1, 0, (-1, 0))]),
           (2, 1, [(0, 0, (0, 1)), (0, 0, (0, -1))]), (3, 2, [(1, 0, (0, 0, 1)), (0, 1, (0, 0, -1)), (1, 0, (0, 0, 1))])]
    if not q:
        ptb += [(3, 4, [(0, 3, (1, 0, 0)), (1, 2, (-1, 0, 0)), (0, 1, (0, 0, 0)), (1, 0, (0, -1, 1)), (3, 3, (0, 0, 1)), (2, 0, (1, 1, 1))]),
                (2, 2, [(0, 1, (0, 0)), (0, 1, (1, 0)), (0, 1, (0, 1)), (0, 1, (-1, 0)), (0, 1, (0, -1)), (1, 1, (1, 1))])]
    if not q:
        rt, rp = random_specs(seed)
        for latv, (dim, size, Rs) in rt:
            out.append(Case(f"tbmodels[{latv}] dim={dim} size={size} R={Rs}", case_tbm, dict(dim=dim, size=size, Rs=Rs, nkc=nkc, latv=latv), timeout=3000))
        for latv, layout, nspin, (dim, norb, hs) in rp:
            out.append(Case(f"pythtb[{latv}] {layout} nspin={nspin} dim={dim} norb={norb} hops={hs}", case_ptb,
                            dict(layout=layout, dim=dim, norb=norb, nspin=nspin, hopspec=hs, nkc=nkc, latv=latv), timeout=3000))
        names = ("delta", "hop1", "hop2", "phi")
        for ver in ("2.0.0", "1.9.0"):
            for mask in range(15):                       # every proper subset of symbolic parameters, the rest at the builders' defaults
                sub = tuple(n for b, n in enumerate(names) if mask >> b & 1)
                out.append(Case(f"builders Haldane_ptb({ver}) vs Haldane_tbm, symbolic {sub or '()'} others default", case_builders, dict(ptb_version=ver, symbolic=sub), timeout=3000))
    for layout in ("2.0", "1.x"):
        for nspin in (1, 2):
            for dim, norb, hs in ptb:
                if q and nspin == 2 and (norb > 2 or len(hs) > 3):
                    continue
                out.append(Case(f"pythtb {layout} nspin={nspin} dim={dim} norb={norb} hops={hs}", case_ptb,
                                dict(layout=layout, dim=dim, norb=norb, nspin=nspin, hopspec=hs, nkc=nkc), timeout=900))
    return out


# ------------------------------------------------------------------------------------------------------------
def replay(rec):
    """real (unshadowed) importer on concrete models; for the builders the real pythtb / tbmodels are used"""
    import io, contextlib, warnings
    from symx.harness import unarr
    w = rec["witness"]
    buf = io.StringIO()
    if w["kind"] == "builders":
        d, h1, h2 = w["delta"], w["hop1"], w["hop2"]
        if d == 0 and h1 == 0 and h2 == 0:
            d, h1, h2 = 0.37, -1.0, 0.15
        phi = math.atan2(w["sin_phi"], w["cos_phi"]) if (w["sin_phi"] or w["cos_phi"]) else 0.4
        kw = {k: v for k, v in dict(delta=d, hop1=h1, hop2=h2, phi=phi).items() if k in w.get("symbolic", ["delta", "hop1", "hop2", "phi"])}
        with contextlib.redirect_stdout(buf), contextlib.redirect_stderr(buf), warnings.catch_warnings():
            warnings.simplefilter("ignore")
            sp = TB.get_system_tb_py(MODELS.Haldane_ptb(**kw), 'pythtb')
            st = TB.get_system_tb_py(MODELS.Haldane_tbm(**kw), 'tbmodels')
        hp, ht = ham_by_R(sp), ham_by_R(st)
        err = max(np.abs(hp.get(R, 0) - ht.get(R, 0)).max() for R in set(hp) | set(ht))
        k = np.array([[0.1, 0.2, 0.0]])
        Ep, Et = np.linalg.eigvalsh(h_wb(sp, k, True)[0]), np.linalg.eigvalsh(h_wb(st, k, True)[0])
        geo = np.abs(sp.wannier_centers_red - st.wannier_centers_red).max() + np.abs(sp.real_lattice - st.real_lattice).max()
        return bool(err > 1e-9 or geo > 1e-9), (f"delta={d} hop1={h1} hop2={h2} phi={phi}: max|Ham_R(ptb)-Ham_R(tbm)|={err:.4g}; "
                                                f"E(k=(0.1,0.2)) ptb={Ep.round(4).tolist()} tbm={Et.round(4).tolist()}")
    nkc = w["nkc"]
    kc = np.array(KCONC[:nkc])
    try:
        return _replay_import(w, kc, buf)
    except Exception as e:
        import traceback
        tb = traceback.format_exc()
        if "system_tb_py.py" in tb:
            return True, f"{w['kind']} {w.get('layout', '')} model {w.get('hopspec', w.get('Rs'))}: get_system_tb_py raises {type(e).__name__}: {str(e)[:160]}"
        raise


def _replay_import(w, kc, buf):
    import contextlib, warnings
    _LATV[0] = w.get("latv", "A")
    from symx.harness import unarr
    nkc = w["nkc"]
    with contextlib.redirect_stdout(buf), warnings.catch_warnings():
        warnings.simplefilter("ignore")
        if w["kind"] == "tbm":
            dim, size, Rs = w["dim"], w["size"], [tuple(R) for R in w["Rs"]]
            hop = {R: unarr(h).astype(complex) for R, h in zip(Rs, w["hop"])}
            if all(np.abs(h).max() == 0 for h in hop.values()):
                for n, R in enumerate(Rs):
                    hop[R] = hop[R] + (np.arange(size * size).reshape(size, size) + 1 + n) * (1 + 0.5j)
            system = TB.get_system_tb_py(tbm_duck(dim, size, hop), 'tbmodels')
            pos, nspin, n = POS[dim][:size], 1, size
            ref = lambda k: href_tbmodels(hop, k, size, pos).astype(complex)
            refgauge = True
        else:
            dim, norb, nspin = w["dim"], w["norb"], w["nspin"]
            hopspec = [(i, j, tuple(R)) for i, j, R in w["hopspec"]]
            amps = [unarr(a).astype(complex) for a in w["amps"]]
            onsite = unarr(w["onsite"])
            if all(np.abs(a).max() == 0 for a in amps) and np.abs(onsite).max() == 0:
                amps = [a + (1 + n) * (0.3 + 0.2j) + (np.arange(4).reshape(2, 2) * 0.1 if nspin == 2 else 0) for n, a in enumerate(amps)]
                onsite = onsite + (np.arange(norb) + 1.0 if nspin == 1 else np.array([np.eye(2) * (i + 1) for i in range(norb)]))
            amps = [a if nspin == 2 else complex(a) for a in amps]
            onsite = onsite.real if nspin == 1 else onsite
            hops = [(a, i, j, R) for a, (i, j, R) in zip(amps, hopspec)]
            with patched_modules(pythtb=fake_pythtb("1.9.0" if w["layout"] == "1.x" else "2.0.0")):
                system = TB.get_system_tb_py(ptb_duck(w["layout"], dim, norb, nspin, hops, onsite), 'pythtb')
            pos, n = ptb_pos(dim, norb), norb * nspin
            ref = lambda k: href_pythtb(hops, onsite, k, norb, nspin, pos, True).astype(complex)
            refgauge = True
        Hk = h_wb(system, kc)
        Ham = system.get_R_mat('Ham')
    err = 0.0
    for ik, k in enumerate(kc):
        R_ = ref(k[:dim])
        if refgauge:
            D = gauge(k[:dim], pos, nspin).astype(complex)
            R_ = D[:, None] * R_ * np.conjugate(D)[None, :]
        err = max(err, np.abs(Hk[ik] - R_).max() if Hk[ik].shape == R_.shape else np.inf)
    got = [tuple(int(x) for x in r) for r in system.rvec.iRvec]
    idx = {r: i for i, r in enumerate(got)}
    herm_err = max(np.abs(Ham[i] - Ham[idx[tuple(-x for x in r)]].conj().T).max() if tuple(-x for x in r) in idx else np.inf for r, i in idx.items())
    scale = 1 + max(np.abs(Ham).max(), 1)
    return bool(err > 1e-9 * scale or herm_err > 1e-9 * scale), f"{w['kind']} {w.get('layout', '')}: max|H_WB(k)-H_lib(k)|={err:.3g}, max|Ham(-R)-Ham(R)^+|={herm_err:.3g}"
