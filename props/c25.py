"""C25 — spin doubling and spin-orbit assembly preserve the spectrum"""
import math, warnings
from types import SimpleNamespace
import numpy as np
from symx.core import *
from symx.core import z3
from symx.npproxy import NpProxy, shadow
from symx.harness import Case
import symx.harness  # noqa (puts the repo on sys.path)
import wannierberri.system.system_R as SR, wannierberri.fourier.rvectors as RV, wannierberri.fourier.fft as FF, wannierberri.utility as UT
import wannierberri.data_K.data_K_R as DKR, wannierberri.data_K.data_K as DK
import wannierberri.system.system_soc as SSOC, wannierberri.data_K.data_K_soc as DKS, wannierberri.w90files.soc as WSOC

PROPERTY = "C25"
FUNCTIONS = ["wannierberri.system.system_R.System_R.double_spin/set_spin_pairs", "wannierberri.fourier.rvectors.Rvectors.double_spin/merge_Rvectors/conj_XX_R/R_to_k (k-list mode)",
             "wannierberri.system.system_soc.SystemSOC.__init__/set_soc_axis/get_system_R", "wannierberri.data_K.data_K_soc.Data_K_soc.__init__/HH_K/Xbar",
             "wannierberri.data_K.data_K_R.Data_K_R.HH_K/Xbar", "wannierberri.w90files.soc.SOC.get_C_ss/get_pauli_rotated"]
BOUNDS = dict(quick=dict(num_wann_scalar="1..2", R_sets="3..5 R-vectors; up / down / SOC R-sets different", data="symbolic complex X(-R)=X(R)^+ (dV_01 and overlap unconstrained)",
                         centres="symbolic", angles="theta, phi symbolic (half-angle unit-circle atoms) and the constants 0", alpha_soc="symbolic", k="symbolic: one free phase per R-vector",
                         derivatives="Xbar der <= 1"),
              thorough=dict(num_wann_scalar="1..3", R_sets="up to 7 R-vectors", data="symbolic complex", centres="symbolic", angles="symbolic", alpha_soc="symbolic", k="symbolic, 2 k-points",
                            derivatives="Xbar der <= 2"))
EXPLANATION = ("Spinless / spin-up / spin-down systems and the SOC matrices are symbolic object arrays on different R-vector sets; the real double_spin, SystemSOC.set_soc_axis, "
               "get_system_R and Data_K_soc.HH_K/Xbar run on them with symbolic quantisation angles (half-angle unit-circle atoms) and symbolic alpha_soc.  z3 decides the block identities "
               "H_doubled(k) = H(k) (x) 1_2, H_noSOC(k) = H_up(k) (+) H_down(k) on their own R-sets, H of get_system_R == Data_K_soc.HH_K == explicit sum over the SOC matrices, and the "
               "Pauli algebra / n.sigma' = diag(1,-1) of get_pauli_rotated for all angles.  The spectrum statements of the property are the spectra of these block structures.")
ASSUMPTIONS = ["dV_soc_wann_0_0 / dV_soc_wann_1_1 obey X(-R)=X(R)^+ (asserted by set_soc_R when they are produced)", "the SOC R-vector set is closed under inversion (set_Rvec produces such sets)",
               "SOC Rvectors carry the interlaced up/down centres as shifts (what set_soc_R does)"]
OUTSIDE = ["numerical eigenvalues (np.linalg.eigh): the spectrum statements are claimed through the block structure of H(k), not through a diagonalisation",
           "set_soc_R (needs chk / SOC files and the Wigner-Seitz construction)", "units='degrees' in set_soc_axis (np.deg2rad of a symbolic angle)",
           "E_K_corners_* of Data_K_soc (property C33)", "sizes above the stated bounds"]
STUBS = ["grid stand-in with FFT=(1,1,1) for Data_K_R / Data_K_soc (k_list=...)", "UU_K = identity put into the Data_K cache (no eigh)"]

LAT = np.array([[1.0, 0, 0], [0.25, 1.5, 0], [0, 0.5, 2.0]])
MODS = [SR, RV, FF, UT, DKR, DK, SSOC, DKS, WSOC]
CART = dict(Ham=(), AA=(3,), dV_soc_wann_0_0=(3,), dV_soc_wann_1_1=(3,), dV_soc_wann_0_1=(3,), overlap_up_down=())
RSETS = dict(A=[(0, 0, 0), (1, 0, 0), (-1, 0, 0)],
             B=[(0, 0, 0), (0, 1, 0), (0, -1, 0), (1, 0, 0), (-1, 0, 0)],
             C=[(0, 1, -1), (0, 0, 0), (0, -1, 1)],
             E=[(0, 0, 0), (1, 1, 0), (-1, -1, 0), (0, 0, 1), (0, 0, -1), (1, 0, 0), (-1, 0, 0)])
GRID = SimpleNamespace(FFT=np.array([1, 1, 1]))
PAULI = np.array([[[0, 1], [1, 0]], [[0, -1j], [1j, 0]], [[1, 0], [0, -1]]])   # harness's own sigma_c[s,t]
EPS = np.zeros((3, 3, 3))
for _a, _b, _c in ((0, 1, 2), (1, 2, 0), (2, 0, 1)):
    EPS[_a, _b, _c], EPS[_b, _a, _c] = 1, -1


# ------------------------------------------------------------------------------------------------------------
def mk_system(nb, iR, cred, mats):
    s = SR.System_R(silent=True)
    s.set_real_lattice(real_lattice=LAT)
    s.num_wann = nb
    s.wannier_centers_cart = cred.dot(LAT)
    s.rvec = RV.Rvectors(lattice=LAT, iRvec=np.array(iR), shifts_left_red=cred.copy())
    for key, X in mats.items():
        s.set_R_mat(key, X.copy())
    s.set_pointgroup()
    return s


def datak(system, k, cls=None):
    dk = (cls or DKR.Data_K_R)(system, dK=None, grid=GRID, k_list=k)
    dk.__dict__["UU_K"] = np.eye(system.num_wann)[None].repeat(len(k), axis=0)
    return dk


def fourier(iR, X, k, xp, hermitian=True):
    """harness's own H(k) = sum_R exp(2 pi i k.R) X(R), hermitian part in the band indices"""
    out = xp.zeros((len(k),) + X.shape[1:], dtype=complex)
    for ik, kk in enumerate(k):
        for r, x in zip(iR, X):
            out[ik] = out[ik] + xp.exp(2j * np.pi * (kk @ np.array(r))) * x
    return 0.5 * (out + xp.conj(out.swapaxes(1, 2))) if hermitian else out


def dbl(X, xp, ax=1):
    """X (x) 1_2 in interlaced order on axes (ax, ax+1)"""
    sh = list(X.shape)
    n = sh[ax]
    sh[ax] = sh[ax + 1] = 2 * n
    out = xp.zeros(tuple(sh), dtype=complex)
    pre = (slice(None),) * ax
    for a in range(n):
        for b in range(n):
            for s in (0, 1):
                out[pre + (2 * a + s, 2 * b + s)] = X[pre + (a, b)]
    return out


def blocks(Xu, Xd, xp, ax=1):
    """X_up (+) X_down in interlaced order"""
    sh = list(Xu.shape)
    n = sh[ax]
    sh[ax] = sh[ax + 1] = 2 * n
    out = xp.zeros(tuple(sh), dtype=complex)
    pre = (slice(None),) * ax
    for a in range(n):
        for b in range(n):
            out[pre + (2 * a, 2 * b)] = Xu[pre + (a, b)]
            out[pre + (2 * a + 1, 2 * b + 1)] = Xd[pre + (a, b)]
    return out


def zero_fill(X, iR_from, iR_to, xp):
    iR_from = [tuple(int(x) for x in r) for r in iR_from]
    out = xp.zeros((len(iR_to),) + X.shape[1:], dtype=complex)
    for i, r in enumerate(iR_to):
        r = tuple(int(x) for x in r)
        if r in iR_from:
            out[i] = X[iR_from.index(r)]
    return out


def tl(iRvec):
    return [tuple(int(x) for x in r) for r in iRvec]


# ------------------------------------------------------------------------------------------------------------
def arrays_double(spec):
    nb, iR = spec["nb"], RSETS[spec["R"]]
    A = dict(c=symvec("c", (nb, 3)))
    for key in spec["keys"]:
        A["X_" + key] = hermR("X" + key, iR, nb, CART[key])
    return A


def ob_double(rec, spec, A, k, xp):
    nb, iR = spec["nb"], RSETS[spec["R"]]
    mats = {key: A["X_" + key] for key in spec["keys"]}
    ref = datak(mk_system(nb, iR, A["c"], mats), k)
    S = mk_system(nb, iR, A["c"], mats)
    S.spinor = False
    S.rvec.set_fft_R_to_k(NK=None, num_wann=nb, k_list=k)
    _ = S.rvec.cRvec_shifted, S.rvec.shifts_diff_cart, S.wannier_centers_red          # fill the caches that double_spin has to drop
    S.double_spin()
    rec.concrete("doubled: num_wann, spinor flag", S.num_wann == 2 * nb and S.spinor is True, key="double_spin num_wann/spinor")
    rec.concrete("doubled: R-vectors unchanged", tl(S.rvec.iRvec) == tl(iR), key="double_spin changes the R-vectors")
    rec.concrete("doubled: matrices present + SS", sorted(S._XX_R) == sorted(list(spec["keys"]) + ["SS"]), detail=str(sorted(S._XX_R)), key="double_spin matrix set")
    for key in spec["keys"]:
        rec.eq(f"doubled {key}(R) == {key}(R) (x) 1_2 (interlaced)", S.get_R_mat(key), dbl(A["X_" + key], xp), key="double_spin R-matrix is not X (x) 1_2")
    cc = A["c"].dot(LAT)
    rec.eq("doubled centres: each centre twice (interlaced)", S.wannier_centers_cart, xp.stack([cc, cc], axis=1).reshape(2 * nb, 3), key="double_spin centres")
    rec.eq("doubled: cached reduced centres consistent with the cartesian ones", S.wannier_centers_red, S.wannier_centers_cart.dot(np.linalg.inv(LAT)), key="double_spin leaves a stale wannier_centers_red")
    c2 = xp.stack([A["c"], A["c"]], axis=1).reshape(2 * nb, 3)
    rec.eq("doubled Rvectors shifts (left)", S.rvec.shifts_left_red, c2, key="Rvectors.double_spin left shifts")
    rec.eq("doubled Rvectors shifts (right)", S.rvec.shifts_right_red, c2, key="Rvectors.double_spin right shifts")
    SS = xp.zeros((len(iR), 2 * nb, 2 * nb, 3), dtype=complex)
    for a in range(nb):
        for s in (0, 1):
            for t in (0, 1):
                SS[tl(iR).index((0, 0, 0)), 2 * a + s, 2 * a + t, :] = PAULI[:, s, t]
    rec.eq("SS(R) == delta_R0 1 (x) sigma", S.get_R_mat("SS"), SS, key="set_spin_pairs SS is not 1 (x) sigma at R=0")
    d = datak(S, k)
    rec.eq("H_doubled(k) == H(k) (x) 1_2 : every band twice", d.HH_K, dbl(ref.HH_K, xp), key="double_spin H(k) is not H(k) (x) 1_2")
    rec.eq("H_doubled(k) == own Fourier sum (x) 1_2", d.HH_K, dbl(fourier(iR, A["X_Ham"], k, xp), xp), key="double_spin H(k) is not H(k) (x) 1_2")
    for der in range(1, spec["der"] + 1):
        for key in spec["keys"]:
            rec.eq(f"Xbar_doubled({key},{der}) == Xbar({key},{der}) (x) 1_2", d.Xbar(key, der), dbl(ref.Xbar(key, der), xp), key=f"double_spin Xbar(der>=1) is not Xbar (x) 1_2")
    if "AA" in spec["keys"]:
        rec.eq("Xbar_doubled(AA,0) == Xbar(AA,0) (x) 1_2", d.Xbar("AA", 0), dbl(ref.Xbar("AA", 0), xp), key="double_spin Xbar(der=0) is not Xbar (x) 1_2")
    # the system's own Rvectors object after doubling (a cache that is not dropped shows up here)
    S.rvec.set_fft_R_to_k(NK=None, num_wann=2 * nb, k_list=k)
    rec.eq("system.rvec.R_to_k(Ham, der=1) after doubling", S.rvec.R_to_k(S.get_R_mat("Ham").copy(), der=1, hermitian=True), dbl(ref.Xbar("Ham", 1), xp),
           key="double_spin leaves stale Rvectors caches")
    sig = xp.zeros((len(k), 2 * nb, 2 * nb, 3), dtype=complex)
    for a in range(nb):
        for s in (0, 1):
            for t in (0, 1):
                sig[:, 2 * a + s, 2 * a + t, :] = PAULI[:, s, t]
    rec.eq("Xbar_doubled(SS,0) == 1 (x) sigma at every k", d.Xbar("SS", 0), sig, key="double_spin spin operator at k")


# ------------------------------------------------------------------------------------------------------------
def soc_keys(nspin):
    return ["dV_soc_wann_0_0"] + (["dV_soc_wann_1_1", "dV_soc_wann_0_1", "overlap_up_down"] if nspin == 2 else [])


def arrays_soc(spec):
    nb = spec["nb"]
    A = {}
    for ud, tag in enumerate(("u", "d")[:spec["nspin"]]):
        iR = RSETS[spec["Rud"][ud]]
        A[tag + "c"] = symvec(tag + "c", (nb, 3))
        for key in spec["keys"]:
            A[f"{tag}X_{key}"] = hermR(tag + key, iR, nb, CART[key])
    if spec["soc"]:
        for key in soc_keys(spec["nspin"]):
            A["X_" + key] = hermR("X" + key[-6:], RSETS[spec["R"]], nb, CART[key], hermitian=key in ("dV_soc_wann_0_0", "dV_soc_wann_1_1"))
        th = SymC.var("theta") if spec["sym_theta"] else SymC.of(0)
        ph = SymC.var("phi") if spec["sym_phi"] else SymC.of(0)
        A["angles"] = sarr([th, ph, SymC.var("asoc")])
    return A


def mk_soc(spec, A):
    nb, ns = spec["nb"], spec["nspin"]
    sub = [mk_system(nb, RSETS[spec["Rud"][ud]], A[tag + "c"], {key: A[f"{tag}X_{key}"] for key in spec["keys"]}) for ud, tag in enumerate(("u", "d")[:ns])]
    s = SSOC.SystemSOC(*sub, silent=True)
    if spec["soc"]:
        cu, cd = A["uc"], A["dc" if ns == 2 else "uc"]
        s.rvec = RV.Rvectors(lattice=LAT, iRvec=np.array(RSETS[spec["R"]]), shifts_left_red=np.stack([cu, cd], axis=1).reshape(2 * nb, 3))
        for key in soc_keys(ns):
            s.set_R_mat(key, A["X_" + key].copy())
        s.has_soc = True
        th, ph, a = A["angles"]
        s.set_soc_axis(theta=th, phi=ph, alpha_soc=a)
    return s


def conjR(X, iR, xp):
    """harness's own X~(R) = X(-R)^+ (R-set closed under inversion)"""
    iR = tl(iR)
    out = xp.zeros(X.shape, dtype=complex)
    for i, r in enumerate(iR):
        out[i] = xp.conj(X[iR.index(tuple(-x for x in r))].swapaxes(0, 1))
    return out


def ob_soc(rec, spec, A, k, xp):
    nb, ns = spec["nb"], spec["nspin"]
    tags = ("u", "d") if ns == 2 else ("u", "u")
    iRud = [RSETS[spec["Rud"][0]], RSETS[spec["Rud"][ns - 1]]]
    s = mk_soc(spec, A)
    cu, cd = A[tags[0] + "c"].dot(LAT), A[tags[1] + "c"].dot(LAT)
    rec.eq("SOC system centres: up/down interlaced", s.wannier_centers_cart, xp.stack([cu, cd], axis=1).reshape(2 * nb, 3), key="SystemSOC centres not interlaced up/down")
    d = datak(s, k, DKS.Data_K_soc)
    Hu, Hd = (fourier(iRud[i], A[tags[i] + "X_Ham"], k, xp) for i in (0, 1))
    H0 = blocks(Hu, Hd, xp)
    own = [datak(mk_system(nb, iRud[i], A[tags[i] + "c"], {key: A[f"{tags[i]}X_{key}"] for key in spec["keys"]}), k) for i in (0, 1)]
    if not spec["soc"]:
        rec.eq("no SOC: H(k) == H_up(k) (+) H_down(k), zero up-down blocks : union of the two spectra", d.HH_K, H0, key="Data_K_soc.HH_K without SOC is not H_up (+) H_down")
        rec.eq("no SOC: blocks are Data_K_R of the up / down systems on their own R-sets", d.HH_K, blocks(own[0].HH_K, own[1].HH_K, xp), key="Data_K_soc.HH_K without SOC is not H_up (+) H_down")
    else:
        th, ph, asoc = A["angles"]
        sig = WSOC.SOC.get_pauli_rotated(theta=th, phi=ph)          # its algebra is the subject of case_pauli
        iR = RSETS[spec["R"]]
        V = {(0, 0): A["X_dV_soc_wann_0_0"]}
        if ns == 2:
            V[(1, 1)], V[(0, 1)] = A["X_dV_soc_wann_1_1"], A["X_dV_soc_wann_0_1"]
            V[(1, 0)] = conjR(V[(0, 1)], iR, xp)
        else:
            V[(1, 1)] = V[(0, 1)] = V[(1, 0)] = V[(0, 0)]
        W = xp.zeros((len(iR), 2 * nb, 2 * nb), dtype=complex)
        for (s_, t_), v in V.items():
            for a in range(nb):
                for b in range(nb):
                    W[:, 2 * a + s_, 2 * b + t_] = asoc * sum(v[:, a, b, c] * sig[s_, t_, c] for c in range(3))
        rec.eq("Ham_SOC(R) == alpha_soc * sum_c dV_st(R)_c sigma'_c[s,t]", s.get_R_mat("Ham_SOC"), W, key="set_soc_axis Ham_SOC assembly")
        SS = xp.zeros((len(iR), 2 * nb, 2 * nb, 3), dtype=complex)
        i0 = tl(iR).index((0, 0, 0))
        for a in range(nb):
            SS[i0, 2 * a, 2 * a], SS[i0, 2 * a + 1, 2 * a + 1] = sig[0, 0], sig[1, 1]
            if ns == 1:
                SS[i0, 2 * a, 2 * a + 1], SS[i0, 2 * a + 1, 2 * a] = sig[0, 1], sig[1, 0]
        if ns == 2:
            ov = A["X_overlap_up_down"]
            ovc = conjR(ov, iR, xp)
            for a in range(nb):
                for b in range(nb):
                    SS[:, 2 * a, 2 * b + 1] = ov[:, a, b, None] * sig[None, 0, 1]
                    SS[:, 2 * a + 1, 2 * b] = ovc[:, a, b, None] * sig[None, 1, 0]
        rec.eq("SS(R): sigma' on site, overlap * sigma'_01 between the spin channels", s.get_R_mat("SS"), SS, key="set_soc_axis SS assembly")
        rec.eq("H_SOC(k) == H_up (+) H_down + Fourier sum of Ham_SOC", d.HH_K, H0 + fourier(iR, W, k, xp), key="Data_K_soc.HH_K is not H_up (+) H_down + H_soc(k)")
        # the plain real-space system
        sr = s.get_system_R()
        iRm = tl(sr.rvec.iRvec)
        union = sorted(set(tl(iR)) | set(tl(iRud[0])) | set(tl(iRud[1])))
        rec.concrete("get_system_R: R-set is the union of the three R-sets, each once", sorted(iRm) == union, detail=str(iRm), key="merge_Rvectors is not the union")
        rec.concrete("get_system_R: num_wann, matrices", sr.num_wann == 2 * nb and sorted(sr._XX_R) == sorted(list(spec["keys"]) + ["SS"]), key="get_system_R matrix set")
        HR = zero_fill(W, iR, iRm, xp) + blocks(zero_fill(A[tags[0] + "X_Ham"], iRud[0], iRm, xp), zero_fill(A[tags[1] + "X_Ham"], iRud[1], iRm, xp), xp)
        rec.eq("get_system_R Ham(R) == Ham_SOC + H_up (+) H_down on the merged R-set", sr.get_R_mat("Ham"), HR, key="get_system_R Ham assembly")
        rec.eq("get_system_R SS(R) == SS zero-filled", sr.get_R_mat("SS"), zero_fill(SS, iR, iRm, xp), key="get_system_R SS assembly")
        rec.eq("get_system_R centres", sr.wannier_centers_cart, s.wannier_centers_cart, key="get_system_R centres")
        dr = datak(sr, k)
        rec.eq("get_system_R: H(k) == Data_K_soc.HH_K at every k", dr.HH_K, d.HH_K, key="get_system_R H(k) differs from Data_K_soc.HH_K")
        rec.eq("get_system_R: Xbar(SS,0) == Data_K_soc.Xbar(SS,0)", dr.Xbar("SS", 0), d.Xbar("SS", 0), key="get_system_R spin operator differs from Data_K_soc")
        for der in range(1, spec["der"] + 1):
            rec.eq(f"get_system_R: Xbar(Ham,{der}) == Data_K_soc.Xbar(Ham,{der})", dr.Xbar("Ham", der), d.Xbar("Ham", der), key="get_system_R dH/dk differs from Data_K_soc")
        if "AA" in spec["keys"]:
            rec.eq("get_system_R: Xbar(AA,0) == Data_K_soc.Xbar(AA,0)", dr.Xbar("AA", 0), d.Xbar("AA", 0), key="get_system_R AA(k) differs from Data_K_soc")
    # Data_K_soc.Xbar: block assembly of the spin-independent operators
    for key in spec["keys"]:
        for der in range(0 if key != "Ham" else 1, spec["der"] + 1):
            want = blocks(own[0].Xbar(key, der), own[1].Xbar(key, der), xp)
            if key == "Ham" and spec["soc"]:
                want = want + _soc_der(s, W, der, k)
            rec.eq(f"Data_K_soc.Xbar({key},{der}) == up (+) down blocks" + (" + SOC part" if key == "Ham" and spec["soc"] else ""), d.Xbar(key, der), want,
                   key="Data_K_soc.Xbar block assembly")


def _soc_der(s, W, der, k):
    rv = s.rvec.copy()
    rv.set_fft_R_to_k(NK=None, num_wann=s.num_wann, k_list=k)
    return rv.R_to_k(W.copy(), der=der, hermitian=True)


# ------------------------------------------------------------------------------------------------------------
def ob_pauli(rec, spec, A, k, xp):
    th, ph = A["angles"][:2]
    C = WSOC.SOC.get_C_ss(theta=th, phi=ph)
    sig = WSOC.SOC.get_pauli_rotated(theta=th, phi=ph)
    I2 = np.eye(2)
    rec.concrete("shape (2,2,3)", np.shape(sig) == (2, 2, 3), key="get_pauli_rotated shape")
    rec.eq("C_ss unitary", xp.conj(C.T) @ C, I2, key="get_C_ss not unitary")
    for a in range(3):
        rec.eq(f"sigma'_{a} hermitian", sig[:, :, a], xp.conj(sig[:, :, a].T), key="get_pauli_rotated not hermitian")
        for b in range(3):
            rhs = (1 if a == b else 0) * I2 + sum(1j * EPS[a, b, c] * sig[:, :, c] for c in range(3))
            rec.eq(f"sigma'_{a} sigma'_{b} == delta + i eps sigma'", sig[:, :, a] @ sig[:, :, b], rhs, key="get_pauli_rotated violates the Pauli algebra")
    # n = (sin th cos ph, sin th sin ph, cos th) from the half angles (double-angle formulas)
    c2, s2, cp, sp = xp.cos(th / 2), xp.sin(th / 2), xp.cos(ph / 2), xp.sin(ph / 2)
    n = [2 * s2 * c2 * (cp * cp - sp * sp), 2 * s2 * c2 * 2 * sp * cp, c2 * c2 - s2 * s2]
    rec.eq("n.sigma' == diag(1,-1): spin along the axis diagonal with eigenvalues +1, -1", sum(n[c] * sig[:, :, c] for c in range(3)), np.diag([1, -1]),
           key="get_pauli_rotated: n.sigma' is not diag(1,-1)")
    rec.eq("sigma' == C^+ sigma C", sig, xp.stack([xp.conj(C.T) @ PAULI[c] @ C for c in range(3)], axis=-1), key="get_pauli_rotated is not C^+ sigma C")


# ------------------------------------------------------------------------------------------------------------
KIND = dict(double=(arrays_double, ob_double), soc=(arrays_soc, ob_soc), pauli=(arrays_soc, ob_pauli))


def angle_of(env, x):
    """model value of a symbolic angle from its half-angle atoms"""
    x = SymC.of(x)
    if x.isconst():
        return float(x)
    h = x / 2
    return 2 * math.atan2(env.val(h.sin()), env.val(h.cos()))


def case_run(rec, spec):
    warnings.filterwarnings("ignore")
    shadow(MODS)
    mk, ob = KIND[spec["kind"]]
    A = mk(spec)
    k = symvec("k", (spec.get("nk", 1), 3))

    def witness(env):
        arrs = {n: env.arr(a) for n, a in A.items() if n != "angles"}
        if "angles" in A:
            arrs["angles"] = dict(re=[angle_of(env, A["angles"][0]), angle_of(env, A["angles"][1]), env.val(A["angles"][2])], im=None)
        return dict(spec=spec, arrays=arrs)

    def body(rec):
        rec.witness = witness
        ob(rec, spec, A, k, NpProxy())
    rec.explore(body, [])


def cases(tier, seed):
    q = tier == "quick"
    out = []
    der = 1 if q else 2
    for nb in ((1, 2) if q else (1, 2, 3)):
        for R in (("A", "B") if q else ("A", "B", "E")):
            if q and (nb, R) == (2, "B"):
                continue
            for keys in (["Ham", "AA"], ["Ham"]):
                out.append(Case(f"double_spin nb={nb} R={R} keys={'+'.join(keys)}", case_run, dict(spec=dict(kind="double", nb=nb, R=R, keys=keys, der=der, nk=1 if q else 2)), timeout=900))
    for nb in ((1, 2) if q else (1, 2, 3)):
        for nspin, Rud in ((2, ("A", "B")), (2, ("C", "C")), (1, ("B",))):
            out.append(Case(f"noSOC nb={nb} nspin={nspin} R={'/'.join(Rud)}", case_run,
                            dict(spec=dict(kind="soc", soc=False, nb=nb, nspin=nspin, Rud=Rud, keys=["Ham", "AA"], der=der, nk=1 if q else 2)), timeout=900))
    for nb in ((1, 2) if q else (1, 2, 3)):
        for nspin, Rud, R in ((2, ("C", "B"), "A"), (1, ("C",), "A"), (2, ("A", "A"), "B")):
            for st, sp in ((True, True), (False, False)):
                if (nb > 1 and not st) or (q and nb == 2 and R == "B") or (nb == 3 and (nspin, R) != (2, "A")):
                    continue
                out.append(Case(f"SOC nb={nb} nspin={nspin} R={R} up/down={'/'.join(Rud)} angles={'symbolic' if st else '0'}", case_run,
                                dict(spec=dict(kind="soc", soc=True, nb=nb, nspin=nspin, Rud=Rud, R=R, keys=["Ham", "AA"] if nb < 3 else ["Ham"], der=der if nb < 3 else 1, nk=1,
                                               sym_theta=st, sym_phi=sp)), timeout=1500))
    for st, sp in ((True, True), (True, False), (False, True)):
        out.append(Case(f"pauli theta={'sym' if st else 0} phi={'sym' if sp else 0}", case_run,
                        dict(spec=dict(kind="pauli", soc=True, nb=1, nspin=1, Rud=("A",), R="A", keys=[], sym_theta=st, sym_phi=sp))))
    return out


# ------------------------------------------------------------------------------------------------------------
class NumRec:
    """replay-side recorder: the same obligations evaluated on concrete doubles with the unshadowed real code"""

    def __init__(s):
        s.bad = []

    def eq(s, name, a, b, key=None, **kw):
        a, b = np.asarray(a, dtype=complex), np.asarray(b, dtype=complex)
        ok = (a.shape == b.shape or b.size == 1) and np.allclose(a, b, rtol=1e-9, atol=1e-9 * (1 + np.abs(b).max(initial=0)))
        if not ok:
            s.bad.append(name)

    def concrete(s, name, ok, detail="", key=None):
        if not ok:
            s.bad.append(name + " " + detail)

    def note(s, txt):
        pass


KREPLAY = np.array([[0.1234, -0.3217, 0.4561], [0.377, 0.291, -0.113]])


def replay(rec):
    import traceback
    from symx.harness import unarr, CompleteEnv
    w = rec["witness"]
    spec = w["spec"]
    mk, ob = KIND[spec["kind"]]
    A = {n: unarr(a) for n, a in w["arrays"].items()}
    if all(np.abs(a).max(initial=0) == 0 for n, a in A.items() if n != "angles"):
        # a model of an exception path leaves all atoms free: take a generic point of the input space (hermitian structure kept)
        rng = np.random.default_rng(1)
        env = CompleteEnv()
        full = mk(spec)
        for n, a in full.items():
            for x in a.flat:
                for at in SymC.of(x).atoms():
                    env.setdefault(at, Fr(int(rng.integers(-8, 9)), 8))
        ang = A.get("angles")
        A = {n: np.asarray(env.val(a)) for n, a in full.items() if n != "angles"}
        if ang is not None:
            A["angles"] = np.where(ang == 0, [0.7 * spec["sym_theta"], 0.4 * spec["sym_phi"], 0.9], ang)
    A = {n: (a.real if n.endswith("c") or n == "angles" else a.astype(complex)) for n, a in A.items()}
    nr = NumRec()
    try:
        ob(nr, spec, A, KREPLAY[:spec.get("nk", 1)], np)
    except Exception as e:
        tb = traceback.format_exc()
        if "wannierberri" in tb.split("in ob_")[-1]:
            return True, f"raises {type(e).__name__}: {e}"
        raise
    return bool(nr.bad), f"angles={A['angles'].tolist() if 'angles' in A else None} failed: {nr.bad[:4]}"
