"""C25 — spin doubling and spin-orbit assembly preserve the spectrum"""
import math, warnings
from types import SimpleNamespace
import numpy as np
from symx.core import *
from symx.core import z3
from symx.npproxy import NpProxy, shadow
from symx.harness import Case
import symx.harness  # noqa (puts the repo on sys.path)
import wannierberri.system.system_R as SR, wannierberri.fourier.rvectors as RV, wannierberri.fourier.fft as FF, wannierberri.utility as UT
import wannierberri.data_K.data_K_R as DKR, wannierberri.data_K.data_K as DK
import wannierberri.system.system_soc as SSOC, wannierberri.data_K.data_K_soc as DKS, wannierberri.w90files.soc as WSOC

PROPERTY = "C25"
FUNCTIONS = ["wannierberri.system.system_R.System_R.double_spin/set_spin_pairs", "wannierberri.fourier.rvectors.Rvectors.double_spin/merge_Rvectors/conj_XX_R/R_to_k (k-list mode)",
             "wannierberri.system.system_soc.SystemSOC.__init__/set_soc_R/set_soc_axis/get_system_R", "wannierberri.fourier.rvectors.Rvectors.set_Rvec/set_fft_q_to_R/q_to_R/remap_XX_from_grid_to_list_R", "wannierberri.w90files.soc.SOC.__init__", "wannierberri.data_K.data_K_soc.Data_K_soc.__init__/HH_K/Xbar",
             "wannierberri.data_K.data_K_R.Data_K_R.HH_K/Xbar", "wannierberri.w90files.soc.SOC.get_C_ss/get_pauli_rotated"]
BOUNDS = dict(quick=dict(num_wann_scalar="1..2", R_sets="3..5 R-vectors; up / down / SOC R-sets different", data="symbolic complex X(-R)=X(R)^+ (dV_01 and overlap unconstrained)",
                         centres="symbolic", angles="theta, phi symbolic (half-angle unit-circle atoms) and the constants 0; units radians and degrees (symbolic degrees and the concrete pairs (30,180), (75,40))", alpha_soc="symbolic", k="symbolic: one free phase per R-vector",
                         derivatives="Xbar der <= 1"),
              thorough=dict(num_wann_scalar="1..6 (double_spin), 1..5 (no SOC), 1..4 (SOC assembly), 1..3 (set_soc_R)", R_sets="3..13 R-vectors; up / down / SOC R-sets all different",
                            matrices="Ham alone, Ham+AA, and Ham, AA, BB, CC, OO, GG (0, 1, 2 cartesian indices) in the spin channels; SOC matrices dV_00, dV_11, dV_01, overlap",
                            data="symbolic complex", centres="symbolic (concrete in set_soc_R)", angles="symbolic, radians and degrees in every accepted spelling (r, rad, Radians, RAD, d, deg, DEG, Degree, ...) "
                            "plus concrete degree pairs incl. (120,-60)", alpha_soc="symbolic, 0, default", k="symbolic, 1..2 k-points", derivatives="Xbar der <= 2 (der <= 1 for num_wann_scalar >= 4, for the six-matrix sets at num_wann_scalar = 3 and in the SOC assembly at num_wann_scalar = 3)",
                            set_soc_R="meshes 2x1x1, 1x2x1, 2x2x1, 2x1x2, 2x2x2, 1x1x1; Wannier gauge identity / phased permutation / phased plane rotation (different per k and spin); "
                                      "irreducible k-point subsets with weights"))
EXPLANATION = ("Spinless / spin-up / spin-down systems and the SOC matrices are symbolic object arrays on different R-vector sets; the real double_spin, SystemSOC.set_soc_axis, "
               "get_system_R and Data_K_soc.HH_K/Xbar run on them with symbolic quantisation angles (half-angle unit-circle atoms) and symbolic alpha_soc.  z3 decides the block identities "
               "H_doubled(k) = H(k) (x) 1_2, H_noSOC(k) = H_up(k) (+) H_down(k) on their own R-sets, H of get_system_R == Data_K_soc.HH_K == explicit sum over the SOC matrices, and the "
               "Pauli algebra / n.sigma' = diag(1,-1) of get_pauli_rotated for all angles; set_soc_axis(units='degrees') gives the same system as the same angles in radians, with S.n = diag(+1,-1) and H_soc[up,up] = alpha dV.n for the requested axis.  The spectrum statements of the property are the spectra of these block structures.")
ASSUMPTIONS = ["dV_soc_wann_0_0 / dV_soc_wann_1_1 obey X(-R)=X(R)^+ (asserted by set_soc_R when they are produced)", "the SOC R-vector set is closed under inversion (set_Rvec produces such sets)",
               "SOC Rvectors carry the interlaced up/down centres as shifts (what set_soc_R does)"]
OUTSIDE = ["numerical eigenvalues (np.linalg.eigh): the spectrum statements are claimed through the block structure of H(k), not through a diagonalisation",
           "set_soc_R: meshes with more than 2 points per direction (inexact DFT twiddles), symbolic gauge matrices and symbolic centres (the Wigner-Seitz construction needs numbers)", "the magnetic point group set by set_soc_axis when a cell is given (irrep.SpaceGroup)",
           "E_K_corners_* of Data_K_soc (property C33)", "sizes above the stated bounds"]
STUBS = ["np.deg2rad / np.radians in the shadowed modules for a symbolic angle: the linear map x -> x*(pi/180) (numpy's own double constant), concrete angles go to the real numpy function",
         "fourier.fft.execute_fft (as imported by rvectors) -> the DFT by definition with exact quarter-turn twiddles (set_soc_R cases)", "chk stand-ins (num_kpts, mp_grid, kpt_red, num_bands, concrete v_matrix) for set_soc_R",
         "grid stand-in with FFT=(1,1,1) for Data_K_R / Data_K_soc (k_list=...)", "UU_K = identity put into the Data_K cache (no eigh)"]

LAT = np.array([[1.0, 0, 0], [0.25, 1.5, 0], [0, 0.5, 2.0]])
MODS = [SR, RV, FF, UT, DKR, DK, SSOC, DKS, WSOC]
CART = dict(Ham=(), AA=(3,), BB=(3,), CC=(3,), OO=(3,), GG=(3, 3), dV_soc_wann_0_0=(3,), dV_soc_wann_1_1=(3,), dV_soc_wann_0_1=(3,), overlap_up_down=())
RSETS = dict(A=[(0, 0, 0), (1, 0, 0), (-1, 0, 0)],
             B=[(0, 0, 0), (0, 1, 0), (0, -1, 0), (1, 0, 0), (-1, 0, 0)],
             C=[(0, 1, -1), (0, 0, 0), (0, -1, 1)],
             E=[(0, 0, 0), (1, 1, 0), (-1, -1, 0), (0, 0, 1), (0, 0, -1), (1, 0, 0), (-1, 0, 0)],
             F=[(0, 0, 0), (1, 0, 0), (-1, 0, 0), (0, 1, 0), (0, -1, 0), (0, 0, 1), (0, 0, -1), (1, 1, 0), (-1, -1, 0), (1, -1, 1), (-1, 1, -1), (2, 0, 0), (-2, 0, 0)])
GRID = SimpleNamespace(FFT=np.array([1, 1, 1]))
PAULI = np.array([[[0, 1], [1, 0]], [[0, -1j], [1j, 0]], [[1, 0], [0, -1]]])   # harness's own sigma_c[s,t]
EPS = np.zeros((3, 3, 3))
for _a, _b, _c in ((0, 1, 2), (1, 2, 0), (2, 0, 1)):
    EPS[_a, _b, _c], EPS[_b, _a, _c] = 1, -1


# ------------------------------------------------------------------------------------------------------------
def mk_system(nb, iR, cred, mats):
    s = SR.System_R(silent=True)
    s.set_real_lattice(real_lattice=LAT)
    s.num_wann = nb
    s.wannier_centers_cart = cred.dot(LAT)
    s.rvec = RV.Rvectors(lattice=LAT, iRvec=np.array(iR), shifts_left_red=cred.copy())
    for key, X in mats.items():
        s.set_R_mat(key, X.copy())
    s.set_pointgroup()
    return s


def datak(system, k, cls=None):
    dk = (cls or DKR.Data_K_R)(system, dK=None, grid=GRID, k_list=k)
    dk.__dict__["UU_K"] = np.eye(system.num_wann)[None].repeat(len(k), axis=0)
    return dk


def fourier(iR, X, k, xp, hermitian=True):
    """harness's own H(k) = sum_R exp(2 pi i k.R) X(R), hermitian part in the band indices"""
    out = xp.zeros((len(k),) + X.shape[1:], dtype=complex)
    for ik, kk in enumerate(k):
        for r, x in zip(iR, X):
            out[ik] = out[ik] + xp.exp(2j * np.pi * (kk @ np.array(r))) * x
    return 0.5 * (out + xp.conj(out.swapaxes(1, 2))) if hermitian else out


def dbl(X, xp, ax=1):
    """X (x) 1_2 in interlaced order on axes (ax, ax+1)"""
    sh = list(X.shape)
    n = sh[ax]
    sh[ax] = sh[ax + 1] = 2 * n
    out = xp.zeros(tuple(sh), dtype=complex)
    pre = (slice(None),) * ax
    for a in range(n):
        for b in range(n):
            for s in (0, 1):
                out[pre + (2 * a + s, 2 * b + s)] = X[pre + (a, b)]
    return out


def blocks(Xu, Xd, xp, ax=1):
    """X_up (+) X_down in interlaced order"""
    sh = list(Xu.shape)
    n = sh[ax]
    sh[ax] = sh[ax + 1] = 2 * n
    out = xp.zeros(tuple(sh), dtype=complex)
    pre = (slice(None),) * ax
    for a in range(n):
        for b in range(n):
            out[pre + (2 * a, 2 * b)] = Xu[pre + (a, b)]
            out[pre + (2 * a + 1, 2 * b + 1)] = Xd[pre + (a, b)]
    return out


def zero_fill(X, iR_from, iR_to, xp):
    iR_from = [tuple(int(x) for x in r) for r in iR_from]
    out = xp.zeros((len(iR_to),) + X.shape[1:], dtype=complex)
    for i, r in enumerate(iR_to):
        r = tuple(int(x) for x in r)
        if r in iR_from:
            out[i] = X[iR_from.index(r)]
    return out


def tl(iRvec):
    return [tuple(int(x) for x in r) for r in iRvec]


# ------------------------------------------------------------------------------------------------------------
def arrays_double(spec):
    nb, iR = spec["nb"], RSETS[spec["R"]]
    A = dict(c=symvec("c", (nb, 3)))
    for key in spec["keys"]:
        A["X_" + key] = hermR("X" + key, iR, nb, CART[key])
    return A


def ob_double(rec, spec, A, k, xp):
    nb, iR = spec["nb"], RSETS[spec["R"]]
    mats = {key: A["X_" + key] for key in spec["keys"]}
    ref = datak(mk_system(nb, iR, A["c"], mats), k)
    S = mk_system(nb, iR, A["c"], mats)
    S.spinor = False
    S.rvec.set_fft_R_to_k(NK=None, num_wann=nb, k_list=k)
    _ = S.rvec.cRvec_shifted, S.rvec.shifts_diff_cart, S.wannier_centers_red          # fill the caches that double_spin has to drop
    S.double_spin()
    rec.concrete("doubled: num_wann, spinor flag", S.num_wann == 2 * nb and S.spinor is True, key="double_spin num_wann/spinor")
    rec.concrete("doubled: R-vectors unchanged", tl(S.rvec.iRvec) == tl(iR), key="double_spin changes the R-vectors")
    rec.concrete("doubled: matrices present + SS", sorted(S._XX_R) == sorted(list(spec["keys"]) + ["SS"]), detail=str(sorted(S._XX_R)), key="double_spin matrix set")
    for key in spec["keys"]:
        rec.eq(f"doubled {key}(R) == {key}(R) (x) 1_2 (interlaced)", S.get_R_mat(key), dbl(A["X_" + key], xp), key="double_spin R-matrix is not X (x) 1_2")
    cc = A["c"].dot(LAT)
    rec.eq("doubled centres: each centre twice (interlaced)", S.wannier_centers_cart, xp.stack([cc, cc], axis=1).reshape(2 * nb, 3), key="double_spin centres")
    rec.eq("doubled: cached reduced centres consistent with the cartesian ones", S.wannier_centers_red, S.wannier_centers_cart.dot(np.linalg.inv(LAT)), key="double_spin leaves a stale wannier_centers_red")
    c2 = xp.stack([A["c"], A["c"]], axis=1).reshape(2 * nb, 3)
    rec.eq("doubled Rvectors shifts (left)", S.rvec.shifts_left_red, c2, key="Rvectors.double_spin left shifts")
    rec.eq("doubled Rvectors shifts (right)", S.rvec.shifts_right_red, c2, key="Rvectors.double_spin right shifts")
    SS = xp.zeros((len(iR), 2 * nb, 2 * nb, 3), dtype=complex)
    for a in range(nb):
        for s in (0, 1):
            for t in (0, 1):
                SS[tl(iR).index((0, 0, 0)), 2 * a + s, 2 * a + t, :] = PAULI[:, s, t]
    rec.eq("SS(R) == delta_R0 1 (x) sigma", S.get_R_mat("SS"), SS, key="set_spin_pairs SS is not 1 (x) sigma at R=0")
    d = datak(S, k)
    rec.eq("H_doubled(k) == H(k) (x) 1_2 : every band twice", d.HH_K, dbl(ref.HH_K, xp), key="double_spin H(k) is not H(k) (x) 1_2")
    rec.eq("H_doubled(k) == own Fourier sum (x) 1_2", d.HH_K, dbl(fourier(iR, A["X_Ham"], k, xp), xp), key="double_spin H(k) is not H(k) (x) 1_2")
    for der in range(1, spec["der"] + 1):
        for key in spec["keys"]:
            rec.eq(f"Xbar_doubled({key},{der}) == Xbar({key},{der}) (x) 1_2", d.Xbar(key, der), dbl(ref.Xbar(key, der), xp), key=f"double_spin Xbar(der>=1) is not Xbar (x) 1_2")
    if "AA" in spec["keys"]:
        rec.eq("Xbar_doubled(AA,0) == Xbar(AA,0) (x) 1_2", d.Xbar("AA", 0), dbl(ref.Xbar("AA", 0), xp), key="double_spin Xbar(der=0) is not Xbar (x) 1_2")
    # the system's own Rvectors object after doubling (a cache that is not dropped shows up here)
    S.rvec.set_fft_R_to_k(NK=None, num_wann=2 * nb, k_list=k)
    rec.eq("system.rvec.R_to_k(Ham, der=1) after doubling", S.rvec.R_to_k(S.get_R_mat("Ham").copy(), der=1, hermitian=True), dbl(ref.Xbar("Ham", 1), xp),
           key="double_spin leaves stale Rvectors caches")
    sig = xp.zeros((len(k), 2 * nb, 2 * nb, 3), dtype=complex)
    for a in range(nb):
        for s in (0, 1):
            for t in (0, 1):
                sig[:, 2 * a + s, 2 * a + t, :] = PAULI[:, s, t]
    rec.eq("Xbar_doubled(SS,0) == 1 (x) sigma at every k", d.Xbar("SS", 0), sig, key="double_spin spin operator at k")


# ------------------------------------------------------------------------------------------------------------
def soc_keys(nspin):
    return ["dV_soc_wann_0_0"] + (["dV_soc_wann_1_1", "dV_soc_wann_0_1", "overlap_up_down"] if nspin == 2 else [])


def arrays_soc(spec):
    nb = spec["nb"]
    A = {}
    for ud, tag in enumerate(("u", "d")[:spec["nspin"]]):
        iR = RSETS[spec["Rud"][ud]]
        A[tag + "c"] = symvec(tag + "c", (nb, 3))
        for key in spec["keys"]:
            A[f"{tag}X_{key}"] = hermR(tag + key, iR, nb, CART[key])
    if spec["soc"]:
        for key in soc_keys(spec["nspin"]):
            A["X_" + key] = hermR("X" + key[-6:], RSETS[spec["R"]], nb, CART[key], hermitian=key in ("dV_soc_wann_0_0", "dV_soc_wann_1_1"))
        th = SymC.var("theta") if spec["sym_theta"] else SymC.of(0)
        ph = SymC.var("phi") if spec["sym_phi"] else SymC.of(0)
        A["angles"] = sarr([th, ph, SymC.var("asoc")])
    return A


def mk_soc(spec, A, axis=True):
    nb, ns = spec["nb"], spec["nspin"]
    sub = [mk_system(nb, RSETS[spec["Rud"][ud]], A[tag + "c"], {key: A[f"{tag}X_{key}"] for key in spec["keys"]}) for ud, tag in enumerate(("u", "d")[:ns])]
    s = SSOC.SystemSOC(*sub, silent=True)
    if spec["soc"]:
        cu, cd = A["uc"], A["dc" if ns == 2 else "uc"]
        s.rvec = RV.Rvectors(lattice=LAT, iRvec=np.array(RSETS[spec["R"]]), shifts_left_red=np.stack([cu, cd], axis=1).reshape(2 * nb, 3))
        for key in soc_keys(ns):
            s.set_R_mat(key, A["X_" + key].copy())
        s.has_soc = True
        if axis:
            th, ph, a = A["angles"]
            s.set_soc_axis(theta=th, phi=ph, alpha_soc=a)
    return s


def conjR(X, iR, xp):
    """harness's own X~(R) = X(-R)^+ (R-set closed under inversion)"""
    iR = tl(iR)
    out = xp.zeros(X.shape, dtype=complex)
    for i, r in enumerate(iR):
        out[i] = xp.conj(X[iR.index(tuple(-x for x in r))].swapaxes(0, 1))
    return out


def ob_soc(rec, spec, A, k, xp):
    nb, ns = spec["nb"], spec["nspin"]
    tags = ("u", "d") if ns == 2 else ("u", "u")
    iRud = [RSETS[spec["Rud"][0]], RSETS[spec["Rud"][ns - 1]]]
    s = mk_soc(spec, A)
    cu, cd = A[tags[0] + "c"].dot(LAT), A[tags[1] + "c"].dot(LAT)
    rec.eq("SOC system centres: up/down interlaced", s.wannier_centers_cart, xp.stack([cu, cd], axis=1).reshape(2 * nb, 3), key="SystemSOC centres not interlaced up/down")
    d = datak(s, k, DKS.Data_K_soc)
    Hu, Hd = (fourier(iRud[i], A[tags[i] + "X_Ham"], k, xp) for i in (0, 1))
    H0 = blocks(Hu, Hd, xp)
    own = [datak(mk_system(nb, iRud[i], A[tags[i] + "c"], {key: A[f"{tags[i]}X_{key}"] for key in spec["keys"]}), k) for i in (0, 1)]
    if not spec["soc"]:
        rec.eq("no SOC: H(k) == H_up(k) (+) H_down(k), zero up-down blocks : union of the two spectra", d.HH_K, H0, key="Data_K_soc.HH_K without SOC is not H_up (+) H_down")
        rec.eq("no SOC: blocks are Data_K_R of the up / down systems on their own R-sets", d.HH_K, blocks(own[0].HH_K, own[1].HH_K, xp), key="Data_K_soc.HH_K without SOC is not H_up (+) H_down")
    else:
        th, ph, asoc = A["angles"]
        sig = WSOC.SOC.get_pauli_rotated(theta=th, phi=ph)          # its algebra is the subject of case_pauli
        iR = RSETS[spec["R"]]
        V = {(0, 0): A["X_dV_soc_wann_0_0"]}
        if ns == 2:
            V[(1, 1)], V[(0, 1)] = A["X_dV_soc_wann_1_1"], A["X_dV_soc_wann_0_1"]
            V[(1, 0)] = conjR(V[(0, 1)], iR, xp)
        else:
            V[(1, 1)] = V[(0, 1)] = V[(1, 0)] = V[(0, 0)]
        W = xp.zeros((len(iR), 2 * nb, 2 * nb), dtype=complex)
        for (s_, t_), v in V.items():
            for a in range(nb):
                for b in range(nb):
                    W[:, 2 * a + s_, 2 * b + t_] = asoc * sum(v[:, a, b, c] * sig[s_, t_, c] for c in range(3))
        rec.eq("Ham_SOC(R) == alpha_soc * sum_c dV_st(R)_c sigma'_c[s,t]", s.get_R_mat("Ham_SOC"), W, key="set_soc_axis Ham_SOC assembly")
        SS = xp.zeros((len(iR), 2 * nb, 2 * nb, 3), dtype=complex)
        i0 = tl(iR).index((0, 0, 0))
        for a in range(nb):
            SS[i0, 2 * a, 2 * a], SS[i0, 2 * a + 1, 2 * a + 1] = sig[0, 0], sig[1, 1]
            if ns == 1:
                SS[i0, 2 * a, 2 * a + 1], SS[i0, 2 * a + 1, 2 * a] = sig[0, 1], sig[1, 0]
        if ns == 2:
            ov = A["X_overlap_up_down"]
            ovc = conjR(ov, iR, xp)
            for a in range(nb):
                for b in range(nb):
                    SS[:, 2 * a, 2 * b + 1] = ov[:, a, b, None] * sig[None, 0, 1]
                    SS[:, 2 * a + 1, 2 * b] = ovc[:, a, b, None] * sig[None, 1, 0]
        rec.eq("SS(R): sigma' on site, overlap * sigma'_01 between the spin channels", s.get_R_mat("SS"), SS, key="set_soc_axis SS assembly")
        rec.eq("H_SOC(k) == H_up (+) H_down + Fourier sum of Ham_SOC", d.HH_K, H0 + fourier(iR, W, k, xp), key="Data_K_soc.HH_K is not H_up (+) H_down + H_soc(k)")
        # the plain real-space system
        sr = s.get_system_R()
        iRm = tl(sr.rvec.iRvec)
        union = sorted(set(tl(iR)) | set(tl(iRud[0])) | set(tl(iRud[1])))
        rec.concrete("get_system_R: R-set is the union of the three R-sets, each once", sorted(iRm) == union, detail=str(iRm), key="merge_Rvectors is not the union")
        rec.concrete("get_system_R: num_wann, matrices", sr.num_wann == 2 * nb and sorted(sr._XX_R) == sorted(list(spec["keys"]) + ["SS"]), key="get_system_R matrix set")
        HR = zero_fill(W, iR, iRm, xp) + blocks(zero_fill(A[tags[0] + "X_Ham"], iRud[0], iRm, xp), zero_fill(A[tags[1] + "X_Ham"], iRud[1], iRm, xp), xp)
        rec.eq("get_system_R Ham(R) == Ham_SOC + H_up (+) H_down on the merged R-set", sr.get_R_mat("Ham"), HR, key="get_system_R Ham assembly")
        rec.eq("get_system_R SS(R) == SS zero-filled", sr.get_R_mat("SS"), zero_fill(SS, iR, iRm, xp), key="get_system_R SS assembly")
        rec.eq("get_system_R centres", sr.wannier_centers_cart, s.wannier_centers_cart, key="get_system_R centres")
        dr = datak(sr, k)
        rec.eq("get_system_R: H(k) == Data_K_soc.HH_K at every k", dr.HH_K, d.HH_K, key="get_system_R H(k) differs from Data_K_soc.HH_K")
        rec.eq("get_system_R: Xbar(SS,0) == Data_K_soc.Xbar(SS,0)", dr.Xbar("SS", 0), d.Xbar("SS", 0), key="get_system_R spin operator differs from Data_K_soc")
        for der in range(1, spec["der"] + 1):
            rec.eq(f"get_system_R: Xbar(Ham,{der}) == Data_K_soc.Xbar(Ham,{der})", dr.Xbar("Ham", der), d.Xbar("Ham", der), key="get_system_R dH/dk differs from Data_K_soc")
        if "AA" in spec["keys"]:
            rec.eq("get_system_R: Xbar(AA,0) == Data_K_soc.Xbar(AA,0)", dr.Xbar("AA", 0), d.Xbar("AA", 0), key="get_system_R AA(k) differs from Data_K_soc")
    # Data_K_soc.Xbar: block assembly of the spin-independent operators
    for key in spec["keys"]:
        for der in range(0 if key != "Ham" else 1, spec["der"] + 1):
            want = blocks(own[0].Xbar(key, der), own[1].Xbar(key, der), xp)
            if key == "Ham" and spec["soc"]:
                want = want + _soc_der(s, W, der, k)
            rec.eq(f"Data_K_soc.Xbar({key},{der}) == up (+) down blocks" + (" + SOC part" if key == "Ham" and spec["soc"] else ""), d.Xbar(key, der), want,
                   key="Data_K_soc.Xbar block assembly")


def _soc_der(s, W, der, k):
    rv = s.rvec.copy()
    rv.set_fft_R_to_k(NK=None, num_wann=s.num_wann, k_list=k)
    return rv.R_to_k(W.copy(), der=der, hermitian=True)


# ------------------------------------------------------------------------------------------------------------
def ob_pauli(rec, spec, A, k, xp):
    th, ph = A["angles"][:2]
    C = WSOC.SOC.get_C_ss(theta=th, phi=ph)
    sig = WSOC.SOC.get_pauli_rotated(theta=th, phi=ph)
    I2 = np.eye(2)
    rec.concrete("shape (2,2,3)", np.shape(sig) == (2, 2, 3), key="get_pauli_rotated shape")
    rec.eq("C_ss unitary", xp.conj(C.T) @ C, I2, key="get_C_ss not unitary")
    for a in range(3):
        rec.eq(f"sigma'_{a} hermitian", sig[:, :, a], xp.conj(sig[:, :, a].T), key="get_pauli_rotated not hermitian")
        for b in range(3):
            rhs = (1 if a == b else 0) * I2 + sum(1j * EPS[a, b, c] * sig[:, :, c] for c in range(3))
            rec.eq(f"sigma'_{a} sigma'_{b} == delta + i eps sigma'", sig[:, :, a] @ sig[:, :, b], rhs, key="get_pauli_rotated violates the Pauli algebra")
    # n = (sin th cos ph, sin th sin ph, cos th) from the half angles (double-angle formulas)
    c2, s2, cp, sp = xp.cos(th / 2), xp.sin(th / 2), xp.cos(ph / 2), xp.sin(ph / 2)
    n = [2 * s2 * c2 * (cp * cp - sp * sp), 2 * s2 * c2 * 2 * sp * cp, c2 * c2 - s2 * s2]
    rec.eq("n.sigma' == diag(1,-1): spin along the axis diagonal with eigenvalues +1, -1", sum(n[c] * sig[:, :, c] for c in range(3)), np.diag([1, -1]),
           key="get_pauli_rotated: n.sigma' is not diag(1,-1)")
    rec.eq("sigma' == C^+ sigma C", sig, xp.stack([xp.conj(C.T) @ PAULI[c] @ C for c in range(3)], axis=-1), key="get_pauli_rotated is not C^+ sigma C")


# ------------------------------------------------------------------------------------------------------------
# ------------------------------------------------------------------------------------------------------------
# entry point set_soc_R: SOC matrices given on a k-mesh (SOC object + gauge matrices), transformed to R by the real q_to_R
def mesh_of(spec):
    """Monkhorst-Pack mesh with 1 or 2 points per direction (all DFT twiddles are +-1)"""
    mp = np.array(spec.get("mesh", [2, 1, 1]))
    kpt = np.array([[i / mp[0], j / mp[1], l / mp[2]] for i in range(mp[0]) for j in range(mp[1]) for l in range(mp[2])])
    return mp, kpt


def gauge(spec, ik, spin, nb):
    """concrete Wannier gauge matrix v(k) of a spin channel: identity, a phased cyclic permutation, or a phased plane rotation (cos, sin = 0.6, 0.8)"""
    g = spec.get("gauge")
    if not g:
        return np.eye(nb, dtype=complex)
    ph = np.diag([1j ** ((a + ik + spin) % 4) for a in range(nb)])
    if g == "perm" or nb == 1:
        return np.roll(np.eye(nb), (ik + spin) % nb, axis=1) @ ph
    v = np.eye(nb, dtype=complex)
    c, sn = (0.6, 0.8) if (ik + spin) % 2 == 0 else (0.8, -0.6)
    v[0, 0], v[0, 1], v[1, 0], v[1, 1] = c, -sn, sn, c
    return v @ ph


def centres(nb, ud):
    """concrete reduced centres (the Wigner-Seitz construction of set_Rvec needs numbers)"""
    return np.array([[0.0, 0.125 * b, 0.0625 * ud] for b in range(nb)])


def exact_fft(inp, axes, inverse=False, destroy=True, fftlib="fftw"):
    """stand-in for fourier.fft.execute_fft: the DFT by definition (forward exp(-2 pi i jk/N) unnormalised, inverse normalised); twiddles that are
    multiples of a quarter turn are exact"""
    import cmath
    out = np.asarray(inp)
    for ax in axes:
        N = out.shape[ax]
        w = np.empty((N, N), dtype=object)
        for j in range(N):
            for l in range(N):
                t = (j * l) % N
                v = [1, 1j, -1, -1j][(4 * t // N) % 4] if (4 * t) % N == 0 else cmath.exp(2j * cmath.pi * t / N)
                w[j, l] = SymC.of(complex(v if inverse else np.conj(v))) / (N if inverse else 1)
        out = np.moveaxis(np.tensordot(w, out, axes=(1, ax)), 0, ax)
    return out.view(SymArray)


def arrays_socR(spec):
    nb, ns, NK = spec["nb"], spec["nspin"], len(mesh_of(spec)[1])
    A = {}
    for ud, tag in enumerate(("u", "d")[:ns]):
        A[f"{tag}X_Ham"] = hermR(tag + "Ham", RSETS[spec["Rud"][ud]], nb)
    Q = np.empty((NK, ns, ns, 3, nb, nb), dtype=object)
    for ik in range(NK):
        for c in range(3):
            for s_ in range(ns):
                Q[ik, s_, s_, c] = herm(f"q{ik}{s_}{s_}{c}", nb)
            if ns == 2:
                Q[ik, 0, 1, c] = symvec(f"q{ik}01{c}", (nb, nb), real=False)
                Q[ik, 1, 0, c] = np.conjugate(Q[ik, 0, 1, c].T)
    A["Q_dV"] = Q.view(SymArray)
    A["Q_ov"] = symvec("ov", (NK, nb, nb), real=False)
    A["angles"] = sarr([SymC.var("theta") if spec["sym_theta"] else SymC.of(0), SymC.var("phi") if spec["sym_phi"] else SymC.of(0), SymC.var("asoc")])
    return A


def mk_socR(spec, A):
    mp, kpt = mesh_of(spec)
    nb, ns, NK = spec["nb"], spec["nspin"], len(kpt)
    sub = [mk_system(nb, RSETS[spec["Rud"][ud]], centres(nb, ud), {"Ham": A[f"{tag}X_Ham"]}) for ud, tag in enumerate(("u", "d")[:ns])]
    s = SSOC.SystemSOC(*sub, silent=True)
    s.wannier_centers_cart = np.stack([sub[0].wannier_centers_cart, sub[-1].wannier_centers_cart], axis=1).reshape(2 * nb, 3).astype(float)
    s.__dict__.pop("wannier_centers_red", None)
    soc = WSOC.SOC(data=[A["Q_dV"][ik] for ik in range(NK)], overlap=[A["Q_ov"][ik] for ik in range(NK)] if ns == 2 else None)
    chks = [SimpleNamespace(num_kpts=NK, mp_grid=mp.copy(), kpt_red=kpt.copy(), num_bands=nb, num_wann=nb, v_matrix=[gauge(spec, ik, sp_, nb) for ik in range(NK)])
            for sp_ in range(ns)]
    extra = dict(kptirr=np.array(spec["kptirr"][0]), weights_k=np.array(spec["kptirr"][1], dtype=float)) if spec.get("kptirr") else {}
    return s, soc, dict(chk_up=chks[0], chk_down=chks[1] if ns == 2 else None, **extra)


def soc_W(V, sig, asoc, ns, nb, iR, xp):
    """harness's own Ham_SOC(R)[2a+s,2b+t] = alpha_soc sum_c dV_st(R)[a,b,c] sigma'_c[s,t]   (dV_10(R) = dV_01(-R)^+ ; one spin channel: dV_st = dV_00)"""
    V = dict(V)
    if ns == 2:
        V[(1, 0)] = conjR(V[(0, 1)], iR, xp)
    else:
        V[(1, 1)] = V[(0, 1)] = V[(1, 0)] = V[(0, 0)]
    W = xp.zeros((len(iR), 2 * nb, 2 * nb), dtype=complex)
    for (s_, t_), v in V.items():
        for a in range(nb):
            for b in range(nb):
                W[:, 2 * a + s_, 2 * b + t_] = asoc * sum(v[:, a, b, c] * sig[s_, t_, c] for c in range(3))
    return W


def ob_socR(rec, spec, A, k, xp):
    nb, ns = spec["nb"], spec["nspin"]
    th, ph, asoc = A["angles"]
    tags = ("u", "d") if ns == 2 else ("u", "u")
    s, soc, chk = mk_socR(spec, A)
    ret = s.set_soc_R(soc, theta=th, phi=ph, alpha_soc=asoc, **chk)
    iR = tl(s.rvec.iRvec)
    rec.concrete("set_soc_R: R-set closed under inversion, contains 0", (0, 0, 0) in iR and all(tuple(-x for x in r) in iR for r in iR), detail=str(iR), key="set_soc_R R-set")
    V = {(0, 0): s.get_R_mat("dV_soc_wann_0_0")}
    if ns == 2:
        V[(1, 1)], V[(0, 1)] = s.get_R_mat("dV_soc_wann_1_1"), s.get_R_mat("dV_soc_wann_0_1")
    sign = lambda kq, r: (-1) ** int(round(2 * float(np.dot(kq, r))))           # exp(2 pi i kq.R) on a mesh with 1 or 2 points per direction
    mp, kpt = mesh_of(spec)
    wk = {int(i): float(w) for i, w in zip(*spec["kptirr"])} if spec.get("kptirr") else {i: 1.0 for i in range(len(kpt))}       # weight of each mesh point (0: not given)
    vdag = lambda iq, sp_: np.conj(gauge(spec, iq, sp_, nb).T)
    for (s_, t_), v in V.items():
        for iq, kq in enumerate(kpt):
            want = wk.get(iq, 0.0) * xp.stack([vdag(iq, s_) @ A["Q_dV"][iq, s_, t_, c] @ gauge(spec, iq, t_, nb) for c in range(3)], axis=-1)
            rec.eq(f"set_soc_R: sum_R e^(ikR) dV_{s_}{t_}(R) == w_k v_s^+ dV_{s_}{t_}(k) v_t at mesh point {iq}", sum(sign(kq, r) * v[i] for i, r in enumerate(iR)), want,
                   key="set_soc_R real-space SOC matrices do not reproduce the mesh data")
    if ns == 2:
        ov = s.get_R_mat("overlap_up_down")
        for iq, kq in enumerate(kpt):
            rec.eq(f"set_soc_R: sum_R e^(ikR) overlap(R) == w_k v_up^+ overlap(k) v_down at mesh point {iq}", sum(sign(kq, r) * ov[i] for i, r in enumerate(iR)),
                   wk.get(iq, 0.0) * (vdag(iq, 0) @ A["Q_ov"][iq] @ gauge(spec, iq, 1, nb)), key="set_soc_R real-space overlap does not reproduce the mesh data")
    sig = WSOC.SOC.get_pauli_rotated(theta=th, phi=ph)
    W = soc_W(V, sig, asoc, ns, nb, iR, xp)
    rec.eq("set_soc_R(alpha_soc=a): Ham_SOC(R) == a * sum_c dV_st(R)_c sigma'_c[s,t]  (SOC term scales with alpha_soc)", s.get_R_mat("Ham_SOC"), W,
           key="set_soc_R does not scale Ham_SOC with alpha_soc")
    rec.eq("set_soc_R returns (Ham_SOC, SS)", ret[0], W, key="set_soc_R return value")
    rec.eq("set_soc_R returns (Ham_SOC, SS): SS", ret[1], s.get_R_mat("SS"), key="set_soc_R return value")
    rec.concrete("set_soc_R sets has_soc", s.has_soc is True, key="set_soc_R has_soc")
    Hu, Hd = (fourier(RSETS[spec["Rud"][min(i, ns - 1)]], A[tags[i] + "X_Ham"], k, xp) for i in (0, 1))
    rec.eq("set_soc_R(alpha_soc=a): H(k) == H_up (+) H_down + a * H_soc(k)", datak(s, k, DKS.Data_K_soc).HH_K, blocks(Hu, Hd, xp) + fourier(iR, W, k, xp), key="set_soc_R H(k) does not scale with alpha_soc")
    # alpha_soc = 0: no spin-orbit coupling -> union of the up and down spectra
    s0, soc0, chk0 = mk_socR(spec, A)
    s0.set_soc_R(soc0, theta=th, phi=ph, alpha_soc=0.0, **chk0)
    rec.eq("set_soc_R(alpha_soc=0): Ham_SOC == 0", s0.get_R_mat("Ham_SOC"), 0 * W, key="set_soc_R(alpha_soc=0) leaves a spin-orbit term")
    rec.eq("set_soc_R(alpha_soc=0): H(k) == H_up(k) (+) H_down(k) : union of the two spectra", datak(s0, k, DKS.Data_K_soc).HH_K, blocks(Hu, Hd, xp), key="set_soc_R(alpha_soc=0) H(k) is not H_up (+) H_down")
    # default alpha_soc = 1, then rescaled afterwards by set_soc_axis
    s1, soc1, chk1 = mk_socR(spec, A)
    s1.set_soc_R(soc1, theta=th, phi=ph, **chk1)
    rec.eq("set_soc_R(default): Ham_SOC == the alpha_soc=1 sum", s1.get_R_mat("Ham_SOC") * asoc, W, key="set_soc_R default alpha_soc is not 1")
    s1.set_soc_axis(theta=th, phi=ph, alpha_soc=asoc)
    rec.eq("set_soc_axis(alpha_soc=a) afterwards: Ham_SOC == a * sum", s1.get_R_mat("Ham_SOC"), W, key="set_soc_axis does not scale Ham_SOC with alpha_soc")


# ------------------------------------------------------------------------------------------------------------
# set_soc_axis with the angles given in degrees
D2R = float(np.pi / 180)


class ProxyDeg(NpProxy):
    """np.deg2rad of a symbolic angle: the linear map x -> x * (pi/180) (the double constant numpy multiplies with), so that the half-angle atoms of the radian angle are shared"""

    def deg2rad(s, x):
        return SymC.of(x) * D2R if isinstance(x, SymC) else np.deg2rad(x)
    radians = deg2rad


def arrays_deg(spec):
    A = arrays_soc(spec)
    if spec.get("deg_angles"):
        A["angles"] = sarr([SymC.of(float(spec["deg_angles"][0])), SymC.of(float(spec["deg_angles"][1])), SymC.var("asoc")])
    else:
        A["angles"] = sarr([SymC.var("thetadeg"), SymC.var("phideg"), SymC.var("asoc")])
    return A


def ob_deg(rec, spec, A, k, xp):
    nb, ns = spec["nb"], spec["nspin"]
    td, pd, asoc = A["angles"]
    # concrete angles: cos/sin are double constants, identities hold to rounding -> tolerance shape (data in [-1,1]); symbolic angles: exact
    cmp = (lambda name, l, r_, key: rec.close(name + " (1e-9, |data|<=1)", l, r_, 1e-9, bound=1.0, key=key)) if spec.get("deg_angles") else (lambda name, l, r_, key: rec.eq(name, l, r_, key=key))
    th, ph = (td, pd) if spec["units"].lower().startswith("r") else (xp.deg2rad(td), xp.deg2rad(pd))        # the angle in radians that the spelling of `units` announces
    s = mk_soc(spec, A, axis=False)
    s.set_soc_axis(theta=td, phi=pd, alpha_soc=asoc, units=spec["units"])
    r = mk_soc(spec, A, axis=False)
    r.set_soc_axis(theta=th, phi=ph, alpha_soc=asoc)
    cmp("degrees and radians give the same Ham_SOC", s.get_R_mat("Ham_SOC"), r.get_R_mat("Ham_SOC"), "set_soc_axis(units=degrees) differs from the same angles in radians")
    cmp("degrees and radians give the same SS", s.get_R_mat("SS"), r.get_R_mat("SS"), "set_soc_axis(units=degrees) differs from the same angles in radians")
    # n = (sin th cos ph, sin th sin ph, cos th) of the REQUESTED axis, from the half angles
    c2, s2, cp, sp = xp.cos(th / 2), xp.sin(th / 2), xp.cos(ph / 2), xp.sin(ph / 2)
    n = [2 * s2 * c2 * (cp * cp - sp * sp), 2 * s2 * c2 * 2 * sp * cp, c2 * c2 - s2 * s2]
    iR = RSETS[spec["R"]]
    i0 = tl(iR).index((0, 0, 0))
    SS = s.get_R_mat("SS")
    if ns == 1:
        for a in range(nb):
            cmp(f"degrees: on-site spin along the requested axis n(theta,phi) is diag(+1,-1) (Wannier function {a})", sum(n[c] * SS[i0, 2 * a:2 * a + 2, 2 * a:2 * a + 2, c] for c in range(3)),
                np.diag([1, -1]), "set_soc_axis(units=degrees): S.n is not diag(+1,-1)")
    else:
        for a in range(nb):
            cmp(f"degrees: spin-diagonal on-site entries of S.n are +1, -1 (Wannier function {a})", [sum(n[c] * SS[i0, 2 * a + t, 2 * a + t, c] for c in range(3)) for t in (0, 1)], [1, -1],
                "set_soc_axis(units=degrees): S.n is not diag(+1,-1)")
    W = s.get_R_mat("Ham_SOC")
    V00 = A["X_dV_soc_wann_0_0"]
    V11 = A["X_dV_soc_wann_1_1"] if ns == 2 else V00
    cmp("degrees: H_soc[up,up](R) == alpha_soc dV_00(R).n", W[:, ::2, ::2], asoc * sum(V00[..., c] * n[c] for c in range(3)), "set_soc_axis(units=degrees): spin-diagonal block of H_soc is not dV.n")
    cmp("degrees: H_soc[down,down](R) == -alpha_soc dV_11(R).n", W[:, 1::2, 1::2], -asoc * sum(V11[..., c] * n[c] for c in range(3)), "set_soc_axis(units=degrees): spin-diagonal block of H_soc is not dV.n")
    try:
        mk_soc(spec, A, axis=False).set_soc_axis(theta=td, phi=pd, units="gradians")
        ok = False
    except ValueError:
        ok = True
    rec.concrete("unknown units are refused (ValueError)", ok, key="set_soc_axis accepts unknown units")


KIND = dict(double=(arrays_double, ob_double), soc=(arrays_soc, ob_soc), pauli=(arrays_soc, ob_pauli), socR=(arrays_socR, ob_socR), deg=(arrays_deg, ob_deg))


def angle_of(env, x):
    """model value of a symbolic angle from its half-angle atoms"""
    x = SymC.of(x)
    if x.isconst():
        return float(x)
    h = x / 2
    return 2 * math.atan2(env.val(h.sin()), env.val(h.cos()))


def case_run(rec, spec):
    warnings.filterwarnings("ignore")
    proxy = ProxyDeg()
    shadow(MODS, proxy=proxy)
    RV.execute_fft = exact_fft
    mk, ob = KIND[spec["kind"]]
    A = mk(spec)
    k = symvec("k", (spec.get("nk", 1), 3))

    def witness(env):
        arrs = {n: env.arr(a) for n, a in A.items() if n != "angles"}
        if "angles" in A:
            if spec["kind"] == "deg":       # angles are in degrees; their model value comes from the half-angle atoms of the radian angle
                ang = [float(x) if SymC.of(x).isconst() else angle_of(env, SymC.of(x) * D2R) / D2R for x in A["angles"][:2]]
            else:
                ang = [angle_of(env, A["angles"][0]), angle_of(env, A["angles"][1])]
            arrs["angles"] = dict(re=ang + [env.val(A["angles"][2])], im=None)
        return dict(spec=spec, arrays=arrs)

    def body(rec):
        rec.witness = witness
        ob(rec, spec, A, k, proxy)
    rec.explore(body, [])


def cases(tier, seed):
    q = tier == "quick"
    out = []
    der = 1 if q else 2
    for nb in ((1, 2) if q else (1, 2, 3)):
        for R in (("A", "B") if q else ("A", "B", "E")):
            if q and (nb, R) == (2, "B"):
                continue
            for keys in (["Ham", "AA"], ["Ham"]):
                out.append(Case(f"double_spin nb={nb} R={R} keys={'+'.join(keys)}", case_run, dict(spec=dict(kind="double", nb=nb, R=R, keys=keys, der=der, nk=1 if q else 2)), timeout=3000))
    for nb in ((1, 2) if q else (1, 2, 3)):
        for nspin, Rud in ((2, ("A", "B")), (2, ("C", "C")), (1, ("B",))):
            out.append(Case(f"noSOC nb={nb} nspin={nspin} R={'/'.join(Rud)}", case_run,
                            dict(spec=dict(kind="soc", soc=False, nb=nb, nspin=nspin, Rud=Rud, keys=["Ham", "AA"], der=der, nk=1 if q else 2)), timeout=3000))
    for nb in ((1, 2) if q else (1, 2, 3)):
        for nspin, Rud, R in ((2, ("C", "B"), "A"), (1, ("C",), "A"), (2, ("A", "A"), "B")):
            for st, sp in ((True, True), (False, False)):
                if (nb > 1 and not st) or (q and nb == 2 and R == "B") or (nb == 3 and (nspin, R) != (2, "A")):
                    continue
                out.append(Case(f"SOC nb={nb} nspin={nspin} R={R} up/down={'/'.join(Rud)} angles={'symbolic' if st else '0'}", case_run,
                                dict(spec=dict(kind="soc", soc=True, nb=nb, nspin=nspin, Rud=Rud, R=R, keys=["Ham", "AA"] if nb < 3 else ["Ham"], der=der if nb < 3 else 1, nk=1,
                                               sym_theta=st, sym_phi=sp)), timeout=3000))
    for nb, nspin, Rud, st in ((1, 2, ("A", "B"), True), (1, 1, ("C",), True), (2, 2, ("A", "A"), False)) + (() if q else ((2, 2, ("B", "C"), True), (2, 1, ("A",), True), (3, 2, ("A", "B"), False))):
        out.append(Case(f"set_soc_R nb={nb} nspin={nspin} up/down={'/'.join(Rud)} mesh=2x1x1 angles={'symbolic' if st else '0'} alpha_soc symbolic, 0, default", case_run,
                        dict(spec=dict(kind="socR", nb=nb, nspin=nspin, Rud=Rud, sym_theta=st, sym_phi=st, nk=1)), timeout=3000))
    degs = [(1, 2, None, "degrees"), (1, 1, None, "deg"), (1, 2, (30.0, 180.0), "Degrees"), (1, 1, (75.0, 40.0), "degrees")] + ([] if q else [(2, 2, None, "degrees"), (2, 1, (120.0, -60.0), "d"), (2, 2, (30.0, 180.0), "degrees")])
    for nb, nspin, da, units in degs:
        out.append(Case(f"set_soc_axis units={units} nb={nb} nspin={nspin} angles={'symbolic (degrees)' if da is None else da}", case_run,
                        dict(spec=dict(kind="deg", soc=True, nb=nb, nspin=nspin, Rud=("C", "B")[:nspin], R="A", keys=["Ham"], sym_theta=True, sym_phi=True, deg_angles=da, units=units, nk=1)), timeout=3000))
    if not q:
        many = ["Ham", "AA", "BB", "CC", "OO", "GG"]
        for nb, R, keys in ((4, "F", ["Ham", "AA"]), (3, "F", many), (2, "E", many), (5, "B", ["Ham"]), (4, "A", ["Ham", "GG"]), (4, "F", many), (3, "F", ["Ham", "AA"]), (6, "A", ["Ham", "AA"])):
            out.append(Case(f"double_spin nb={nb} R={R} keys={'+'.join(keys)}", case_run, dict(spec=dict(kind="double", nb=nb, R=R, keys=keys, der=2 if (nb <= 2 or (nb == 3 and len(keys) < 3)) else 1, nk=2 if nb < 4 else 1)), timeout=3000))
        for nb, nspin, Rud, keys in ((4, 2, ("E", "F"), ["Ham", "AA"]), (3, 2, ("F", "C"), many), (2, 2, ("B", "F"), many), (4, 1, ("F",), ["Ham", "AA"]), (2, 1, ("E",), many), (3, 2, ("E", "F"), many), (4, 2, ("F", "E"), ["Ham", "AA"]), (5, 2, ("A", "B"), ["Ham"])):
            out.append(Case(f"noSOC nb={nb} nspin={nspin} R={'/'.join(Rud)} keys={'+'.join(keys)}", case_run,
                            dict(spec=dict(kind="soc", soc=False, nb=nb, nspin=nspin, Rud=Rud, keys=keys, der=2 if (nb <= 2 or (nb == 3 and len(keys) < 3)) else 1, nk=2 if nb < 4 else 1)), timeout=3000))
        for nb, nspin, Rud, R, keys, st in ((3, 2, ("C", "B"), "B", ["Ham", "AA"], True), (3, 1, ("E",), "A", ["Ham", "AA"], True), (3, 2, ("A", "A"), "B", ["Ham"], True),
                                            (2, 2, ("E", "F"), "B", many, True), (2, 1, ("F",), "E", many, True), (2, 2, ("F", "B"), "E", ["Ham", "AA"], True), (4, 2, ("A", "C"), "A", ["Ham"], False),
                                            (1, 2, ("F", "E"), "F", many, True), (2, 2, ("C", "B"), "A", ["Ham"], True), (3, 2, ("E", "F"), "B", many, True), (3, 2, ("F", "E"), "F", ["Ham", "AA"], True),
                                            (4, 2, ("B", "C"), "A", ["Ham", "AA"], True), (2, 2, ("F", "F"), "F", many, True), (3, 1, ("F",), "B", many, True)):
            out.append(Case(f"SOC nb={nb} nspin={nspin} R={R} up/down={'/'.join(Rud)} keys={'+'.join(keys)} angles={'symbolic' if st else '0'} (deep)", case_run,
                            dict(spec=dict(kind="soc", soc=True, nb=nb, nspin=nspin, Rud=Rud, R=R, keys=keys, der=2 if nb < 3 else 1, nk=2 if nb < 3 else 1, sym_theta=st, sym_phi=st)), timeout=3000))
        for nb, nspin, Rud, mesh, g, irr, st in ((1, 2, ("A", "B"), [2, 2, 1], "perm", None, True), (2, 2, ("B", "C"), [2, 2, 1], "rot", None, True), (2, 1, ("E",), [2, 2, 1], "rot", None, True),
                                                 (1, 2, ("A", "A"), [2, 2, 2], "perm", None, True), (2, 2, ("A", "B"), [2, 1, 2], "perm", ([0, 3], [2.0, 2.0]), True),
                                                 (1, 1, ("C",), [2, 2, 1], None, ([0, 1, 2], [1.0, 2.0, 1.0]), True), (3, 2, ("A", "B"), [1, 2, 1], "rot", None, False),
                                                 (2, 2, ("F", "E"), [1, 1, 1], "rot", None, True), (3, 1, ("B",), [2, 1, 1], "perm", None, True), (2, 2, ("A", "B"), [2, 2, 2], "rot", None, True),
                                                 (3, 2, ("E", "B"), [2, 2, 1], "perm", ([0, 3], [2.0, 2.0]), True), (3, 1, ("F",), [2, 2, 1], "rot", None, True)):
            out.append(Case(f"set_soc_R nb={nb} nspin={nspin} up/down={'/'.join(Rud)} mesh={'x'.join(map(str, mesh))} gauge={g or 'identity'} kptirr={irr} angles={'symbolic' if st else '0'}", case_run,
                            dict(spec=dict(kind="socR", nb=nb, nspin=nspin, Rud=Rud, sym_theta=st, sym_phi=st, nk=1, mesh=mesh, gauge=g, kptirr=irr)), timeout=3000))
        for units in ("radians", "rad", "r", "R", "Radians", "RAD", "deg", "d", "D", "DEG", "Degree", "degrees"):
            for nspin in (1, 2):
                out.append(Case(f"set_soc_axis units={units!r} nb=2 nspin={nspin} angles=symbolic (spelling sweep)", case_run,
                                dict(spec=dict(kind="deg", soc=True, nb=2, nspin=nspin, Rud=("C", "B")[:nspin], R="A", keys=["Ham"], sym_theta=True, sym_phi=True, deg_angles=None, units=units, nk=1)), timeout=3000))
    for st, sp in ((True, True), (True, False), (False, True)):
        out.append(Case(f"pauli theta={'sym' if st else 0} phi={'sym' if sp else 0}", case_run,
                        dict(spec=dict(kind="pauli", soc=True, nb=1, nspin=1, Rud=("A",), R="A", keys=[], sym_theta=st, sym_phi=sp))))
    return out


# ------------------------------------------------------------------------------------------------------------
class NumRec:
    """replay-side recorder: the same obligations evaluated on concrete doubles with the unshadowed real code"""

    def __init__(s):
        s.bad = []

    def eq(s, name, a, b, key=None, **kw):
        a, b = np.asarray(a, dtype=complex), np.asarray(b, dtype=complex)
        ok = (a.shape == b.shape or b.size == 1) and np.allclose(a, b, rtol=1e-9, atol=1e-9 * (1 + np.abs(b).max(initial=0)))
        if not ok:
            s.bad.append(name)

    def close(s, name, a, b, tol, bound=1.0, key=None):
        s.eq(name, a, b)

    def concrete(s, name, ok, detail="", key=None):
        if not ok:
            s.bad.append(name + " " + detail)

    def note(s, txt):
        pass


KREPLAY = np.array([[0.1234, -0.3217, 0.4561], [0.377, 0.291, -0.113]])


def replay(rec):
    import traceback
    from symx.harness import unarr, CompleteEnv
    w = rec["witness"]
    spec = w["spec"]
    mk, ob = KIND[spec["kind"]]
    A = {n: unarr(a) for n, a in w["arrays"].items()}
    if all(np.abs(a).max(initial=0) == 0 for n, a in A.items() if n != "angles"):
        # a model of an exception path leaves all atoms free: take a generic point of the input space (hermitian structure kept)
        rng = np.random.default_rng(1)
        env = CompleteEnv()
        full = mk(spec)
        for n, a in full.items():
            for x in a.flat:
                for at in SymC.of(x).atoms():
                    env.setdefault(at, Fr(int(rng.integers(-8, 9)), 8))
        ang = A.get("angles")
        A = {n: np.asarray(env.val(a)) for n, a in full.items() if n != "angles"}
        if ang is not None:
            A["angles"] = np.where(ang == 0, [0.7 * spec["sym_theta"], 0.4 * spec["sym_phi"], 0.9], ang)
    A = {n: (a.real if n.endswith("c") or n == "angles" else a.astype(complex)) for n, a in A.items()}
    nr = NumRec()
    try:
        ob(nr, spec, A, KREPLAY[:spec.get("nk", 1)], np)
    except Exception as e:
        tb = traceback.format_exc()
        if "wannierberri" in tb.split("in ob_")[-1]:
            return True, f"raises {type(e).__name__}: {e}"
        raise
    return bool(nr.bad), f"angles={A['angles'].tolist() if 'angles' in A else None} failed: {nr.bad[:4]}"
