"""C30 — grid tabulation covers every grid point with its own values"""
import itertools, traceback
from types import SimpleNamespace
import numpy as np
from symx.core import *
from symx.core import z3
from symx.npproxy import NpProxy, shadow
from symx.harness import Case, unarr
from symx.lifted import sym_permutation
import symx.harness  # noqa (puts the repo on sys.path)
import wannierberri.result.tabresult as TR, wannierberri.result.kbandresult as KB, wannierberri.result.resultdict as RD
import wannierberri.calculators.tabulate as TAB, wannierberri.symmetry.point_symmetry as PS
import wannierberri.run_grid as RG, wannierberri.evaluate_k  # noqa
import sys
EK = sys.modules["wannierberri.evaluate_k"]      # the package attribute of that name is the function
from wannierberri.grid import Grid
from wannierberri.data_K.data_K_R import Data_K_R
import wannierberri.grid.tetrahedron  # noqa (imported lazily by Data_K; numba import once in the parent, not in every worker)

PROPERTY = "C30"
FUNCTIONS = ["run_grid.run (serial, data_k_class= shell, K-points in a symbolic arrival order)", "run_grid.process", "Grid.get_K_list", "Data_K.kpoints_all",
             "tabulate.Tabulator.__call__", "tabulate.TabulatorAll.__init__/__call__", "TABresult.__init__/__add__/__mul__/__truediv__/transform/find_grid/to_grid/self_to_grid/savedata/get_data",
             "K__Result.__add__/to_grid/transform/get_component/get_component_list", "kbandresult.get_component", "ResultDict.__add__/__mul__/transform",
             "PointGroup.symmetrize", "evaluate_k.evaluate_k"]
BOUNDS = dict(quick=dict(grid="dense grids up to 3x2x2 and 7x1x1, 1x9x1, every factorisation NKdiv*NKFFT with <= 4 K-point batches (all arrival orders, <= 24), "
                              "5..9 batches: all rotations of the list order and their reversals", nb="2..3 with band selections", rank="0..2 (components up to rank 3)",
                         values="one symbolic real atom per (grid point, band, tensor component)", symmetry="none; inversion / time reversal with symmetric symbolic values on 2x2x1, 3x2x1"),
              thorough=dict(grid="as quick up to 3x2x2 / 4x2x1, <= 5 batches all orders (120), 6 and 12 batches: rotations and reversals", nb="2..3", rank="0..3",
                            values="as quick", symmetry="as quick + 2x2x2, 4x1x1, C2z on 2x2x1"))
EXPLANATION = ("The real run() drives the real Tabulator/TabulatorAll/TABresult code with a shell Data_K whose formula returns one symbolic atom per (k-point, band, component); "
               "the K-point list is handed to run() in a symbolic order (a z3 permutation, each feasible order is one explored path). z3 decides that every C-ordered grid slot "
               "of get_data holds exactly the atoms of its own point, that evaluate_k at that point returns the same atoms, and that every component equals the index expression on the tensor.")
ASSUMPTIONS = ["bands non-degenerate at every k-point (degenerate groups are C15)", "every K-point result is added exactly once (C12); arrival order = order of the K-point list in serial mode",
               "symmetric cases: the per-point values obey v(gk) = g.v(k) (what a symmetric system produces); quantities are TR/I even or odd",
               "norm/sq components: real tensor entries"]
OUTSIDE = ["the physical formulas (Eavln, Omega, ...): the formula is a stub with free values", "ray scheduling (C12)", "adaptive refinement iterations (tabulation ignores them)",
           "frmsf / npz text and file output", "partial index tuples and component strings shorter than the rank (semantics not documented)", "grids beyond the stated bounds; arrival orders of > 5 batches beyond rotations/reversals"]
STUBS = ["data_k_class: object.__new__(Data_K_R) with system/grid/dK/Kpoint/E_K (concrete, well separated) - kpoints_all, nk, NKFFT, get_bands_in_range_groups are the real ones",
         "Formula stub: trace(ik, inn, out) = sum over inn of the atoms of k-point kpoints_all[ik]", "system: namespace with lattice, trivial or small PointGroup, periodic, NKFFT_recommended, num_wann",
         "Grid.get_K_list wrapped: the real list, permuted", "run_grid.get_ray_cpus_count -> 1 (serial mode; avoids importing ray in every worker)"]

LAT = np.array([[1.0, 0.0, 0.0], [0.2, 1.1, 0.0], [0.1, 0.3, 0.9]])
ORTHO = np.diag([1.0, 1.2, 0.9])


# ---- checkers (same text for z3 and for replay) ------------------------------------------------------------------
class SymCk:
    def __init__(s, rec):
        s.rec = rec

    def eq(s, name, l, r, key):
        if np.shape(l) != np.shape(r):
            return s.rec.concrete(name, False, f"shape {np.shape(l)} vs {np.shape(r)}", key=key)
        return s.rec.eq(name, l, r, key=key)

    def ok(s, name, cond, key, detail=""):
        return s.rec.concrete(name, bool(cond), detail, key=key)


class NumCk:
    def __init__(s):
        s.bad = []

    def eq(s, name, l, r, key):
        l, r = np.asarray(l), np.asarray(r)
        if l.shape != r.shape or not np.allclose(np.asarray(l, dtype=complex), np.asarray(r, dtype=complex), rtol=1e-9, atol=1e-9 * (1 + (np.abs(r).max() if r.size else 0))):
            s.bad.append(name)

    def ok(s, name, cond, key, detail=""):
        if not cond:
            s.bad.append(f"{name} {detail}")


# ---- environment ------------------------------------------------------------------------------------------
TRANSFORMS = dict(ident=PS.transform_ident, odd=PS.transform_odd)


def make_system(P):
    gens = P.get("sym") or []
    lat = ORTHO if gens else LAT
    pg = PS.PointGroup([SYMS[g] for g in gens], real_lattice=lat)
    return SimpleNamespace(real_lattice=pg.real_lattice, recip_lattice=pg.recip_lattice, pointgroup=pg, periodic=np.array([True] * 3),
                           NKFFT_recommended=np.array([1, 1, 1]), num_wann=P["nb"], force_internal_terms_only=False, is_phonon=False)


def make_formula(P, values, dense, quantity):
    rank = 0 if quantity == "Energy" else P["rank"]

    class StubFormula:
        ndim = rank
        transformTR = TRANSFORMS[P.get("tTR", "ident")] if quantity != "Energy" else PS.transform_ident
        transformInv = TRANSFORMS[P.get("tInv", "ident")] if quantity != "Energy" else PS.transform_ident

        def __init__(s, data_K, **kw):
            s.kp = np.asarray(data_K.kpoints_all, dtype=float)

        def trace(s, ik, inn, out):
            c = tuple(int(x) for x in np.rint(s.kp[ik] * dense).astype(int) % dense)
            v = values[c]
            tot = v[int(inn[0])]
            for b in inn[1:]:
                tot = tot + v[int(b)]
            a = np.empty(np.shape(tot), dtype=object if isinstance(values, SymArray) or values.dtype == object else float)
            a[...] = tot
            return a.view(SymArray) if a.dtype == object else a
    return StubFormula


def shell_data_k(system, dK=None, grid=None, Kpoint=None, **kw):
    d = object.__new__(Data_K_R)
    d.__dict__.update(system=system, dK=np.asarray(dK, dtype=float), k_list=None, grid=grid, Kpoint=Kpoint, num_wann=system.num_wann)
    d.__dict__["E_K"] = np.tile(np.arange(system.num_wann) * 1.0, (d.nk, 1))
    return d


def expected(V, P, quantity):
    """own statement: slot (i,j,k) of the C-ordered grid holds the value of point (i/n0, j/n1, k/n2) for the selected bands, times the constant factor"""
    ib = list(range(P["nb"])) if P.get("ibands") is None else list(P["ibands"])
    return V[:, :, :, ib]


def component_oracle(T, ndim, comp):
    """T[..., 3,3,..]: the algebraic meaning of a component"""
    xyz = dict(x=0, y=1, z=2)
    if comp is None:
        return T
    if isinstance(comp, tuple):
        return T[(Ellipsis,) + comp]
    c = comp.lower()
    if c == "trace":
        return sum(T[(Ellipsis,) + (i,) * ndim] for i in range(3))
    if c in ("norm", "sq"):
        return None
    return T[(Ellipsis,) + tuple(xyz[ch] for ch in c)]


def components_for(ndim, full):
    if ndim == 0:
        return [None]
    names = ["".join(s) for s in itertools.product("xyz", repeat=ndim)]
    if not full:
        names = names[:2] + names[-2:] + names[len(names) // 2:len(names) // 2 + 1]
    out = names + [names[1].upper()] + [tuple("xyz".index(ch) for ch in n) for n in (names if full else names[1:3])]
    if ndim >= 2:
        out.append("trace")
    if ndim == 1:
        out += ["norm", "sq"]
    return out


def check_components(ck, res, T, ndim, comps, what, getter):
    """res: K__Result-like getter(component) ; T: expected tensor with tensor axes last"""
    for comp in comps:
        got = getter(comp)
        if comp in ("norm", "sq"):
            sq = sum(T[..., i] * T[..., i] for i in range(3))
            ck.eq(f"{what} component {comp!r}: value^{1 if comp == 'sq' else 2} == sum of squares", got if comp == "sq" else got * got, sq, f"get_component {comp} wrong (ndim={ndim})")
            if comp == "norm":
                flat = np.asarray(got, dtype=object).ravel()
                if any(isinstance(x, SymC) and not x.isconst() for x in flat):
                    fact = True
                    for x in flat:
                        fact = (x >= 0) & fact
                    ck.rec.fact(f"{what} component 'norm' >= 0", fact, key="get_component norm negative")
                else:
                    ck.ok(f"{what} component 'norm' >= 0", all(float(x) >= 0 for x in flat), "get_component norm negative")
        else:
            ck.eq(f"{what} component {comp!r}", got, component_oracle(T, ndim, comp), f"get_component {comp if not isinstance(comp, tuple) else 'tuple'} wrong (ndim={ndim})")


# ---- the law: tabulate on a grid in a given arrival order ----------------------------------------------------
def law_grid(ck, P, X, perm):
    div, fft, nb, rank = np.array(P["div"]), np.array(P["fft"]), P["nb"], P["rank"]
    dense = div * fft
    ibands = P.get("ibands")
    system = make_system(P)
    use_sym = bool(P.get("sym"))
    grid = Grid(system=system, NKdiv=div, NKFFT=fft, use_symmetry=use_sym)
    real_get = grid.get_K_list
    seen = {}

    def permuted(**kw):
        L = real_get(**kw)
        seen["n"] = len(L)
        return [L[p] for p in perm(len(L))]
    grid.get_K_list = permuted
    cf = X["cf"]
    mk = lambda q, **kw: TAB.Tabulator(make_formula(P, X["VE" if q == "Energy" else "VQ"], dense, q), print_comment=False, **kw)
    tabs = {"Energy": mk("Energy"), "Q": mk("Q", constant_factor=cf)}
    if P.get("ibands_on_tabulator"):
        tabs["Q"].ibands = np.array(ibands)
    tall = TAB.TabulatorAll(tabs, ibands=ibands, mode="grid", save_mode="")
    res = RG.run(system, grid, {"tabulate": tall}, parallel=False, use_irred_kpt=use_sym, symmetrize=use_sym, data_k_class=shell_data_k, fout_name="c30", adpt_num_iter=0)
    tab = res.results["tabulate"]
    K = "grid tabulation: "
    npt = int(np.prod(dense))
    nsel = nb if ibands is None else len(ibands)
    ck.ok("result is a TABresult on the dense grid", isinstance(tab, TR.TABresult) and tab.grid is not None and tuple(int(g) for g in tab.grid) == tuple(int(g) for g in dense)
          and tab.gridorder == "C" and tab.nband == nsel, K + "grid not recognised", f"grid={tab.grid} dense={dense}")
    if tab.grid is None or tuple(int(g) for g in tab.grid) != tuple(int(g) for g in dense):
        return
    want_k = np.array([[i / dense[0], j / dense[1], k / dense[2]] for i in range(dense[0]) for j in range(dense[1]) for k in range(dense[2])])
    ck.ok("every grid point exactly once, C order", tab.kpoints.shape == (npt, 3) and np.allclose(tab.kpoints, want_k, atol=1e-12) and all(r.nk == npt for r in tab.results.values()),
          K + "k-points are not the C-ordered grid")
    EE, QQ = expected(X["VE"], P, "Energy"), expected(X["VQ"], P, "Q") * cf
    ck.eq("get_data('Energy')[i,j,k,b] == own value of point (i,j,k)", tab.get_data("Energy"), EE, K + "a slot does not hold its own point's Energy")
    ck.eq("get_eigenvalues(iband=[last])", tab.get_eigenvalues(iband=[nsel - 1]), EE[..., [nsel - 1]], K + "band selection in get_data wrong")
    ck.eq("get_data('Q')[i,j,k,b,...] == constant_factor * own value of point (i,j,k)", tab.get_data("Q"), QQ, K + "a slot does not hold its own point's value")
    ck.eq("get_data('Q', iband=0) (single band)", tab.get_data("Q", iband=0), QQ[:, :, :, 0], K + "single-band get_data wrong")
    comps = components_for(rank, full=rank <= 1)
    ck.ok("get_component_list is the full list", tab.results["Q"].get_component_list() == ([None] if rank == 0 else ["".join(s) for s in itertools.product("xyz", repeat=rank)] + (["trace"] if rank >= 2 else [])),
          "get_component_list wrong", str(tab.results["Q"].get_component_list()))
    check_components(ck, tab, QQ, rank, comps, "get_data", lambda c: tab.get_data("Q", component=c))
    # the same point evaluated alone
    if P.get("evaluate_k"):
        for c in itertools.product(*[range(d) for d in dense]):
            single = EK.evaluate_k(system, k=np.array(c) / dense, calculators={"Q": tabs["Q"], "Energy": tabs["Energy"]}, data_k_class=shell_data_k)
            ck.eq(f"grid slot {c} == evaluate_k at that point", np.asarray(tab.get_data("Q"))[c], single["Q"].data[0], K + "grid slot differs from evaluate_k of the point alone")
            ck.eq(f"grid slot {c} Energy == evaluate_k", np.asarray(tab.get_data("Energy"))[c], single["Energy"].data[0], K + "grid slot differs from evaluate_k of the point alone")


def law_component(ck, P, X):
    """get_component / K__Result.get_component on a (nk, nb, 3^ndim) tensor"""
    ndim = P["ndim"]
    D = X["D"]
    res = KB.KBandResult(D.copy(), transformTR=PS.transform_ident, transformInv=PS.transform_ident)
    comps = components_for(ndim, full=True)
    ck.ok("ndim / get_component_list", res.ndim == ndim and res.get_component_list() == ([None] if ndim == 0 else ["".join(s) for s in itertools.product("xyz", repeat=ndim)] + (["trace"] if ndim >= 2 else [])),
          "get_component_list wrong")
    check_components(ck, res, D, ndim, comps, "KBandResult.get_component", res.get_component)
    check_components(ck, res, D, ndim, comps, "get_component(function)", lambda c: KB.get_component(D.copy(), ndim, c))
    for bad in (["x"] if ndim == 0 else ["trace", "xy"] if ndim == 1 else []):
        try:
            res.get_component(bad)
            ck.ok(f"component {bad!r} of an ndim={ndim} tensor is refused", False, "nonexistent component not refused")
        except KB.NoComponentError:
            ck.ok(f"component {bad!r} of an ndim={ndim} tensor is refused", True, "nonexistent component not refused")
    ck.eq("data unchanged by get_component", res.data, D, "get_component mutates the data")


# ---- symmetric values -----------------------------------------------------------------------------------------
SYMS = dict(I=PS.Inversion, TR=PS.TimeReversal, C2z=PS.C2z, Mz=PS.Mz)


def symmetric_values(P, base, dense, quantity):
    """values with v(g k) = g.v(k) for the group generated by P['sym'] (diagonal operations only): representative atoms per orbit, signs from the transform"""
    gens = [SYMS[s] for s in P["sym"]]
    group = PS.PointGroup(gens, real_lattice=ORTHO).symmetries
    rank = 0 if quantity == "Energy" else P["rank"]
    tTR = "ident" if quantity == "Energy" else P.get("tTR", "ident")
    tInv = "ident" if quantity == "Energy" else P.get("tInv", "ident")
    out = np.empty(base.shape, dtype=base.dtype)
    pts = list(itertools.product(*[range(d) for d in dense]))
    for c in pts:
        images = []
        for g in group:
            Rd = np.rint(np.diag(g.R)).astype(int)
            assert np.allclose(g.R, np.diag(Rd))
            gc = tuple(int(x) for x in (np.array(c) * Rd * g.iTR * g.iInv) % dense)
            sign = np.ones((3,) * rank)
            for ax in range(rank):
                shp = [1] * rank
                shp[ax] = 3
                sign = sign * Rd.reshape(shp)
            if g.TR and tTR == "odd":
                sign = -sign
            if g.Inv and tInv == "odd":
                sign = -sign
            images.append((gc, sign))
        rep = min(gc for gc, _ in images)
        # v(c) = sign_c^-1 * w(rep) where v(rep)=w ; consistency: components whose sign is not unique vanish
        srep = [s for gc, s in images if gc == rep]
        val = base[rep] * srep[0]          # v(rep) = g.v(c) => v(c) = sign * v(rep) (signs are +-1)
        ok = np.ones((3,) * rank, dtype=bool)
        for gc, s in images:
            for gc2, s2 in images:
                if gc == gc2:
                    ok &= (s == s2)
        out[c] = val * ok.astype(int)
    return out


# ---- cases ----------------------------------------------------------------------------------------------------
def specs(kind, P):
    if kind == "component":
        return dict(D=("r", (P["nk"], P["nb"]) + (3,) * P["ndim"]))
    dense = tuple(int(a * b) for a, b in zip(P["div"], P["fft"]))
    return dict(VE=("r", dense + (P["nb"],)), VQ=("r", dense + (P["nb"],) + (3,) * P["rank"]), cf=("r", ()))


def orders(n, mode):
    if mode == "all":
        return None
    base = list(range(n))
    out = []
    for r in range(n):
        rot = base[r:] + base[:r]
        out += [rot, rot[::-1]]
    return [list(x) for x in dict.fromkeys(map(tuple, out))]


def case_grid(rec, P):
    shadow([TR, KB, RD, TAB, PS])
    RG.get_ray_cpus_count = lambda: 1        # serial run; the real one imports ray (seconds per worker)
    sp = specs("grid", P)
    X = {nm: (symvec(nm, shp) if shp else SymC.var(nm)) for nm, (t, shp) in sp.items()}
    dense = tuple(int(a * b) for a, b in zip(P["div"], P["fft"]))
    if P.get("sym"):
        X = dict(X, VE=symmetric_values(P, X["VE"], dense, "Energy").view(SymArray), VQ=symmetric_values(P, X["VQ"], dense, "Q").view(SymArray))
    nbatch = P["nbatch"]
    olist = orders(nbatch, P["orders"])
    if olist is None:
        lifted, ass, pvars = sym_permutation("p", list(range(nbatch)))
    else:
        ch = z3.Int("order")
        ass, pvars = [ch >= 0, ch < len(olist)], [ch]

    def body(rec):
        cur = {}

        def perm(n):
            assert n == nbatch, f"harness expects {nbatch} K-point batches, the grid produced {n}"
            if olist is None:
                cur["perm"] = [int(l.concretize()) if hasattr(l, "concretize") else int(l) for l in lifted]
            else:
                k = 0
                while k < len(olist) - 1 and not bool(SymB(ch == k)):
                    k += 1
                cur["perm"] = olist[k]
            return cur["perm"]
        rec.witness = lambda env: dict(kind="grid", P=P, perm=cur.get("perm"), X={nm: (env.arr(v) if isinstance(v, np.ndarray) else env.val(v)) for nm, v in X.items()})
        law_grid(SymCk(rec), P, {nm: (v.copy() if isinstance(v, np.ndarray) else v) for nm, v in X.items()}, perm)
    rec.explore(body, ass)


def case_component(rec, P):
    shadow([KB])
    X = dict(D=symvec("D", specs("component", P)["D"][1]))

    def body(rec):
        rec.witness = lambda env: dict(kind="component", P=P, X=dict(D=env.arr(X["D"])))
        law_component(SymCk(rec), P, dict(D=X["D"].copy()))
    rec.explore(body, [])


def factorisations(dense):
    per_axis = [[(d, n // d) for d in range(1, n + 1) if n % d == 0] for n in dense]
    for combo in itertools.product(*per_axis):
        yield [c[0] for c in combo], [c[1] for c in combo]


def cases(tier, seed):
    import io, contextlib
    with contextlib.redirect_stdout(io.StringIO()):
        return _cases(tier, seed)


def _cases(tier, seed):
    q = tier == "quick"
    out = []
    maxall = 4 if q else 5
    # 7 and 9 = 3x3 points along an axis: the k-points (ix/FFT + K/FFT) % 1 come out one ulp below a grid node, so on-grid rounding matters
    grids = [((2, 2, 1), 2, 1), ((3, 2, 2), 2, 0), ((1, 2, 3), 3, 2), ((2, 1, 2), 2, 1), ((7, 1, 1), 2, 0), ((1, 9, 1), 2, 1)] + ([] if q else [((4, 2, 1), 2, 1), ((2, 2, 2), 2, 3), ((3, 1, 3), 3, 1)])
    first = True
    for dense, nb, rank in grids:
        for div, fft in factorisations(dense):
            nbatch = int(np.prod(div))
            if nbatch > (9 if q else 12):
                continue
            mode = "all" if nbatch <= maxall else "rotations"
            ib = None if (sum(div) + rank) % 2 else ([nb - 1, 0] if nb > 2 else [1])
            P = dict(div=div, fft=fft, nb=nb, rank=rank, ibands=ib, nbatch=nbatch, orders=mode, evaluate_k=(nbatch <= 2), ibands_on_tabulator=bool(ib) and nbatch % 2 == 0)
            out.append(Case(f"grid dense={dense} NKdiv={div} NKFFT={fft} nb={nb} rank={rank} ibands={ib} orders={mode}", case_grid, dict(P=P), timeout=1500))
    # symmetric systems: irreducible K-points, star symmetrisation, averaging in to_grid
    symcases = [((2, 2, 1), ["I"], "ident", "odd", 1), ((3, 2, 1), ["TR"], "odd", "ident", 1), ((2, 2, 1), ["I", "TR"], "odd", "odd", 0), ((3, 2, 1), ["I"], "ident", "ident", 2)]
    if not q:
        symcases += [((2, 2, 2), ["I"], "ident", "odd", 1), ((4, 1, 1), ["TR"], "odd", "ident", 2), ((2, 2, 1), ["C2z"], "ident", "ident", 1), ((2, 2, 2), ["Mz", "TR"], "odd", "ident", 1)]
    for dense, sym, tTR, tInv, rank in symcases:
        for div, fft in factorisations(dense):
            P0 = dict(div=div, fft=fft, nb=2, rank=rank, ibands=None, sym=sym, tTR=tTR, tInv=tInv, orders="all", evaluate_k=False)
            system = make_system(P0)
            n = len(Grid(system=system, NKdiv=np.array(div), NKFFT=np.array(fft), use_symmetry=True).get_K_list(use_symmetry=True))
            if n > maxall:
                continue
            out.append(Case(f"symmetric {sym} dense={dense} NKdiv={div} NKFFT={fft} rank={rank} TR={tTR} Inv={tInv} irreducible batches={n}", case_grid, dict(P=dict(P0, nbatch=n)), timeout=1500))
    for ndim in ((0, 1, 2, 3) if q else (0, 1, 2, 3, 4)):
        for nk, nb in ((2, 2),) if q or ndim > 2 else ((2, 2), (1, 3), (3, 1)):
            out.append(Case(f"component ndim={ndim} nk={nk} nb={nb}", case_component, dict(P=dict(ndim=ndim, nk=nk, nb=nb))))
    # band selections that cut a (nearly) degenerate group: every tabulated band must still carry the value of its whole group (the Tabulator cases of the
    # C15 harness: symbolic spectrum and threshold, every grouping pattern, ibands selections)
    from props import c15
    out += [Case("band selection vs degenerate groups: " + c.name, c.fn, c.kwargs, timeout=c.timeout) for c in c15.cases(tier, seed) if c.name.startswith("tabulator")]
    return out


# ---- replay -----------------------------------------------------------------------------------------------------
def replay(rec):
    w = rec["witness"]
    if w.get("fn") == "Tabulator":          # band-selection case shared with the C15 harness
        from props import c15
        return c15.replay(rec)
    kind, P = w["kind"], w["P"]
    rng = np.random.default_rng(3)
    X = {}
    for nm, (t, shp) in specs(kind, P).items():
        v = w["X"].get(nm)
        if shp == ():
            X[nm] = float(v) if v else 1.3
            continue
        a = unarr(v).reshape(shp).astype(float) if v is not None else np.zeros(shp)
        if np.abs(a).max(initial=0) == 0:
            a = rng.uniform(-1, 1, shp)
            if kind == "grid" and P.get("sym"):
                a = symmetric_values(P, a, tuple(int(x * y) for x, y in zip(P["div"], P["fft"])), "Energy" if nm == "VE" else "Q")
        X[nm] = a
    ck = NumCk()
    ck.rec = None
    try:
        if kind == "grid":
            perm = w.get("perm") or list(range(P["nbatch"]))
            law_grid(ck, P, X, lambda n: perm)
        else:
            law_component(ck, P, X)
    except Exception as e:
        tb = traceback.format_exc()
        if "wannierberri" in tb:
            return True, f"{kind} {P}: raises {type(e).__name__}: {e}"
        raise
    return bool(ck.bad), f"{kind} {P} order={w.get('perm')}: " + ("; ".join(ck.bad[:6]) if ck.bad else "all laws hold")
