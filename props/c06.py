"""C06 — K-point weights partition the Brillouin zone for every grid and history"""
import io, contextlib, itertools, warnings
import numpy as np
from fractions import Fraction as Fr
from symx.core import *
from symx.core import z3
from symx.npproxy import shadow
from symx.harness import Case
import symx.harness  # noqa
with contextlib.redirect_stdout(io.StringIO()):
    import wannierberri.grid.Kpoint as KP, wannierberri.grid.Kpoint_tetra as KT, wannierberri.grid.grid_tetra as GT
    from wannierberri.grid import Grid, GridTetra
    from wannierberri.grid.Kpoint import exclude_equiv_points
    from wannierberri.symmetry.point_symmetry import PointGroup

PROPERTY = "C06"
FUNCTIONS = ["run_grid.run (refinement loop, stand-in system / stub data class)", "grid.determineNK (periodic mask)", "Grid.get_K_list (symmetry reduction)", "KpointBZparallel.star/absorb/equiv/divide/distGamma", "grid.Kpoint.exclude_equiv_points", "PointGroup.star / PointSymmetry.transform_reduced_vector",
             "GridTetra.__init__/split_tetra_volume/split_tetra_size/get_K_list", "grid_tetra.tetra_volume", "KpointBZtetra.__init__/divide/copy"]
BOUNDS = dict(quick=dict(groups="none, Inversion, C4z, C4z+Inversion, C2z*TimeReversal, Mx+My (cubic cell), C3z, C6z (hexagonal cell)", grids="NKdiv 2x2x1, 2x2x2, 2x2x3, 3x3x1, 4x4x1 (NKFFT 1)",
                         histories="every choice of the refined K-point for one step; for two steps every second choice among the new points of a sample of first choices", adpt_mesh="2, (2,1,2), 3",
                         periodic="3D-periodic as above; masks (T,T,F), (T,F,F), (F,T,T) on 2x2x1 / 2x1x1 / 1x2x2 grids with groups none, C4z, Inversion, Mx+My, meshes 2 and (2,3,2), every first "
                         "choice + one second step, fresh mesh array per divide call and one shared array as in run(); the real run() on 4 stand-in systems (3 with a non-periodic direction), "
                         "every history of 1-2 iterations chosen by symbolic priorities",
                         test_point="symbolic point p of the Brillouin zone (3 reals)", tetra="default 5 tetrahedra, 3 cells x 2 lengths; divide with symbolic vertices on each of the 6 edges, ndiv 2, 3"),
              thorough=dict(groups="as quick + C4z+Mx+TimeReversal, C2x+C2y", grids="as quick + 4x4x2, 6x6x1 (hex)", histories="every first choice; second step among the last 4 (2x2x1 grid, mesh 2) or 2 new points", adpt_mesh="2, (2,1,2), 3",
                            periodic="as quick + masks (T,F,T), (F,F,T), 4x4x1 with C4z+Inversion, meshes 3 and (2,1,2); run() on 7 systems",
                            test_point="symbolic", tetra="as quick + trigonal wedges"))
EXPLANATION = ("The real grid / K-point code runs on concrete rational geometry. For a symbolic point p of the Brillouin zone z3 decides that the cells of all symmetry images of the retained "
               "K-points, weighted with factor/(star size x cell volume), cover p with total density exactly 1 (QF_LRA), after the initial symmetry reduction and after every refinement "
               "step; sum of weights, non-negativity and parent/child conservation are exact rational facts. The same obligations are posed for systems with non-periodic directions "
               "(the refined cell must keep its extent and centre there) through divide() and through the unmodified run() driven by symbolic refinement priorities. For tetrahedra: p lies in exactly one tetrahedron of the start set / of the "
               "children of a split (LRA), and with symbolic vertices the child volumes and factors add up to the parent's (polynomial identity).")
ASSUMPTIONS = ["grid compatible with the group (Grid asserts it)", "the global density statement is only posed where every operation maps reduced-coordinate boxes onto boxes "
               "(signed permutations: cubic/tetragonal axes); for hexagonal cells the rotated image of a rhombic cell is not a grid cell, and the property is about points and weights: "
               "there the orbit partition of the grid points, the tiling of the refined cell by its sub-cells and the class weights of merged children are decided instead", "the test point does not lie on a cell boundary plane (measure zero; boundaries are shared by neighbouring cells)",
               "refinement steps are applied the way run() applies them: K_list += K.divide(...); exclude_equiv_points(K_list, new_points=...) — with a fresh adpt_mesh array per call "
               "and with one array shared by all calls (divide writes the periodic mask into it); the run() cases use the real loop", "run() cases: refinement priorities positive (they are norms)",
               "along a non-periodic direction the grid has one K-point with K=0, dK=1 (what Grid / determineNK produce)"]
OUTSIDE = ["groups / grids / meshes beyond the enumerated ones", "more than two refinement steps (C10 follows weights through run() for longer histories)", "GridTrigonalH weights (a user-chosen fraction of the zone)"]
QUERY_TIMEOUT_MS = dict(quick=20000, thorough=120000)
STUBS = ["run(): stub data_k_class / calculator returning one symbolic result and one symbolic priority per K-point; np.argsort(x)[-k:] by max selection (props/rundriver.py)",
         "KpointBZtetra edge choice (name-mangled cached property) preset per case when the vertices are symbolic"]


class SysG:
    periodic = np.array([True, True, True])
    NKFFT_recommended = np.array([1, 1, 1])

    def __init__(s, gens, lattice, periodic=(True, True, True)):
        s.periodic = np.array(periodic, dtype=bool)
        s.real_lattice = np.array(lattice, dtype=float)
        s.recip_lattice = 2 * np.pi * np.linalg.inv(s.real_lattice).T
        s.pointgroup = PointGroup(list(gens), real_lattice=s.real_lattice)


LATT = dict(cubic=np.eye(3), hex=np.array([[1, 0, 0], [-0.5, np.sqrt(3) / 2, 0], [0, 0, 1.3]]), tetra=np.diag([1, 1, 1.5]), tric=np.array([[1, .125, 0], [-.25, 1.25, .25], [.125, 0, 1.5]]))


def fr(x):
    return Fr(float(x)).limit_denominator(10 ** 6)


def images(pg, K, recip):
    """harness's own orbit of the cell centre: list of distinct images mod 1 (as Fraction triples)"""
    out = []
    for g in pg.symmetries:
        k = g.transform_reduced_vector(np.asarray(K, float), recip)
        key = tuple(fr(x) % 1 for x in k)
        if key not in out:
            out.append(key)
    return out


def cell_images(K, sysobj):
    """images of the cell of K (parallelepiped centre c, edge vectors = rows of A, reduced coordinates) under the group; distinct mod 1"""
    imgs = []
    for g in sysobj.pointgroup.symmetries:
        M = sysobj.recip_lattice @ g.R.T @ np.linalg.inv(sysobj.recip_lattice) * (g.iTR * g.iInv)
        c = np.asarray(K.K, float) @ M
        A = np.diag(np.asarray(K.dK, float)) @ M
        # canonical form of the parallelepiped: edges up to sign and order
        Af = [[fr(x) for x in r] for r in A]                       # exact rationals first (removes the 1e-16 noise of the rotation matrices)
        rows = sorted(tuple(r) if tuple(r) > tuple(-x for x in r) else tuple(-x for x in r) for r in Af)
        key_ = (tuple(fr(x) % 1 for x in c), tuple(rows))
        if key_ not in [k for k, _, _ in imgs]:
            imgs.append((key_, [fr(x) % 1 for x in c], Af))
    return imgs


def _inv3(A):
    a = [[Fr(x) for x in r] for r in A]
    det = (a[0][0] * (a[1][1] * a[2][2] - a[1][2] * a[2][1]) - a[0][1] * (a[1][0] * a[2][2] - a[1][2] * a[2][0]) + a[0][2] * (a[1][0] * a[2][1] - a[1][1] * a[2][0]))
    cof = [[(a[(i + 1) % 3][(j + 1) % 3] * a[(i + 2) % 3][(j + 2) % 3] - a[(i + 1) % 3][(j + 2) % 3] * a[(i + 2) % 3][(j + 1) % 3]) for j in range(3)] for i in range(3)]
    return [[cof[j][i] / det for j in range(3)] for i in range(3)], det


def density_fact(rec, K_list, sysobj, p, name, key):
    """z3: for all p (off the cell faces) sum_K factor_K / (n_images_K vol_K) #{image cells containing p mod 1} == 1.
    A cell image is the parallelepiped {c + sum_i t_i a_i, |t_i| < 1/2}; p is inside iff |((p - c) A^-1)_i| < 1/2 (linear in p)."""
    pz = [x.zreal() for x in p]
    terms = []
    onface = []
    half = z3.Q(1, 2)
    for K in K_list:
        if K.factor == 0:
            continue
        imgs = cell_images(K, sysobj)
        for _, c, A in imgs:
            Ainv, det = _inv3(A)
            w = fr(K.factor) / (len(imgs) * abs(det))
            ext = [sum(abs(A[i][j]) for i in range(3)) / 2 for j in range(3)]          # bounding box half widths
            for shift in itertools.product((-1, 0, 1), repeat=3):
                cc = [c[j] + shift[j] for j in range(3)]
                if any(cc[j] + ext[j] <= 0 or cc[j] - ext[j] >= 1 for j in range(3)):
                    continue
                t = []
                for i in range(3):
                    e = z3.Sum([z3.Q(Ainv[j][i].numerator, Ainv[j][i].denominator) * (pz[j] - z3.Q(cc[j].numerator, cc[j].denominator)) for j in range(3)])
                    t.append(e)
                inside = z3.And(*[z3.And(e > -half, e < half) for e in t])
                onface += [z3.Or(e == half, e == -half) for e in t]
                terms.append(z3.If(inside, z3.Q(w.numerator, w.denominator), z3.RealVal(0)))
    fact = z3.Implies(z3.Not(z3.Or(*onface)), z3.Sum(terms) == 1)
    return rec.fact(name, fact, key=key, logic="QF_LRA")


def boxes_map_to_boxes(sysobj):
    """True if every group operation is a signed permutation matrix in reduced coordinates (cells = axis-parallel boxes are mapped onto such boxes)"""
    for g in sysobj.pointgroup.symmetries:
        M = sysobj.recip_lattice @ g.R.T @ np.linalg.inv(sysobj.recip_lattice)
        if not np.allclose(np.sort(np.abs(M), axis=1), [[0, 0, 1]] * 3, atol=1e-9):
            return False
    return True


def local_refinement_checks(rec, parent, sysobj, mesh, p, step):
    """sub-cells tile the refined cell, and the symmetry-merged children carry the weight of their classes"""
    import copy
    twin = KP.KpointBZparallel(K=parent.K.copy(), dK=parent.dK.copy(), NKFFT=parent.NKFFT.copy(), factor=parent.factor, pointgroup=parent.pointgroup,
                               refinement_level=parent.refinement_level)
    nd = np.array(mesh if not isinstance(mesh, int) else [mesh] * 3)
    with contextlib.redirect_stdout(io.StringIO()):
        allch = twin.divide(ndiv=nd.copy(), periodic=sysobj.periodic, use_symmetry=False)
    pz = [x.zreal() for x in p]
    c0 = [fr(x) for x in parent.K]
    h0 = [fr(x) / 2 for x in parent.dK]
    # translate p into the parent's cell: q = c0 + (p - 1/2) * dK  (p ranges over the unit cube)
    q = [z3.Q(c0[i].numerator, c0[i].denominator) + (pz[i] - z3.Q(1, 2)) * z3.Q((2 * h0[i]).numerator, (2 * h0[i]).denominator) for i in range(3)]
    ins, faces = [], []
    for ch in allch:
        c = [fr(x) for x in ch.K]
        h = [fr(x) / 2 for x in ch.dK]
        lo = [z3.Q((c[i] - h[i]).numerator, (c[i] - h[i]).denominator) for i in range(3)]
        hi = [z3.Q((c[i] + h[i]).numerator, (c[i] + h[i]).denominator) for i in range(3)]
        ins.append(z3.And(*[z3.And(q[i] > lo[i], q[i] < hi[i]) for i in range(3)]))
        faces += [z3.Or(q[i] == lo[i], q[i] == hi[i]) for i in range(3)]
    rec.fact(f"step {step}: every point of the refined cell lies in exactly one sub-cell", z3.Implies(z3.Not(z3.Or(*faces)), z3.Sum([z3.If(b, 1, 0) for b in ins]) == 1),
             key=f"divide: sub-cells do not tile the refined cell (mesh {mesh})", logic="QF_LRA")
    nd_eff = np.where(sysobj.periodic, nd, 1)          # the cell is divided along periodic directions only
    rec.concrete(f"step {step}: sub-cell weights are the parent's weight / number of sub-cells", all(fr(c.factor) == fr(parent.factor) / len(allch) for c in allch) and len(allch) == int(np.prod(nd_eff)),
                 key="divide: sub-cell weights are not parent weight / number of sub-cells")
    rec.concrete(f"step {step}: sub-cell size is dK / mesh along periodic directions; size and centre unchanged along non-periodic directions",
                 all(fr(c.dK[i]) * int(nd_eff[i]) == fr(parent.dK[i]) and (sysobj.periodic[i] or fr(c.K[i]) == fr(parent.K[i])) for c in allch for i in range(3)),
                 detail=str([(c.K.tolist(), c.dK.tolist()) for c in allch[:2]]), key=f"divide: sub-cells have the wrong extent / centre (periodic={_per(sysobj)})")
    return allch


def _per(sysobj):
    return "".join("T" if x else "F" for x in sysobj.periodic)


def merged_weight_check(rec, allch, retained, sysobj, step):
    """every sub-cell is symmetry-equivalent (mod 1) to exactly one retained child, whose weight is the sum over its class"""
    ok = True
    tot = {id(r): Fr(0) for r in retained}
    for ch in allch:
        im = set(images(sysobj.pointgroup, ch.K, sysobj.recip_lattice))
        hits = [r for r in retained if tuple(fr(x) % 1 for x in r.K) in im]
        if len(hits) != 1:
            ok = False
            continue
        tot[id(hits[0])] += fr(ch.factor)
    ok = ok and all(tot[id(r)] == fr(r.factor) for r in retained)
    rec.concrete(f"step {step}: symmetry-merged children carry exactly the weight of their equivalence classes", ok,
                 key="divide/exclude_equiv_points: merged children do not carry the weight of their classes")


def kl_summary(K_list):
    return [dict(K=[float(x) for x in K.K], dK=[float(x) for x in K.dK], factor=float(K.factor)) for K in K_list]


def case_grid(rec, gens, latt, NKdiv, mesh, first, second, periodic=(True, True, True), shared=False):
    """initial reduction, then refinement of K-point number `first` (and `second` among the list after the first step).
    periodic: the system's mask of periodic directions (the cell must not be divided along the others); shared: all steps use ONE adpt_mesh
    array object, as run() does (divide masks it in place), otherwise a fresh array per call"""
    sysobj = SysG(gens, LATT[latt], periodic)
    p = symvec("p", (3,))
    ass = [z3.And(x.zreal() > 0, x.zreal() < 1) for x in p]

    def body(rec):
        rec.witness = lambda env: dict(test="grid", gens=gens, latt=latt, NKdiv=NKdiv, mesh=mesh, first=first, second=second, p=[env.val(x) for x in p],
                                       periodic=[bool(x) for x in periodic], shared=shared)
        shared_mesh = np.array(mesh if not isinstance(mesh, int) else [mesh] * 3)
        with contextlib.redirect_stdout(io.StringIO()):
            g = Grid(system=sysobj, NKdiv=NKdiv, NKFFT=(1, 1, 1))
            K_list = g.get_K_list(use_symmetry=True)
        N = int(np.prod(NKdiv))
        def basic(tag):
            fs = [fr(K.factor) for K in K_list]
            rec.concrete(f"{tag}: weights non-negative and sum to one", all(f >= 0 for f in fs) and sum(fs) == 1, detail=str(sum(fs)), key=f"weights do not sum to one / negative ({tag})")
        basic("initial grid")
        # each grid point is covered exactly once by the orbits of the retained points, with the weight of its orbit
        cover = {}
        ok = True
        for K in K_list:
            im = images(sysobj.pointgroup, K.K, sysobj.recip_lattice)
            ok = ok and fr(K.factor) == Fr(len(im), N)
            for k in im:
                cover[k] = cover.get(k, 0) + 1
        grid_pts = {tuple(Fr(i, n) % 1 for i, n in zip(idx, NKdiv)) for idx in itertools.product(*[range(n) for n in NKdiv])}
        rec.concrete("initial grid: orbits of the retained points cover every grid point exactly once, weight = orbit size / N", ok and set(cover) == grid_pts and all(v == 1 for v in cover.values()),
                     key="initial symmetry reduction: orbits do not partition the grid / wrong orbit weight")
        dens = boxes_map_to_boxes(sysobj)
        if dens:
            density_fact(rec, K_list, sysobj, p, "initial grid: weighted cells of all symmetry images cover the zone with density 1", "initial grid: cells of the symmetry images do not tile the zone")
        for step, idx in enumerate([first, second]):
            if idx is None:
                break
            idx = idx % len(K_list)
            while K_list[idx].factor == 0:
                idx = (idx + 1) % len(K_list)
            parent = K_list[idx]
            before = fr(parent.factor)
            l1 = len(K_list)
            allch = local_refinement_checks(rec, parent, sysobj, mesh, p, step + 1)
            with contextlib.redirect_stdout(io.StringIO()):
                new = parent.divide(ndiv=shared_mesh if shared else np.array(mesh if not isinstance(mesh, int) else [mesh] * 3), periodic=sysobj.periodic, use_symmetry=True)
            merged_weight_check(rec, allch, new, sysobj, step + 1)
            rec.concrete(f"step {step + 1}: the refined K-point is dead and its weight went to its sub-cells", parent.factor == 0 and sum(fr(K.factor) for K in new) == before,
                         detail=f"{before} -> {[float(K.factor) for K in new]}", key="divide: children weights do not add up to the parent's / parent keeps weight")
            K_list += new
            with contextlib.redirect_stdout(io.StringIO()):
                exclude_equiv_points(K_list, new_points=len(K_list) - l1)
            basic(f"after refinement step {step + 1}")
            if dens:
                density_fact(rec, K_list, sysobj, p, f"after refinement step {step + 1}: weighted cells of all symmetry images cover the zone with density 1",
                             f"after refinement: cells of the symmetry images do not tile the zone (mesh {mesh})")
    rec.explore(body, ass)


def case_divide_nosym(rec, NKdiv, mesh, periodic=(True, True, True)):
    """divide with use_symmetry=False (run(use_irred_kpt=False)): parent dies, sub-cells tile it"""
    sysobj = SysG([], LATT["cubic"], periodic)
    p = symvec("p", (3,))
    ass = [z3.And(x.zreal() > 0, x.zreal() < 1) for x in p]

    def body(rec):
        rec.witness = lambda env: dict(test="nosym", NKdiv=NKdiv, mesh=mesh, p=[env.val(x) for x in p], periodic=[bool(x) for x in periodic])
        with contextlib.redirect_stdout(io.StringIO()):
            g = Grid(system=sysobj, NKdiv=NKdiv, NKFFT=(1, 1, 1))
            K_list = g.get_K_list(use_symmetry=False)
            parent = K_list[1 % len(K_list)]
            before = fr(parent.factor)
        local_refinement_checks(rec, parent, sysobj, mesh, p, 1)
        with contextlib.redirect_stdout(io.StringIO()):
            new = parent.divide(ndiv=np.array(mesh if not isinstance(mesh, int) else [mesh] * 3), periodic=sysobj.periodic, use_symmetry=False)
        rec.concrete("use_symmetry=False: the refined K-point is dead and its weight went to its sub-cells", parent.factor == 0 and sum(fr(K.factor) for K in new) == before,
                     key="divide(use_symmetry=False): children weights do not add up to the parent's / parent keeps weight")
        K_list += new
        fs = [fr(K.factor) for K in K_list]
        rec.concrete("weights sum to one", sum(fs) == 1, detail=str(float(sum(fs))), key="weights do not sum to one / negative (use_symmetry=False)")
        density_fact(rec, K_list, sysobj, p, "sub-cells tile the refined cell (density 1 everywhere)", "after refinement without symmetry: cells do not tile the zone")
    rec.explore(body, ass)


# ---- the real run() -------------------------------------------------------------------------------------------------
def _run_sys(gens, periodic):
    from props import rundriver as D
    sysobj = D.Sys(gens)
    sysobj.periodic = np.array(periodic, dtype=bool)
    return sysobj


def case_run(rec, gens, NKdiv, mesh, periodic, niter, irred):
    """the unmodified run() with adaptive refinement on a stand-in system with the given periodic mask; the refined K-points are chosen by
    symbolic priorities (forks = every history); after the last iteration the cells of the K list must tile the zone"""
    from props import rundriver as D
    D.setup_symbolic()
    reg = D.Registry(1)
    p = symvec("p", (3,))
    ass = reg.assumptions(120) + [z3.And(x.zreal() > 0, x.zreal() < 1) for x in p]

    def body(rec):
        reg.reg.clear()
        reg.evals.clear()
        rec.witness = lambda env: dict(test="run", gens=gens, NKdiv=NKdiv, mesh=mesh, periodic=[bool(x) for x in periodic], niter=niter, irred=irred,
                                       values=D.registry_values(env, reg), p=[env.val(x) for x in p])
        obs = D.Observer(reg)
        obs.install()
        try:
            with D.TmpDir() as tmp:
                sysobj = _run_sys(gens, periodic)
                D.do_run(sysobj, D.make_calc(reg), NKdiv, niter, tmp, use_irred_kpt=irred, symmetrize=irred, adpt_fac=1, adpt_mesh=mesh)
        finally:
            obs.uninstall()
        K_list = obs.K_list
        fs = [fr(K.factor) for K in K_list]
        rec.concrete(f"run(): weights after {niter} refinement iterations non-negative and sum to one", all(f >= 0 for f in fs) and sum(fs) == 1, detail=str(float(sum(fs))),
                     key="run(): weights do not sum to one / negative")
        rec.concrete("run(): cells are not divided along non-periodic directions", all(periodic[i] or (fr(K.dK[i]) == 1 and fr(K.K[i]) == 0) for K in K_list for i in range(3)),
                     detail=str([(K.K.tolist(), K.dK.tolist()) for K in K_list if any(not periodic[i] and fr(K.dK[i]) != 1 for i in range(3))][:2]),
                     key=f"run(): K-point cells have the wrong extent / centre along a non-periodic direction")
        density_fact(rec, K_list, sysobj, p, f"run(): after {niter} iterations the weighted cells of all symmetry images cover the zone with density 1",
                     "run(): cells of the K list do not tile the zone after refinement")
    rec.explore(body, ass, maxpaths=5000)


# ---- tetrahedra ------------------------------------------------------------------------------------------------------
def inside_tetra(pz, V):
    """open tetrahedron with concrete vertices V (4x3 Fractions): barycentric coordinates of p all positive (linear in p)"""
    V = [[Fr(x) for x in v] for v in V]
    A = np.array([[V[i][j] - V[0][j] for i in (1, 2, 3)] for j in range(3)], dtype=object)     # columns = edges

    def det3(M):
        return (M[0][0] * (M[1][1] * M[2][2] - M[1][2] * M[2][1]) - M[0][1] * (M[1][0] * M[2][2] - M[1][2] * M[2][0]) + M[0][2] * (M[1][0] * M[2][1] - M[1][1] * M[2][0]))
    D = det3(A)
    if D == 0:
        return z3.BoolVal(False), []
    lam = []
    rhs = [pz[j] - z3.Q(V[0][j].numerator, V[0][j].denominator) for j in range(3)]
    for c in range(3):
        # Cramer: replace column c by rhs  (linear in p)
        expr = 0
        for j in range(3):
            M = [[A[r][cc] for cc in range(3) if cc != c] for r in range(3) if r != j]
            cof = ((-1) ** (j + c)) * (M[0][0] * M[1][1] - M[0][1] * M[1][0]) / D
            expr = expr + z3.Q(cof.numerator, cof.denominator) * rhs[j]
        lam.append(expr)
    l0 = 1 - lam[0] - lam[1] - lam[2]
    return z3.And(l0 > 0, *[l > 0 for l in lam]), [l0] + lam


def tiling_fact(rec, tets, weights, pz, region, name, key):
    ins = [inside_tetra(pz, V) for V in tets]
    count = z3.Sum([z3.If(i[0], 1, 0) for i in ins])
    onface = z3.Or(*[l == 0 for i in ins for l in i[1]]) if ins else z3.BoolVal(False)
    return rec.fact(name, z3.Implies(z3.And(region, z3.Not(onface)), count == 1), key=key, logic="QF_LRA")


def case_tetra_grid(rec, latt, length, NKFFT):
    sysobj = SysG([], LATT[latt])
    p = symvec("p", (3,))
    ass = []

    def body(rec):
        rec.witness = lambda env: dict(test="tetragrid", latt=latt, length=length, NKFFT=NKFFT, p=[env.val(x) for x in p])
        with contextlib.redirect_stdout(io.StringIO()), warnings.catch_warnings():
            warnings.simplefilter("ignore")
            g = GridTetra(sysobj, length=length, NKFFT=NKFFT)
            K_list = g.get_K_list()
        fs = [fr(K.factor) for K in K_list]
        rec.concrete("tetra grid: weights non-negative and sum to one", all(f > 0 for f in fs) and sum(fs) == 1, detail=str(float(sum(fs))), key="tetra grid: weights do not sum to one")
        tets = [[[fr(x) for x in (K.K + v)] for v in K.vertices] for K in K_list]
        vols = [abs(GT.tetra_volume(np.array(t, dtype=float))) for t in tets]
        rec.concrete("tetra grid: volumes add up to the cell and weight = volume fraction", abs(sum(vols) - 1) < 1e-9 and all(abs(v - float(f)) < 1e-9 for v, f in zip(vols, fs)),
                     detail=f"sum vol {sum(vols)}", key="tetra grid: volumes do not add up to the reciprocal cell / weight differs from volume")
        pz = [x.zreal() for x in p]
        region = z3.And(*[z3.And(x > z3.Q(-1, 2), x < z3.Q(1, 2)) for x in pz])
        tiling_fact(rec, tets, fs, pz, region, f"every point of the reciprocal cell lies in exactly one of the {len(tets)} tetrahedra", "tetra grid: tetrahedra do not tile the reciprocal cell")
        # refinement of one tetrahedron the way run() does it
        K = K_list[len(K_list) // 2]
        before = fr(K.factor)
        parent_t = [[fr(x) for x in (K.K + v)] for v in K.vertices]
        new = K.divide(ndiv=2, periodic=(True, True, True), use_symmetry=True)
        rec.concrete("tetra refinement: parent dead, children weights add up", K.factor == 0 and sum(fr(c.factor) for c in new) == before, key="tetra divide: weight not conserved / parent keeps weight")
        ch = [[[fr(x) for x in (c.K + v)] for v in c.vertices] for c in new]
        pin = inside_tetra(pz, parent_t)[0]
        tiling_fact(rec, ch, None, pz, pin, "children of a split tetrahedron tile the parent", "tetra divide: children do not tile the parent")
    rec.explore(body, ass)


def case_tetra_divide_symbolic(rec, edge, ndiv):
    """KpointBZtetra.divide with symbolic vertices: child volumes (signed) and factors add up to the parent's"""
    shadow([KT, GT])
    V = symvec("v", (4, 3))
    fac = SymC.var("w", 1e-6, 1)
    ass = []

    def body(rec):
        rec.witness = lambda env: dict(test="tetradivide", edge=edge, ndiv=ndiv, V=env.val(V), w=env.val(fac))
        K = KT.KpointBZtetra(vertices=V.copy(), K=np.zeros(3), NKFFT=np.ones(3), factor=fac, basis=np.eye(3))
        K.__dict__['_KpointBZtetra__i_max_edge'] = edge
        new = K.divide(ndiv=ndiv, periodic=(True, True, True), refine=True)

        def det(T):
            a, b, c = T[1] - T[0], T[2] - T[0], T[3] - T[0]
            return a[0] * (b[1] * c[2] - b[2] * c[1]) - a[1] * (b[0] * c[2] - b[2] * c[0]) + a[2] * (b[0] * c[1] - b[1] * c[0])
        parent = det(np.asarray(V))
        e0, e1 = KT.EDGES[edge]
        # orientation: children (comp0, comp1, v0+i dv, v0+(i+1) dv) all have the orientation of (comp0, comp1, v_e0, v_e1)
        c0, c1 = KT.EDGES_COMPLEMENT[edge]
        ref = det(np.array([V[c0], V[c1], V[e0], V[e1]], dtype=object))
        tot = SymC.of(0)
        for c in new:
            tot = tot + det(np.asarray(c.vertices) + np.asarray(c.K)[None, :])
        rec.eq("signed volumes of the children add up to the parent's", tot, ref, key="tetra divide: child volumes do not add up to the parent volume")
        rec.eq("|parent volume| is the same tetrahedron", ref * ref, parent * parent, key="tetra divide: children are not built on the parent's vertices")
        ftot = SymC.of(0)
        for c in new:
            ftot = ftot + c.factor
        rec.eq("children factors add up to the parent's, parent dead", ftot, fac, key="tetra divide: weight not conserved / parent keeps weight")
        rec.concrete("parent factor is zero after divide", K.factor == 0, key="tetra divide: weight not conserved / parent keeps weight")
        rec.concrete("number of children", len(new) == ndiv, key="tetra divide: wrong number of children")
    rec.explore(body, ass)


GROUPS_Q = [([], "cubic"), (["Inversion"], "cubic"), (["C4z"], "cubic"), (["C4z", "Inversion"], "cubic"), (["C2z*TimeReversal"], "cubic"), (["Mx", "My"], "cubic"), (["C3z"], "hex"), (["C6z"], "hex")]


def cases(tier, seed):
    q = tier == "quick"
    out = []
    groups = GROUPS_Q + ([] if q else [(["C4z", "Mx", "TimeReversal"], "cubic"), (["C2x", "C2y"], "cubic")])
    for gens, latt in groups:
        grids = [(2, 2, 1), (2, 2, 2), (4, 4, 1)] if latt == "cubic" else [(3, 3, 1)] + ([] if q else [(6, 6, 1)])
        if latt == "cubic" and any(x in ("Inversion", "Mx", "C2z*TimeReversal") for x in gens):
            grids.append((2, 2, 3))          # operations that exchange different z-planes of the grid
        if not q and latt == "cubic":
            grids.append((4, 4, 2))
        for NK in grids:
            meshes = [2, (2, 1, 2), 3] if NK == (2, 2, 1) or not q else [2]
            if latt == "hex":
                meshes = [2, 3] if not q else [2]
            for mesh in meshes:
                with contextlib.redirect_stdout(io.StringIO()):
                    n0 = len(Grid(system=SysG(gens, LATT[latt]), NKdiv=NK, NKFFT=(1, 1, 1)).get_K_list(use_symmetry=True))
                firsts = range(n0) if n0 <= (6 if q else 8) else (sorted(set([0, 1, n0 // 2, n0 - 1])) if q else sorted(set(int(round(x)) for x in np.linspace(0, n0 - 1, 8))))
                for first in firsts:
                    seconds = [None, -1, -2] if q else [None, -1, -2, -3, -4]
                    if not q and (NK != (2, 2, 1) or mesh != 2):
                        seconds = [-1, -3] if first % 2 == 0 else [None]
                    if q and NK != (2, 2, 1):
                        seconds = [-1] if first == 0 else [None]
                    for second in seconds:
                        out.append(Case(f"grid {gens} {latt} NK={NK} mesh={mesh} refine #{first} then {second}", case_grid,
                                        dict(gens=gens, latt=latt, NKdiv=NK, mesh=mesh, first=first, second=second), timeout=900 if q else 2400))
    for NK, mesh in (((2, 2, 1), 2), ((3, 1, 2), (2, 1, 2)), ((2, 2, 2), 3)):
        out.append(Case(f"divide without symmetry NK={NK} mesh={mesh}", case_divide_nosym, dict(NKdiv=NK, mesh=mesh), timeout=900))
    # systems with non-periodic directions: the cell is divided along the periodic directions only (fresh mesh array per call / one shared array as in run())
    PER = [((True, True, False), (2, 2, 1), [[], ["C4z"], ["Inversion"], ["Mx", "My"]]), ((True, False, False), (2, 1, 1), [[], ["Inversion"]]), ((False, True, True), (1, 2, 2), [[], ["Mx", "My"]])]
    if not q:
        PER += [((True, True, False), (4, 4, 1), [["C4z", "Inversion"]]), ((True, False, True), (2, 1, 3), [[], ["Inversion"]]), ((False, False, True), (1, 1, 3), [[], ["Inversion"]])]
    for per, NK, gsets in PER:
        ptxt = "".join("T" if x else "F" for x in per)
        for mesh in ([2, (2, 3, 2)] if q else [2, 3, (2, 3, 2), (2, 1, 2)]):
            out.append(Case(f"divide without symmetry periodic={ptxt} NK={NK} mesh={mesh}", case_divide_nosym, dict(NKdiv=NK, mesh=mesh, periodic=per), timeout=900))
            for gens in gsets:
                with contextlib.redirect_stdout(io.StringIO()):
                    n0 = len(Grid(system=SysG(gens, LATT["cubic"], per), NKdiv=NK, NKFFT=(1, 1, 1)).get_K_list(use_symmetry=True))
                for first in (range(n0) if (mesh == 2 or not q) else [n0 - 1]):
                    for shared in (False, True):
                        if shared and q and (first != 0 or mesh != 2):
                            continue
                        out.append(Case(f"grid {gens} cubic periodic={ptxt} NK={NK} mesh={mesh} refine #{first} then -1 ({'shared' if shared else 'fresh'} mesh array)", case_grid,
                                        dict(gens=gens, latt="cubic", NKdiv=NK, mesh=mesh, first=first, second=-1, periodic=per, shared=shared), timeout=900 if q else 2400))
    RUNS = [([], (2, 2, 1), 2, (True, True, False), 1, False), (["C4z"], (2, 2, 1), 2, (True, True, False), 1, True), (["Inversion"], (2, 1, 1), (2, 3, 2), (True, False, False), 2, True),
            ([], (2, 2, 1), 2, (True, True, True), 1, False)]
    if not q:
        RUNS += [(["Mx", "My"], (2, 2, 1), 3, (True, True, False), 2, True), ([], (1, 2, 2), (2, 2, 3), (False, True, True), 2, False), (["C4z", "Inversion"], (2, 2, 2), 2, (True, True, True), 1, True)]
    for gens, NK, mesh, per, niter, irred in RUNS:
        ptxt = "".join("T" if x else "F" for x in per)
        out.append(Case(f"run() {gens} periodic={ptxt} NK={NK} adpt_mesh={mesh} iterations={niter} irred={irred}", case_run,
                        dict(gens=gens, NKdiv=NK, mesh=mesh, periodic=per, niter=niter, irred=irred), timeout=900 if q else 2400))
    for latt, length, NKFFT in (("cubic", 3, 1), ("cubic", 7, 2), ("tetra", 6, 1), ("tric", 5, 1)) + (() if q else (("cubic", 9, 1), ("hex", 8, 2))):
        out.append(Case(f"tetra grid {latt} length={length} NKFFT={NKFFT}", case_tetra_grid, dict(latt=latt, length=length, NKFFT=NKFFT), timeout=900 if q else 2400))
    for edge in range(6):
        for ndiv in (2, 3):
            out.append(Case(f"tetra divide symbolic vertices edge={edge} ndiv={ndiv}", case_tetra_divide_symbolic, dict(edge=edge, ndiv=ndiv), timeout=900))
    return out


# ------------------------------------------------------------------------------------------------------------
def _density(K_list, sysobj, p):
    tot = 0.0
    for K in K_list:
        if K.factor == 0:
            continue
        imgs = cell_images(K, sysobj)
        for _, c, A in imgs:
            A = np.array(A, dtype=float)
            c = np.array(c, dtype=float)
            w = K.factor / (len(imgs) * abs(np.linalg.det(A)))
            for shift in itertools.product((-1, 0, 1), repeat=3):
                t = (p - c - np.array(shift)) @ np.linalg.inv(A)
                if np.all(np.abs(t) < 0.5):
                    tot += w
    return tot


def replay(rec):
    w = rec["witness"]
    rng = np.random.RandomState(11)
    if w["test"] in ("grid", "nosym"):
        gens, latt = (w["gens"], w["latt"]) if w["test"] == "grid" else ([], "cubic")
        sysobj = SysG(gens, LATT[latt], tuple(w.get("periodic", (True, True, True))))
        mesh = w["mesh"]
        ndiv = np.array(mesh if isinstance(mesh, list) else [mesh] * 3)
        shared_mesh = ndiv.copy()
        p = np.array(w["p"], dtype=float)
        pts = [p] + [rng.uniform(0, 1, 3) for _ in range(200)]
        msgs = []
        bad = False
        with contextlib.redirect_stdout(io.StringIO()):
            g = Grid(system=sysobj, NKdiv=tuple(w["NKdiv"]), NKFFT=(1, 1, 1))
            K_list = g.get_K_list(use_symmetry=(w["test"] == "grid"))

        def check(tag):
            nonlocal bad
            s = sum(K.factor for K in K_list)
            d = [_density(K_list, sysobj, q_) for q_ in pts]
            worst = max(abs(x - 1) for x in d)
            msgs.append(f"{tag}: sum w={s:.6f} max|density-1|={worst:.3f}")
            if abs(s - 1) > 1e-9 or worst > 1e-6 or any(K.factor < 0 for K in K_list):
                bad = True
        check("initial")
        steps = [w["first"], w["second"]] if w["test"] == "grid" else [1]
        for idx in steps:
            if idx is None:
                break
            idx = idx % len(K_list)
            while K_list[idx].factor == 0:
                idx = (idx + 1) % len(K_list)
            parent = K_list[idx]
            before = parent.factor
            l1 = len(K_list)
            nd_eff = np.where(sysobj.periodic, ndiv, 1)
            with contextlib.redirect_stdout(io.StringIO()):
                twin = KP.KpointBZparallel(K=parent.K.copy(), dK=parent.dK.copy(), NKFFT=parent.NKFFT.copy(), factor=parent.factor, pointgroup=parent.pointgroup,
                                           refinement_level=parent.refinement_level)
                for c in twin.divide(ndiv=ndiv.copy(), periodic=sysobj.periodic, use_symmetry=False):
                    if np.abs(c.dK * nd_eff - parent.dK).max() > 1e-12 or np.abs((c.K - parent.K)[~sysobj.periodic]).max(initial=0) > 1e-12:
                        bad = True
                        msgs.append(f"sub-cell K={c.K.tolist()} dK={c.dK.tolist()} of the cell K={parent.K.tolist()} dK={parent.dK.tolist()} (periodic={sysobj.periodic.tolist()}, mesh {ndiv.tolist()})")
                        break
                new = parent.divide(ndiv=shared_mesh if w.get("shared") else ndiv.copy(), periodic=sysobj.periodic, use_symmetry=(w["test"] == "grid"))
                if parent.factor != 0 or abs(sum(K.factor for K in new) - before) > 1e-12:
                    bad = True
                    msgs.append("parent keeps weight or children do not add up")
                K_list += new
                if w["test"] == "grid":
                    exclude_equiv_points(K_list, new_points=len(K_list) - l1)
            check("after step")
        return bool(bad), "; ".join(msgs)
    if w["test"] == "run":
        from props import rundriver as D
        reg = D.ConcreteRegistry(w["values"])
        obs = D.ConcreteObserver(reg)
        obs.install()
        per = [bool(x) for x in w["periodic"]]
        try:
            with D.TmpDir() as tmp:
                sysobj = _run_sys(w["gens"], per)
                mesh = w["mesh"] if isinstance(w["mesh"], int) else tuple(w["mesh"])
                D.do_run(sysobj, D.make_concrete_calc(reg), tuple(w["NKdiv"]), w["niter"], tmp, use_irred_kpt=w["irred"], symmetrize=w["irred"], adpt_fac=1, adpt_mesh=mesh)
        except Exception as e:
            return True, f"run() raises {type(e).__name__}: {e}"
        finally:
            obs.uninstall()
        K_list = obs.K_list
        ssum = sum(K.factor for K in K_list)
        pts = [np.array(w["p"], dtype=float)] + [rng.uniform(0, 1, 3) for _ in range(200)]
        worst = max(abs(_density(K_list, sysobj, q_) - 1) for q_ in pts)
        ext = [(K.K.tolist(), K.dK.tolist()) for K in K_list if any(not per[i] and (abs(K.dK[i] - 1) > 1e-12 or abs(K.K[i]) > 1e-12) for i in range(3))]
        return bool(abs(ssum - 1) > 1e-9 or worst > 1e-6 or ext), f"run() periodic={per}: sum w={ssum:.6f} max|density-1|={worst:.3f}; cells divided along a non-periodic direction: {ext[:2]}"
    if w["test"] == "tetragrid":
        sysobj = SysG([], LATT[w["latt"]])
        with contextlib.redirect_stdout(io.StringIO()), warnings.catch_warnings():
            warnings.simplefilter("ignore")
            K_list = GridTetra(sysobj, length=w["length"], NKFFT=w["NKFFT"]).get_K_list()

        def inside(p, T):
            A = (T[1:] - T[0]).T
            lam = np.linalg.solve(A, p - T[0])
            return lam.min() > 0 and lam.sum() < 1
        s = sum(K.factor for K in K_list)
        vols = [GT.tetra_volume(K.vertices) for K in K_list]
        pts = [np.array(w["p"], float)] + [rng.uniform(-.5, .5, 3) for _ in range(300)]
        cnt = [sum(inside(q_, K.K + K.vertices) for K in K_list) for q_ in pts]
        K = K_list[len(K_list) // 2]
        before = K.factor
        T0 = K.K + K.vertices
        new = K.divide(ndiv=2, periodic=(True, True, True), use_symmetry=True)
        okdiv = K.factor == 0 and abs(sum(c.factor for c in new) - before) < 1e-12
        cin = [sum(inside(q_, c.K + c.vertices) for c in new) for q_ in pts if inside(q_, T0)]
        bad = abs(s - 1) > 1e-9 or abs(sum(vols) - 1) > 1e-9 or any(c != 1 for c in cnt) or not okdiv or any(c != 1 for c in cin)
        return bool(bad), f"sum w={s} sum vol={sum(vols)} counts={sorted(set(cnt))} divide ok={okdiv} child counts={sorted(set(cin))}"
    if w["test"] == "tetradivide":
        V = np.array(w["V"], dtype=float)
        if np.abs(V).max() == 0 or abs(np.linalg.det(V[1:] - V[0])) < 1e-6:
            V = rng.uniform(-1, 1, (4, 3))
        fac = float(w["w"]) or 0.3
        K = KT.KpointBZtetra(vertices=V.copy(), K=np.zeros(3), NKFFT=np.ones(3), factor=fac, basis=np.eye(3))
        K.__dict__['_KpointBZtetra__i_max_edge'] = w["edge"]
        new = K.divide(ndiv=w["ndiv"], periodic=(True, True, True), refine=True)
        v = sum(GT.tetra_volume(c.vertices) for c in new)
        bad = abs(v - GT.tetra_volume(V)) > 1e-9 or abs(sum(c.factor for c in new) - fac) > 1e-12 or K.factor != 0 or len(new) != w["ndiv"]
        return bool(bad), f"child volumes {v} parent {GT.tetra_volume(V)} factors {[c.factor for c in new]} parent after {K.factor}"
    raise ValueError(w["test"])
