"""C21 — orbital rotation matrices form an orthogonal representation (first sentence of the property)"""
import itertools
import numpy as np
from fractions import Fraction as Fr
from symx.core import *
from symx.core import z3, Poly, RULES, SIDE, ONE, F0, F1, zvar
from symx.npproxy import NpProxy, LinalgProxy, shadow
from symx.harness import Case
import symx.harness  # noqa (puts the repo on sys.path)
import wannierberri.symmetry.orbitals as O
import wannierberri.symmetry.unique_list as UL

PROPERTY = "C21"
FUNCTIONS = ["wannierberri.symmetry.orbitals.Orbitals.__init__ (hybrid matrices)", "Orbitals.rot_orb_basis", "Orbitals.rot_orb",
             "OrbitalRotator.__call__ (cache, irot, ';'-joined shells, local bases)",
             "wannierberri.symmetry.Dwann.Dwann.__init__ / get_on_points / orbit_from_positions (thorough tier)"]
BOUNDS = dict(
    quick=dict(cache="one OrbitalRotator object asked for g1, g2 = g1.delta and delta (3 concrete g1 incl. improper and identity, delta = 0.057, 0.29, 0.11, 0.003 "
                     "degrees, both call orders), p and d: every returned matrix equals the matrix of the requested rotation to 5e-4 / 1e-3, is orthogonal, the three "
                     "returned matrices compose, and (p) satisfies the defining relation for every r in [-1,1]^3",
               shells="s p d sp3 over all of O(3) (f: one symbolic proper rotation and its negative: orthogonality, parity, defining relation); sp p2 pxy sp2 pz over the stabiliser of their span (axis rotations x reflections); "
                      "t2g eg sp3d2 over O_h (48 signed permutation matrices)",
               rotation="R = sigma*M(q), q a symbolic unit quaternion (4 reals on the 3-sphere), sigma=+-1; axis families: symbolic angle (unit-circle atoms)",
               composition="one symbolic factor times concrete signed permutation matrices, both orders (all 48 for s p sp3; the 3 generators of O_h "
                           "+ 5 more for d); two symbolic factors for s, p, sp3, d (d: first factor proper) and all axis families; all 48x(3 generators) pairs for the O_h-only hybrids"),
    thorough=dict(shells="as quick plus the f shell everywhere (both signs)", rotation="as quick",
                  composition="as quick, all 48 concrete factors also for d (8 for f), two symbolic factors for d and f with all four sign combinations; "
                              "three independent symbolic rotations through the local-basis path of OrbitalRotator (basis2.R.basis1^T) for s p sp3 d, R proper and improper",
                  joined="';'-joined projections 's;p;d', 'sp3;d', 'p;f' for symbolic R of both signs: block structure, orthogonality, parity",
                  dwann="Dwann.__init__/get_on_points on 8 model space groups (O_h, D4h, C4v, D2h on the cubic lattice; the non-symmorphic P4_2 and a double-glide group; "
                        "D6h and D3h on a hexagonal lattice, c/a=1.6), 2-4 Wyckoff-type sites each (orbits of 1..48 sites), s p d f sp3 'p;d' 's;p' 's;p;d' and every hybrid "
                        "in the groups that keep its span invariant, local bases 'same for all sites' / 'rotated with the site' (140 combinations), symbolic k-point: "
                        "unitarity, every centre mapped onto its image site, D_g1(g2 k) D_g2(k) = D_g1g2(k) for g2 in the generators and every g1 (symmorphic groups); "
                        "exact on the cubic lattice, to 1e-12 on the hexagonal one (cartesian rotations are doubles there)"))
EXPLANATION = ("The real rot_orb_basis/rot_orb/OrbitalRotator run with the rotation given as sigma*M(q) for a symbolic unit quaternion q (or a symbolic "
               "axis angle); np.linalg.inv is the exact adjugate inverse whose nine entries travel through the function's own sympy algebra as symbols, "
               "sympy.sqrt(3.0) etc. and the doubles 1/sqrt(k) of hybrids_coef are algebraic atoms (w_p^2=p, w_p>0), and every value stored into the "
               "result array is converted exactly (sympy Floats as binary rationals) into a polynomial in q.  A.A^T=1, A(1)=1 and the composition law "
               "are polynomial identities modulo |q|^2=1 decided by normal form + z3; so are the parity law A(-R) = (-1)^l A(R) and, for the complete shells, "
               "the defining relation phi_j(R^-1 r) = sum_i phi_i(r) A_ij at a symbolic point r with the package's own orbital polynomials.  Nearby rotations requested from one rotator object are checked against the documented cache tolerance.  Thorough tier: the real Dwann "
               "runs on model space groups (real irrep operations) with a symbolic k-point; unitarity, centre mapping and the group law of the assembled matrices are "
               "identities in the unit-circle atoms exp(2 pi i k_a).")
ASSUMPTIONS = ["hybrid sets whose span is a proper subspace of the shells involved (sp p2 pxy sp2 pz t2g eg sp3d2) are rotated only by elements of the "
               "stabiliser of that span (site-symmetry operations in local bases - the only way Dwann/Projection call them); outside it rot_orb returns "
               "a projection that cannot be orthogonal",
               "hybrid coefficients of hybrids_coef are the doubles closest to n/sqrt(k); they are taken as the algebraic numbers they round",
               "OrbitalRotator merges rotations that differ by less than its documented tolerance 1e-4 in every element (UniqueList(tolerance=1e-4)); matrices "
               "returned by one rotator object are therefore claimed to 5e-4 (p) / 1e-3 (d) = 1e-4 x Lipschitz constant of the shell polynomials with margin, "
               "not exactly; the unchanged tree passes the 0.003-degree pair only by this tolerance"]
OUTSIDE = ["second sentence of the property (Dwann): quick tier not at all; thorough tier on the model space groups listed in BOUNDS only - arbitrary space groups "
           "built by irrep from a structure, spinor and time-reversal operations, symbolic site coordinates and the composition law of non-symmorphic groups "
           "(lattice-translation phases) are outside; the sign convention of the Bloch phase is not pinned by the property (a conjugated phase passes)",
           "three symbolic rotations for the f shell (cubic in 243-term entries); more than three factors",
           "quick tier: the f shell, and improper first factors in the two-symbolic-factor law for d (both in the thorough tier)",
           "OrbitalRotator cache with symbolic nearby rotations (the tolerance comparison of two symbolic 3x3 matrices forks on 27 signs); nearby rotations are "
           "concrete (3 base rotations x 4 small rotations of 0.003..0.29 degrees, both call orders), only the point r of the defining relation is symbolic there",
           "rounding of the double arithmetic (real-number semantics of the code)"]
STUBS = ["Dwann (thorough): space group = plain container of real irrep SymmetryOperation objects generated by closure from integer generators; np.exp in Dwann.py "
         "on 2 pi i (n.k) with symbolic k = product of powers of one unit-circle atom pair per component of k",
         "np.linalg.det on the symbolic rotation: exact determinant (normalises to the constant sigma = +-1)",
         "np.linalg.inv on the symbolic rotation: exact adjugate/determinant (no assumption); its entries are handed to the function's sympy algebra as "
         "fresh symbols and substituted back exactly when the function stores a matrix element",
         "sympy.sqrt(k.0) -> product of algebraic atoms w_p (p prime, w_p^2=p, w_p>0) instead of a 53-bit Float",
         "np.zeros in orbitals.py -> object array converting stored sympy expressions to exact polynomials",
         "hybrids_coef doubles n/sqrt(k) -> the same algebraic atoms (recognised bit-exactly; anything else is Inconclusive)"]
QUERY_TIMEOUT_MS = dict(quick=20000, thorough=120000)

# ------------------------------------------------------------------------------------------------------------
# algebraic atoms and the sympy bridge
_PRIMES = (2, 3, 5, 7, 11, 13)
_SYM = {}          # sympy symbol name -> SymC


def walg(p):
    nm = f"w{p}"
    if nm not in RULES:
        RULES[nm] = Poly.const((Fr(p), F0))
        SIDE[nm] = [zvar(nm) > 0, zvar(nm) * zvar(nm) == p]
    return SymC.var(nm)


def _split(k):
    """k = m^2 * prod(primes)"""
    k = int(k)
    m, ps = 1, []
    for p in _PRIMES:
        while k % (p * p) == 0:
            k //= p * p
            m *= p
        if k % p == 0:
            k //= p
            ps.append(p)
    if k != 1:
        raise Inconclusive(f"sqrt of an integer with a large prime factor ({k})")
    return m, ps


def sqrt_c(k):
    m, ps = _split(k)
    r = SymC.of(m)
    for p in ps:
        r = r * walg(p)
    return r


sympy = None        # imported in install(), i.e. inside the forked case process (a sympy heap inherited through fork() is very slow: copy-on-write)
_real_sqrt = None


def sqrt_sympy(x, *a, **kw):
    """stand-in for sympy.sqrt on the numeric constants of orbitals.py"""
    if isinstance(x, (int, float, sympy.Float, sympy.Integer)) and float(x) > 0 and float(x) == int(float(x)):
        m, ps = _split(int(float(x)))
        r = sympy.Integer(m)
        for p in ps:
            walg(p)
            r = r * sympy.Symbol(f"w{p}", positive=True)
        return r
    if isinstance(x, (float, sympy.Float)):
        raise Inconclusive(f"sympy.sqrt of the non-integer constant {x}")
    return _real_sqrt(x, *a, **kw)


def algebraic(v):
    """double of hybrids_coef -> the algebraic number it rounds (bit-exact recognition)"""
    v = float(v)
    if float(v * 4).is_integer():
        return SymC.of(v)
    for num in (1, 2, 3):
        for k in range(2, 40):
            for sg in (1, -1):
                if sg * num / np.sqrt(k) == v:
                    return SymC.of(sg * num) / sqrt_c(k)
    raise Inconclusive(f"hybrid coefficient {v!r} is not of the form n/sqrt(k)")


def from_sympy(e):
    """exact conversion sympy expression -> SymC"""
    if isinstance(e, SymC):
        return e
    if isinstance(e, (int, float, np.integer, np.floating)):
        return SymC.of(e)
    if e.is_Symbol:
        nm = e.name
        if nm in _SYM:
            return _SYM[nm]
        if nm[0] == "w" and nm[1:].isdigit():
            return walg(int(nm[1:]))
        raise Inconclusive(f"free symbol {nm} in a matrix element")
    if e.is_Integer:
        return SymC.of(int(e))
    if e.is_Rational:
        return SymC(Poly.const((Fr(int(e.p), int(e.q)), F0)))
    if e.is_Float:
        sign, man, ex, bc = e._mpf_
        val = Fr(int(man)) * (Fr(2) ** int(ex))
        return SymC(Poly.const((-val if sign else val, F0)))
    if e.is_Add:
        r = SymC.of(0)
        for a in e.args:
            r = r + from_sympy(a)
        return r
    if e.is_Mul:
        r = SymC.of(1)
        for a in e.args:
            r = r * from_sympy(a)
        return r
    if e.is_Pow and e.exp.is_Integer:
        return from_sympy(e.base) ** int(e.exp)
    raise Inconclusive(f"unsupported sympy node {type(e).__name__} in a matrix element")


class BridgeArray(SymArray):
    """object array of orbitals.py: values stored by the code under test are converted exactly to SymC"""

    def __setitem__(s, idx, v):
        if isinstance(v, sympy.Basic):
            v = from_sympy(v)
        elif isinstance(v, np.ndarray) and v.dtype == object:
            w = np.empty(v.shape, dtype=object)
            for i in np.ndindex(*v.shape):
                w[i] = from_sympy(v[i]) if isinstance(v[i], sympy.Basic) else v[i]
            v = w
        return SymArray.__setitem__(s, idx, v)


class Lin(LinalgProxy):
    _n = itertools.count()

    def inv(s, a):
        if not is_sym(a):
            return s._r.inv(a)                               # concrete doubles: the real LAPACK call
        b = np.empty(np.shape(a), dtype=object)
        for i in np.ndindex(*b.shape):
            b[i] = from_sympy(a[i])
        ex = LinalgProxy.inv(s, b)                           # exact adjugate / determinant
        k = next(Lin._n)
        out = np.empty(ex.shape, dtype=object)
        for i in np.ndindex(*ex.shape):
            nm = f"inv{k}_{i[0]}{i[1]}"
            _SYM[nm] = SymC.of(ex[i])
            out[i] = sympy.Symbol(nm, real=True)
        return out


    def det(s, a):
        """exact determinant of the symbolic rotation; it normalises to the constant +-1 (unit quaternion / unit circle rewrite), so a
        comparison such as det(R) < 0 in the code under test is decided like on concrete input"""
        if not is_sym(a):
            return s._r.det(a)
        b = np.empty(np.shape(a), dtype=object)
        for i in np.ndindex(*b.shape):
            b[i] = from_sympy(a[i])
        d = SymC.of(LinalgProxy.det(s, b))
        return float(d) if d.isconst() else d


class Np(NpProxy):
    def zeros(s, shape, dtype=None, **k):
        a = np.empty(shape, dtype=object)
        a[...] = SymC.of(0)
        return a.view(BridgeArray)


def install():
    """shadow orbitals.py / unique_list.py and build a fresh Orbitals() under the shadow"""
    global sympy, _real_sqrt
    import sympy
    _real_sqrt = sympy.sqrt
    shadow([O, UL], proxy=Np(linalg=Lin(np.linalg)))
    sympy.sqrt = sqrt_sympy
    O.hybrids_coef = {k: {b: (algebraic(c) if k not in O.basis_orbital_list else c) for b, c in v.items()} for k, v in O.hybrids_coef.items()}
    O.get_orbitals.cache_clear()
    if not _POINT:               # symbolic point r of the defining relation
        _POINT.extend(SymC.var(n) for n in ("rx", "ry", "rz"))
        _SYM.update(zip(("rx", "ry", "rz"), _POINT))
    return O.get_orbitals()


# ------------------------------------------------------------------------------------------------------------
# rotation families
def quaternion(tag="q"):
    """unit quaternion atoms with the rewrite qa^2 -> 1-qb^2-qc^2-qd^2; M(q) covers all of SO(3)"""
    names = [f"{tag}{x}" for x in "abcd"]
    a, b, c, d = [SymC.var(n, -1.0, 1.0) for n in names]
    RULES[names[0]] = Poly({(): (F1, F0), ((names[1], 2),): (-F1, F0), ((names[2], 2),): (-F1, F0), ((names[3], 2),): (-F1, F0)})
    con = [sum((zvar(n) * zvar(n) for n in names[1:]), zvar(names[0]) * zvar(names[0])) == 1]
    for n in names:
        SIDE[n] = con
    M = [[a * a + b * b - c * c - d * d, 2 * (b * c - a * d), 2 * (b * d + a * c)],
         [2 * (b * c + a * d), a * a - b * b + c * c - d * d, 2 * (c * d - a * b)],
         [2 * (b * d - a * c), 2 * (c * d + a * b), a * a - b * b - c * c + d * d]]
    return sarr(M), [a, b, c, d]


def axis_rotation(axis, tag="th"):
    """rotation by a symbolic angle about a coordinate axis (unit-circle atoms c, s)"""
    th = SymC.var(tag)
    c, s = th.cos(), th.sin()
    i, j = [k for k in range(3) if k != axis]
    R = lift(np.eye(3))
    R[i, i], R[i, j], R[j, i], R[j, j] = c, -s, s, c
    return R, [c, s]


def signed_permutations():
    out = []
    for p in itertools.permutations(range(3)):
        for sg in itertools.product((1, -1), repeat=3):
            M = np.zeros((3, 3))
            for i in range(3):
                M[i, p[i]] = sg[i]
            out.append(M)
    return out


OH = signed_permutations()
GENERATORS = [np.array([[0., -1, 0], [1, 0, 0], [0, 0, 1]]), np.array([[0., 0, 1], [1, 0, 0], [0, 1, 0]]), -np.eye(3)]   # C4z, C3(111), inversion
FULL = ("s", "p", "d", "f", "sp3")
AXIS = dict(sp=0, p2=0, pxy=2, sp2=2, pz=2)
OHONLY = ("t2g", "eg", "sp3d2")


def stabiliser(axis):
    return [M for M in OH if abs(M[axis, axis]) == 1]


def eye(n):
    return lift(np.eye(n))


_nsym = itertools.count()
_POINT = []


def as_sympy(R):
    """symbolic rotation -> object array of sympy symbols (constants stay exact numbers), so that whatever the code under test does with the
    matrix goes through its own sympy algebra; the symbols are substituted back exactly when a matrix element is stored"""
    if not is_sym(R):
        return R
    out = np.empty(np.shape(R), dtype=object)
    k = next(_nsym)
    for i in np.ndindex(*out.shape):
        v = SymC.of(R[i])
        if v.isconst():
            fr = v.fraction()[0]
            out[i] = sympy.Rational(fr.numerator, fr.denominator)
        else:
            nm = f"rot{k}_" + "".join(map(str, i))
            _SYM[nm] = v
            out[i] = sympy.Symbol(nm, real=True)
    return out


def rotate(shell, R, **kw):
    """the observation point: OrbitalRotator() return value (fresh instance: no cache comparisons)"""
    return O.OrbitalRotator()(shell, rot_cart=as_sympy(R), **kw)


def parity(shell):
    """matrix of the inversion in the orbital set: (-1)^l on a complete shell, M.diag((-1)^l of each basis function).M^T on a hybrid set"""
    n = O.num_orbitals(shell)
    if shell in O.basis_shells_list:
        return eye(n) * (-1) ** "spdf".index(shell)
    orb = O.get_orbitals()
    M = orb.hybrid_matrix_dic[shell]
    D = lift(np.zeros((M.shape[1], M.shape[1])))
    for st, en, sh in zip(orb.hybrid_matrix_shells_start[shell], orb.hybrid_matrix_shells_start[shell][1:], orb.hybrid_matrix_shells_dic[shell]):
        for k in range(st, en):
            D[k, k] = SymC.of((-1) ** "spdf".index(sh))
    return M @ D @ M.T


def defining_relation(rec, shell, R, A):
    """docstring of rot_orb_basis: phi_j(R^-1 r) = sum_i phi_i(r) A_ij, with the package's own orbital polynomials at a symbolic point r"""
    r = sarr(list(_POINT))
    Rinv = LinalgProxy(np.linalg).inv(np.asarray(R, dtype=object)) if is_sym(R) else lift(np.linalg.inv(R))
    rp = as_sympy(Rinv @ r)
    rs = [sympy.Symbol(n, real=True) for n in ("rx", "ry", "rz")]
    phis = O.get_orbitals().orb_function_dic[shell]
    lhs = sarr([from_sympy(sympy.sympify(f(*rp))) for f in phis])
    rhs = sarr([from_sympy(sympy.sympify(f(*rs))) for f in phis]) @ A
    rec.eq("phi_j(R^-1 r) = sum_i phi_i(r) A_ij", lhs, rhs, key=f"rot_orb({shell}) does not describe how the orbitals transform")


def obligations(rec, shell, R, concrete, both_orders=True):
    """orthogonality of A(R), parity A(-R) = P.A(R), the defining relation (complete shells) and the composition law with each concrete factor"""
    A = rotate(shell, R)
    n = O.num_orbitals(shell)
    rec.concrete("shape", np.shape(A) == (n, n), f"{np.shape(A)}", key=f"rot_orb({shell}) has the wrong shape")
    rec.eq("A.A^T = 1", A @ A.T, eye(n), key=f"rot_orb({shell}) not orthogonal")
    rec.eq("A^T.A = 1", A.T @ A, eye(n), key=f"rot_orb({shell}) not orthogonal")
    rec.eq("A(-R) = (-1)^l A(R)", rotate(shell, -R), parity(shell) @ A, key=f"rot_orb({shell}) parity under inversion")
    if shell in O.basis_shells_list:
        defining_relation(rec, shell, R, A)
    for i, R0 in enumerate(concrete):
        A0 = rotate(shell, R0)
        rec.eq(f"A(R)A(R0) = A(R.R0)  [R0 #{i}]", A @ A0, rotate(shell, R @ lift(R0)), key=f"rot_orb({shell}) composition law")
        if both_orders:
            rec.eq(f"A(R0)A(R) = A(R0.R)  [R0 #{i}]", A0 @ A, rotate(shell, lift(R0) @ R), key=f"rot_orb({shell}) composition law")
    return A


def identity_obligation(rec, shell):
    n = O.num_orbitals(shell)
    rec.eq("A(identity) = 1", rotate(shell, np.eye(3)), eye(n), key=f"rot_orb({shell}) identity rotation")


# ------------------------------------------------------------------------------------------------------------
def case_full(rec, shell, sigma, concrete):
    """complete shells over all of O(3): R = sigma*M(q)"""
    install()
    M, q = quaternion()
    R = M * sigma
    R0s = [OH[i] for i in concrete]

    def body(rec):
        rec.witness = lambda env: dict(test="full", shell=shell, sigma=sigma, q=[env.val(x) for x in q], R0=[r.tolist() for r in R0s],
                                       r=[env.val(x) for x in _POINT])
        identity_obligation(rec, shell)
        obligations(rec, shell, R, R0s)
    rec.explore(body)


def case_two(rec, shell, s1, s2):
    """two symbolic factors"""
    install()
    M1, q1 = quaternion("q")
    M2, q2 = quaternion("r")
    R1, R2 = M1 * s1, M2 * s2

    def body(rec):
        rec.witness = lambda env: dict(test="two", shell=shell, s1=s1, s2=s2, q1=[env.val(x) for x in q1], q2=[env.val(x) for x in q2])
        rec.eq("A(R1)A(R2) = A(R1.R2)", rotate(shell, R1) @ rotate(shell, R2), rotate(shell, R1 @ R2), key=f"rot_orb({shell}) composition law")
    rec.explore(body)


def case_axis(rec, shell):
    """hybrids with a proper-subspace span over the stabiliser of the span {R : R e_axis = +-e_axis}: every element is Rot(theta).D with
    D = diag(sigma on the axis, tau on the next axis); both factors of the composition law are symbolic"""
    install()
    axis = AXIS[shell]
    R1, cs1 = axis_rotation(axis, "th")
    R2, cs2 = axis_rotation(axis, "ph")
    Ds = []
    for sigma in (1, -1):
        for tau in (1, -1):
            D = np.eye(3)
            D[axis, axis] = sigma
            D[(axis + 1) % 3, (axis + 1) % 3] = tau
            Ds.append(D)

    def body(rec):
        identity_obligation(rec, shell)
        for i, D1 in enumerate(Ds):
            Ra = R1 @ lift(D1)
            rec.witness = lambda env: dict(test="axis", shell=shell, axis=axis, D1=D1.tolist(), D2=[d.tolist() for d in Ds],
                                           cs1=[env.val(x) for x in cs1], cs2=[env.val(x) for x in cs2])
            A1 = obligations(rec, shell, Ra, [])
            for j, D2 in enumerate(Ds):
                Rb = R2 @ lift(D2)
                rec.eq(f"A(R1)A(R2) = A(R1.R2) [D{i},D{j}]", A1 @ rotate(shell, Rb), rotate(shell, Ra @ Rb), key=f"rot_orb({shell}) composition law")
    rec.explore(body)


def case_oh(rec, shell):
    """hybrids invariant under O_h only: the group is finite, every element is run; entries are exact algebraic numbers"""
    install()

    def body(rec):
        rec.witness = lambda env: dict(test="oh", shell=shell)
        identity_obligation(rec, shell)
        n = O.num_orbitals(shell)
        As = [rotate(shell, R0) for R0 in OH]
        find = lambda M: next(k for k, X in enumerate(OH) if np.array_equal(X, M))
        for i, A in enumerate(As):
            rec.eq(f"A.A^T = 1 [O_h #{i}]", A @ A.T, eye(n), key=f"rot_orb({shell}) not orthogonal")
            rec.eq(f"A(-R) = P.A(R) [O_h #{i}]", As[find(-OH[i])], parity(shell) @ A, key=f"rot_orb({shell}) parity under inversion")
            for g in GENERATORS:
                rec.eq(f"A(R)A(g) = A(R.g) [O_h #{i}]", A @ As[find(g)], As[find(OH[i] @ g)], key=f"rot_orb({shell}) composition law")
    rec.explore(body)


def case_rotator(rec, sigma):
    """OrbitalRotator: cache (irot), ';'-joined shells, local bases"""
    install()
    M, q = quaternion()
    R = M * sigma
    B1, B2, R0 = OH[13], OH[30], OH[21]

    def body(rec):
        rec.witness = lambda env: dict(test="rotator", sigma=sigma, q=[env.val(x) for x in q], B1=B1.tolist(), B2=B2.tolist(), R0=R0.tolist())
        rot = O.OrbitalRotator()
        Ap = rot("p", rot_cart=as_sympy(R))
        Asp = rot("s;p", irot=0)
        Ad = rot("d", irot=0)
        Ap2 = rot("p", irot=0)
        want = lift(np.zeros((4, 4)))
        want[0, 0] = SymC.of(1)
        want[1:, 1:] = Ap
        rec.eq("'s;p' by index = blockdiag(A_s, A_p) of the stored rotation", Asp, want, key="OrbitalRotator ';'-joined shells / irot")
        rec.eq("cached 'p' = first 'p'", Ap2, Ap, key="OrbitalRotator cache returns another matrix")
        rec.eq("'d' by index = rot_orb(d, stored rotation)", Ad, rotate("d", R), key="OrbitalRotator cache returns another matrix")
        rec.eq("'s;p' orthogonal", Asp @ Asp.T, eye(4), key="rot_orb(s;p) not orthogonal")
        # a second, well separated concrete rotation in the same rotator, then the first again
        rot2 = O.OrbitalRotator()
        a0 = rot2("d", rot_cart=R0)
        a1 = rot2("d", rot_cart=OH[5])
        a2 = rot2("d", rot_cart=R0)
        a3 = rot2("p", rot_cart=OH[5])
        rec.eq("cache: third call = first call", a2, a0, key="OrbitalRotator cache returns another matrix")
        rec.eq("cache: entries are per rotation", a1, rotate("d", OH[5]), key="OrbitalRotator cache returns another matrix")
        rec.eq("cache: entries are per shell", a3, rotate("p", OH[5]), key="OrbitalRotator cache returns another matrix")
        # local bases: the matrix of basis2.R.basis1^T, orthogonal and consistent with the representation
        for sh in ("p", "d"):
            AL = rotate(sh, R, basis1=B1, basis2=B2)
            n = O.num_orbitals(sh)
            rec.eq(f"local bases ({sh}): orthogonal", AL @ AL.T, eye(n), key=f"OrbitalRotator local bases ({sh})")
            rec.eq(f"local bases ({sh}): A(B2) A(R) A(B1)^T", AL, rotate(sh, B2) @ rotate(sh, R) @ rotate(sh, B1).T, key=f"OrbitalRotator local bases ({sh})")
    rec.explore(body)


# ------------------------------------------------------------------------------------------------------------
# thorough tier: Dwann assembly (second sentence of the property) on model space groups, symbolic local bases, joined shells
C4Z, C3D, INV, MX = GENERATORS[0].astype(int), GENERATORS[1].astype(int), GENERATORS[2].astype(int), np.diag([-1, 1, 1])
GROUPS = dict(Oh=([C4Z, C3D, INV], None), D4h=([C4Z, MX, INV], None), C4v=([C4Z, MX], None), D2h=([np.diag([-1, -1, 1]), MX, INV], None),
              P42=([C4Z], {0: (0, 0, 0.5)}), Pnn=([MX, np.diag([1, -1, 1])], {0: (0, 0.5, 0.5), 1: (0.5, 0, 0.5)}),
              D6h=([np.array([[1, -1, 0], [1, 0, 0], [0, 0, 1]]), np.array([[1, -1, 0], [0, -1, 0], [0, 0, -1]]), INV], None),      # hexagonal axes
              D3h=([np.array([[0, -1, 0], [1, -1, 0], [0, 0, 1]]), np.array([[1, -1, 0], [0, -1, 0], [0, 0, -1]]), np.diag([1, 1, -1])], None))
HEXLAT = np.array([[1, 0, 0], [-0.5, np.sqrt(3) / 2, 0], [0, 0, 1.6]])
LATTICE = dict(D6h=HEXLAT, D3h=HEXLAT)        # every other model group lives on the cubic lattice


def model_group(name):
    """(integer rotations, translations, generator indices): closure of the generators, cubic lattice (cartesian = reduced coordinates); the
    non-symmorphic ones carry the fractional translations of their generators"""
    gens, tr = GROUPS[name]
    ops = [(np.eye(3, dtype=int), np.zeros(3))]
    gen_ops = [(g, np.array(tr[i], dtype=float) if tr else np.zeros(3)) for i, g in enumerate(gens)]
    grew = True
    while grew:
        grew = False
        for a, ta in list(ops):
            for g, tg in gen_ops:
                m, t = a @ g, (a @ tg + ta) % 1
                if not any(np.array_equal(m, x) for x, _ in ops):
                    ops.append((m, t))
                    grew = True
    return ops, [next(i for i, (x, _) in enumerate(ops) if np.array_equal(x, g)) for g, _ in gen_ops], tr is None


class _SG:
    pass


def space_group(name):
    from irrep.symmetry_operation import SymmetryOperation
    ops, gens, symmorphic = model_group(name)
    sg = _SG()
    sg.symmetries = [SymmetryOperation(m.astype(float), t, LATTICE.get(name, np.eye(3)), ind=i, spinor=False) for i, (m, t) in enumerate(ops)]
    sg.size = len(ops)
    return sg, ops, gens, symmorphic


def site_bases(sg, orbit, mode, axis_safe=False):
    """local bases of the sites: 'same' = one basis for all, 'rotated' = basis0 @ rot.T with the operation that brings site 0 there (as Projection does)"""
    B0 = OH[7] if not axis_safe else np.eye(3)
    if mode == "same":
        return [B0] * len(orbit)
    out = []
    for pnt in orbit:
        s = next(s for s in sg.symmetries if np.allclose((s.transform_r(np.array(orbit[0])) - pnt + 0.5) % 1 - 0.5, 0, atol=1e-6))
        out.append(B0 @ s.rotation_cart.T)
    return out


class NpK(Np):
    """np of Dwann.py: exp(2 pi i (n.k)) with symbolic k = prod_a z_a^n_a, z_a = exp(2 pi i k_a) one unit-circle atom pair per component"""
    zk = None

    def exp(s, x):
        if not isinstance(x, SymC) or x.isconst():
            return Np.exp(s, x)
        two_pi = Fr(2 * np.pi)
        r = SymC.of(1)
        for m, c in x.n.t.items():
            if c[0] != 0 or not x.d.is_one():
                raise Inconclusive("exp of a symbolic argument with a real part")
            if m == ():
                r = r * SymC.of(np.exp(1j * float(c[1])))
                continue
            (nm, e), = m
            n = c[1] / two_pi
            if e != 1 or n.denominator != 1 or nm not in NpK.zk:
                raise Inconclusive(f"exp of {m} x {c}")
            z = NpK.zk[nm] if n > 0 else NpK.zk[nm].conjugate()
            r = r * z ** abs(int(n))
        return r


def smatmul(A, B):
    """exact matrix product of object arrays that skips exactly-zero entries (the Dwann matrices are block-sparse)"""
    A, B = np.asarray(A, dtype=object), np.asarray(B, dtype=object)
    rows = [[(j, SymC.of(B[k, j])) for j in range(B.shape[1]) if not SymC.of(B[k, j]).iszero()] for k in range(B.shape[0])]
    out = lift(np.zeros((A.shape[0], B.shape[1])))
    for i in range(A.shape[0]):
        for k in range(A.shape[1]):
            a = SymC.of(A[i, k])
            if a.iszero():
                continue
            for j, b in rows[k]:
                out[i, j] = out[i, j] + a * b
    return out


def rationalise(A):
    """entries whose denominator is a monomial in the algebraic atoms w_p: multiply through (w_p^2 = p) so that the denominator is a constant"""
    A = np.asarray(A, dtype=object)
    out = np.empty(A.shape, dtype=object)
    for i in np.ndindex(*A.shape):
        x = SymC.of(A[i])
        if not x.d.is_one():
            dp = x.d.expand() if hasattr(x.d, "expand") else x.d      # w_p^2 -> p happens in the expanded product
            if not dp.isconst():
                (m, c), = dp.t.items()      # a single monomial, by construction of the rotation matrices
                mono = Poly({m: (F1, F0)})
                x = SymC(x.n * mono, dp * mono)
            else:
                x = SymC(x.n, dp)
        out[i] = x
    return out.view(SymArray)


def case_dwann(rec, group, position, orbital, bases):
    import wannierberri.symmetry.Dwann as DW
    install()
    shadow([DW], proxy=NpK(linalg=Lin(np.linalg)))
    sg, ops, gens, symmorphic = space_group(group)
    k = [SymC.var(n) for n in ("kx", "ky", "kz")]
    NpK.zk = {n: (SymC.of(1j) * SymC.var("two_pi_" + n)).exp() for n in ("kx", "ky", "kz")}
    kvec = sarr(k)

    exact = group not in LATTICE     # hexagonal axes: the cartesian rotations are doubles (cos 60, sin 60), identities hold to rounding: 1e-12 claimed
    same = (lambda name, a, b, key: rec.eq(name, a, b, key=key)) if exact else (lambda name, a, b, key: rec.close(name + " (1e-12)", rationalise(a), rationalise(b), 1e-12, bound=2.0, key=key))

    def body(rec):
        rec.witness = lambda env: dict(test="dwann", group=group, position=list(position), orbital=orbital, bases=bases,
                                       zk=[env.val(NpK.zk[n]) for n in ("kx", "ky", "kz")])
        orbit = DW.orbit_from_positions(sg, [np.array(position)])
        dw = DW.Dwann(sg, [np.array(position)], orbital=orbital, orbitalrotator=O.OrbitalRotator(), basis_list=site_bases(sg, orbit, bases, any(o in AXIS for o in orbital.split(";"))))
        norb, npnt = O.num_orbitals(orbital), len(dw.orbit)
        D = [np.asarray(dw.get_on_points(kvec, s.transform_k(kvec), i), dtype=object).view(SymArray) for i, s in enumerate(sg.symmetries)]
        for i, (m, t) in enumerate(ops):
            same(f"D(g{i}) unitary", smatmul(np.conjugate(D[i].T), D[i]), eye(npnt * norb), "Dwann matrix not unitary")
            ok = D[i].shape == (npnt * norb, npnt * norb)
            for ip, pnt in enumerate(dw.orbit):       # the harness's own image of the centre
                img = m @ np.array(pnt) + t
                jp = [j for j, q in enumerate(dw.orbit) if np.allclose((img - q + 0.5) % 1 - 0.5, 0, atol=1e-6)]
                col = D[i][:, ip * norb:(ip + 1) * norb]
                nz = sorted(set(r // norb for r in range(npnt * norb) if any(not SymC.of(x).iszero() for x in col[r])))
                ok = ok and len(jp) == 1 and nz == jp
            rec.concrete(f"D(g{i}) maps every centre onto its image (one non-zero block per column block, at the image site)", ok,
                         key="Dwann does not map a centre onto its symmetry image")
        if symmorphic:
            for g in gens:
                Dg_at = {}
                for i, (m, t) in enumerate(ops):
                    i3 = next(j for j, (x, _) in enumerate(ops) if np.array_equal(x, m @ ops[g][0]))
                    k2 = sg.symmetries[g].transform_k(kvec)
                    Di_k2 = np.asarray(dw.get_on_points(k2, sg.symmetries[i].transform_k(k2), i), dtype=object).view(SymArray)
                    same(f"D(g{i})(g{g}.k) . D(g{g})(k) = D(g{i}.g{g})(k)", smatmul(Di_k2, D[g]), D[i3], "Dwann composition law")
    rec.explore(body)


def case_three(rec, shell, s0):
    """OrbitalRotator with symbolic local bases: A(basis2 . R . basis1^T) = A(basis2) A(R) A(basis1)^T, three independent symbolic rotations"""
    install()
    M, q = quaternion("q")
    M1, q1 = quaternion("r")
    M2, q2 = quaternion("t")
    R = M * s0

    def body(rec):
        rec.witness = lambda env: dict(test="three", shell=shell, s0=s0, q=[env.val(x) for x in q], q1=[env.val(x) for x in q1], q2=[env.val(x) for x in q2])
        AL = O.OrbitalRotator()(shell, rot_cart=as_sympy(R), basis1=as_sympy(M1), basis2=as_sympy(M2))
        n = O.num_orbitals(shell)
        # (orthogonality of AL follows: it equals a product of matrices whose orthogonality is established for every rotation by the 'full' cases)
        rec.eq("local bases: A(B2) A(R) A(B1)^T", AL, rotate(shell, M2) @ rotate(shell, R) @ rotate(shell, M1).T, key=f"OrbitalRotator local bases ({shell})")
    rec.explore(body)


def case_joined(rec, symbol, sigma):
    """';'-joined projections: block diagonal of the parts, orthogonal, parity"""
    install()
    M, q = quaternion()
    R = M * sigma
    parts = symbol.split(";")

    def body(rec):
        rec.witness = lambda env: dict(test="joined", symbol=symbol, sigma=sigma, q=[env.val(x) for x in q])
        A = rotate(symbol, R)
        n = O.num_orbitals(symbol)
        want, P = lift(np.zeros((n, n))), lift(np.zeros((n, n)))
        st = 0
        for sh in parts:
            m = O.num_orbitals(sh)
            want[st:st + m, st:st + m] = rotate(sh, R)
            P[st:st + m, st:st + m] = parity(sh)
            st += m
        rec.eq(f"'{symbol}' = blockdiag of the parts", A, want, key="OrbitalRotator ';'-joined shells / irot")
        rec.eq(f"'{symbol}' orthogonal", A @ A.T, eye(n), key=f"rot_orb({symbol}) not orthogonal")
        rec.eq(f"'{symbol}' parity", rotate(symbol, -R), P @ A, key=f"rot_orb({symbol}) parity under inversion")
    rec.explore(body)


def dwann_cases():
    """(group, site, projection, local bases): complete shells everywhere, every hybrid in the groups that keep its span invariant"""
    out = []
    axis_h, oh_h = ["sp", "p2", "pxy", "sp2", "pz"], ["sp3d2", "t2g", "eg"]
    plan = dict(Oh=([(0.5, 0, 0), (0.3, 0, 0), (0.2, 0.2, 0.2), (0.5, 0.5, 0)], ["s", "p", "d", "f", "sp3", "p;d"] + oh_h),
                D4h=([(0.5, 0, 0), (0.3, 0.1, 0.2)], ["p", "d", "f", "sp3", "s;p"] + axis_h[2:]),
                C4v=([(0.5, 0, 0.1), (0.3, 0.1, 0.4)], ["p", "d", "sp3"] + axis_h[2:]),
                D2h=([(0.5, 0.2, 0), (0.3, 0.1, 0.2)], ["p", "d", "f", "sp", "p2", "sp2"]),
                P42=([(0.5, 0, 0.1), (0.3, 0.1, 0.2)], ["p", "d", "f", "sp3", "sp2", "pz"]),
                Pnn=([(0.25, 0.25, 0.1), (0.3, 0.1, 0.2)], ["p", "d", "f", "sp3", "sp2", "pz"]),
                D6h=([(1 / 3, 2 / 3, 0), (0.5, 0, 0), (0.3, 0.1, 0.2)], ["s", "p", "d", "f", "sp3", "sp2", "pz", "pxy"]),
                D3h=([(1 / 3, 2 / 3, 0), (0.3, 0.1, 0.2)], ["p", "d", "f", "sp2", "pz"]))
    n = 0
    for group, (sites, orbs) in plan.items():
        for site in sites:
            for orb in orbs:
                n += 1
                out.append((group, site, orb, ("same", "rotated")[n % 2]))
    out += [("Oh", (0.5, 0.2, 0), "d", "rotated"), ("Oh", (0.5, 0.2, 0), "s", "same"), ("Oh", (0.3, 0.1, 0.2), "p", "rotated"), ("Oh", (0.3, 0.1, 0.2), "d", "same"),
            ("Oh", (0.3, 0.3, 0.1), "sp3", "rotated"), ("Oh", (0.2, 0.2, 0.2), "s;p;d", "rotated")]
    return out


# ------------------------------------------------------------------------------------------------------------
# nearby rotations through one OrbitalRotator object (its cache identifies rotations closer than the documented tolerance 1e-4)
CACHE_TOL = {"p": 5e-4, "d": 1e-3}     # 1e-4 (documented cache tolerance) x Lipschitz constant of the shell polynomials (1 for p, < 5 for d), with margin


def small_rotation(axis, angle):
    from scipy.spatial.transform import Rotation
    return Rotation.from_rotvec(np.array(axis, dtype=float) / np.linalg.norm(axis) * angle).as_matrix()


def nearby_rotations():
    g1s = [_Mq([1.0, 2.0, 3.0, 4.0]), -_Mq([2.0, -1.0, 1.0, 3.0]), np.eye(3)]
    deltas = [small_rotation((0, 0, 1), 1e-3), small_rotation((1, 0, 0), 5e-3), small_rotation((1, 2, 3), 2e-3), small_rotation((2, -1, 1), 5e-5)]
    return g1s, deltas


def case_cache(rec, shell):
    """two rotations g1, g2 = g1.delta requested from the SAME rotator, in both orders, and delta itself after the identity: every returned matrix must
    be the matrix of the requested rotation (to CACHE_TOL: rotations closer than 1e-4 are merged by design, larger differences must not be)"""
    install()
    g1s, deltas = nearby_rotations()
    tol = CACHE_TOL[shell]
    n = O.num_orbitals(shell)
    r = sarr([SymC.var(x, -1.0, 1.0) for x in ("rx", "ry", "rz")])
    rs = [sympy.Symbol(x, real=True) for x in ("rx", "ry", "rz")]
    phis = O.get_orbitals().orb_function_dic[shell]
    phi_r = sarr([from_sympy(sympy.sympify(f(*rs))) for f in phis])

    def returned_ok(tag, A, g):
        A = rationalise(A)
        rec.close(f"{tag}: returned matrix = matrix of the requested rotation", A, rationalise(O.OrbitalRotator()(shell, rot_cart=g)), tol, bound=2.0,
                  key=f"OrbitalRotator({shell}) returns the cached matrix of another rotation")
        rec.close(f"{tag}: returned matrix orthogonal", rationalise(A @ A.T), eye(n), 1e-9, bound=2.0, key=f"OrbitalRotator({shell}) returned matrix not orthogonal")
        if shell != "p":      # the relation is linear in r for p (decided in LRA); for d a violated instance costs z3 minutes of NRA - the matrix comparison above covers it
            return
        rp = as_sympy(lift(np.linalg.inv(g)) @ r)
        lhs = sarr([from_sympy(sympy.sympify(f(*rp))) for f in phis])
        rec.close(f"{tag}: phi_j(g^-1 r) = sum_i phi_i(r) A_ij for |r_a| <= 1", rationalise(lhs), rationalise(phi_r @ A), 20 * tol, bound=2.0,
                  key=f"OrbitalRotator({shell}) returned matrix does not describe the requested rotation")

    def body(rec):
        for i, g1 in enumerate(g1s):
            for j, d in enumerate(deltas):
                g2 = g1 @ d
                rec.witness = lambda env: dict(test="cache", shell=shell, g1=g1.tolist(), delta=d.tolist(), r=[env.val(x) for x in r])
                for order in ("g1 first", "g2 first"):
                    rot = O.OrbitalRotator()
                    if order == "g1 first":
                        A1 = rot(shell, rot_cart=g1)
                        A2 = rot(shell, rot_cart=g2)
                    else:
                        A2 = rot(shell, rot_cart=g2)
                        A1 = rot(shell, rot_cart=g1)
                    Ad = rot(shell, rot_cart=d)
                    tag = f"g1 #{i}, delta #{j}, {order}"
                    returned_ok(tag + " [g1]", A1, g1)
                    returned_ok(tag + " [g2]", A2, g2)
                    returned_ok(tag + " [delta]", Ad, d)
                    rec.close(f"{tag}: A(g1) A(delta) = A(g1.delta) with the three returned matrices", rationalise(A1 @ Ad), rationalise(A2), 3 * tol, bound=2.0,
                              key=f"OrbitalRotator({shell}) returned matrices do not compose")
    rec.explore(body)


def cases(tier, seed):
    q = tier == "quick"
    out = []
    gens = [next(i for i, M in enumerate(OH) if np.array_equal(M, g)) for g in GENERATORS]
    all48 = gens + [i for i in range(48) if i not in gens]
    for sigma in (1, -1):
        if q and sigma == 1:     # f in the quick tier: orthogonality, parity A(-R) = -A(R) and the defining relation for one symbolic proper rotation
            out.append(Case("full f sigma=+1 (no concrete factors)", case_full, dict(shell="f", sigma=1, concrete=[]), timeout=1100))
        for shell in ("s", "p", "sp3", "d") + (() if q else ("f",)):
            if shell == "d":       # 0.5 s of sympy per call: the concrete factors are split over several processes; quick = generators of O_h + 5 more
                chunks = [all48[:4], all48[4:8]] if q else [all48[i::6] for i in range(6)]
            elif shell == "f":     # 3 s of sympy per call: generators of O_h + 5 more (the two-symbolic-factor cases below cover every pair)
                chunks = [all48[:2], all48[2:4], all48[4:6], all48[6:8]]
            else:
                chunks = [all48]
            for k, ch in enumerate(chunks):
                out.append(Case(f"full {shell} sigma={sigma:+d} R0-chunk {k}", case_full, dict(shell=shell, sigma=sigma, concrete=ch), timeout=1100))
        out.append(Case(f"rotator sigma={sigma:+d}", case_rotator, dict(sigma=sigma), timeout=600))
    for s1 in (1, -1):
        for s2 in (1, -1):
            for shell in ("s", "p", "sp3", "d") + (() if q else ("f",)):
                if shell == "d" and q and s1 == -1:      # quick: proper x proper and proper x improper; thorough: all four sign combinations
                    continue
                out.append(Case(f"two symbolic factors {shell} {s1:+d} {s2:+d}", case_two, dict(shell=shell, s1=s1, s2=s2), timeout=1100))
    for shell in AXIS:
        out.append(Case(f"axis {shell}", case_axis, dict(shell=shell)))
    for shell in OHONLY:
        out.append(Case(f"O_h {shell}", case_oh, dict(shell=shell)))
    for shell in ("p", "d"):
        out.append(Case(f"cache: nearby rotations in one rotator {shell}", case_cache, dict(shell=shell), timeout=1100))
    if q:
        return out
    # ---- thorough only ----------------------------------------------------------------------------------------
    T = 5400
    for c in out:
        c.timeout = T
    for group, pos, orb, bases in dwann_cases():
        out.append(Case(f"Dwann {group} site {pos} '{orb}' bases={bases}", case_dwann, dict(group=group, position=pos, orbital=orb, bases=bases), timeout=T))
    for shell in ("s", "p", "sp3", "d"):
        for s0 in (1, -1):
            out.append(Case(f"three symbolic rotations (local bases) {shell} {s0:+d}", case_three, dict(shell=shell, s0=s0), timeout=T))
    for symbol in ("s;p;d", "sp3;d", "p;f"):
        for sigma in (1, -1):
            out.append(Case(f"joined '{symbol}' sigma={sigma:+d}", case_joined, dict(symbol=symbol, sigma=sigma), timeout=T))
    return out


# ------------------------------------------------------------------------------------------------------------
def _Mq(q):
    a, b, c, d = q
    n = a * a + b * b + c * c + d * d
    if n == 0:      # the model left q unconstrained (violation independent of q): any rotation will do
        a, b, c, d, n = 1.0, 2.0, 3.0, 4.0, 30.0
        q[:] = [a, b, c, d]
    return np.array([[a * a + b * b - c * c - d * d, 2 * (b * c - a * d), 2 * (b * d + a * c)],
                     [2 * (b * c + a * d), a * a - b * b + c * c - d * d, 2 * (c * d - a * b)],
                     [2 * (b * d - a * c), 2 * (c * d + a * b), a * a - b * b - c * c + d * d]]) / n


def _axis(axis, cs):
    c, s = cs
    r = np.hypot(c, s)
    c, s = (0.6, 0.8) if r == 0 else (c / r, s / r)
    i, j = [k for k in range(3) if k != axis]
    R = np.eye(3)
    R[i, i], R[i, j], R[j, i], R[j, j] = c, -s, s, c
    return R


def _parity(sh):
    from wannierberri.symmetry.orbitals import get_orbitals, num_orbitals
    if sh in "spdf":
        return np.eye(num_orbitals(sh)) * (-1) ** "spdf".index(sh)
    orb = get_orbitals()
    M, st = orb.hybrid_matrix_dic[sh], orb.hybrid_matrix_shells_start[sh]
    D = np.concatenate([np.full(e - b, (-1.0) ** "spdf".index(x)) for b, e, x in zip(st, st[1:], orb.hybrid_matrix_shells_dic[sh])])
    return M @ np.diag(D) @ M.T


def replay(rec):
    """real OrbitalRotator on concrete doubles"""
    from wannierberri.symmetry.orbitals import OrbitalRotator, num_orbitals, get_orbitals
    w = rec["witness"]
    rot = lambda sh, R: OrbitalRotator()(sh, rot_cart=np.array(R, dtype=float))
    errs = {}

    def chk(name, a, b):
        a, b = np.asarray(a, dtype=float), np.asarray(b, dtype=float)
        errs[name] = np.inf if a.shape != b.shape else max(errs.get(name, 0.0), float(np.abs(a - b).max()))

    def basic(sh, R, R0s):
        n = num_orbitals(sh)
        A = rot(sh, R)
        chk("A(1)=1", rot(sh, np.eye(3)), np.eye(n))
        chk("A.A^T=1", A @ A.T, np.eye(n))
        chk("A(-R)=(-1)^l A(R)", rot(sh, -np.asarray(R)), _parity(sh) @ A)
        if sh in "spdf":
            phis = get_orbitals().orb_function_dic[sh]
            pts = [np.array(w["r"], dtype=float)] if any(w.get("r") or []) else []
            pts += list(np.random.default_rng(3).normal(size=(4, 3)))
            val = lambda r: np.array([float(f(*r)) for f in phis])
            for r in pts:
                chk("phi_j(R^-1 r)=sum_i phi_i(r) A_ij", val(np.linalg.inv(R) @ r), val(r) @ A)
        for R0 in R0s:
            R0 = np.array(R0)
            chk("A(R)A(R0)=A(R.R0)", A @ rot(sh, R0), rot(sh, R @ R0))
            chk("A(R0)A(R)=A(R0.R)", rot(sh, R0) @ A, rot(sh, R0 @ R))
    t = w["test"]
    if t == "full":
        basic(w["shell"], w["sigma"] * _Mq(w["q"]), w["R0"])
    elif t == "two":
        R1, R2 = w["s1"] * _Mq(w["q1"]), w["s2"] * _Mq(w["q2"])
        chk("A(R1)A(R2)=A(R1.R2)", rot(w["shell"], R1) @ rot(w["shell"], R2), rot(w["shell"], R1 @ R2))
    elif t == "axis":
        R1 = _axis(w["axis"], w["cs1"]) @ np.array(w["D1"])
        basic(w["shell"], R1, [])
        for D2 in w["D2"]:
            R2 = _axis(w["axis"], w["cs2"]) @ np.array(D2)
            chk("A(R1)A(R2)=A(R1.R2)", rot(w["shell"], R1) @ rot(w["shell"], R2), rot(w["shell"], R1 @ R2))
    elif t == "oh":
        for R in OH:
            basic(w["shell"], R, GENERATORS)
    elif t == "rotator":
        R = w["sigma"] * _Mq(w["q"])
        B1, B2, R0 = np.array(w["B1"]), np.array(w["B2"]), np.array(w["R0"])
        r = OrbitalRotator()
        Ap = r("p", rot_cart=R)
        Asp, Ad, Ap2 = r("s;p", irot=0), r("d", irot=0), r("p", irot=0)
        want = np.zeros((4, 4))
        want[0, 0] = 1
        want[1:, 1:] = Ap
        chk("s;p", Asp, want)
        chk("cached p", Ap2, Ap)
        chk("d by index", Ad, rot("d", R))
        r2 = OrbitalRotator()
        a0, a1, a2, a3 = r2("d", rot_cart=R0), r2("d", rot_cart=OH[5]), r2("d", rot_cart=R0), r2("p", rot_cart=OH[5])
        chk("cache third=first", a2, a0)
        chk("cache per rotation", a1, rot("d", OH[5]))
        chk("cache per shell", a3, rot("p", OH[5]))
        for sh in ("p", "d"):
            AL = OrbitalRotator()(sh, rot_cart=R, basis1=B1, basis2=B2)
            chk(f"local bases {sh} orthogonal", AL @ AL.T, np.eye(len(AL)))
            chk(f"local bases {sh} representation", AL, rot(sh, B2) @ rot(sh, R) @ rot(sh, B1).T)
    elif t == "three":
        R, B1, B2 = w["s0"] * _Mq(w["q"]), _Mq(w["q1"]), _Mq(w["q2"])
        AL = OrbitalRotator()(w["shell"], rot_cart=R, basis1=B1, basis2=B2)
        chk("local bases orthogonal", AL @ AL.T, np.eye(len(AL)))
        chk("local bases representation", AL, rot(w["shell"], B2) @ rot(w["shell"], R) @ rot(w["shell"], B1).T)
    elif t == "joined":
        from scipy.linalg import block_diag
        R = w["sigma"] * _Mq(w["q"])
        A = rot(w["symbol"], R)
        chk("blockdiag of the parts", A, block_diag(*[rot(sh, R) for sh in w["symbol"].split(";")]))
        chk("orthogonal", A @ A.T, np.eye(len(A)))
        chk("parity", rot(w["symbol"], -R), block_diag(*[_parity(sh) for sh in w["symbol"].split(";")]) @ A)
    elif t == "cache":
        return _replay_cache(w)
    elif t == "dwann":
        return _replay_dwann(w)
    else:
        raise ValueError(t)
    bad = {k: v for k, v in errs.items() if v > 1e-9}
    return bool(bad), f"{t} {w.get('shell', '')}: " + (", ".join(f"|{k}| err {v:.2e}" for k, v in bad.items()) or f"all {len(errs)} identities hold to 1e-9") + \
        (f" at q={w['q']} sigma={w['sigma']}" if "q" in w else "")


def _replay_dwann(w):
    from wannierberri.symmetry.Dwann import Dwann, orbit_from_positions
    from wannierberri.symmetry.orbitals import OrbitalRotator, num_orbitals
    sg, ops, gens, symmorphic = space_group(w["group"])
    z = [complex(*x) if isinstance(x, list) else complex(x) for x in w["zk"]]
    k = np.array([np.angle(x) / (2 * np.pi) if abs(x) > 0 else v for x, v in zip(z, (0.13, 0.27, -0.41))])
    orbital = w["orbital"]
    bad = []
    try:
        orbit = orbit_from_positions(sg, [np.array(w["position"])])
        dw = Dwann(sg, [np.array(w["position"])], orbital=orbital, orbitalrotator=OrbitalRotator(),
                   basis_list=site_bases(sg, orbit, w["bases"], any(o in AXIS for o in orbital.split(";"))))
        norb, npnt = num_orbitals(orbital), len(dw.orbit)
        D = [dw.get_on_points(k, s.transform_k(k), i) for i, s in enumerate(sg.symmetries)]
        for i, (m, t) in enumerate(ops):
            if np.abs(D[i].conj().T @ D[i] - np.eye(npnt * norb)).max() > 1e-9:
                bad.append(f"D(g{i}) not unitary ({np.abs(D[i].conj().T @ D[i] - np.eye(npnt * norb)).max():.2e})")
            for ip, pnt in enumerate(dw.orbit):
                img = m @ np.array(pnt) + t
                jp = [j for j, q in enumerate(dw.orbit) if np.allclose((img - q + 0.5) % 1 - 0.5, 0, atol=1e-6)]
                col = D[i][:, ip * norb:(ip + 1) * norb]
                nz = sorted(set(r // norb for r in range(npnt * norb) if np.abs(col[r]).max() > 1e-12))
                if len(jp) != 1 or nz != jp:
                    bad.append(f"D(g{i}): centre {ip} goes to block {nz}, its image is site {jp}")
        if symmorphic:
            for g in gens:
                k2 = sg.symmetries[g].transform_k(k)
                for i, (m, t) in enumerate(ops):
                    i3 = next(j for j, (x, _) in enumerate(ops) if np.array_equal(x, m @ ops[g][0]))
                    e = np.abs(dw.get_on_points(k2, sg.symmetries[i].transform_k(k2), i) @ D[g] - D[i3]).max()
                    if e > 1e-9:
                        bad.append(f"D(g{i})(g{g}k) D(g{g})(k) != D(g{i3})(k) ({e:.2e})")
    except Exception as e:
        bad.append(f"raises {type(e).__name__}: {str(e)[:150]}")
    return bool(bad), f"Dwann group {w['group']} site {w['position']} orbital {orbital} bases {w['bases']} k={k.tolist()}: " + ("; ".join(bad[:4]) or "unitary, centres mapped, composition holds")


def _replay_cache(w):
    from wannierberri.symmetry.orbitals import OrbitalRotator, num_orbitals, get_orbitals
    sh, g1, d = w["shell"], np.array(w["g1"]), np.array(w["delta"])
    g2, tol = g1 @ d, CACHE_TOL[w["shell"]]
    phis = get_orbitals().orb_function_dic[sh]
    val = lambda r: np.array([float(f(*r)) for f in phis])
    pts = ([np.array(w["r"], dtype=float)] if any(w.get("r") or []) else []) + list(np.random.default_rng(3).uniform(-1, 1, size=(4, 3)))
    bad = []
    for order in ("g1 first", "g2 first"):
        rot = OrbitalRotator()
        if order == "g1 first":
            A1, A2 = rot(sh, rot_cart=g1), rot(sh, rot_cart=g2)
        else:
            A2 = rot(sh, rot_cart=g2)
            A1 = rot(sh, rot_cart=g1)
        Ad = rot(sh, rot_cart=d)
        for nm, A, g in (("g1", A1, g1), ("g2", A2, g2), ("delta", Ad, d)):
            e = np.abs(A - OrbitalRotator()(sh, rot_cart=g)).max()
            if e > tol:
                bad.append(f"{order}: matrix returned for {nm} differs from the matrix of {nm} by {e:.2e}")
            e = max(np.abs(val(np.linalg.inv(g) @ r) - val(r) @ A).max() for r in pts)
            if e > 20 * tol:
                bad.append(f"{order}: defining relation for {nm} off by {e:.2e}")
        e = np.abs(A1 @ Ad - A2).max()
        if e > 3 * tol:
            bad.append(f"{order}: |A(g1)A(delta)-A(g1.delta)|={e:.2e}")
    ang = np.degrees(np.arccos(np.clip((np.trace(d) - 1) / 2, -1, 1)))
    return bool(bad), f"cache {sh}: g2 = g1.delta, delta = rotation by {ang:.4f} deg (max element difference {np.abs(g2 - g1).max():.1e}); " + ("; ".join(bad[:4]) or f"all returned matrices correct to {tol}")
