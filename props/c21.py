"""C21 — orbital rotation matrices form an orthogonal representation (first sentence of the property)"""
import itertools
import numpy as np
from fractions import Fraction as Fr
from symx.core import *
from symx.core import z3, Poly, RULES, SIDE, ONE, F0, F1, zvar
from symx.npproxy import NpProxy, LinalgProxy, shadow
from symx.harness import Case
import symx.harness  # noqa (puts the repo on sys.path)
import wannierberri.symmetry.orbitals as O
import wannierberri.symmetry.unique_list as UL

PROPERTY = "C21"
FUNCTIONS = ["wannierberri.symmetry.orbitals.Orbitals.__init__ (hybrid matrices)", "Orbitals.rot_orb_basis", "Orbitals.rot_orb",
             "OrbitalRotator.__call__ (cache, irot, ';'-joined shells, local bases)"]
BOUNDS = dict(
    quick=dict(shells="s p d sp3 over all of O(3) (f: one symbolic proper rotation and its negative: orthogonality, parity, defining relation); sp p2 pxy sp2 pz over the stabiliser of their span (axis rotations x reflections); "
                      "t2g eg sp3d2 over O_h (48 signed permutation matrices)",
               rotation="R = sigma*M(q), q a symbolic unit quaternion (4 reals on the 3-sphere), sigma=+-1; axis families: symbolic angle (unit-circle atoms)",
               composition="one symbolic factor times concrete signed permutation matrices, both orders (all 48 for s p sp3; the 3 generators of O_h "
                           "+ 5 more for d); two symbolic factors for s, p, sp3, d (d: first factor proper) and all axis families; all 48x(3 generators) pairs for the O_h-only hybrids"),
    thorough=dict(shells="as quick plus the f shell", rotation="as quick",
                  composition="as quick, all 48 concrete factors also for d (8 for f), two symbolic factors for d and f with all four sign combinations"))
EXPLANATION = ("The real rot_orb_basis/rot_orb/OrbitalRotator run with the rotation given as sigma*M(q) for a symbolic unit quaternion q (or a symbolic "
               "axis angle); np.linalg.inv is the exact adjugate inverse whose nine entries travel through the function's own sympy algebra as symbols, "
               "sympy.sqrt(3.0) etc. and the doubles 1/sqrt(k) of hybrids_coef are algebraic atoms (w_p^2=p, w_p>0), and every value stored into the "
               "result array is converted exactly (sympy Floats as binary rationals) into a polynomial in q.  A.A^T=1, A(1)=1 and the composition law "
               "are polynomial identities modulo |q|^2=1 decided by normal form + z3; so are the parity law A(-R) = (-1)^l A(R) and, for the complete shells, "
               "the defining relation phi_j(R^-1 r) = sum_i phi_i(r) A_ij at a symbolic point r with the package's own orbital polynomials.")
ASSUMPTIONS = ["hybrid sets whose span is a proper subspace of the shells involved (sp p2 pxy sp2 pz t2g eg sp3d2) are rotated only by elements of the "
               "stabiliser of that span (site-symmetry operations in local bases - the only way Dwann/Projection call them); outside it rot_orb returns "
               "a projection that cannot be orthogonal",
               "hybrid coefficients of hybrids_coef are the doubles closest to n/sqrt(k); they are taken as the algebraic numbers they round"]
OUTSIDE = ["second sentence of the property: unitarity / centre mapping of Dwann for arbitrary space groups (irrep objects; not applicable here)",
           "quick tier: the f shell, and improper first factors in the two-symbolic-factor law for d (both in the thorough tier)",
           "OrbitalRotator identifies rotations closer than its tolerance 1e-4 (UniqueList); cache lookups are exercised with well separated rotations only",
           "rounding of the double arithmetic (real-number semantics of the code)"]
STUBS = ["np.linalg.det on the symbolic rotation: exact determinant (normalises to the constant sigma = +-1)",
         "np.linalg.inv on the symbolic rotation: exact adjugate/determinant (no assumption); its entries are handed to the function's sympy algebra as "
         "fresh symbols and substituted back exactly when the function stores a matrix element",
         "sympy.sqrt(k.0) -> product of algebraic atoms w_p (p prime, w_p^2=p, w_p>0) instead of a 53-bit Float",
         "np.zeros in orbitals.py -> object array converting stored sympy expressions to exact polynomials",
         "hybrids_coef doubles n/sqrt(k) -> the same algebraic atoms (recognised bit-exactly; anything else is Inconclusive)"]
QUERY_TIMEOUT_MS = dict(quick=20000, thorough=120000)

# ------------------------------------------------------------------------------------------------------------
# algebraic atoms and the sympy bridge
_PRIMES = (2, 3, 5, 7, 11, 13)
_SYM = {}          # sympy symbol name -> SymC


def walg(p):
    nm = f"w{p}"
    if nm not in RULES:
        RULES[nm] = Poly.const((Fr(p), F0))
        SIDE[nm] = [zvar(nm) > 0, zvar(nm) * zvar(nm) == p]
    return SymC.var(nm)


def _split(k):
    """k = m^2 * prod(primes)"""
    k = int(k)
    m, ps = 1, []
    for p in _PRIMES:
        while k % (p * p) == 0:
            k //= p * p
            m *= p
        if k % p == 0:
            k //= p
            ps.append(p)
    if k != 1:
        raise Inconclusive(f"sqrt of an integer with a large prime factor ({k})")
    return m, ps


def sqrt_c(k):
    m, ps = _split(k)
    r = SymC.of(m)
    for p in ps:
        r = r * walg(p)
    return r


sympy = None        # imported in install(), i.e. inside the forked case process (a sympy heap inherited through fork() is very slow: copy-on-write)
_real_sqrt = None


def sqrt_sympy(x, *a, **kw):
    """stand-in for sympy.sqrt on the numeric constants of orbitals.py"""
    if isinstance(x, (int, float, sympy.Float, sympy.Integer)) and float(x) > 0 and float(x) == int(float(x)):
        m, ps = _split(int(float(x)))
        r = sympy.Integer(m)
        for p in ps:
            walg(p)
            r = r * sympy.Symbol(f"w{p}", positive=True)
        return r
    if isinstance(x, (float, sympy.Float)):
        raise Inconclusive(f"sympy.sqrt of the non-integer constant {x}")
    return _real_sqrt(x, *a, **kw)


def algebraic(v):
    """double of hybrids_coef -> the algebraic number it rounds (bit-exact recognition)"""
    v = float(v)
    if float(v * 4).is_integer():
        return SymC.of(v)
    for num in (1, 2, 3):
        for k in range(2, 40):
            for sg in (1, -1):
                if sg * num / np.sqrt(k) == v:
                    return SymC.of(sg * num) / sqrt_c(k)
    raise Inconclusive(f"hybrid coefficient {v!r} is not of the form n/sqrt(k)")


def from_sympy(e):
    """exact conversion sympy expression -> SymC"""
    if isinstance(e, SymC):
        return e
    if isinstance(e, (int, float, np.integer, np.floating)):
        return SymC.of(e)
    if e.is_Symbol:
        nm = e.name
        if nm in _SYM:
            return _SYM[nm]
        if nm[0] == "w" and nm[1:].isdigit():
            return walg(int(nm[1:]))
        raise Inconclusive(f"free symbol {nm} in a matrix element")
    if e.is_Integer:
        return SymC.of(int(e))
    if e.is_Rational:
        return SymC(Poly.const((Fr(int(e.p), int(e.q)), F0)))
    if e.is_Float:
        sign, man, ex, bc = e._mpf_
        val = Fr(int(man)) * (Fr(2) ** int(ex))
        return SymC(Poly.const((-val if sign else val, F0)))
    if e.is_Add:
        r = SymC.of(0)
        for a in e.args:
            r = r + from_sympy(a)
        return r
    if e.is_Mul:
        r = SymC.of(1)
        for a in e.args:
            r = r * from_sympy(a)
        return r
    if e.is_Pow and e.exp.is_Integer:
        return from_sympy(e.base) ** int(e.exp)
    raise Inconclusive(f"unsupported sympy node {type(e).__name__} in a matrix element")


class BridgeArray(SymArray):
    """object array of orbitals.py: values stored by the code under test are converted exactly to SymC"""

    def __setitem__(s, idx, v):
        if isinstance(v, sympy.Basic):
            v = from_sympy(v)
        elif isinstance(v, np.ndarray) and v.dtype == object:
            w = np.empty(v.shape, dtype=object)
            for i in np.ndindex(*v.shape):
                w[i] = from_sympy(v[i]) if isinstance(v[i], sympy.Basic) else v[i]
            v = w
        return SymArray.__setitem__(s, idx, v)


class Lin(LinalgProxy):
    _n = itertools.count()

    def inv(s, a):
        if not is_sym(a):
            return s._r.inv(a)                               # concrete doubles: the real LAPACK call
        b = np.empty(np.shape(a), dtype=object)
        for i in np.ndindex(*b.shape):
            b[i] = from_sympy(a[i])
        ex = LinalgProxy.inv(s, b)                           # exact adjugate / determinant
        k = next(Lin._n)
        out = np.empty(ex.shape, dtype=object)
        for i in np.ndindex(*ex.shape):
            nm = f"inv{k}_{i[0]}{i[1]}"
            _SYM[nm] = SymC.of(ex[i])
            out[i] = sympy.Symbol(nm, real=True)
        return out


    def det(s, a):
        """exact determinant of the symbolic rotation; it normalises to the constant +-1 (unit quaternion / unit circle rewrite), so a
        comparison such as det(R) < 0 in the code under test is decided like on concrete input"""
        if not is_sym(a):
            return s._r.det(a)
        b = np.empty(np.shape(a), dtype=object)
        for i in np.ndindex(*b.shape):
            b[i] = from_sympy(a[i])
        d = SymC.of(LinalgProxy.det(s, b))
        return float(d) if d.isconst() else d


class Np(NpProxy):
    def zeros(s, shape, dtype=None, **k):
        a = np.empty(shape, dtype=object)
        a[...] = SymC.of(0)
        return a.view(BridgeArray)


def install():
    """shadow orbitals.py / unique_list.py and build a fresh Orbitals() under the shadow"""
    global sympy, _real_sqrt
    import sympy
    _real_sqrt = sympy.sqrt
    shadow([O, UL], proxy=Np(linalg=Lin(np.linalg)))
    sympy.sqrt = sqrt_sympy
    O.hybrids_coef = {k: {b: (algebraic(c) if k not in O.basis_orbital_list else c) for b, c in v.items()} for k, v in O.hybrids_coef.items()}
    O.get_orbitals.cache_clear()
    if not _POINT:               # symbolic point r of the defining relation
        _POINT.extend(SymC.var(n) for n in ("rx", "ry", "rz"))
        _SYM.update(zip(("rx", "ry", "rz"), _POINT))
    return O.get_orbitals()


# ------------------------------------------------------------------------------------------------------------
# rotation families
def quaternion(tag="q"):
    """unit quaternion atoms with the rewrite qa^2 -> 1-qb^2-qc^2-qd^2; M(q) covers all of SO(3)"""
    names = [f"{tag}{x}" for x in "abcd"]
    a, b, c, d = [SymC.var(n, -1.0, 1.0) for n in names]
    RULES[names[0]] = Poly({(): (F1, F0), ((names[1], 2),): (-F1, F0), ((names[2], 2),): (-F1, F0), ((names[3], 2),): (-F1, F0)})
    con = [sum((zvar(n) * zvar(n) for n in names[1:]), zvar(names[0]) * zvar(names[0])) == 1]
    for n in names:
        SIDE[n] = con
    M = [[a * a + b * b - c * c - d * d, 2 * (b * c - a * d), 2 * (b * d + a * c)],
         [2 * (b * c + a * d), a * a - b * b + c * c - d * d, 2 * (c * d - a * b)],
         [2 * (b * d - a * c), 2 * (c * d + a * b), a * a - b * b - c * c + d * d]]
    return sarr(M), [a, b, c, d]


def axis_rotation(axis, tag="th"):
    """rotation by a symbolic angle about a coordinate axis (unit-circle atoms c, s)"""
    th = SymC.var(tag)
    c, s = th.cos(), th.sin()
    i, j = [k for k in range(3) if k != axis]
    R = lift(np.eye(3))
    R[i, i], R[i, j], R[j, i], R[j, j] = c, -s, s, c
    return R, [c, s]


def signed_permutations():
    out = []
    for p in itertools.permutations(range(3)):
        for sg in itertools.product((1, -1), repeat=3):
            M = np.zeros((3, 3))
            for i in range(3):
                M[i, p[i]] = sg[i]
            out.append(M)
    return out


OH = signed_permutations()
GENERATORS = [np.array([[0., -1, 0], [1, 0, 0], [0, 0, 1]]), np.array([[0., 0, 1], [1, 0, 0], [0, 1, 0]]), -np.eye(3)]   # C4z, C3(111), inversion
FULL = ("s", "p", "d", "f", "sp3")
AXIS = dict(sp=0, p2=0, pxy=2, sp2=2, pz=2)
OHONLY = ("t2g", "eg", "sp3d2")


def stabiliser(axis):
    return [M for M in OH if abs(M[axis, axis]) == 1]


def eye(n):
    return lift(np.eye(n))


_nsym = itertools.count()
_POINT = []


def as_sympy(R):
    """symbolic rotation -> object array of sympy symbols (constants stay exact numbers), so that whatever the code under test does with the
    matrix goes through its own sympy algebra; the symbols are substituted back exactly when a matrix element is stored"""
    if not is_sym(R):
        return R
    out = np.empty(np.shape(R), dtype=object)
    k = next(_nsym)
    for i in np.ndindex(*out.shape):
        v = SymC.of(R[i])
        if v.isconst():
            fr = v.fraction()[0]
            out[i] = sympy.Rational(fr.numerator, fr.denominator)
        else:
            nm = f"rot{k}_" + "".join(map(str, i))
            _SYM[nm] = v
            out[i] = sympy.Symbol(nm, real=True)
    return out


def rotate(shell, R, **kw):
    """the observation point: OrbitalRotator() return value (fresh instance: no cache comparisons)"""
    return O.OrbitalRotator()(shell, rot_cart=as_sympy(R), **kw)


def parity(shell):
    """matrix of the inversion in the orbital set: (-1)^l on a complete shell, M.diag((-1)^l of each basis function).M^T on a hybrid set"""
    n = O.num_orbitals(shell)
    if shell in O.basis_shells_list:
        return eye(n) * (-1) ** "spdf".index(shell)
    orb = O.get_orbitals()
    M = orb.hybrid_matrix_dic[shell]
    D = lift(np.zeros((M.shape[1], M.shape[1])))
    for st, en, sh in zip(orb.hybrid_matrix_shells_start[shell], orb.hybrid_matrix_shells_start[shell][1:], orb.hybrid_matrix_shells_dic[shell]):
        for k in range(st, en):
            D[k, k] = SymC.of((-1) ** "spdf".index(sh))
    return M @ D @ M.T


def defining_relation(rec, shell, R, A):
    """docstring of rot_orb_basis: phi_j(R^-1 r) = sum_i phi_i(r) A_ij, with the package's own orbital polynomials at a symbolic point r"""
    r = sarr(list(_POINT))
    Rinv = LinalgProxy(np.linalg).inv(np.asarray(R, dtype=object)) if is_sym(R) else lift(np.linalg.inv(R))
    rp = as_sympy(Rinv @ r)
    rs = [sympy.Symbol(n, real=True) for n in ("rx", "ry", "rz")]
    phis = O.get_orbitals().orb_function_dic[shell]
    lhs = sarr([from_sympy(sympy.sympify(f(*rp))) for f in phis])
    rhs = sarr([from_sympy(sympy.sympify(f(*rs))) for f in phis]) @ A
    rec.eq("phi_j(R^-1 r) = sum_i phi_i(r) A_ij", lhs, rhs, key=f"rot_orb({shell}) does not describe how the orbitals transform")


def obligations(rec, shell, R, concrete, both_orders=True):
    """orthogonality of A(R), parity A(-R) = P.A(R), the defining relation (complete shells) and the composition law with each concrete factor"""
    A = rotate(shell, R)
    n = O.num_orbitals(shell)
    rec.concrete("shape", np.shape(A) == (n, n), f"{np.shape(A)}", key=f"rot_orb({shell}) has the wrong shape")
    rec.eq("A.A^T = 1", A @ A.T, eye(n), key=f"rot_orb({shell}) not orthogonal")
    rec.eq("A^T.A = 1", A.T @ A, eye(n), key=f"rot_orb({shell}) not orthogonal")
    rec.eq("A(-R) = (-1)^l A(R)", rotate(shell, -R), parity(shell) @ A, key=f"rot_orb({shell}) parity under inversion")
    if shell in O.basis_shells_list:
        defining_relation(rec, shell, R, A)
    for i, R0 in enumerate(concrete):
        A0 = rotate(shell, R0)
        rec.eq(f"A(R)A(R0) = A(R.R0)  [R0 #{i}]", A @ A0, rotate(shell, R @ lift(R0)), key=f"rot_orb({shell}) composition law")
        if both_orders:
            rec.eq(f"A(R0)A(R) = A(R0.R)  [R0 #{i}]", A0 @ A, rotate(shell, lift(R0) @ R), key=f"rot_orb({shell}) composition law")
    return A


def identity_obligation(rec, shell):
    n = O.num_orbitals(shell)
    rec.eq("A(identity) = 1", rotate(shell, np.eye(3)), eye(n), key=f"rot_orb({shell}) identity rotation")


# ------------------------------------------------------------------------------------------------------------
def case_full(rec, shell, sigma, concrete):
    """complete shells over all of O(3): R = sigma*M(q)"""
    install()
    M, q = quaternion()
    R = M * sigma
    R0s = [OH[i] for i in concrete]

    def body(rec):
        rec.witness = lambda env: dict(test="full", shell=shell, sigma=sigma, q=[env.val(x) for x in q], R0=[r.tolist() for r in R0s],
                                       r=[env.val(x) for x in _POINT])
        identity_obligation(rec, shell)
        obligations(rec, shell, R, R0s)
    rec.explore(body)


def case_two(rec, shell, s1, s2):
    """two symbolic factors"""
    install()
    M1, q1 = quaternion("q")
    M2, q2 = quaternion("r")
    R1, R2 = M1 * s1, M2 * s2

    def body(rec):
        rec.witness = lambda env: dict(test="two", shell=shell, s1=s1, s2=s2, q1=[env.val(x) for x in q1], q2=[env.val(x) for x in q2])
        rec.eq("A(R1)A(R2) = A(R1.R2)", rotate(shell, R1) @ rotate(shell, R2), rotate(shell, R1 @ R2), key=f"rot_orb({shell}) composition law")
    rec.explore(body)


def case_axis(rec, shell):
    """hybrids with a proper-subspace span over the stabiliser of the span {R : R e_axis = +-e_axis}: every element is Rot(theta).D with
    D = diag(sigma on the axis, tau on the next axis); both factors of the composition law are symbolic"""
    install()
    axis = AXIS[shell]
    R1, cs1 = axis_rotation(axis, "th")
    R2, cs2 = axis_rotation(axis, "ph")
    Ds = []
    for sigma in (1, -1):
        for tau in (1, -1):
            D = np.eye(3)
            D[axis, axis] = sigma
            D[(axis + 1) % 3, (axis + 1) % 3] = tau
            Ds.append(D)

    def body(rec):
        identity_obligation(rec, shell)
        for i, D1 in enumerate(Ds):
            Ra = R1 @ lift(D1)
            rec.witness = lambda env: dict(test="axis", shell=shell, axis=axis, D1=D1.tolist(), D2=[d.tolist() for d in Ds],
                                           cs1=[env.val(x) for x in cs1], cs2=[env.val(x) for x in cs2])
            A1 = obligations(rec, shell, Ra, [])
            for j, D2 in enumerate(Ds):
                Rb = R2 @ lift(D2)
                rec.eq(f"A(R1)A(R2) = A(R1.R2) [D{i},D{j}]", A1 @ rotate(shell, Rb), rotate(shell, Ra @ Rb), key=f"rot_orb({shell}) composition law")
    rec.explore(body)


def case_oh(rec, shell):
    """hybrids invariant under O_h only: the group is finite, every element is run; entries are exact algebraic numbers"""
    install()

    def body(rec):
        rec.witness = lambda env: dict(test="oh", shell=shell)
        identity_obligation(rec, shell)
        n = O.num_orbitals(shell)
        As = [rotate(shell, R0) for R0 in OH]
        find = lambda M: next(k for k, X in enumerate(OH) if np.array_equal(X, M))
        for i, A in enumerate(As):
            rec.eq(f"A.A^T = 1 [O_h #{i}]", A @ A.T, eye(n), key=f"rot_orb({shell}) not orthogonal")
            rec.eq(f"A(-R) = P.A(R) [O_h #{i}]", As[find(-OH[i])], parity(shell) @ A, key=f"rot_orb({shell}) parity under inversion")
            for g in GENERATORS:
                rec.eq(f"A(R)A(g) = A(R.g) [O_h #{i}]", A @ As[find(g)], As[find(OH[i] @ g)], key=f"rot_orb({shell}) composition law")
    rec.explore(body)


def case_rotator(rec, sigma):
    """OrbitalRotator: cache (irot), ';'-joined shells, local bases"""
    install()
    M, q = quaternion()
    R = M * sigma
    B1, B2, R0 = OH[13], OH[30], OH[21]

    def body(rec):
        rec.witness = lambda env: dict(test="rotator", sigma=sigma, q=[env.val(x) for x in q], B1=B1.tolist(), B2=B2.tolist(), R0=R0.tolist())
        rot = O.OrbitalRotator()
        Ap = rot("p", rot_cart=as_sympy(R))
        Asp = rot("s;p", irot=0)
        Ad = rot("d", irot=0)
        Ap2 = rot("p", irot=0)
        want = lift(np.zeros((4, 4)))
        want[0, 0] = SymC.of(1)
        want[1:, 1:] = Ap
        rec.eq("'s;p' by index = blockdiag(A_s, A_p) of the stored rotation", Asp, want, key="OrbitalRotator ';'-joined shells / irot")
        rec.eq("cached 'p' = first 'p'", Ap2, Ap, key="OrbitalRotator cache returns another matrix")
        rec.eq("'d' by index = rot_orb(d, stored rotation)", Ad, rotate("d", R), key="OrbitalRotator cache returns another matrix")
        rec.eq("'s;p' orthogonal", Asp @ Asp.T, eye(4), key="rot_orb(s;p) not orthogonal")
        # a second, well separated concrete rotation in the same rotator, then the first again
        rot2 = O.OrbitalRotator()
        a0 = rot2("d", rot_cart=R0)
        a1 = rot2("d", rot_cart=OH[5])
        a2 = rot2("d", rot_cart=R0)
        a3 = rot2("p", rot_cart=OH[5])
        rec.eq("cache: third call = first call", a2, a0, key="OrbitalRotator cache returns another matrix")
        rec.eq("cache: entries are per rotation", a1, rotate("d", OH[5]), key="OrbitalRotator cache returns another matrix")
        rec.eq("cache: entries are per shell", a3, rotate("p", OH[5]), key="OrbitalRotator cache returns another matrix")
        # local bases: the matrix of basis2.R.basis1^T, orthogonal and consistent with the representation
        for sh in ("p", "d"):
            AL = rotate(sh, R, basis1=B1, basis2=B2)
            n = O.num_orbitals(sh)
            rec.eq(f"local bases ({sh}): orthogonal", AL @ AL.T, eye(n), key=f"OrbitalRotator local bases ({sh})")
            rec.eq(f"local bases ({sh}): A(B2) A(R) A(B1)^T", AL, rotate(sh, B2) @ rotate(sh, R) @ rotate(sh, B1).T, key=f"OrbitalRotator local bases ({sh})")
    rec.explore(body)


def cases(tier, seed):
    q = tier == "quick"
    out = []
    gens = [next(i for i, M in enumerate(OH) if np.array_equal(M, g)) for g in GENERATORS]
    all48 = gens + [i for i in range(48) if i not in gens]
    for sigma in (1, -1):
        if q and sigma == 1:     # f in the quick tier: orthogonality, parity A(-R) = -A(R) and the defining relation for one symbolic proper rotation
            out.append(Case("full f sigma=+1 (no concrete factors)", case_full, dict(shell="f", sigma=1, concrete=[]), timeout=1100))
        for shell in ("s", "p", "sp3", "d") + (() if q else ("f",)):
            if shell == "d":       # 0.5 s of sympy per call: the concrete factors are split over several processes; quick = generators of O_h + 5 more
                chunks = [all48[:4], all48[4:8]] if q else [all48[i::6] for i in range(6)]
            elif shell == "f":     # 3 s of sympy per call: generators of O_h + 5 more (the two-symbolic-factor cases below cover every pair)
                chunks = [all48[:2], all48[2:4], all48[4:6], all48[6:8]]
            else:
                chunks = [all48]
            for k, ch in enumerate(chunks):
                out.append(Case(f"full {shell} sigma={sigma:+d} R0-chunk {k}", case_full, dict(shell=shell, sigma=sigma, concrete=ch), timeout=1100))
        out.append(Case(f"rotator sigma={sigma:+d}", case_rotator, dict(sigma=sigma), timeout=600))
    for s1 in (1, -1):
        for s2 in (1, -1):
            for shell in ("s", "p", "sp3", "d") + (() if q else ("f",)):
                if shell == "d" and q and s1 == -1:      # quick: proper x proper and proper x improper; thorough: all four sign combinations
                    continue
                out.append(Case(f"two symbolic factors {shell} {s1:+d} {s2:+d}", case_two, dict(shell=shell, s1=s1, s2=s2), timeout=1100))
    for shell in AXIS:
        out.append(Case(f"axis {shell}", case_axis, dict(shell=shell)))
    for shell in OHONLY:
        out.append(Case(f"O_h {shell}", case_oh, dict(shell=shell)))
    return out


# ------------------------------------------------------------------------------------------------------------
def _Mq(q):
    a, b, c, d = q
    n = a * a + b * b + c * c + d * d
    if n == 0:      # the model left q unconstrained (violation independent of q): any rotation will do
        a, b, c, d, n = 1.0, 2.0, 3.0, 4.0, 30.0
        q[:] = [a, b, c, d]
    return np.array([[a * a + b * b - c * c - d * d, 2 * (b * c - a * d), 2 * (b * d + a * c)],
                     [2 * (b * c + a * d), a * a - b * b + c * c - d * d, 2 * (c * d - a * b)],
                     [2 * (b * d - a * c), 2 * (c * d + a * b), a * a - b * b - c * c + d * d]]) / n


def _axis(axis, cs):
    c, s = cs
    r = np.hypot(c, s)
    c, s = (0.6, 0.8) if r == 0 else (c / r, s / r)
    i, j = [k for k in range(3) if k != axis]
    R = np.eye(3)
    R[i, i], R[i, j], R[j, i], R[j, j] = c, -s, s, c
    return R


def _parity(sh):
    from wannierberri.symmetry.orbitals import get_orbitals, num_orbitals
    if sh in "spdf":
        return np.eye(num_orbitals(sh)) * (-1) ** "spdf".index(sh)
    orb = get_orbitals()
    M, st = orb.hybrid_matrix_dic[sh], orb.hybrid_matrix_shells_start[sh]
    D = np.concatenate([np.full(e - b, (-1.0) ** "spdf".index(x)) for b, e, x in zip(st, st[1:], orb.hybrid_matrix_shells_dic[sh])])
    return M @ np.diag(D) @ M.T


def replay(rec):
    """real OrbitalRotator on concrete doubles"""
    from wannierberri.symmetry.orbitals import OrbitalRotator, num_orbitals, get_orbitals
    w = rec["witness"]
    rot = lambda sh, R: OrbitalRotator()(sh, rot_cart=np.array(R, dtype=float))
    errs = {}

    def chk(name, a, b):
        a, b = np.asarray(a, dtype=float), np.asarray(b, dtype=float)
        errs[name] = np.inf if a.shape != b.shape else max(errs.get(name, 0.0), float(np.abs(a - b).max()))

    def basic(sh, R, R0s):
        n = num_orbitals(sh)
        A = rot(sh, R)
        chk("A(1)=1", rot(sh, np.eye(3)), np.eye(n))
        chk("A.A^T=1", A @ A.T, np.eye(n))
        chk("A(-R)=(-1)^l A(R)", rot(sh, -np.asarray(R)), _parity(sh) @ A)
        if sh in "spdf":
            phis = get_orbitals().orb_function_dic[sh]
            pts = [np.array(w["r"], dtype=float)] if any(w.get("r") or []) else []
            pts += list(np.random.default_rng(3).normal(size=(4, 3)))
            val = lambda r: np.array([float(f(*r)) for f in phis])
            for r in pts:
                chk("phi_j(R^-1 r)=sum_i phi_i(r) A_ij", val(np.linalg.inv(R) @ r), val(r) @ A)
        for R0 in R0s:
            R0 = np.array(R0)
            chk("A(R)A(R0)=A(R.R0)", A @ rot(sh, R0), rot(sh, R @ R0))
            chk("A(R0)A(R)=A(R0.R)", rot(sh, R0) @ A, rot(sh, R0 @ R))
    t = w["test"]
    if t == "full":
        basic(w["shell"], w["sigma"] * _Mq(w["q"]), w["R0"])
    elif t == "two":
        R1, R2 = w["s1"] * _Mq(w["q1"]), w["s2"] * _Mq(w["q2"])
        chk("A(R1)A(R2)=A(R1.R2)", rot(w["shell"], R1) @ rot(w["shell"], R2), rot(w["shell"], R1 @ R2))
    elif t == "axis":
        R1 = _axis(w["axis"], w["cs1"]) @ np.array(w["D1"])
        basic(w["shell"], R1, [])
        for D2 in w["D2"]:
            R2 = _axis(w["axis"], w["cs2"]) @ np.array(D2)
            chk("A(R1)A(R2)=A(R1.R2)", rot(w["shell"], R1) @ rot(w["shell"], R2), rot(w["shell"], R1 @ R2))
    elif t == "oh":
        for R in OH:
            basic(w["shell"], R, GENERATORS)
    elif t == "rotator":
        R = w["sigma"] * _Mq(w["q"])
        B1, B2, R0 = np.array(w["B1"]), np.array(w["B2"]), np.array(w["R0"])
        r = OrbitalRotator()
        Ap = r("p", rot_cart=R)
        Asp, Ad, Ap2 = r("s;p", irot=0), r("d", irot=0), r("p", irot=0)
        want = np.zeros((4, 4))
        want[0, 0] = 1
        want[1:, 1:] = Ap
        chk("s;p", Asp, want)
        chk("cached p", Ap2, Ap)
        chk("d by index", Ad, rot("d", R))
        r2 = OrbitalRotator()
        a0, a1, a2, a3 = r2("d", rot_cart=R0), r2("d", rot_cart=OH[5]), r2("d", rot_cart=R0), r2("p", rot_cart=OH[5])
        chk("cache third=first", a2, a0)
        chk("cache per rotation", a1, rot("d", OH[5]))
        chk("cache per shell", a3, rot("p", OH[5]))
        for sh in ("p", "d"):
            AL = OrbitalRotator()(sh, rot_cart=R, basis1=B1, basis2=B2)
            chk(f"local bases {sh} orthogonal", AL @ AL.T, np.eye(len(AL)))
            chk(f"local bases {sh} representation", AL, rot(sh, B2) @ rot(sh, R) @ rot(sh, B1).T)
    else:
        raise ValueError(t)
    bad = {k: v for k, v in errs.items() if v > 1e-9}
    return bool(bad), f"{t} {w.get('shell', '')}: " + (", ".join(f"|{k}| err {v:.2e}" for k, v in bad.items()) or f"all {len(errs)} identities hold to 1e-9") + \
        (f" at q={w['q']} sigma={w['sigma']}" if "q" in w else "")
