"""C08 — declared time-reversal / inversion parities of the k-resolved formulas equal the computed behaviour"""
import ast, inspect, os, types
import numpy as np
from symx.core import *
from symx.core import z3
from symx.npproxy import NpProxy, shadow
from symx.harness import Case, unarr
import symx.harness  # noqa (puts the repo on sys.path)
import wannierberri.data_K.data_K as DK, wannierberri.utility as U, wannierberri.grid.tetrahedron as T
import wannierberri.formula.covariant as COV, wannierberri.formula.formula as FRM, wannierberri.formula.elementary as ELE, wannierberri.formula.basic as BAS
import wannierberri.formula.sdct as SDF, wannierberri.calculators.dynamic as DYN, wannierberri.symmetry.point_symmetry as PS
import wannierberri.data_K.data_K_R as DKR
from wannierberri.data_K.data_K_R import Data_K_R

PROPERTY = "C08"
FUNCTIONS = ["wannierberri.formula.covariant.* (every class with a declared transformTR/transformInv)", "wannierberri.formula.basic.*", "wannierberri.formula.elementary.*",
             "wannierberri.formula.sdct.Formula_SDCT_*", "wannierberri.calculators.dynamic.Formula_OptCond/Formula_SHC/ShiftCurrentFormula/InjectionCurrentFormula",
             "wannierberri.formula.formula.Formula_ln.trace/Matrix_ln/Matrix_GenDer_ln/FormulaProduct/FormulaSum/DeltaProduct",
             "wannierberri.data_K.data_K.Data_K.covariant/D_H/dEig_inv/Dcov/get_A_H/get_E1/get_O1/get_M1/get_E2/get_Bln/delE_K, get_transform_TR/get_transform_Inv",
             "wannierberri.data_K.data_K_R.Data_K_R.Xbar (OO/GG from FF), rotAAab, CCab_antisym_R", "wannierberri.symmetry.point_symmetry.Transform.__call__/TransformProduct",
             "wannierberri.fourier.rvectors.Rvectors.R_to_k/derivative + FFT_R_to_k k-list path (Wannier-gauge axioms)"]
MODS = [DK, DKR, U, T, COV, FRM, ELE, BAS, SDF, DYN, PS]
QUERY_TIMEOUT_MS = dict(quick=20000, thorough=120000)

# ---- the parity axioms: the repository's own R-space tables (symmetry/sym_wann_2.py) ------------------------------------------------------------------


def _tables():
    import wannierberri.symmetry.sym_wann_2 as SW
    out = {}
    for node in ast.walk(ast.parse(inspect.getsource(SW))):
        if isinstance(node, ast.Assign) and len(node.targets) == 1 and isinstance(node.targets[0], ast.Attribute) and node.targets[0].attr in ("parity_TR", "parity_I"):
            out[node.targets[0].attr] = ast.literal_eval(node.value)
    return out["parity_TR"], out["parity_I"]


TR_R, INV_R = _tables()
# quantities built by Data_K_R from the tabulated ones (linear maps; parity follows from the construction, checked in the 'derived' cases)
TR_R = dict(TR_R, rotAA=-1, CCab=+1, rotAAab=+1, CCab_antisym=+1)
INV_R = dict(INV_R, rotAA=+1, CCab=+1, rotAAab=+1, CCab_antisym=+1)
# name -> (number of cartesian indices, hermitian in the band indices)
SPEC = dict(Ham=(0, True), AA=(1, True), BB=(1, False), CC=(1, True), SS=(1, True), rotAA=(1, True), OO=(1, True), FF=(2, False), GG=(2, True), CCab=(2, False),
            SH=(1, False), SA=(2, False), SHA=(2, False), SR=(2, False), SHR=(2, False), rotAAab=(2, False), CCab_antisym=(2, False))

BOUNDS = dict(quick=dict(nb="2", partitions="inn = lower band / all bands, out = the rest; pair formulas (trace_ln): (0|1), (0|0), (01|01)", classes="every class of formula/covariant.py, basic.py, "
                         "elementary.py, sdct.py and the Formula classes of calculators/dynamic.py with a declaration, default switches and external_terms=False (the heavy second-derivative "
                         "classes and the remaining switch variants are thorough-only, see outside_claim)",
                         spectrum="symbolic sorted; every pattern of gaps around the 1e-7 cut of dEig_inv (and the 1e-3 cut of the SDCT formulas) is a path",
                         matrices="every elementary H-gauge matrix and comma-derivative (der<=3 for Ham, <=2 otherwise) fully symbolic"),
              thorough=dict(nb="2: every class and switch variant incl. the heavy second-derivative ones (inn = lower / upper / all bands; pair formulas: six group pairs). "
                            "3: every class that finishes (all but the NB3_EXCLUDED list), default and external_terms=False switches, plus every remaining switch variant for 15 inexpensive classes; "
                            "six band groups (0|12, 12|0, 1|02, 012|-, 01|2, 2|01; pair formulas six pairs) for the inexpensive ones, two (0|12, 12|0) for the NB3_EXPENSIVE list",
                            calculators="nb=2, symbolic Fermi grid EF0, EF0+dEF (dEF>0) anywhere relative to the bands: every StaticCalculator subclass of calculators/static.py (except the three "
                            "CALC_HEAVY ones), every Tabulator subclass of calculators/tabulate.py, and the dynamic calculators JDOS, OpticalConductivity, SHC (simple/ryoo/qiao), ShiftCurrent, "
                            "InjectionCurrent, SDCT_(a)sym_sea_I/II (kBT=0, two concrete frequencies, Lorentzian width 0.125): the result object carries the declared transform AND "
                            "result(-k).data == transform(result(k).data)",
                            spectrum="as quick", matrices="as quick"))
EXPLANATION = ("Two Data_K_R shells stand for k and -k: equal symbolic spectrum, and every elementary H-gauge matrix of the second one is the parity image "
               "(sign*(-1)^der*conj X for time reversal, sign*(-1)^der*X for inversion, signs from the repository's own R-space tables) of the first one's fully symbolic matrix. "
               "The real formula classes are built on both shells; trace(-k) == declared transform(trace(k)) is decided as an identity of rational functions.  "
               "Thorough tier, calculator level: the real static / tabulating / dynamic calculators run on both shells (every placement of the symbolic Fermi grid and every degeneracy pattern is a path); "
               "the result must carry the formula's (or calculator's) declared transform and its data at -k must be that transform of the data at k.")
ASSUMPTIONS = ["H-gauge axiom: X(-k) = p_TR(X)*(-1)^der*conj X(k) (time reversal, gauge |u(-k)> = T|u(k)>), X(-k) = p_I(X)*(-1)^der*X(k) (inversion, even orbitals at the origin); "
               "p from symmetry/sym_wann_2.py parity_TR/parity_I; the (-1)^der and conj parts are checked at Wannier-gauge level on the real Rvectors.R_to_k (axiom cases)",
               "band energies sorted ascending and equal at k and -k", "comma-derivative indices commute (exact for R_to_k: (iR_a)(iR_b))",
               "AA, SS, OO, rotAA, GG, CC and the Hamiltonian derivatives are Hermitian in the band indices; BB, FF, CCab, SH, SA, SHA, SR, SHR arbitrary complex"]
OUTSIDE = []      # filled below (classes that do not finish within the budget, classes without a declaration)
STUBS = ["np via module-level NpProxy", "Data_K.delE_K is pre-seeded with Re diag Xbar('Ham',1) in the formula cases (its sanity check |Im|<1e-10 forks 2^(3 nb) sign patterns); the real delE_K runs in its own case",
         "rvec.R_to_k of the shell returns the stored k-space matrix (only for SpinVelocity 'qiao', which asks for SHR through _R_to_k_H); UU_K = 1"]


# ---- shells ---------------------------------------------------------------------------------------------------------------------------------------------
def sym_cart(A, nd):
    """make the last nd (derivative) indices symmetric"""
    if nd < 2:
        return A
    B = A.copy()
    for idx in np.ndindex(*A.shape):
        B[idx] = A[idx[:-nd] + tuple(sorted(idx[-nd:]))]
    return B


def parity_image(A, name, der, mode):
    sign = (TR_R if mode == "TR" else INV_R)[name] * (-1) ** der
    return (np.conjugate(A) if mode == "TR" else A) * sign


class LazyX(dict):
    """_bar_quantities of a shell: symbolic matrices created on first use (k shell) or parity images of the partner's (-k shell)"""

    def __init__(s, nb, partner=None, mode=None, concrete=None):
        super().__init__()
        s.nb, s.partner, s.mode, s.concrete = nb, partner, mode, concrete

    def __contains__(s, key):
        return key[0] in SPEC

    def __getitem__(s, key):
        if not dict.__contains__(s, key):
            dict.__setitem__(s, key, s.make(*key))
        return dict.__getitem__(s, key)

    def make(s, name, der):
        if s.partner is not None:
            A = parity_image(s.partner[(name, der)], name, der, s.mode)
            return A.view(SymArray) if A.dtype == object else A
        ncart, hermitian = SPEC[name]
        shape = (3,) * (ncart + der)
        if s.concrete is not None:
            k = f"{name},{der}"
            return unarr(s.concrete[k]).astype(complex) if k in s.concrete else np.zeros((1, s.nb, s.nb) + shape, dtype=complex)
        if name == "rotAAab":
            return from_real_code("rotAAab", s[("rotAA", der)], der)
        if name == "CCab_antisym":
            return from_real_code("CCab_antisym", s[("CC", der)], der)
        A = herm(f"{name}{der}", s.nb, shape) if hermitian else symvec(f"{name}{der}", (s.nb, s.nb) + shape, real=False)
        if name == "GG":
            A = (A + np.swapaxes(A, 2, 3)) * Fr(1, 2)
        A = sym_cart(A, der)
        return A.reshape((1,) + A.shape).view(SymArray)


def from_real_code(which, M, der):
    """rotAAab / CCab_antisym exactly as Data_K_R builds them (the real methods, applied per derivative component)"""
    M = np.asarray(M)
    out = np.empty(M.shape[:4] + (3,) + M.shape[4:], dtype=M.dtype)
    for d in (np.ndindex(*(3,) * der) if der else [()]):
        sl = M[(Ellipsis,) + d] if der else M
        if which == "rotAAab":
            r = Data_K_R.rotAAab(types.SimpleNamespace(rotAA=lambda: sl))
        else:
            r = Data_K_R.CCab_antisym_R(types.SimpleNamespace(rvec=types.SimpleNamespace(nRvec=sl.shape[0]), num_wann=sl.shape[1], get_R_mat=lambda k: sl))
        out[(Ellipsis,) + d] = r
    return out.view(SymArray) if out.dtype == object else out


class _Sys:
    def has_R_mat(s, k):
        return k in SPEC and k not in ("OO", "GG")


class _Rvec:
    def __init__(s, dk):
        s.dk = dk

    def R_to_k(s, X, hermitian=False, der=0):
        return X


def shell(nb, E, X, seed_delE=True):
    dk = object.__new__(Data_K_R)
    dk.__dict__.update(dict(_bar_quantities=X, _covariant_quantities={}, force_internal_terms_only=False, num_wann=nb, select_K=np.ones(1, dtype=bool),
                            system=_Sys(), real_lattice=np.eye(3) * 2.0, _XX_R={}))
    dk.__dict__['E_K'] = E.copy()
    dk.__dict__['nk'] = 1
    dk.__dict__['cell_volume'] = 8.0
    dk.random_gauge, dk._UU = False, np.eye(nb)[None]      # the real UU_K body runs and returns _UU
    dk.rvec = _Rvec(dk)
    if seed_delE:
        V = X[('Ham', 1)]
        dk.__dict__['delE_K'] = np.real(np.einsum("klla->kla", V)).view(SymArray) if V.dtype == object else np.real(np.einsum("klla->kla", V))
    return dk


class _XXR(dict):
    """_XX_R of the shell for the one consumer (SpinVelocity qiao -> get_R_mat('SHR')): the k-space matrix itself (rvec.R_to_k is the identity stub)"""

    def __init__(s, X):
        super().__init__()
        s.X = X

    def __contains__(s, k):
        return k == 'SHR'

    def keys(s):
        return ['SHR']

    def __getitem__(s, k):
        return s.X[(k, 0)]


def two_shells(nb, E, mode, concrete=None):
    X1 = LazyX(nb, concrete=concrete)
    X2 = LazyX(nb, partner=X1, mode=mode)
    d1, d2 = shell(nb, E, X1), shell(nb, E, X2)
    d1._XX_R, d2._XX_R = _XXR(X1), _XXR(X2)
    return d1, d2, X1


def sorted_ass(E):
    return [E[0, i].zreal() <= E[0, i + 1].zreal() for i in range(E.shape[1] - 1)]


def apply_transform(tr, a):
    """the declared Transform acts in place on result arrays that carry leading (k / energy) axes"""
    a = np.array(a, dtype=object if np.asarray(a).dtype == object else complex)[None].copy()
    if a.dtype == object:
        a = a.view(SymArray)
    return tr(a)[0]


# ---- formula registry -------------------------------------------------------------------------------------------------------------------------------------
def _accepts_kwargs(cls):
    try:
        return any(p.kind == p.VAR_KEYWORD for p in inspect.signature(cls.__init__).parameters.values())
    except (TypeError, ValueError):
        return False


# building blocks that no calculator evaluates through trace(): only their .nn()/.ln() blocks are consumed by other formulas, which declare
# their own transforms.  The property speaks of "every k-resolved formula used by the calculators", so their (dead) declarations are outside it.
# Observation (not a violation): basic.tildeHab declares transformTR odd although the real trace of its block is TR-even; basic.tildeHab_d declares
# ndim=2 / TR ident although it is a rank-3, TR-odd quantity; data_K.get_transform_TR('FF'|'GG') says odd although Re tr is even (sym_wann_2 says +1).
NOT_USED_BY_CALCULATORS = {"basic.tildeHab", "basic.tildeHab_d"}
ELEMENTARY_NOT_USED = {"FF", "GG"}


def registry():
    """label -> (builder(data_K) -> formula, kind, declared_by) ; kind 'trace' (Formula_ln) or 'trace_ln' (pair formulas of the dynamic calculators)"""
    reg = {}
    skip_nodecl = []
    for modname, mod in (("covariant", COV), ("basic", BAS), ("elementary", ELE)):
        for n, c in inspect.getmembers(mod, inspect.isclass):
            if c.__module__ != mod.__name__ or not issubclass(c, FRM.Formula):
                continue
            if n in ("SpinVelocity", "SpinOmega", "FormulaAntiSymmetric", "FormulaSymmetric"):
                continue
            if f"{modname}.{n}" in NOT_USED_BY_CALCULATORS:
                continue
            variants = [("", {})]
            if _accepts_kwargs(c) and n not in ("Identity",):
                variants += [("external_terms=False", dict(external_terms=False)), ("internal_terms=False", dict(internal_terms=False))]
            if n in ("Omega", "Morb_Hpm", "morb"):
                variants.append(("OO_uIu=True", dict(OO_uIu=True)))
            if n in ("tildeFc", "QuantumMetric_ab"):
                variants.append(("FF_rotAA=True", dict(FF_rotAA=True)))
            if n in ("tildeHab", "tildeHGc"):
                variants.append(("CCab_antisym=True", dict(CCab_antisym=True)))
            if n in ("Morb_Hpm", "DerMorb", "Der2Morb"):
                variants += [("sign=-1", dict(sign=-1)), ("sign=0", dict(sign=0))]
            if n == "Velocity":
                variants = [("", {}), ("external_terms=True", dict(external_terms=True))]
            for vl, kw in variants:
                reg[f"{modname}.{n}" + (f" {vl}" if vl else "")] = (lambda dk, c=c, kw=kw: c(dk, **kw), "trace", None)
    for typ in ("simple", "ryoo", "qiao"):
        for ext in (True, False):
            if typ != "simple" and not ext:
                continue   # documented NotImplementedError
            reg[f"covariant.SpinVelocity {typ} external_terms={ext}"] = (lambda dk, typ=typ, ext=ext: COV.SpinVelocity(dk, typ, external_terms=ext), "trace", None)
            reg[f"covariant.SpinOmega {typ} external_terms={ext}"] = (lambda dk, typ=typ, ext=ext: COV.SpinOmega(dk, typ, external_terms=ext), "trace", None)
    for n in ("Formula_SDCT_sea_I", "Formula_SDCT_sea_II", "Formula_SDCT_surf_I", "Formula_SDCT_surf_II"):
        c = getattr(SDF, n)
        for sym in (True, False):
            for vl, kw in (("", {}), ("external_terms=False", dict(external_terms=False)), ("S_terms=True", dict(S_terms=True))):
                if vl == "S_terms=True" and "S" not in c.has_terms:
                    continue
                reg[f"sdct.{n} sym={sym}" + (f" {vl}" if vl else "")] = (lambda dk, c=c, sym=sym, kw=kw: c(dk, sym=sym, **kw), "trace_ln", None)
    for ext in (True, False):
        e = f"external_terms={ext}"
        reg[f"dynamic.Formula_dyn_ident"] = (lambda dk: DYN.Formula_dyn_ident(dk), "trace_ln", None)
        reg[f"dynamic.Formula_OptCond {e}"] = (lambda dk, ext=ext: DYN.Formula_OptCond(dk, external_terms=ext), "trace_ln", None)
        reg[f"dynamic.ShiftCurrentFormula {e}"] = (lambda dk, ext=ext: DYN.ShiftCurrentFormula(dk, sc_eta=SymC.var("sc_eta") if is_sym(dk.E_K) else 0.04, external_terms=ext), "trace_ln", None)
        reg[f"dynamic.InjectionCurrentFormula {e}"] = (lambda dk, ext=ext: DYN.InjectionCurrentFormula(dk, external_terms=ext), "trace_ln", "InjectionCurrent")
        for typ in ("simple", "ryoo", "qiao"):
            if typ != "simple" and not ext:
                continue
            reg[f"dynamic.Formula_SHC {typ} {e}"] = (lambda dk, ext=ext, typ=typ: DYN.Formula_SHC(dk, SHC_type=typ, external_terms=ext), "trace_ln", None)
    return reg


def declared(f, declared_by, mode):
    attr = "transformTR" if mode == "TR" else "transformInv"
    if declared_by == "InjectionCurrent":      # this formula has no declaration of its own: the calculator's is what the result carries
        return getattr(DYN.InjectionCurrent(Efermi=np.array([0.0]), omega=np.array([0.0, 1.0])), attr)
    return getattr(f, attr, None)


def partitions(nb, tier, kind):
    if nb == 2:
        p = [([0], [1]), ([0, 1], [])] + ([([1], [0])] if tier == "thorough" else [])
    else:
        p = [([0], [1, 2]), ([1, 2], [0])] + ([([1], [0, 2]), ([0, 1, 2], [])] if tier in ("thorough", "deep") else []) + ([([0, 1], [2]), ([2], [0, 1])] if tier == "deep" else [])
    if kind == "trace_ln":      # pairs of groups (m-group, n-group)
        p = [([0], [1]), ([0], [0]), ([0, 1], [0, 1])] if nb == 2 else [([0], [1, 2]), ([1, 2], [1, 2]), ([2], [0])] + ([([1], [1]), ([0, 1], [2]), ([0, 1, 2], [0, 1, 2])] if tier == "deep" else [])
    if kind == "trace_ln" and nb == 2 and tier == "thorough":
        p = p + [([1], [0]), ([1], [1]), ([0, 1], [0])]
    return p


def evaluate(f, kind, inn, out):
    inn, out = np.array(inn, dtype=int), np.array(out, dtype=int)
    return f.trace(0, inn, out) if kind == "trace" else f.trace_ln(0, inn, out)


def base_of(label):
    t = label.split()
    return " ".join(t[:2]) if t[0].startswith("sdct.") else t[0]


def case_formula(rec, labels, mode, nb, tier, gapped=False):
    """one exploration per label (several light labels share a worker process)"""
    shadow(MODS)
    reg = registry()
    E = symvec("E", (1, nb))
    ass = sorted_ass(E)
    if gapped:
        ass = [(E[0, i + 1] - E[0, i]).zreal() > 1 for i in range(nb - 1)]
    for label in labels:
        build, kind, declared_by = reg[label]

        def body(rec, label=label, build=build, kind=kind, declared_by=declared_by):
            d1, d2, X1 = two_shells(nb, E, mode)
            rec.witness = lambda env: dict(test="formula", label=label, mode=mode, nb=nb, E=env.val(E[0]).tolist(), sc_eta=env.val(SymC.var("sc_eta")),
                                           X={f"{k[0]},{k[1]}": env.arr(v) for k, v in dict.items(X1)})
            f1, f2 = build(d1), build(d2)
            tr = declared(f1, declared_by, mode)
            if tr is None:
                rec.note(f"{label}: no declared {mode} transform (internal building block) - nothing to check")
                rec.concrete(f"{label}: no declaration", True)
                return
            for inn, out in partitions(nb, tier, kind):
                a, b = evaluate(f1, kind, inn, out), evaluate(f2, kind, inn, out)
                rec.eq(f"{label}: value(-k) == declared transform{mode}(value(k)) for inn={inn} out={out}", b, apply_transform(tr, a),
                       key=f"{base_of(label)}: declared transform{mode} differs from the computed {mode} parity")
        rec.explore(body, ass)


# ---- elementary declarations (data_K.get_transform_TR / get_transform_Inv) ---------------------------------------------------------------------------------
ELEMENTARY = [n for n in ["Ham", "CC", "FF", "OO", "GG", "SS", "rotAA", "rotAAab", "CCab_antisym"] if n not in ELEMENTARY_NOT_USED]


def case_elementary(rec, names, mode, nb):
    shadow(MODS)
    E = symvec("E", (1, nb))
    for name in names:
        for gender in ((0,) if name == "Ham" else (0, 1)):
            def body(rec, name=name, gender=gender):
                d1, d2, X1 = two_shells(nb, E, mode)
                rec.witness = lambda env: dict(test="elementary", name=name, mode=mode, nb=nb, gender=gender, E=env.val(E[0]).tolist(),
                                               X={f"{k[0]},{k[1]}": env.arr(v) for k, v in dict.items(X1)})
                ders = [1, 2, 3] if name == "Ham" else [0, 1, 2]
                for der in ([1] if gender else ders):
                    kw = dict(gender=1) if gender else dict(commader=der)
                    f1, f2 = d1.covariant(name, **kw), d2.covariant(name, **kw)
                    tr = getattr(f1, "transformTR" if mode == "TR" else "transformInv", None)
                    want = (DK.get_transform_TR if mode == "TR" else DK.get_transform_Inv)(name, der)
                    rec.concrete(f"covariant({name},{kw}) carries get_transform_{mode}({name},{der})", tr is want or tr == want,
                                 key=f"covariant({name}) carries another transform than get_transform_{mode}")
                    for inn, out in partitions(nb, "quick", "trace"):
                        a, b = evaluate(f1, "trace", inn, out), evaluate(f2, "trace", inn, out)
                        rec.eq(f"Re tr {name} {kw}: value(-k) == declared(value(k)) inn={inn}", b, apply_transform(tr, a),
                               key=f"get_transform_{mode}('{name}', der) differs from the computed {mode} parity of the real trace")
            rec.explore(body, sorted_ass(E))


def case_derived(rec, mode, nb):
    """OO and GG as Data_K_R.Xbar derives them from FF: their parity must be the tabulated one (ties the FF axiom to the OO/GG ones)"""
    shadow(MODS)
    E = symvec("E", (1, nb))

    class NoOO:
        def has_R_mat(s, k):
            return k not in ("OO", "GG")

    def body(rec):
        d1, d2, X1 = two_shells(nb, E, mode)
        d1.system = d2.system = NoOO()
        X1.__class__ = X1F
        d2._bar_quantities.__class__ = X1F
        rec.witness = lambda env: dict(test="derived", mode=mode, nb=nb, E=env.val(E[0]).tolist(), X={f"{k[0]},{k[1]}": env.arr(v) for k, v in dict.items(X1)})
        for name in ("OO", "GG"):
            for der in (0, 1):
                a, b = d1.Xbar(name, der), d2.Xbar(name, der)
                rec.eq(f"Xbar({name},{der}) from FF: X(-k) == p*(-1)^der*{'conj ' if mode == 'TR' else ''}X(k)", b, parity_image(a, name, der, mode),
                       key=f"{name} derived from FF has another {mode} parity than tabulated for {name}")
    rec.explore(body, sorted_ass(E))


class X1F(LazyX):
    def __contains__(s, key):
        return key[0] in SPEC and key[0] not in ("OO", "GG")


def case_delE(rec, mode, nb):
    """the real Data_K.delE_K (not pre-seeded): real diagonal of the velocity, odd under both operations"""
    shadow(MODS)
    E = symvec("E", (1, nb))

    def body(rec):
        X1 = LazyX(nb)
        X2 = LazyX(nb, partner=X1, mode=mode)
        d1, d2 = shell(nb, E, X1, seed_delE=False), shell(nb, E, X2, seed_delE=False)
        rec.witness = lambda env: dict(test="delE", mode=mode, nb=nb, E=env.val(E[0]).tolist(), X={f"{k[0]},{k[1]}": env.arr(v) for k, v in dict.items(X1)})
        a, b = d1.delE_K, d2.delE_K
        rec.eq("delE_K(-k) == -delE_K(k)", b, -a, key="delE_K is not odd")
        rec.eq("delE_K == Re diag Xbar(Ham,1)", a, np.real(np.einsum("klla->kla", X1[('Ham', 1)])), key="delE_K is not the diagonal of the velocity")
    rec.explore(body, sorted_ass(E))


# ---- Wannier-gauge level: the (-1)^der and conj structure through the real R_to_k ----------------------------------------------------------------------------
def case_axiom(rec, mode, nb, der, ncart):
    import wannierberri.fourier.rvectors as RV, wannierberri.fourier.fft as FFT
    shadow(MODS + [RV, FFT])
    iR = np.array([[0, 0, 0], [1, 0, 0], [-1, 0, 0], [0, 1, 0], [0, -1, 0], [1, 0, -1], [-1, 0, 1]])
    lattice = np.array([[1.0, 0.25, 0], [0, 1.5, 0], [0.5, 0, 2.0]])
    k = symvec("k", (3,))
    shape = (nb, nb) + (3,) * ncart

    def body(rec):
        for sign in (+1, -1):
            XR = np.empty((len(iR),) + shape, dtype=object)
            idx = {tuple(r): i for i, r in enumerate(iR.tolist())}
            for i, r in enumerate(iR.tolist()):
                if mode == "TR":        # X(R) = sign * conj X(R): purely real / purely imaginary
                    XR[i] = symvec(f"x{i}", shape) * (1 if sign == 1 else SymC.of(1j))
                else:                   # X(-R) = sign * X(R)
                    j = idx[tuple(-x for x in r)]
                    XR[i] = symvec(f"x{min(i, j)}", shape, real=False) * (1 if (sign == 1 or i <= j) else -1)
                    if i == j and sign == -1:
                        XR[i] = XR[i] * 0
            XR = XR.view(SymArray)
            rec.witness = lambda env: dict(test="axiom", mode=mode, nb=nb, der=der, ncart=ncart, sign=sign, k=env.val(k).tolist(), XR=env.arr(XR), iR=iR.tolist(), lattice=lattice.tolist())
            res = []
            for kk in (k, -k):
                rv = RV.Rvectors(lattice=lattice, iRvec=iR)
                rv.set_fft_R_to_k(NK=None, num_wann=nb, k_list=sarr(kk).reshape(1, 3).view(SymArray))
                res.append(rv.R_to_k(XR.copy(), der=der, hermitian=False))
            want = (np.conjugate(res[0]) if mode == "TR" else res[0]) * (sign * (-1) ** der)
            rec.eq(f"R_to_k(X,der={der})(-k) == {sign:+d}*(-1)^der*{'conj ' if mode == 'TR' else ''}R_to_k(X)(k)", res[1], want, key=f"R_to_k der={der}: {mode} image of a {mode}-symmetric X(R) is not sign*(-1)^der")
    rec.explore(body, [])


# ---- calculator level: the result objects carry the formula's declaration and their data obey it ---------------------------------------------------------------
import wannierberri.calculators.static as ST, wannierberri.calculators.tabulate as TAB, wannierberri.calculators.sdct as SDC
import wannierberri.result.energyresult as ER, wannierberri.result.kbandresult as KB, wannierberri.result.result as RES
CALC_MODS = MODS + [ST, TAB, SDC, ER, KB, RES]
OMEGA = np.array([0.5, 1.75])
EF_DYN = np.array([0.25])


def sym_ceil(x):
    if isinstance(x, np.ndarray) and x.ndim == 0:
        x = x.item()
    if not isinstance(x, SymC) or x.isconst():
        import math
        return math.ceil(float(x))
    for n in range(-2, 64):
        if x <= n:
            return n
    raise Inconclusive("ceil candidate range exhausted")


def calculators():
    """name -> (kind, factory(Ef, thr)) for every calculator class that can be built without files"""
    out = {}
    for n, c in inspect.getmembers(ST, inspect.isclass):
        if issubclass(c, ST.StaticCalculator) and c is not ST.StaticCalculator and not n.startswith("_") and c.__module__ == ST.__name__:
            out[f"static.{n}"] = ("static", lambda Ef, thr, c=c: c(Efermi=Ef, degen_thresh=thr, save_mode=""))
    for n, c in inspect.getmembers(TAB, inspect.isclass):
        if issubclass(c, TAB.Tabulator) and c is not TAB.Tabulator and c.__module__ == TAB.__name__:
            out[f"tabulate.{n}"] = ("tab", lambda Ef, thr, c=c: c(degen_thresh=thr, save_mode=""))
    dyn = dict(Efermi=EF_DYN, omega=OMEGA, kBT=0, smr_fixed_width=0.125, save_mode="")
    out["dynamic.JDOS"] = ("dyn", lambda Ef, thr: DYN.JDOS(degen_thresh=thr, **dyn))
    out["dynamic.OpticalConductivity"] = ("dyn", lambda Ef, thr: DYN.OpticalConductivity(degen_thresh=thr, **dyn))
    for typ in ("simple", "ryoo", "qiao"):
        out[f"dynamic.SHC {typ}"] = ("dyn", lambda Ef, thr, typ=typ: DYN.SHC(SHC_type=typ, degen_thresh=thr, **dyn))
    out["dynamic.ShiftCurrent"] = ("dyn", lambda Ef, thr: DYN.ShiftCurrent(sc_eta=0.0625, degen_thresh=thr, **dyn))
    out["dynamic.InjectionCurrent"] = ("dyn", lambda Ef, thr: DYN.InjectionCurrent(degen_thresh=thr, **dyn))
    for n in ("SDCT_sym_sea_I", "SDCT_asym_sea_I", "SDCT_sym_sea_II", "SDCT_asym_sea_II"):
        out[f"sdct.{n}"] = ("dyn", lambda Ef, thr, n=n: getattr(SDC, n)(degen_thresh=thr, **dyn))
    return out


CALC_HEAVY = ("static.eMChA_FermiSurf", "static.NLDrude_Zeeman_orb_Omega", "static.NLDrude_Zeeman_orb")     # formulas of 20..60 CPU-s per evaluation times ~100 Fermi-placement paths


def calc_data(res):
    return res.data


def case_calculator(rec, names, mode, nb):
    shadow(CALC_MODS)
    ST.ceil = sym_ceil
    reg = calculators()
    E = symvec("E", (1, nb))
    thr, EF0, dEF = SymC.var("thr"), SymC.var("EF0"), SymC.var("dEF")
    Ef = sarr([EF0, EF0 + dEF])
    attr = "transformTR" if mode == "TR" else "transformInv"
    for name in names:
        kind, make = reg[name]

        def body(rec, name=name, kind=kind, make=make):
            d1, d2, X1 = two_shells(nb, E, mode)
            rec.witness = lambda env: dict(test="calculator", name=name, mode=mode, nb=nb, E=env.val(E[0]).tolist(), thr=env.val(thr), Efermi=[env.val(e) for e in Ef],
                                           X={f"{k[0]},{k[1]}": env.arr(v) for k, v in dict.items(X1)})
            try:
                c1, c2 = make(Ef.copy(), thr), make(Ef.copy(), thr)
            except AttributeError as e:      # tabulate.DerMorb_test refers to a formula class that does not exist: cannot be instantiated, nothing to check
                rec.note(f"{name} cannot be instantiated ({e})")
                rec.concrete(f"{name}: not instantiable", True)
                return
            r1, r2 = c1(d1), c2(d2)
            tr = getattr(r1, attr)
            f = c1.Formula(d1, **c1.kwargs_formula) if kind != "dyn" else c1.Formula(data_K=d1, **c1.kwargs_formula)
            want = getattr(c1, attr, None) if (kind == "dyn" and hasattr(c1, attr)) else getattr(f, attr)
            rec.concrete(f"{name}: result.{attr} is the declared one", tr is not None and tr == want and tr.conj == want.conj, detail=f"{tr} vs {want}",
                         key=f"{name}: result does not carry the declared {attr}")
            a = np.array(calc_data(r1), dtype=object).view(SymArray)
            rec.eq(f"{name}: result(-k) == result.{attr}(result(k))", calc_data(r2), tr(a.copy()), key=f"{name}: result data differ from the declared {attr} image")
        ass = sorted_ass(E) + [thr.zreal() > 0] + ([dEF.zreal() > 0] if kind == "static" else [])
        rec.explore(body, ass)


# ---- case list ------------------------------------------------------------------------------------------------------------------------------------------------
# labels whose polynomial normal forms cost 10..60 CPU-seconds each at nb=2 (measured): thorough tier only, one worker each
HEAVY_BASES = ("covariant.Der2Morb", "covariant.Der2morb", "covariant.Der2Morb_H", "covariant.NLDrude_Z_orb_Hplus", "covariant.NLDrude_Z_orb_Omega", "covariant.emcha_surf")


def is_heavy(label):
    return label.split()[0] in HEAVY_BASES and "external_terms=False" not in label


# light classes that are also run at nb=3 (thorough)
VARIANT_TAGS = ("internal_terms=False", "sign=", "OO_uIu", "FF_rotAA", "CCab_antisym", "S_terms=True")
# nb=3, measured on one core with two band groups: need more than 10 CPU-minutes per mode (ShiftCurrent external: 700 s, the others did not finish in 240..1500 s) -> not run at nb=3 (nb=2 covers them)
NB3_EXCLUDED = ("covariant.Der2Morb external_terms=False", "covariant.Der2Omega", "covariant.Der2morb external_terms=False", "covariant.NLDrude_Z_orb_Hplus external_terms=False",
                "covariant.NLDrude_Z_orb_Omega external_terms=False", "covariant.emcha_surf external_terms=False", "dynamic.ShiftCurrentFormula external_terms=True")
# nb=3, 30..500 CPU-s with two band groups: one worker each, two band groups; everything else gets six band groups
NB3_EXPENSIVE = ("covariant.Der2Morb_H external_terms=False", "covariant.Der2Omega external_terms=False", "covariant.OmegaHplus", "covariant.VelDQM", "covariant.DerMorb", "covariant.Dermorb", "covariant.DerQuantumMetric_ab_d", "covariant.NLDrude_Z_spin", "covariant.NLDrude_Z_spin external_terms=False", "basic.Der_morb",
                 "basic.tildeHGc_d", "basic.tildeFc_d", "covariant.OmegaOmega", "covariant.VelDQM external_terms=False", "sdct.Formula_SDCT_sea_I sym=True", "sdct.Formula_SDCT_sea_I sym=False",
                 "dynamic.ShiftCurrentFormula external_terms=False", "sdct.Formula_SDCT_surf_II sym=False", "sdct.Formula_SDCT_surf_II sym=False external_terms=False",
                 "covariant.SpinOmega qiao external_terms=True", "dynamic.Formula_SHC qiao external_terms=True")
NB3_ALL_VARIANTS = ("covariant.Omega", "covariant.Morb_H", "covariant.Morb_Hpm", "covariant.morb", "covariant.VelOmega", "covariant.OmegaS", "covariant.QuantumMetric_ab", "covariant.VelHplus",
                    "covariant.MassVel", "covariant.Der3E", "basic.tildeFc", "basic.tildeHGc", "elementary.InvMass", "covariant.DerOmega", "covariant.DerMorb_H")
CALC_MEDIUM = ("static.AHC_Zeeman_orb", "static.GME_orb_FermiSea", "static.GME_orb_FermiSea_test", "static.NLDrude_Zeeman_spin", "static.QuantumMetric_Vel_DQ", "dynamic.ShiftCurrent",
               "sdct.SDCT_sym_sea_I", "sdct.SDCT_asym_sea_I", "dynamic.SHC qiao", "tabulate.Der2OrbitalMoment", "tabulate.Der2BerryCurvature")

OUTSIDE += ["declared transforms that no calculator reads: basic.tildeHab / tildeHab_d (consumed only through .nn by tildeHGab*, which carry no declaration of their own) and "
            "get_transform_TR/Inv('FF'|'GG') of the bare covariant matrices (every formula built on them declares its own transform); their declarations were found "
            "inconsistent with the computed parity and are recorded as an observation in DESIGN.md, not as a violation of this property"]
OUTSIDE += ["nb=3 for " + ", ".join(NB3_EXCLUDED) + " and for the heavy classes (more than 10 CPU-minutes per variant and mode at nb=3; nb=2 covers them)",
            "calculator level: " + ", ".join(CALC_HEAVY) + " (formulas of 20..60 CPU-s per evaluation times ~60 Fermi-placement paths), the SDCT surface terms and any kBT>0 (exp of symbolic "
            "energies), Gaussian smearing, tetrahedron weights, tabulate.DerOrbitalMoment_test (refers to a non-existent formula class, cannot be instantiated)"]
OUTSIDE += ["quick tier skips (thorough runs them): the variants internal_terms=False, sign=-1/0, OO_uIu, FF_rotAA, CCab_antisym, S_terms=True of every class, and " + ", ".join(l for l in registry() if is_heavy(l)),
            "classes without a declared transformTR/transformInv (internal building blocks: Der2A, Der2B, Der2O, Der2H, tildeFab, tildeFab_d, tildeHGab, tildeHGab_d, Dcov, DerDcov, Der2Dcov, "
            "DEinv_ln) have nothing to compare", "nb > 3; band groups other than those listed in BOUNDS", "spinful time reversal beyond the H-gauge axiom (the Kramers structure of U(-k) is "
            "absorbed in the gauge choice |u(-k)> = T|u(k)>; gauge independence of the traces is C04)", "frequency/Fermi factors of the dynamic calculators (they depend on the energies only, which are equal at k and -k)",
            "rotAAab / CCab_antisym declarations of get_transform_TR: their real trace vanishes identically (anti-Hermitian), so any declaration holds"]


def _cases_own(tier, seed):
    q = tier == "quick"
    out = []
    labels = list(registry())
    light = [l for l in labels if not is_heavy(l)]
    if q:       # external-only variants are the difference of the default and the internal-only ones (the terms enter linearly, products excepted): thorough tier only
        light = [l for l in light if not any(v in l for v in ("internal_terms=False", "sign=", "OO_uIu", "FF_rotAA", "CCab_antisym", "S_terms=True"))]
    for mode in ("TR", "Inv"):
        for der, ncart in ((0, 0), (1, 0), (2, 1), (3, 0)):
            out.append(Case(f"axiom R_to_k {mode} der={der} ncart={ncart}", case_axiom, dict(mode=mode, nb=1, der=der, ncart=ncart)))
        out.append(Case(f"derived OO,GG from FF {mode}", case_derived, dict(mode=mode, nb=2)))
        out.append(Case(f"delE_K {mode}", case_delE, dict(mode=mode, nb=2)))
        out.append(Case(f"elementary {mode}: " + ",".join(ELEMENTARY[:5]), case_elementary, dict(names=ELEMENTARY[:5], mode=mode, nb=2)))
        out.append(Case(f"elementary {mode}: " + ",".join(ELEMENTARY[5:]), case_elementary, dict(names=ELEMENTARY[5:], mode=mode, nb=2)))
        n = 20 if q else 12
        for i in range(0, len(light), n):
            chunk = light[i:i + n]
            out.append(Case(f"formulas {mode} nb=2: " + "; ".join(chunk), case_formula, dict(labels=chunk, mode=mode, nb=2, tier=tier), timeout=400 if q else 1100))
        if not q:
            for l in labels:
                if is_heavy(l):
                    out.append(Case(f"formula {mode} nb=2 (heavy): {l}", case_formula, dict(labels=[l], mode=mode, nb=2, tier="quick"), timeout=1150))
            # nb=3: every label that finishes (measured), default and external_terms=False variants; every remaining switch variant for the classes that cost a few seconds
            cand = [l for l in light if l not in NB3_EXCLUDED and (not any(v in l for v in VARIANT_TAGS) or l.split()[0] in NB3_ALL_VARIANTS)]
            cheap = [l for l in cand if l not in NB3_EXPENSIVE]
            for i in range(0, len(cheap), 8):
                chunk = cheap[i:i + 8]
                out.append(Case(f"formulas {mode} nb=3: " + "; ".join(chunk), case_formula, dict(labels=chunk, mode=mode, nb=3, tier="deep"), timeout=3000))
            for l in cand:
                if l not in cheap:
                    out.append(Case(f"formula {mode} nb=3 (expensive): {l}", case_formula, dict(labels=[l], mode=mode, nb=3, tier="quick"), timeout=3000))
            names = [n for n in calculators() if n not in CALC_HEAVY]
            lightc = [n for n in names if n not in CALC_MEDIUM]
            for i in range(0, len(lightc), 8):
                chunk = lightc[i:i + 8]
                out.append(Case(f"calculators {mode} nb=2: " + "; ".join(chunk), case_calculator, dict(names=chunk, mode=mode, nb=2), timeout=3000))
            for n in names:
                if n in CALC_MEDIUM:
                    out.append(Case(f"calculator {mode} nb=2: {n}", case_calculator, dict(names=[n], mode=mode, nb=2), timeout=3000))
    return out


# ---- replay ---------------------------------------------------------------------------------------------------------------------------------------------------
def replay(rec):
    try:
        return _replay(rec)
    except Exception as e:
        import traceback
        if rec.get("key", "").startswith(f"raises {type(e).__name__} ") and "wannierberri" in traceback.format_exc():
            return True, f"{type(e).__name__}: {e}"
        raise


def _generic(w, nb):
    """deterministic generic data when the model is all-zero (atoms the solver did not need)"""
    X = {k: unarr(v).astype(complex) for k, v in w.get("X", {}).items()}
    if X and max(np.abs(v).max() for v in X.values()) > 0:
        return w["X"]
    rng = np.random.default_rng(5)
    out = {}
    for k, v in X.items():
        name, der = k.split(",")
        A = rng.normal(size=v.shape) + 1j * rng.normal(size=v.shape)
        if SPEC[name][1]:
            A = A + np.conjugate(np.swapaxes(A, 1, 2))
        A = sym_cart(A, int(der))
        out[k] = dict(re=A.real.tolist(), im=A.imag.tolist())
    return out


def _replay(rec):
    w = rec["witness"]
    if w["test"] == "calculator":
        nb, mode, name = w["nb"], w["mode"], w["name"]
        E = np.array(w["E"], dtype=float)[None]
        if nb > 1 and np.all(np.diff(E[0]) == 0):
            E = E + np.arange(nb)[None] * 0.37
        Ef = np.array(w["Efermi"], dtype=float)
        if Ef[1] <= Ef[0]:
            Ef = np.array([Ef[0], Ef[0] + 0.1])
        thr = w["thr"] or 1e-4
        kind, make = calculators()[name]
        d1, d2, X1 = two_shells(nb, E, mode, concrete=_generic(w, nb))
        r1, r2 = make(Ef.copy(), thr)(d1), make(Ef.copy(), thr)(d2)
        attr = "transformTR" if mode == "TR" else "transformInv"
        tr = getattr(r1, attr)
        c1 = make(Ef.copy(), thr)
        f = c1.Formula(d1, **c1.kwargs_formula) if kind != "dyn" else c1.Formula(data_K=d1, **c1.kwargs_formula)
        want = getattr(c1, attr, None) if (kind == "dyn" and hasattr(c1, attr)) else getattr(f, attr)
        if tr is None or not (tr == want and tr.conj == want.conj):
            return True, f"{name}: result carries {tr}, declared {want}"
        a, b = np.array(r1.data), np.array(r2.data)
        err = np.abs(b - tr(a.copy())).max() if a.size else 0.0
        scale = np.abs(a).max() if a.size else 0.0
        return bool(err > 1e-9 * (scale + 1e-300)), f"{name} {mode}: |result(-k) - declared(result(k))| = {err:.3e} (scale {scale:.3e}); E={E[0].tolist()} Efermi={Ef.tolist()}"
    if w["test"] == "axiom":
        import wannierberri.fourier.rvectors as RV
        XR = unarr(w["XR"]).astype(complex)
        k = np.array(w["k"], dtype=float)
        res = []
        for kk in (k, -k):
            rv = RV.Rvectors(lattice=np.array(w["lattice"]), iRvec=np.array(w["iR"]))
            rv.set_fft_R_to_k(NK=None, num_wann=w["nb"], k_list=kk.reshape(1, 3))
            res.append(rv.R_to_k(XR.copy(), der=w["der"], hermitian=False))
        want = (np.conjugate(res[0]) if w["mode"] == "TR" else res[0]) * (w["sign"] * (-1) ** w["der"])
        err = np.abs(res[1] - want).max()
        return bool(err > 1e-9 * (1 + np.abs(want).max())), f"k={k.tolist()} |R_to_k(-k) - image|={err:.3e}"
    nb, mode = w["nb"], w["mode"]
    E = np.array(w["E"], dtype=float)[None]
    if nb > 1 and np.all(np.diff(E[0]) == 0):
        E = E + np.arange(nb)[None] * 0.37
    conc = _generic(w, nb)
    if w["test"] == "delE":
        X1 = LazyX(nb, concrete=conc)
        d1, d2 = shell(nb, E, X1, seed_delE=False), shell(nb, E, LazyX(nb, partner=X1, mode=mode), seed_delE=False)
        err = np.abs(d2.delE_K + d1.delE_K).max() + np.abs(d1.delE_K - np.real(np.einsum("klla->kla", X1[('Ham', 1)]))).max()
        return bool(err > 1e-9), f"delE_K parity/diagonal error {err:.3e}"
    d1, d2, X1 = two_shells(nb, E, mode, concrete=conc)
    worst, scale, what = 0.0, 1e-300, ""
    if w["test"] == "derived":
        class NoOO:
            def has_R_mat(s, k):
                return k not in ("OO", "GG")
        d1.system = d2.system = NoOO()
        X1.__class__ = X1F
        d2._bar_quantities.__class__ = X1F
        for name in ("OO", "GG"):
            for der in (0, 1):
                a, b = d1.Xbar(name, der), d2.Xbar(name, der)
                worst = max(worst, np.abs(b - parity_image(a, name, der, mode)).max())
                scale = max(scale, np.abs(a).max())
        return bool(worst > 1e-9 * scale), f"|X(-k) - parity image| = {worst:.3e} (scale {scale:.3e})"
    if w["test"] == "elementary":
        name = w["name"]
        for der in ([1] if w["gender"] else ([1, 2, 3] if name == "Ham" else [0, 1, 2])):
            kw = dict(gender=1) if w["gender"] else dict(commader=der)
            f1, f2 = d1.covariant(name, **kw), d2.covariant(name, **kw)
            tr = getattr(f1, "transformTR" if mode == "TR" else "transformInv")
            if tr is not (DK.get_transform_TR if mode == "TR" else DK.get_transform_Inv)(name, der):
                return True, f"covariant({name},{kw}) carries {tr}"
            for inn, out in partitions(nb, "quick", "trace"):
                a, b = evaluate(f1, "trace", inn, out), evaluate(f2, "trace", inn, out)
                d = np.abs(b - apply_transform(tr, a)).max()
                if d > worst:
                    worst, what = d, f"der={der} inn={inn}"
                scale = max(scale, np.abs(a).max())
        return bool(worst > 1e-9 * scale), f"{name} {mode}: |Re tr(-k) - declared(Re tr(k))| = {worst:.3e} at {what} (scale {scale:.3e}); declared factor {tr.factor}"
    if w["test"] == "formula":
        build, kind, declared_by = registry()[w["label"]]
        if "ShiftCurrent" in w["label"]:
            eta = w.get("sc_eta") or 0.04
            build = lambda dk, ext=("external_terms=True" in w["label"]), eta=eta: DYN.ShiftCurrentFormula(dk, sc_eta=eta, external_terms=ext)
        f1, f2 = build(d1), build(d2)
        tr = declared(f1, declared_by, mode)
        for tier in ("thorough",):
            for inn, out in partitions(nb, tier, kind):
                a, b = evaluate(f1, kind, inn, out), evaluate(f2, kind, inn, out)
                d = np.abs(np.asarray(b) - apply_transform(tr, np.asarray(a))).max() if np.size(a) else 0.0
                if d > worst:
                    worst, what = d, f"inn={inn} out={out}"
                scale = max(scale, np.abs(a).max() if np.size(a) else 0.0)
        return bool(worst > 1e-9 * scale), f"{w['label']} {mode}: |value(-k) - declared(value(k))| = {worst:.3e} at {what} (scale {scale:.3e}); E={E[0].tolist()}"
    raise ValueError(w["test"])


def cases(tier, seed):
    """own cases + the StaticCalculator cases of the C13 harness that assert that calculator results carry the formula's declared transforms
    (a declaration is only as good as its way into the result object that symmetrisation reads)"""
    out = _cases_own(tier, seed)
    from props import c13
    out += [Case("declared transforms reach the result: " + c.name, c.fn, c.kwargs, timeout=c.timeout) for c in c13.cases(tier, seed)
            if c.name.startswith("sea nb=2 nk=2") and "fder=0" in c.name]
    return out


_replay_own = replay


def replay(rec):
    if rec.get("witness", {}).get("test") == "sea":
        from props import c13
        return c13.replay(rec)
    return _replay_own(rec)
