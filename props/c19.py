"""C19 — Wannier90 files written by the code can be read back (.eig/.amn/.mmn text, SavableNPZ / WannierData npz)"""
import os, sys, inspect
import numpy as np
from symx.core import *
from symx.core import z3, Ctx, zvar
from symx.npproxy import NpProxy, shadow
from symx.harness import Case
from symx import tok
import symx.harness  # noqa (puts the repo on sys.path)
from fractions import Fraction as Fr

PROPERTY = "C19"
FUNCTIONS = ["wannierberri.w90files.eig.EIG.to_w90_file/from_w90_file", "wannierberri.w90files.amn.AMN.to_w90_file/from_w90_file",
             "wannierberri.w90files.mmn.MMN.to_w90_file/from_w90_file", "wannierberri.w90files.bkvectors.BKVectors.reorder_bk_vectors/find_G_and_neighbours",
             "wannierberri.w90files.utility.convert/str2arraymmn", "wannierberri.w90files.io.SavableNPZ.to_npz/from_npz/as_dict/from_dict",
             "wannierberri.w90files.io.dic_to_keydic/keydic_to_dic/sparselist_to_dict", "wannierberri.w90files.w90file.W90_file.__init__/equals/check_shape",
             "AMN/MMN/SOC/BKVectors/CheckPoint/WIN/SPN/UIU/UHU/SIU/SHU/UNK constructors", "wannierberri.w90files.wandata.WannierData.write/to_npz/from_npz/set_file/check_conform"]
BOUNDS = dict(quick=dict(field_overflow="EIG NK<=2, NB<=2 and AMN with 1-2 entries: every choice of at most one '{:w.pf}' field that fills/exceeds its width (N fields -> N+1 paths)", mmn_neighbour_order="MMN objects built from arrays (identity bk_reorder) and MMN objects read from a file whose neighbour order is any permutation "
                         "(symbolic, NNB=2,3; rotated per k-point) of the BKVectors order", NK="1..2 (text; mmn on k-grids 1x1x1, 2x1x1, 1x2x1), 1 and 3 (npz)", NB="1..3", NW="1..2", NNB="2", data="symbolic real / complex",
                         stored_kpoints="every non-empty subset of range(NK) for npz (given as dict and as list with None), all k for the text files"),
              thorough=dict(field_overflow="EIG up to NK=6 NB=6 / NK=11 NB=2 and AMN up to NK=2 NB=4 NW=3: every choice of at most one '{:w.pf}' field that fills/exceeds its width",
                            mmn_neighbour_order="identity; every order of NNB=2..6 b-vectors and all 5040 orders of 7 (one symbolic permutation rotated per k-point); an independent permutation "
                            "for every k-point (NK=2 NNB=3: 36, NK=2 NNB=4: 576, NK=3 NNB=3: 216, NK=3 NNB=2: 8 combinations)",
                            NK="1..6, 11, 101 (eig/amn); mmn k-grids 1x1x1 .. 3x2x2 and 11x1x1 (1..12 k-points, 2-digit k-point / neighbour numbers, G-vectors with -1/+1/+-2 components)",
                            NB="1..6, 11, 12, 101", NW="1..4, 11 (NW != NB included)", NNB="2, 3, 4, 5, 6, 7, 8 (bcc), 12 (fcc)",
                            mmn_reader_chunks="npar = default, 1, 2, 3, 5, 7: files shorter than, equal to and not a multiple of the 4*npar-block chunk, up to 144 blocks",
                            data="symbolic real / complex", stored_kpoints="every non-empty subset of range(NK) for NK=1..7 (dict and sparse list), selected subsets of NK=12 (keys data_1 / data_10 / data_11)"))
EXPLANATION = ("The real writers run on symbolic data: format(SymC, spec) leaves a token in the in-memory file, the real readers parse the token file "
               "(str.split / loops / reshapes / transposes run unchanged) and each token read back is a fresh real within half a unit of the last printed digit "
               "(the value itself for repr).  z3 decides, per entry, that the value read at [ik, ...] is the one written at [ik, ...] to printed precision, and that equals() holds.  "
               "npz: an in-memory store with numpy's savez/load contract; identity of every attribute after as_dict/keydic/from_dict is decided by z3.  "
               "MMN objects with a non-trivial bk_reorder come from the real reader applied to a token file whose neighbour order is a symbolic permutation (per file or per k-point); "
               "the opt-in field-overflow model renders one fixed-point field per path without its leading blanks.")
ASSUMPTIONS = ["field-overflow cases: at most one fixed-point field per file fills or exceeds its width (x >= 10^(w-p-2) or x <= -10^(w-p-3) for '{:w.pf}'); the other cases make no "
               "assumption on magnitudes but render every number inside its field",
               "the same BKVectors object is given to MMN.to_w90_file and to the reader",
               "text files contain all NK k-points (the Wannier90 formats have no notion of a k-point subset)"]
OUTSIDE = ["decimal rendering itself (a token stands for 'x rounded to the printed digits'); more than one overflowing field per file; overflow of integer fields "
           "(band / k-point counters > 9999 are concrete and rendered by Python itself); overflow of '%e' fields (3-digit exponents)",
           "readers of files produced by Wannier90 / pw2wannier90 themselves (only write->read of this code)",
           "binary formats (.spn/.uHu/.uIu/.sHu/.sIu/.unk/.chk) have no writer; SymmetrizerSAWF npz (needs DFT data); multiprocessing itself",
           "WannierData.from_npz with its default `files` list does not look for win/soc; the container check passes the list of files explicitly",
           "BKVectors.equals (inherited from W90_file, raises AttributeError: no NB/data) - BKVectors is not a Wannier90 file; its attributes are compared directly",
           "AMN.equals on data that differ within the print precision (complex modulus); AMN.equals is checked on exactly equal data (npz)",
           "sizes above the stated bounds"]
STUBS = ["open (eig/amn/mmn modules): symx.tok.MemFS", "symx.tok.overflow_model: a fixed-point field that fills its width is rendered without left padding (opt-in, overflow cases only)", "np.loadtxt / np.array(list of str, dtype=float) (eig, utility): tokens -> symx.tok.sym_float",
         "multiprocessing.Pool (amn, mmn): serial map; cpu_count -> 1", "np.savez / np.savez_compressed / np.load (io): in-memory store, values converted with np.asanyarray as numpy does, "
         "'.npz' appended to the name like numpy, object arrays without symbolic content refuse to load (allow_pickle=False)",
         "np.isclose/np.allclose (w90file.equals): numpy's definition |a-b| <= atol + rtol*|b| as a z3 term for real entries", "os.makedirs (wandata): no-op", "datetime.now in the amn header: real"]

import wannierberri.w90files.eig as M_EIG, wannierberri.w90files.amn as M_AMN, wannierberri.w90files.mmn as M_MMN
import wannierberri.w90files.utility as M_UT, wannierberri.w90files.io as M_IO, wannierberri.w90files.w90file as M_WF
import wannierberri.w90files.bkvectors as M_BK, wannierberri.w90files.wandata as M_WD, wannierberri.w90files.chk as M_CHK
import wannierberri.w90files.soc as M_SOC, wannierberri.w90files.xxu as M_XXU, wannierberri.w90files.spn as M_SPN
import wannierberri.w90files.unk as M_UNK, wannierberri.w90files.win as M_WIN

SEED = "mem/x"


# ---------------------------------------------------------------------------------------------------- stubs
def _has_tok(x):
    if isinstance(x, str):
        return True
    if isinstance(x, (list, tuple)):
        return any(_has_tok(y) for y in x)
    return False


def _parse(x):
    if isinstance(x, str):
        return tok.sym_float(x)
    return [_parse(y) for y in x]


class TokNp(NpProxy):
    """NpProxy + text parsing of token strings + in-memory npz store"""

    def __init__(s, fs):
        super().__init__()
        s.fs = fs

    def array(s, x, dtype=None, **k):
        if dtype in (float, 'float', np.float64) and _has_tok(x):
            v = _parse(x)
            return super().array(v, **k) if is_sym(v) else np.array(v, dtype=float)
        return super().array(x, dtype=dtype, **k)

    def loadtxt(s, fname, ndmin=0, **k):
        """numpy contract: one row per non-empty line; a single row (or column) is squeezed to 1-D unless ndmin=2"""
        rows = [[tok.sym_float(t) for t in line.split()] for line in s.fs.open(fname).read().splitlines() if line.strip()]
        a = np.array(rows, dtype=object if is_sym(rows) else float)      # plain ndarray: .max() of a concrete column gives a python float
        if ndmin < 2:
            a = np.squeeze(a)
        return a if a.ndim >= ndmin else a.reshape((1,) * (ndmin - a.ndim) + a.shape)

    def isclose(s, a, b, rtol=1e-5, atol=1e-8, **k):
        """numpy's |a-b| <= atol + rtol*|b| as one z3 term per real entry (no sign forks); complex symbolic differences are not decided (Inconclusive)"""
        if not (is_sym(a) or is_sym(b)):
            return np.isclose(a, b, rtol=rtol, atol=atol, **k)
        a, b = np.broadcast_arrays(np.asarray(a, dtype=object), np.asarray(b, dtype=object))
        out = np.empty(a.shape, dtype=object)
        for i in np.ndindex(*a.shape):
            x, y = SymC.of(a[i]), SymC.of(b[i])
            d = x - y
            if d.iszero():
                out[i] = True
            elif d.isreal() and y.isreal() and d.d.is_one() and y.d.is_one():
                dz, yz = d.zreal(), y.zreal()
                out[i] = SymB(z3.If(dz >= 0, dz, -dz) <= z3.Q(*Fr(atol).as_integer_ratio()) + z3.Q(*Fr(rtol).as_integer_ratio()) * z3.If(yz >= 0, yz, -yz), atoms=d.atoms() | y.atoms())
            else:
                raise Inconclusive("np.isclose on a complex symbolic difference (needs |z|)")
        return out.view(SymArray) if out.shape else out[()]

    def allclose(s, a, b, rtol=1e-5, atol=1e-8, **k):
        r = s.isclose(a, b, rtol=rtol, atol=atol, **k)
        acc = True
        for x in np.asarray(r, dtype=object).flat:
            acc = x & acc if isinstance(x, SymB) else (acc if bool(x) else False)
            if acc is False:
                return False
        return bool(acc)

    def _save(s, file, args, kwds):
        name = str(file)
        if not name.endswith(".npz"):
            name += ".npz"
        d = {f"arr_{i}": a for i, a in enumerate(args)}
        d.update(kwds)
        s.fs.files[name] = {k: (v if isinstance(v, np.ndarray) else np.asanyarray(v)) for k, v in d.items()}

    def savez(s, file, *args, **kwds):
        s._save(file, args, kwds)

    def savez_compressed(s, file, *args, **kwds):
        s._save(file, args, kwds)

    def load(s, file, allow_pickle=False, **k):
        name = str(file)
        if name not in s.fs.files:
            raise FileNotFoundError(name)
        d = s.fs.files[name]
        for key, v in d.items():
            if v.dtype == object and not allow_pickle and not any(isinstance(e, (SymC, SymB)) for e in v.flat):
                raise ValueError("Object arrays cannot be loaded when allow_pickle=False")
        return dict(d)


class _SerialPool:
    def __init__(s, *a, **k):
        pass

    def map(s, f, it):
        return [f(x) for x in it]

    def close(s):
        pass

    def join(s):
        pass


class _MP:
    Pool = _SerialPool

    @staticmethod
    def cpu_count():
        return 1


class _OS:
    path = os.path

    @staticmethod
    def makedirs(*a, **k):
        pass


def install():
    """shadow every w90files module with the text-aware proxy and one in-memory file system"""
    fs = tok.MemFS()
    tok.overflow_model(False)
    p = TokNp(fs)
    for m in (M_EIG, M_AMN, M_MMN, M_UT, M_IO, M_WF, M_BK, M_CHK, M_SOC, M_XXU, M_SPN, M_UNK, M_WIN, M_WD):
        m.np = p
    for m in (M_EIG, M_AMN, M_MMN):
        m.open = fs.open
    M_AMN.multiprocessing = _MP
    M_MMN.multiprocessing = _MP
    M_WD.os = _OS
    return fs, p


def printed_close(r, x, spec):
    """SymB: r (read back) equals x (written) to the precision of the format spec"""
    r, x = SymC.of(r), SymC.of(x)
    import re
    m = re.search(r"\.(\d+)([efEF])", spec or "")
    d = r - x
    if d.iszero():
        return True
    if not m:
        return d == 0
    h = SymC.of(Fr(1, 2 * 10 ** int(m.group(1))))
    if m.group(2).lower() == "f":
        return (d <= h) & (-d <= h)
    dz, xz, hz = d.zreal(), x.zreal(), h.zreal()
    ax = z3.If(xz >= 0, xz, -xz)
    return SymB(z3.And(dz <= hz * ax, -dz <= hz * ax), atoms=d.atoms() | x.atoms())


def all_close(rec, name, got, want, spec, key):
    """complex arrays: real and imaginary parts separately to printed precision; shape first"""
    got, want = np.asarray(got, dtype=object), np.asarray(want, dtype=object)
    if got.shape != want.shape:
        return rec.concrete(name, False, f"shape {got.shape} != {want.shape}", key=key)
    facts = []
    for g, w in zip(got.flat, want.flat):
        g, w = SymC.of(g), SymC.of(w)
        facts += [printed_close(g.real, w.real, spec), printed_close(g.imag, w.imag, spec)]
    acc = True
    for f in facts:
        acc = f & acc
    return rec.fact(name, acc, key=key)


def subdict(full, keys):
    return {k: full[k] for k in keys}


# ---------------------------------------------------------------------------------------------------- text round trips
def case_eig(rec, sizes, overflow=False):
    for NK, NB in sizes:
        _eig(rec, NK, NB, overflow)


def _eig(rec, NK, NB, overflow=False):
    fs, p = install()
    E = symvec("E", (NK, NB))

    def body(rec):
        tok.overflow_model(overflow)
        rec.witness = lambda env: dict(kind="eig", data=env.arr(E), overflowing_field=float(env["ovf_field"]) if overflow else None)
        eig = M_EIG.EIG(data={ik: E[ik].copy() for ik in range(NK)}, NK=NK)
        eig.to_w90_file(SEED)
        back = M_EIG.EIG.from_w90_file(SEED)
        rec.concrete("NK, NB, stored k-points", (back.NK, back.NB, sorted(back.data)) == (NK, NB, list(range(NK))), f"{back.NK} {back.NB} {sorted(back.data)}",
                     key="EIG write->read changes NK/NB/k-point set")
        all_close(rec, "eig[ik][ib] read back to 12 decimals", np.array([back.data[ik] for ik in range(NK)]), E, "17.12f", key="EIG write->read value differs from the written entry")
        ok, msg = eig.equals(back)
        rec.concrete("EIG.equals(read back)", ok, msg, key="EIG.equals false after write->read")
    rec.explore(body)


def case_amn(rec, sizes, overflow=False):
    for NK, NB, NW in sizes:
        _amn(rec, NK, NB, NW, overflow)


def _amn(rec, NK, NB, NW, overflow=False):
    fs, p = install()
    A = symvec("A", (NK, NB, NW), real=False)

    def body(rec):
        tok.overflow_model(overflow)
        rec.witness = lambda env: dict(kind="amn", data=env.arr(A), overflowing_field=float(env["ovf_field"]) if overflow else None)
        amn = M_AMN.AMN(data={ik: A[ik].copy() for ik in range(NK)}, NK=NK)
        amn.to_w90_file(SEED)
        back = M_AMN.AMN.from_w90_file(SEED)
        rec.concrete("NK, NB, NW", (back.NK, back.NB, back.NW, sorted(back.data)) == (NK, NB, NW, list(range(NK))), f"{back.NK} {back.NB} {back.NW}",
                     key="AMN write->read changes NK/NB/NW")
        all_close(rec, "amn[ik][ib,iw] read back to 12 decimals", np.array([back.data[ik] for ik in range(NK)]), A, "17.12f", key="AMN write->read value differs from the written entry")
        # AMN.equals on complex data that differ within print precision needs |z| (sqrt atoms): covered for exact data in the npz cases only
    rec.explore(body)


def make_bkvec(mp_grid, bk_grid):
    """concrete BKVectors through the real find_G_and_neighbours (integer logic only)"""
    mp = np.array(mp_grid)
    kpts = np.array([[i / mp[0], j / mp[1], k / mp[2]] for i in range(mp[0]) for j in range(mp[1]) for k in range(mp[2])])
    bk = np.array(bk_grid, dtype=int)
    G, nb = M_BK.BKVectors.find_G_and_neighbours(kpts, bk, mp)
    kg = np.rint(kpts * mp[None, :]).astype(int)
    return M_BK.BKVectors(recip_lattice=np.diag([1.0, 1.1, 1.3]), mp_grid=mp, wk=np.ones(len(bk)) / len(bk), bk_grid=bk, G=G, neighbours=nb, kpt_grid=kg)


def mmn_write(mmn, seed, bkvec):
    if "bkvec" in inspect.signature(mmn.to_w90_file).parameters:
        return mmn.to_w90_file(seed, bkvec=bkvec)
    return mmn.to_w90_file(seed)


def case_mmn(rec, mp_grid, bk_grid, NBs, npar=None):
    for NB in NBs:
        _mmn(rec, mp_grid, bk_grid, NB, npar)


def case_mmn_multi(rec, items):
    for mp_grid, bk_grid, NBs in items:
        case_mmn(rec, mp_grid, bk_grid, NBs)


def _mmn(rec, mp_grid, bk_grid, NB, npar=None):
    """npar: the reader converts the file in chunks of 4*npar blocks (default: the cpu count at import time)"""
    fs, p = install()
    bkvec = make_bkvec(mp_grid, bk_grid)
    NK, NNB = bkvec.NK, bkvec.NNB
    M = symvec("M", (NK, NNB, NB, NB), real=False)

    def body(rec):
        rec.witness = lambda env: dict(kind="mmn", mp_grid=list(mp_grid), bk_grid=[list(b) for b in bk_grid], npar=npar, data=env.arr(M))
        mmn = M_MMN.MMN(data={ik: M[ik].copy() for ik in range(NK)}, NK=NK)
        mmn_write(mmn, SEED, bkvec)
        back = M_MMN.MMN.from_w90_file(SEED, bkvec=bkvec, **({} if npar is None else dict(npar=npar)))
        rec.concrete("NK, NB, NNB", (back.NK, back.NB, back.NNB, sorted(back.data)) == (NK, NB, NNB, list(range(NK))), f"{back.NK} {back.NB} {back.NNB}",
                     key="MMN write->read changes NK/NB/NNB")
        all_close(rec, "mmn[ik][ib,m,n] read back exactly (repr)", np.array([back.data[ik] for ik in range(NK)]), M, "", key="MMN write->read value differs from the written entry")
        ok, msg = mmn.equals(back)
        rec.concrete("MMN.equals(read back)", ok, msg, key="MMN.equals false after write->read")
    rec.explore(body)


def write_mmn_by_hand(openf, seed, data, bkvec, order, fmt=format):
    """a Wannier90-style .mmn in which the neighbours of k-point ik are listed in the order order[ik] (indices into the BKVectors order);
    every block is identified by its header line `ik ik_neighbour G1 G2 G3`, numbers written with repr precision"""
    NK, (NNB, NB) = len(data), data[0].shape[:2]
    with openf(seed + ".mmn", "w") as f:
        f.write("written by hand\n")
        f.write(f"{NB} {NK} {NNB}\n")
        for ik in range(NK):
            for ib in order[ik]:
                G = bkvec.G[ik][ib]
                f.write(f"{ik + 1} {bkvec.neighbours[ik][ib] + 1} {G[0]} {G[1]} {G[2]}\n")
                for n in range(NB):
                    for m in range(NB):
                        x = data[ik][ib, m, n]
                        f.write(f"{fmt(x.real, '')} {fmt(x.imag, '')}\n")


def orders_from_perm(perm, NK):
    """listing order of k-point ik: the permutation rotated by ik (so that the k-points differ)"""
    n = len(perm)
    return [[perm[(j + ik) % n] for j in range(n)] for ik in range(NK)]


def case_mmn_reordered(rec, mp_grid, bk_grid, NB, independent=False, first=None):
    """MMN object with a non-trivial bk_reorder: obtained by the real reader from a file whose neighbour order is an arbitrary (symbolic) permutation
    of the BKVectors order; then write -> read must give the overlaps back at the same (k, b-vector) pairs"""
    fs, p = install()
    bkvec = make_bkvec(mp_grid, bk_grid)
    NK, NNB = bkvec.NK, bkvec.NNB
    M = symvec("M", (NK, NNB, NB, NB), real=False)
    # one symbolic permutation rotated per k-point, or (independent) an own symbolic permutation for every k-point (includes partially ordered files)
    pvs = [[zvar(f"perm{k}_{i}") for i in range(NNB)] for k in range(NK if independent else 1)]

    def body(rec):
        perms = []
        if first is not None:
            Ctx.cur.assume(pvs[0][0] == first)
        for pv in pvs:
            Ctx.cur.assume(*[z3.Or(*[v == j for j in range(NNB)]) for v in pv], z3.Distinct(*pv))
            perms.append([next(j for j in range(NNB) if j == NNB - 1 or bool(SymB(pv[i] == j))) for i in range(NNB)])
        rec.witness = lambda env: dict(kind="mmn_reordered", mp_grid=list(mp_grid), bk_grid=[list(b) for b in bk_grid], independent=independent,
                                       perms=[[int(env[f"perm{k}_{i}"]) for i in range(NNB)] for k in range(len(pvs))], data=env.arr(M))
        order = perms if independent else orders_from_perm(perms[0], NK)
        write_mmn_by_hand(fs.open, "mem/src", [M[ik] for ik in range(NK)], bkvec, order)
        mmn = M_MMN.MMN.from_w90_file("mem/src", bkvec=bkvec)
        all_close(rec, "reader: mmn[ik][ib] belongs to the b-vector ib of the BKVectors object whatever the order in the file", np.array([mmn.data[ik] for ik in range(NK)]), M, "",
                  key="MMN.from_w90_file attaches overlaps to the wrong b-vector")
        rec.concrete("reader: bk_reorder records the file order", all(list(mmn.bk_reorder[ik]) == [order[ik].index(j) for j in range(NNB)] for ik in range(NK)),
                     f"{ {k: list(v) for k, v in mmn.bk_reorder.items()} } for file order {order}", key="MMN.from_w90_file bk_reorder wrong")
        mmn_write(mmn, SEED, bkvec)
        back = M_MMN.MMN.from_w90_file(SEED, bkvec=bkvec)
        all_close(rec, "write->read of an MMN with non-trivial bk_reorder: same (k, b-vector) pairs", np.array([back.data[ik] for ik in range(NK)]), M, "",
                  key="MMN (bk_reorder != identity) write->read scrambles the b-vectors")
        ok, msg = mmn.equals(back, check_reorder=False)
        rec.concrete("MMN.equals(read back, check_reorder=False)", ok, msg, key="MMN.equals false after write->read (reordered)")
    rec.explore(body)


def case_container_text(rec, NB, NW):
    """WannierData.write(files=[eig, amn, mmn]) then the three readers"""
    fs, p = install()
    bkvec = make_bkvec((2, 1, 1), [(1, 0, 0), (-1, 0, 0)])
    NK, NNB = 2, 2
    E, A, M = symvec("E", (NK, NB)), symvec("A", (NK, NB, NW), real=False), symvec("M", (NK, NNB, NB, NB), real=False)

    def body(rec):
        rec.witness = lambda env: dict(kind="container_text", E=env.arr(E), A=env.arr(A), M=env.arr(M))
        wd = M_WD.WannierData()
        wd.set_file("bkvec", bkvec)
        wd.set_file("eig", M_EIG.EIG(data=list(E.copy()), NK=NK))
        wd.set_file("amn", M_AMN.AMN(data=list(A.copy()), NK=NK))
        wd.set_file("mmn", M_MMN.MMN(data=list(M.copy()), NK=NK))
        wd.write(SEED, files=["eig", "amn", "mmn"])
        e, a, m = M_EIG.EIG.from_w90_file(SEED), M_AMN.AMN.from_w90_file(SEED), M_MMN.MMN.from_w90_file(SEED, bkvec=bkvec)
        all_close(rec, "container eig", np.array([e.data[i] for i in range(NK)]), E, "17.12f", key="WannierData.write eig differs")
        all_close(rec, "container amn", np.array([a.data[i] for i in range(NK)]), A, "17.12f", key="WannierData.write amn differs")
        all_close(rec, "container mmn", np.array([m.data[i] for i in range(NK)]), M, "", key="WannierData.write mmn differs")
    rec.explore(body)


# ---------------------------------------------------------------------------------------------------- npz round trips
def same_value(a, b):
    """structural equality of attribute values (arrays, dicts of arrays, scalars, None); symbolic entries collected for z3"""
    pairs = []

    def walk(x, y):
        if isinstance(x, dict) or isinstance(y, dict):
            if not (isinstance(x, dict) and isinstance(y, dict)) or set(x) != set(y):
                return False
            return all(walk(x[k], y[k]) for k in x)
        if x is None or y is None:
            return x is None and y is None
        xa, ya = np.asarray(x), np.asarray(y)
        if xa.shape != ya.shape:
            return False
        if xa.dtype == object or ya.dtype == object:
            pairs.append((xa.astype(object), ya.astype(object)))
            return True
        return bool(np.array_equal(xa, ya))
    return walk(a, b), pairs


def check_attrs(rec, label, obj, back, attrs, kind=None):
    kind = kind or label
    for at in attrs:
        ok, pairs = same_value(getattr(obj, at, None), getattr(back, at, None))
        rec.concrete(f"{label}.{at} structure after npz round trip", ok, f"{getattr(obj, at, None)!r:.150} vs {getattr(back, at, None)!r:.150}", key=f"{kind} npz round trip changes {at}")
        for x, y in pairs:
            rec.eq(f"{label}.{at} values after npz round trip", x, y, key=f"{kind} npz round trip changes {at}")
    rec.concrete(f"{label}: type preserved", type(back) is type(obj), key=f"{kind} npz round trip changes the class")
    if hasattr(obj, "equals") and hasattr(obj, "data"):      # BKVectors inherits W90_file.equals but has neither data nor NB (see OUTSIDE)
        ok, msg = obj.equals(back)
        rec.concrete(f"{label}.equals(loaded)", ok, msg, key=f"{kind}.equals false after npz round trip")


BK_ATTRS = ["bk_grid", "wk", "kpt_grid", "kptirr", "mp_grid", "recip_lattice", "neighbours", "G", "NK", "NNB", "bk_cart", "bk_red"]
CHK_ATTRS = ["mp_grid", "real_lattice", "recip_lattice", "num_wann", "num_bands", "num_kpts", "kpt_red", "wannier_centers_cart", "wannier_spreads", "selected_bands", "v_matrix"]


def build_bkchk(mp_grid, bk_grid, irr, sym=True):
    """BKVectors (optionally on an irreducible subset), a bare and a full CheckPoint, a WIN"""
    bk = make_bkvec(mp_grid, bk_grid)
    NK, NB, NW = bk.NK, 3, 2
    if irr:
        kk = list(range(0, NK, 2))
        bk = M_BK.BKVectors(recip_lattice=bk.recip_lattice, mp_grid=bk.mp_grid, wk=bk.wk, bk_grid=bk.bk_grid, G=subdict(bk.G, kk), neighbours=subdict(bk.neighbours, kk),
                            kpt_grid=bk.kpt_grid, kptirr=kk)
    rng = np.random.default_rng(3)
    V = {k: (symvec(f"V{k}", (NB, NW), real=False) if sym else rng.random((NB, NW)) + 1j * rng.random((NB, NW))) for k in range(NK)}
    wcc, spr = (symvec("c", (NW, 3)), symvec("s", (NW,))) if sym else (rng.random((NW, 3)), rng.random(NW))
    lat = np.array([[2.0, 0.1, 0], [0, 2.2, 0.3], [0.2, 0, 2.5]])
    chks = [M_CHK.CheckPoint(real_lattice=lat, num_wann=NW, num_bands=NB, num_kpts=NK, kpt_red=bk.kpt_red, mp_grid=mp_grid, **kw)
            for kw in (dict(wannier_centers_cart=wcc, wannier_spreads=spr, v_matrix=V, selected_bands=np.arange(1, NB + 1)), {})]
    win = M_WIN.WIN(seedname="abc")
    win.data.update(num_wann=NW, mp_grid=np.array(mp_grid), unit_cell_cart=np.eye(3) * 2.5, projections=["Fe:d", "Fe:s"])
    return bk, chks, win


def roundtrip_bkchk(bk, chks, win, seed, report):
    """report(label, kind, obj, back, attrs) for every object"""
    bk.to_npz(seed + ".bkvec.npz")
    report("bkvec", bk, M_BK.BKVectors.from_npz(seed + ".bkvec.npz"), BK_ATTRS)
    for i, chk in enumerate(chks):
        chk.to_npz(seed + f".chk{i}.npz")
        report(f"chk{'(bare)' if i else '(full)'}", chk, M_CHK.CheckPoint.from_npz(seed + f".chk{i}.npz"), CHK_ATTRS)
    win.to_npz(seed + ".win.npz")
    wb = M_WIN.WIN.from_npz(seed + ".win.npz")
    return same_value({k: np.asarray(v) for k, v in win.data.items()}, {k: np.asarray(v) for k, v in wb.data.items()})[0], f"{win.data} vs {wb.data}"[:300]


def build(kind, NK, keys, NB, NW=2, NNB=2, sym=True, as_list=False):
    """file object of the given kind with symbolic data on the k-points `keys` (given as a dict, or as a list with None for the missing k-points);
    returns (object, attribute names to compare)"""
    def arr(name, shape, real=False):
        if sym:
            d = {k: symvec(f"{name}{k}", shape, real=real) for k in keys}
        else:
            rng = np.random.default_rng(len(name) + sum(shape))
            d = {k: (rng.random(shape) if real else rng.random(shape) + 1j * rng.random(shape)) for k in keys}
        return [d.get(k) for k in range(NK)] if as_list else d
    if kind == "eig":
        return M_EIG.EIG(data=arr("E", (NB,), True), NK=NK), ["data", "NK", "NB"]
    if kind == "amn":
        return M_AMN.AMN(data=arr("A", (NB, NW)), NK=NK), ["data", "NK", "NB", "NW", "positions", "orbitals", "spinor"]
    if kind == "amn+":
        return (M_AMN.AMN(data=arr("A", (NB, NW)), NK=NK, positions=np.arange(3 * NW).reshape(NW, 3) / 7, orbitals=np.array(["s", "pz"][:NW] + ["dxy"] * (NW - 2)),
                          radial_nodes_list=np.arange(NW), basis_list=np.array([np.eye(3) * (i + 1) for i in range(NW)]), spread_list=[1.0 + i for i in range(NW)], spinor=True),
                ["data", "NK", "NB", "NW", "positions", "orbitals", "radial_nodes_list", "basis_list", "spread_list", "spinor"])
    if kind == "mmn":
        return M_MMN.MMN(data=arr("M", (NNB, NB, NB)), NK=NK), ["data", "NK", "NB", "NNB", "bk_reorder"]
    if kind == "mmn+":
        return M_MMN.MMN(data=arr("M", (NNB, NB, NB)), NK=NK, bk_reorder={k: np.arange(NNB)[::-1] + 0 for k in keys}), ["data", "NK", "NB", "NNB", "bk_reorder"]
    if kind == "spn":
        return M_SPN.SPN(data=arr("S", (NB, NB, 3)), NK=NK), ["data", "NK", "NB"]
    if kind in ("uhu", "uiu"):
        return (M_XXU.UHU if kind == "uhu" else M_XXU.UIU)(data=arr("U", (NNB, NNB, NB, NB)), NK=NK), ["data", "NK", "NB", "NNB"]
    if kind in ("shu", "siu"):
        return (M_XXU.SHU if kind == "shu" else M_XXU.SIU)(data=arr("X", (NNB, NB, NB, 3)), NK=NK), ["data", "NK", "NB", "NNB"]
    if kind == "unk":
        return M_UNK.UNK(data=arr("W", (NB, 2, 1, 2, 1)), NK=NK), ["data", "NK", "NB", "grid_size", "spinor"]
    if kind == "soc":
        return M_SOC.SOC(data=arr("H", (2, 2, 3, NB, NB)), NK=NK, overlap=arr("O", (NB, NB))), ["data", "overlap", "NK", "NB", "nspin"]
    raise ValueError(kind)


def powerset_keys(NK):
    out = []
    for mask in range(1, 2 ** NK):
        out.append([k for k in range(NK) if mask >> k & 1])
    return out


def case_npz(rec, kind, combos, NB):
    fs, p = install()
    objs = [(NK, keys, as_list) + build(kind, NK, keys, NB, as_list=as_list) for NK, keys in combos for as_list in (False, True)]

    def body(rec):
        for NK, keys, as_list, obj, attrs in objs:
            rec.witness = lambda env, NK=NK, keys=keys, as_list=as_list: dict(kind="npz", file=kind, NK=NK, keys=keys, NB=NB, as_list=as_list)
            rec.concrete(f"{kind}[NK={NK},k={keys}] constructor keeps NK and the k-point indices", (obj.NK, sorted(obj.data)) == (NK, keys), f"NK={obj.NK} keys={sorted(obj.data)}",
                         key=f"{kind} constructor changes NK / k-point indices")
            obj.to_npz(SEED + "." + kind)                       # no '.npz': numpy appends it; from_npz gets the full name
            back = type(obj).from_npz(SEED + "." + kind + ".npz")
            check_attrs(rec, f"{kind}[NK={NK},k={keys}]", obj, back, attrs, kind=kind)
    rec.explore(body)


def case_npz_bkvec_chk(rec, mp_grid, bk_grid, irr):
    fs, p = install()
    bk, chks, win = build_bkchk(mp_grid, bk_grid, irr)

    def body(rec):
        rec.witness = lambda env: dict(kind="npz", file="bkvec/chk", mp_grid=list(mp_grid), bk_grid=[list(b) for b in bk_grid], irr=irr)
        ok, msg = roundtrip_bkchk(bk, chks, win, SEED, lambda label, o, b, attrs: check_attrs(rec, label, o, b, attrs))
        rec.concrete("WIN.data after npz round trip", ok, msg, key="WIN npz round trip changes data")
    rec.explore(body)


def case_container_npz(rec, NB, irr):
    """WannierData.to_npz -> from_npz with every file kind that can be built without DFT data"""
    fs, p = install()
    bk = make_bkvec((2, 1, 1), [(1, 0, 0), (-1, 0, 0)])
    NK, NW, NNB = 2, 2, 2
    keys = [0] if irr else [0, 1]
    if irr:
        bk = M_BK.BKVectors(recip_lattice=bk.recip_lattice, mp_grid=bk.mp_grid, wk=bk.wk, bk_grid=bk.bk_grid, G=subdict(bk.G, keys), neighbours=subdict(bk.neighbours, keys),
                            kpt_grid=bk.kpt_grid, kptirr=keys)
    kinds = ["eig", "amn+", "mmn+", "spn", "uhu", "uiu", "shu", "siu", "unk"]
    objs = {k.rstrip("+"): build(k, NK, keys, NB, NW, NNB) for k in kinds}
    chk = M_CHK.CheckPoint(real_lattice=np.eye(3) * 2.0, num_wann=NW, num_bands=NB, num_kpts=NK, kpt_red=bk.kpt_red, mp_grid=(2, 1, 1))

    def body(rec):
        rec.witness = lambda env: dict(kind="npz", file="container", NB=NB, irr=irr)
        wd = M_WD.WannierData()
        wd.set_file("chk", chk)
        wd.set_file("bkvec", bk)
        for k, (o, _) in objs.items():
            wd.set_file(k, o)
        wd.to_npz(SEED)
        files = list(wd._files.keys())
        wb = M_WD.WannierData.from_npz(SEED, files=files, ignore_missing_files=False)
        rec.concrete("container: same set of files", set(wb._files) == set(wd._files), f"{sorted(wb._files)} vs {sorted(wd._files)}", key="WannierData npz round trip loses a file")
        rec.concrete("container: irreducible flag", wb.irreducible == irr, f"{wb.irreducible}", key="WannierData.from_npz irreducible flag wrong")
        for k, (o, attrs) in objs.items():
            if k in wb._files:
                check_attrs(rec, "container/" + k, o, wb.get_file(k), attrs)
        if "bkvec" in wb._files:
            check_attrs(rec, "container/bkvec", bk, wb.get_file("bkvec"), ["bk_grid", "wk", "kpt_grid", "kptirr", "neighbours", "G"])
        if "chk" in wb._files:
            check_attrs(rec, "container/chk", chk, wb.get_file("chk"), ["mp_grid", "real_lattice", "num_wann", "num_bands", "num_kpts", "kpt_red"])
    rec.explore(body)


# ---------------------------------------------------------------------------------------------------- cases
def cases(tier, seed):
    q = tier == "quick"
    out = []
    NKs, NBs, NWs = ((1, 2), (1, 2, 3), (1, 2)) if q else ((1, 2, 3, 4), (1, 2, 3, 4), (1, 2, 3))
    for NK in NKs:
        out.append(Case(f"eig text NK={NK} NB={NBs}", case_eig, dict(sizes=[(NK, NB) for NB in NBs])))
        for NW in NWs:
            out.append(Case(f"amn text NK={NK} NW={NW} NB={[b for b in NBs if b >= NW]}", case_amn, dict(sizes=[(NK, NB, NW) for NB in NBs if NB >= NW])))
    grids = [((1, 1, 1), [(1, 0, 0), (-1, 0, 0)]), ((2, 1, 1), [(1, 0, 0), (-1, 0, 0)]), ((1, 2, 1), [(0, -1, 0), (0, 1, 0)])]
    if not q:
        grids += [((2, 2, 1), [(1, 0, 0), (0, 1, 0), (-1, 0, 0), (0, -1, 0)]), ((3, 1, 1), [(-1, 0, 0), (1, 0, 0)]), ((2, 1, 2), [(0, 0, 1), (1, 0, 0), (0, 0, -1), (-1, 0, 0)])]
    for mp, bkg in grids:
        out.append(Case(f"mmn text mp_grid={mp} NNB={len(bkg)} NB={(1, 2) if q else (1, 2, 3)}", case_mmn, dict(mp_grid=mp, bk_grid=bkg, NBs=(1, 2) if q else (1, 2, 3))))
    out.append(Case("eig text, one value may fill / overflow its field (NK<=2, NB<=2)", case_eig, dict(sizes=[(1, 1), (1, 2), (2, 1), (2, 2)], overflow=True)))
    out.append(Case("amn text, one value may fill / overflow its field (one entry; NK=1 NB=2 NW=1)", case_amn, dict(sizes=[(1, 1, 1), (1, 2, 1)], overflow=True)))
    rgrids = [((2, 1, 1), [(1, 0, 0), (-1, 0, 0)]), ((2, 2, 1), [(1, 0, 0), (-1, 0, 0), (0, 1, 0)])]
    if not q:
        rgrids += [((1, 1, 1), [(0, 0, 1), (0, 0, -1)]), ((2, 2, 1), [(1, 0, 0), (0, 1, 0), (-1, 0, 0), (0, -1, 0)]), ((3, 1, 2), [(-1, 0, 0), (0, 0, 1), (1, 0, 0)])]
    for mp, bkg in rgrids:
        for NB in ((2,) if q else (1, 2, 3)):
            out.append(Case(f"mmn text, read from a file with permuted neighbour order (all {len(bkg)}! orders) mp_grid={mp} NNB={len(bkg)} NB={NB}", case_mmn_reordered,
                            dict(mp_grid=mp, bk_grid=bkg, NB=NB), timeout=900))
    out.append(Case("WannierData.write eig+amn+mmn NB=2 NW=1", case_container_text, dict(NB=2, NW=1)))
    if not q:
        out.append(Case("WannierData.write eig+amn+mmn NB=3 NW=2", case_container_text, dict(NB=3, NW=2)))
    if not q:
        T = 3000
        # more k-points / bands / projections (projections != bands), multi-digit band, projection and k-point indices
        out.append(Case("eig text NK=6,11 NB=6,12", case_eig, dict(sizes=[(6, 6), (6, 12), (11, 6), (11, 12)]), timeout=T))
        out.append(Case("eig text 3-digit indices NK=101 NB=2 / NK=2 NB=101", case_eig, dict(sizes=[(101, 2), (2, 101)]), timeout=T))
        for NK, NW, NBl in ((5, 4, (4, 6)), (2, 4, (5, 12)), (11, 2, (3, 5)), (3, 11, (11, 12)), (2, 1, (101,)), (101, 1, (2,))):
            out.append(Case(f"amn text NK={NK} NW={NW} NB={list(NBl)}", case_amn, dict(sizes=[(NK, NB, NW) for NB in NBl]), timeout=T))
        # more k-points and neighbours: 3D grids with 6 / 8 / 12 b-vectors, 9..12 k-points (2-digit k-point and neighbour numbers), G-vectors with negative components
        cube6 = [(1, 0, 0), (-1, 0, 0), (0, 1, 0), (0, -1, 0), (0, 0, 1), (0, 0, -1)]
        bcc8 = [(a, b, c) for a in (1, -1) for b in (1, -1) for c in (1, -1)]
        fcc12 = [v for a in (1, -1) for b in (1, -1) for v in ((a, b, 0), (a, 0, b), (0, a, b))]
        for mp, bkg, NBl in (((2, 2, 2), cube6, (1, 2, 3)), ((2, 2, 2), bcc8, (1, 2)), ((3, 3, 1), [(1, 0, 0), (0, 1, 0), (-1, 0, 0), (0, -1, 0)], (1, 2, 4)), ((11, 1, 1), [(1, 0, 0), (-1, 0, 0)], (1, 3)),
                            ((3, 2, 2), fcc12, (1, 2)), ((1, 1, 4), [(0, 0, 1), (0, 0, -1), (0, 0, 2), (0, 0, -2)], (2, 5))):
            out.append(Case(f"mmn text mp_grid={mp} NNB={len(bkg)} NB={NBl}", case_mmn, dict(mp_grid=mp, bk_grid=bkg, NBs=NBl), timeout=T))
        # permuted neighbour lists: all 120 orders of 5 b-vectors, all 720 orders of 6; an independent permutation for every k-point (36 / 576 combinations)
        out.append(Case("mmn text, read from a file with permuted neighbour order (all 5! orders) mp_grid=(2, 2, 2) NNB=5 NB=2", case_mmn_reordered,
                        dict(mp_grid=(2, 2, 2), bk_grid=cube6[:5], NB=2), timeout=T))
        out.append(Case("mmn text, read from a file with permuted neighbour order (all 6! orders) mp_grid=(2, 1, 3) NNB=6 NB=1", case_mmn_reordered,
                        dict(mp_grid=(2, 1, 3), bk_grid=cube6, NB=1), timeout=T))
        for mp, bkg, NB in (((2, 1, 1), [(1, 0, 0), (-1, 0, 0), (0, 1, 0)], 2), ((1, 2, 1), [(1, 0, 0), (0, 1, 0), (-1, 0, 0), (0, -1, 0)], 1), ((1, 1, 3), [(0, 0, 1), (0, 0, -1)], 3)):
            out.append(Case(f"mmn text, every k-point lists its neighbours in its own order (all combinations) mp_grid={mp} NNB={len(bkg)} NB={NB}", case_mmn_reordered,
                            dict(mp_grid=mp, bk_grid=bkg, NB=NB, independent=True), timeout=T))
        for first in range(6):
            out.append(Case(f"mmn text, read from a file with permuted neighbour order (the 120 orders starting with b-vector #{first}) mp_grid=(2, 2, 2) NNB=6 NB=2", case_mmn_reordered,
                            dict(mp_grid=(2, 2, 2), bk_grid=cube6, NB=2, first=first), timeout=T))
        seven = cube6 + [(1, 1, 0)]
        for first in range(7):
            out.append(Case(f"mmn text, read from a file with permuted neighbour order (the 720 orders starting with b-vector #{first}) mp_grid=(2, 2, 1) NNB=7 NB=1", case_mmn_reordered,
                            dict(mp_grid=(2, 2, 1), bk_grid=seven, NB=1, first=first), timeout=2 * T))
        out.append(Case("mmn text mp_grid=(3, 2, 2) NNB=12 NB=3 / mp_grid=(2, 2, 2) NNB=8 NB=3,4", case_mmn_multi, dict(items=[((3, 2, 2), fcc12, (3,)), ((2, 2, 2), bcc8, (3, 4))]), timeout=T))
        out.append(Case("eig text, one value may fill / overflow its field (NK=6 NB=6)", case_eig, dict(sizes=[(6, 6)], overflow=True), timeout=T))
        out.append(Case("amn text, one value may fill / overflow its field (NK=2 NB=3 NW=2, NK=2 NB=4 NW=3)", case_amn, dict(sizes=[(2, 3, 2), (2, 4, 3)], overflow=True), timeout=T))
        for kind in ("eig", "mmn+", "amn+"):
            out.append(Case(f"npz {kind} NK=7 every k-point subset", case_npz, dict(kind=kind, combos=[(7, keys) for keys in powerset_keys(7)], NB=3), timeout=T))
        out.append(Case("mmn text, every k-point lists its neighbours in its own order (all 576 combinations) mp_grid=(2, 1, 1) NNB=4 NB=1", case_mmn_reordered,
                        dict(mp_grid=(2, 1, 1), bk_grid=[(1, 0, 0), (-1, 0, 0), (0, 1, 0), (0, -1, 0)], NB=1, independent=True), timeout=T))
        out.append(Case("mmn text, every k-point lists its neighbours in its own order (all 216 combinations) mp_grid=(1, 3, 1) NNB=3 NB=2", case_mmn_reordered,
                        dict(mp_grid=(1, 3, 1), bk_grid=[(0, 1, 0), (0, -1, 0), (1, 0, 0)], NB=2, independent=True), timeout=T))
        # chunked conversion in the reader (4*npar blocks at a time): files shorter than, equal to and not a multiple of a chunk
        for npar, mp, bkg, NBl in ((1, (2, 1, 1), [(1, 0, 0), (-1, 0, 0)], (1, 2)), (1, (3, 1, 1), [(-1, 0, 0), (1, 0, 0)], (2,)), (3, (3, 3, 1), [(1, 0, 0), (0, 1, 0), (-1, 0, 0), (0, -1, 0)], (1, 2)),
                                   (5, (2, 2, 2), cube6, (2,)), (2, (1, 1, 1), [(1, 0, 0), (-1, 0, 0)], (3,)), (7, (3, 2, 2), fcc12, (1,))):
            out.append(Case(f"mmn text npar={npar} mp_grid={mp} NNB={len(bkg)} NB={NBl}", case_mmn, dict(mp_grid=mp, bk_grid=bkg, NBs=NBl, npar=npar), timeout=T))
        # field-overflow model on more fields
        out.append(Case("eig text, one value may fill / overflow its field (NK=3 NB=4, NK=11 NB=2)", case_eig, dict(sizes=[(3, 4), (11, 2)], overflow=True), timeout=T))
        out.append(Case("amn text, one value may fill / overflow its field (NK=2 NB=2 NW=2, NK=1 NB=3 NW=2, NK=3 NB=2 NW=1)", case_amn,
                        dict(sizes=[(2, 2, 2), (1, 3, 2), (3, 2, 1)], overflow=True), timeout=T))
        out.append(Case("WannierData.write eig+amn+mmn NB=4 NW=3", case_container_text, dict(NB=4, NW=3), timeout=T))
        for kind in ("eig", "amn+", "mmn+", "spn", "uhu", "shu", "unk", "soc"):
            out.append(Case(f"npz {kind} NK=5,6 every k-point subset", case_npz, dict(kind=kind, combos=[(NK, keys) for NK in (5, 6) for keys in powerset_keys(NK)],
                                                                                    NB=2 if kind in ("uhu", "soc") else 4), timeout=T))
        out.append(Case("npz eig / amn NK=12 (2-digit keys: data_1 vs data_10, data_11) selected subsets", case_npz,
                        dict(kind="amn+", combos=[(12, list(range(12))), (12, [1, 10, 11]), (12, [0, 1]), (12, [10]), (12, [2, 11])], NB=3), timeout=T))
        out.append(Case("WannierData npz container NB=4", case_container_npz, dict(NB=4, irr=False), timeout=T))
        out.append(Case("WannierData npz container NB=3 irreducible", case_container_npz, dict(NB=3, irr=True), timeout=T))
    kinds = ["eig", "amn", "amn+", "mmn", "mmn+", "spn", "uhu", "uiu", "shu", "siu", "unk", "soc"]
    for kind in kinds:
        combos = [(NK, keys) for NK in ((1, 3) if q else (1, 2, 3, 4)) for keys in powerset_keys(NK)]
        out.append(Case(f"npz {kind} NK<={combos[-1][0]} every k-point subset", case_npz, dict(kind=kind, combos=combos, NB=2 if kind in ("uhu", "uiu", "soc") else 3)))
    for mp, bkg in grids[1:(2 if q else None)]:
        for irr in (False, True):
            out.append(Case(f"npz bkvec/chk/win mp_grid={mp} irreducible={irr}", case_npz_bkvec_chk, dict(mp_grid=mp, bk_grid=bkg, irr=irr)))
    for irr in (False, True):
        out.append(Case(f"WannierData npz container irreducible={irr}", case_container_npz, dict(NB=2, irr=irr)))
    return out


# ---------------------------------------------------------------------------------------------------- replay
def replay(rec):
    """real files in a scratch directory, unshadowed code, concrete doubles"""
    import tempfile, shutil, warnings
    from symx.harness import unarr
    warnings.simplefilter("ignore")
    w = rec["witness"]
    tmp = tempfile.mkdtemp(prefix="c19_")
    seed = os.path.join(tmp, "x")

    def fill(a, cplx):
        a = np.array(a, dtype=complex if cplx else float)
        if np.abs(a).max() == 0:
            r = np.random.default_rng(1)
            a = a + r.uniform(-1, 1, a.shape) + (1j * r.uniform(-1, 1, a.shape) if cplx else 0)
        return a

    def cmp(got, want, absdig):
        got, want = np.asarray(got), np.asarray(want)
        if got.shape != want.shape:
            return np.inf
        tol = (0.5 * 10.0 ** -absdig if absdig else 0.0) * (1 + 1e-6) + 4e-16 * np.abs(want)
        ex = np.maximum(np.abs(got.real - want.real), np.abs(got.imag - want.imag)) - tol
        return float(ex.max())
    try:
        try:
            if w["kind"] == "eig":
                E = fill(unarr(w["data"]), False)
                M_EIG.EIG(data=list(E)).to_w90_file(seed)
                b = M_EIG.EIG.from_w90_file(seed)
                ex = cmp([b.data[i] for i in range(len(E))], E, 12)
                return ex > 0, f"EIG NK={E.shape[0]} NB={E.shape[1]} data={E.tolist()}: excess over 0.5e-12 = {ex:.3e}"
            if w["kind"] == "amn":
                A = fill(unarr(w["data"]), True)
                M_AMN.AMN(data=list(A)).to_w90_file(seed)
                b = M_AMN.AMN.from_w90_file(seed, npar=1)
                ex = cmp([b.data[i] for i in range(len(A))], A, 12)
                return ex > 0, f"AMN shape={A.shape}: excess over 0.5e-12 = {ex:.3e}; written[0]={A[0].tolist()} read[0]={np.asarray(b.data[0]).tolist()}"
            if w["kind"] == "mmn":
                M = fill(unarr(w["data"]), True)
                bk = make_bkvec(tuple(w["mp_grid"]), [tuple(b) for b in w["bk_grid"]])
                mmn_write(M_MMN.MMN(data=list(M)), seed, bk)
                b = M_MMN.MMN.from_w90_file(seed, bkvec=bk, npar=w.get("npar") or 1)
                ex = cmp([b.data[i] for i in range(len(M))], M, 0)
                return ex > 0, f"MMN shape={M.shape} npar={w.get('npar')} mp_grid={w['mp_grid']}: excess = {ex:.3e}; written[0,0]={M[0, 0].tolist()} read[0,0]={np.asarray(b.data[0][0]).tolist()}"
            if w["kind"] == "mmn_reordered":
                M = fill(unarr(w["data"]), True)
                bk = make_bkvec(tuple(w["mp_grid"]), [tuple(b) for b in w["bk_grid"]])
                perms = [pm if sorted(pm) == list(range(len(pm))) else list(range(len(pm)))[::-1] for pm in w["perms"]]
                order = perms if w.get("independent") else orders_from_perm(perms[0], len(M))
                write_mmn_by_hand(open, os.path.join(tmp, "src"), list(M), bk, order, fmt=lambda x, spec: repr(float(x)))
                mmn = M_MMN.MMN.from_w90_file(os.path.join(tmp, "src"), bkvec=bk, npar=1)
                ex0 = cmp([mmn.data[i] for i in range(len(M))], M, 0)
                mmn_write(mmn, seed, bk)
                b = M_MMN.MMN.from_w90_file(seed, bkvec=bk, npar=1)
                ex = cmp([b.data[i] for i in range(len(M))], M, 0)
                return ex > 0 or ex0 > 0, (f"MMN read from a file listing the neighbours in order {order} (bk_reorder={ {k: list(map(int, v)) for k, v in mmn.bk_reorder.items()} }), "
                                           f"then written and read back: reader excess {ex0:.2e}, write->read excess {ex:.3e}")
            if w["kind"] == "container_text":
                E, A, M = fill(unarr(w["E"]), False), fill(unarr(w["A"]), True), fill(unarr(w["M"]), True)
                bk = make_bkvec((2, 1, 1), [(1, 0, 0), (-1, 0, 0)])
                wd = M_WD.WannierData()
                wd.set_file("bkvec", bk)
                wd.set_file("eig", M_EIG.EIG(data=list(E)))
                wd.set_file("amn", M_AMN.AMN(data=list(A)))
                wd.set_file("mmn", M_MMN.MMN(data=list(M)))
                wd.write(seed, files=["eig", "amn", "mmn"])
                e, a, m = M_EIG.EIG.from_w90_file(seed), M_AMN.AMN.from_w90_file(seed, npar=1), M_MMN.MMN.from_w90_file(seed, bkvec=bk, npar=1)
                ex = max(cmp([e.data[i] for i in range(2)], E, 12), cmp([a.data[i] for i in range(2)], A, 12), cmp([m.data[i] for i in range(2)], M, 0))
                return ex > 0, f"WannierData.write/read eig+amn+mmn: excess = {ex:.3e}"
            if w["kind"] == "npz":
                return _replay_npz(w, seed)
        except (KeyError, AttributeError, ValueError, AssertionError, TypeError, IndexError, FileNotFoundError, RuntimeError) as e:
            import traceback
            if not any("wannierberri" in fr.filename for fr in traceback.extract_tb(e.__traceback__)):
                raise          # an error of this replay code, not of the code under test
            return True, f"{w['kind']} {({k: v for k, v in w.items() if k not in ('data', 'E', 'A', 'M')})}: raises {type(e).__name__}: {e} [{traceback.format_exc().strip().splitlines()[-3].strip()}]"
    finally:
        shutil.rmtree(tmp, ignore_errors=True)
    raise ValueError(w["kind"])


def _replay_npz(w, seed):
    def differs(obj, back, attrs):
        bad = []
        for at in attrs:
            ok, pairs = same_value(getattr(obj, at, None), getattr(back, at, None))
            if not ok or any(not np.array_equal(x, y) for x, y in pairs):
                bad.append(at)
        if type(obj) is not type(back):
            bad.append("<class>")
        if hasattr(obj, "equals") and hasattr(obj, "data") and not obj.equals(back)[0]:
            bad.append("<equals>")
        return bad
    f = w["file"]
    if f == "container":
        bk = make_bkvec((2, 1, 1), [(1, 0, 0), (-1, 0, 0)])
        keys = [0] if w["irr"] else [0, 1]
        if w["irr"]:
            bk = M_BK.BKVectors(recip_lattice=bk.recip_lattice, mp_grid=bk.mp_grid, wk=bk.wk, bk_grid=bk.bk_grid, G=subdict(bk.G, keys), neighbours=subdict(bk.neighbours, keys),
                                kpt_grid=bk.kpt_grid, kptirr=keys)
        objs = {k.rstrip("+"): build(k, 2, keys, w["NB"], 2, 2, sym=False) for k in ["eig", "amn+", "mmn+", "spn", "uhu", "uiu", "shu", "siu", "unk"]}
        chk = M_CHK.CheckPoint(real_lattice=np.eye(3) * 2.0, num_wann=2, num_bands=w["NB"], num_kpts=2, kpt_red=bk.kpt_red, mp_grid=(2, 1, 1))
        wd = M_WD.WannierData()
        wd.set_file("chk", chk)
        wd.set_file("bkvec", bk)
        for k, (o, _) in objs.items():
            wd.set_file(k, o)
        wd.to_npz(seed)
        wb = M_WD.WannierData.from_npz(seed, files=list(wd._files.keys()), ignore_missing_files=False)
        bad = [k for k in wd._files if k not in wb._files]
        bad += [f"{k}.{a}" for k, (o, attrs) in objs.items() if k in wb._files for a in differs(o, wb.get_file(k), attrs)]
        if wb.irreducible != w["irr"]:
            bad.append("irreducible")
        return bool(bad), f"WannierData npz round trip (irreducible={w['irr']}): differing {bad}"
    if f == "bkvec/chk":
        bad = []

        def report(label, o, b, attrs):
            bad.extend(f"{label}.{a}" for a in differs(o, b, attrs))
        ok, msg = roundtrip_bkchk(*build_bkchk(tuple(w["mp_grid"]), [tuple(b) for b in w["bk_grid"]], w["irr"], sym=False), seed, report)
        if not ok:
            bad.append("win.data " + msg)
        return bool(bad), f"bkvec/chk/win npz round trip mp_grid={w['mp_grid']} irreducible={w['irr']}: differing {bad}"
    obj, attrs = build(f, w["NK"], w["keys"], w["NB"], sym=False, as_list=w.get("as_list", False))
    obj.to_npz(seed + "." + f)
    back = type(obj).from_npz(seed + "." + f + ".npz")
    bad = differs(obj, back, attrs) + ([] if (obj.NK, sorted(obj.data)) == (w["NK"], w["keys"]) else ["<constructor: NK / k-point indices>"])
    return bool(bad), f"{f} NK={w['NK']} stored k-points {w['keys']}: attributes differing after npz round trip: {bad}"
