"""C14 — tetrahedron weights equal the exact linear-tetrahedron volume fractions"""
import itertools
from fractions import Fraction as Fr
import numpy as np
from symx.core import *
from symx.core import z3
from symx.npproxy import NpProxy, shadow
from symx.harness import Case
import symx.harness  # noqa
import wannierberri.grid.tetrahedron as T

PROPERTY = "C14"
FUNCTIONS = ["wannierberri.grid.tetrahedron.weights_tetra (py_func of the njit kernel; replay through the compiled kernel)",
             "TetraWeights.__init__/weights_all_band_groups/weight_1k1b", "TetraWeightsParal.weight_1k1b_priv",
             "get_bands_in_range/get_bands_below_range/get_bands_above_range (as called by weights_all_band_groups)"]
BOUNDS = dict(quick=dict(corners="4 symbolic reals, all 24 input orders (der=0 accurate branch) / 6 orders (polynomial branch) / 4 orders (der 1..3), coincident and nearly coincident corners included "
                         "(the code's own 1e-12 regularisation forks)", fermi="1 symbolic Fermi level per call (2 in the band-group cases)", der="0..3, accurate and polynomial branch",
                         groups="nb=2 bands x 1 k-point, degen_thresh symbolic", parallelepiped="centre + 8 corners totally ordered (3 centre positions), 12 tetrahedra"),
              thorough=dict(corners="all 24 orders for every der", fermi="as quick", der="0..3", groups="nb=2 (nb=3 did not finish within 50 min and is outside the claim)", parallelepiped="5 centre positions, 2 corner orders"))
EXPLANATION = ("weights_tetra runs on symbolic corner energies and Fermi level; each feasible (order, regularisation, Fermi-branch) combination is a path on which z3 decides "
               "value == B-spline closed form F^(der)(ef) = sum_{e_i<=ef} c (ef-e_i)^(3-der) / prod_{j!=i}(e_j-e_i) of the regularised corners, 0<=w<=1 and w'>=0; "
               "band-group weights and the 12-tetrahedra average are compared with sums of that closed form.")
ASSUMPTIONS = ["energies within [-8, 8] (keeps the regularisation constant 1e-12 meaningful)",
               "composition cases: no Fermi level exactly on a corner energy (ties are decided in the kernel cases and in the concrete-corner cases)",
               "band-group / parallelepiped cases: corners pairwise at least 1e-6 apart and in a fixed total order per case (the order-independence is decided in the weights_tetra cases)",
               "for exactly coincident corners the claim is 'equals F of the corners after the code's 1e-12 regularisation' (differs from the unregularised step only on an interval of length 3e-12)"]
OUTSIDE = ["IEEE rounding of the cubic for nearly coincident corners (real-number semantics only)", "more than 3 bands / more than one k-point in the group cases",
           "numba compiles py_func faithfully (discharged in replay only)"]
STUBS = ["tetrahedron.weights_tetra -> its own .py_func (so that the kernel's Python source is what is executed)",
         "composition cases (band groups, 12 tetrahedra): weights_tetra abstracted as an uninterpreted symmetric function of (corner set, ef, der) with the contract facts 1 above / 0 below all corners; symmetry and these facts are what the kernel cases decide"]
QUERY_TIMEOUT_MS = dict(quick=20000, thorough=120000)

CK = {0: 1, 1: 3, 2: 6, 3: 6}


def oracle(es, ef, der):
    """F^(der)(ef) for sorted regularised corners es (SymC), right-continuous at the knots; forks on ef vs corners"""
    tot = SymC.of(0)
    for i in range(4):
        if bool(es[i] <= ef):
            den = SymC.of(1)
            for j in range(4):
                if j != i:
                    den = den * (es[j] - es[i])
            tot = tot + SymC.of(CK[der]) * (ef - es[i]) ** (3 - der) / den
    return tot


def regularised(E):
    """sorted + the code's own regularisation, re-stated (forks)"""
    idx = list(range(4))
    # insertion sort with forks
    es = []
    for x in E:
        k = 0
        while k < len(es) and bool(es[k] <= x):
            k += 1
        es.insert(k, x)
    regularised.hit = False
    for i in range(3):
        if bool(es[i + 1] - es[i] < SymC.of(1e-12)):
            es[i + 1] = es[i] + SymC.of(1e-12)
            regularised.hit = True
    return es


def box(vars_, lim=8):
    out = []
    for v in vars_:
        out += [v.zreal() >= -lim, v.zreal() <= lim]
    return out


def case_kernel(rec, der, accurate, perm):
    shadow([T])
    pyf = T.weights_tetra.py_func
    s = symvec("e", (4,))          # s[0] <= s[1] <= s[2] <= s[3]; the kernel gets them in the order perm
    ef = SymC.var("ef")
    ass = [s[i].zreal() <= s[i + 1].zreal() for i in range(3)] + box(list(s) + [ef])
    args = [s[p] for p in perm]

    def body(rec):
        rec.witness = lambda env: dict(test="kernel", e=[env.val(a) for a in args], ef=env.val(ef), der=der, accurate=accurate)
        occ = pyf(sarr([ef]), args[0], args[1], args[2], args[3], der=der, accurate=accurate)
        w = SymC.of(occ[0])
        es = regularised(list(args))
        want = oracle(es, ef, der)
        rec.eq(f"weights_tetra(der={der}) == F^({der}) of the regularised corners", w, want, key=f"weights_tetra der={der} accurate={accurate} differs from the linear-tetrahedron closed form")
        if regularised.hit:
            # w == F(es') was just decided with es' = regularised corners (gaps >= 1e-12): range / sign follow by instantiating the
            # facts decided on the generic paths, where the corners are free subject to exactly that gap condition
            rec.note("range and sign facts on regularised paths follow from the identity with F plus the same facts on the generic paths (both decided by z3)")
        elif der == 0:
            rec.fact("0 <= w <= 1", (w >= 0) & (w <= 1), key=f"weights_tetra der=0 accurate={accurate} outside [0,1]")
        elif der == 1:
            rec.fact("dw/dE >= 0 (non-decreasing)", w >= 0, key="weights_tetra der=1 negative")
    rec.explore(body, ass)


class KernelStub:
    """abstract weights_tetra for the composition cases: an uninterpreted symmetric function of (corner set, ef, der), with the two
    contract facts decided in the kernel cases built in: value 1 (der=0) / 0 (der>0) above all corners, 0 below all corners."""

    def __init__(s):
        s.calls = []
        s.atoms = {}

    def __call__(s, efall, e0, e1, e2, e3, der=0, accurate=True):
        es = [SymC.of(x) for x in (e0, e1, e2, e3)]
        key_e = tuple(sorted(x.key() for x in es))
        out = []
        for ef in np.asarray(efall, dtype=object).flat:
            ef = SymC.of(ef)
            s.calls.append((key_e, ef.key(), der))
            if all(bool(x <= ef) for x in es):
                out.append(SymC.of(1 if der == 0 else 0))
            elif all(bool(x > ef) for x in es):
                out.append(SymC.of(0))
            else:
                k = (key_e, ef.key(), der)
                if k not in s.atoms:
                    s.atoms[k] = SymC.var(f"W{len(s.atoms)}_d{der}")
                out.append(s.atoms[k])
        return sarr(out)


def case_groups(rec, nb, der, kram=False):
    """TetraWeights.weights_all_band_groups with the kernel abstracted: sum over groups of weight*size == sum over bands of the kernel value
    (sea completion included: bands entirely below the first Fermi level count 1 without a kernel call)"""
    shadow([T])
    cen = symvec("c", (1, nb))
    cor = symvec("k", (1, 4, nb))
    ef = symvec("f", (2,))
    thr = SymC.var("thr")
    ass = box(list(cen.flat) + list(cor.flat) + list(ef)) + [thr.zreal() > 0, ef[0].zreal() < ef[1].zreal()]
    for b in range(nb):
        for i in range(3):
            ass.append(cor[0, i, b].zreal() + 1e-6 <= cor[0, i + 1, b].zreal())
        # the centre energy lies within the corner range (linear interpolation inside the tetrahedron)
        ass += [cen[0, b].zreal() > cor[0, 0, b].zreal(), cen[0, b].zreal() < cor[0, 3, b].zreal()]
        for j in range(2):
            ass += [ef[j].zreal() != cor[0, i, b].zreal() for i in range(4)]
    for b in range(nb - 1):
        ass.append(cen[0, b].zreal() <= cen[0, b + 1].zreal())
        for i in range(4):
            ass.append(cor[0, i, b].zreal() <= cor[0, i, b + 1].zreal())

    def body(rec):
        rec.witness = lambda env: dict(test="groups", nb=nb, der=der, cen=env.val(cen), cor=env.val(cor), ef=env.val(ef), thr=env.val(thr))
        K = T.weights_tetra = KernelStub()
        tw = T.TetraWeights(cen.copy(), cor.copy())
        res = tw.weights_all_band_groups(ef, der=der, degen_thresh=thr)[0]
        groups = sorted(res.keys())
        ok = all(0 <= a < b <= nb for a, b in groups) and all(g[1] <= h[0] for g, h in zip(groups, groups[1:]))
        rec.concrete("groups disjoint and ordered", ok, detail=str(groups), key="weights_all_band_groups groups overlap")
        K2 = KernelStub()
        K2.atoms = K.atoms
        for j in range(2):
            tot = SymC.of(0)
            for (a, b), w in res.items():
                tot = tot + SymC.of(w[j]) * (b - a)
            want = SymC.of(0)
            for b in range(nb):
                want = want + K2(sarr([ef[j]]), *[cor[0, i, b] for i in range(4)], der=der)[0]
            rec.eq(f"sum_groups weight*size == sum_bands kernel(der={der})(ef_{j})", tot, want, key=f"weights_all_band_groups der={der} total weight differs from the per-band weights")
            if der == 0:
                above = z3.And(*[_zb(cor[0, 3, b] <= ef[j]) for b in range(nb)])
                below = z3.And(*[_zb(cor[0, 0, b] > ef[j]) for b in range(nb)])
                rec.fact("cumulative weight = nb above all bands, 0 below", z3.And(z3.Implies(above, tot.zreal() == nb), z3.Implies(below, tot.zreal() == 0)),
                         key="tetrahedron cumulative weight not nb above / 0 below all bands")
    rec.explore(body, ass, maxpaths=60000)


def _zb(b):
    return b.t if isinstance(b, SymB) else z3.BoolVal(bool(b))


# the 12 tetrahedra of a parallelepiped: centre + the two triangles (00,01,11), (00,10,11) of each of the 6 faces
def twelve():
    out = []
    for axis in range(3):
        for side in (0, 1):
            def corner(u, v):
                c = [0, 0, 0]
                c[axis] = side
                o = [a for a in range(3) if a != axis]
                c[o[0]], c[o[1]] = u, v
                return tuple(c)
            out.append((corner(0, 0), corner(0, 1), corner(1, 1)))
            out.append((corner(0, 0), corner(1, 0), corner(1, 1)))
    return out


def case_paral(rec, der, cpos, rev):
    """TetraWeightsParal.weight_1k1b_priv with the kernel abstracted: mean over the 12 centre + face-triangle tetrahedra"""
    shadow([T])
    cor = symvec("k", (1, 2, 2, 2, 1))
    cen = symvec("c", (1, 1))
    ef = SymC.var("ef")
    flat = [cor[0, i, j, k, 0] for i in (0, 1) for j in (0, 1) for k in (0, 1)]
    if rev:
        flat = flat[::-1]
    order = flat[:cpos] + [cen[0, 0]] + flat[cpos:]
    ass = box(order + [ef]) + [order[i].zreal() + 1e-6 <= order[i + 1].zreal() for i in range(8)] + [z3.And(*[ef.zreal() != x.zreal() for x in order])]

    def body(rec):
        rec.witness = lambda env: dict(test="paral", der=der, cen=env.val(cen), cor=env.val(cor), ef=env.val(ef))
        K = T.weights_tetra = KernelStub()
        tw = T.TetraWeightsParal(cen.copy(), cor.copy())
        got = SymC.of(tw.weight_1k1b_priv(sarr([ef]), 0, 0, der)[0])
        K2 = KernelStub()
        K2.atoms = K.atoms
        want = SymC.of(0)
        for tri in twelve():
            want = want + K2(sarr([ef]), cen[0, 0], *[cor[(0,) + c + (0,)] for c in tri], der=der)[0]
        want = want / 12
        rec.eq("parallelepiped weight == mean over the 12 centre-face-triangle tetrahedra", got, want, key=f"TetraWeightsParal der={der} differs from the 12-tetrahedra average")
        rec.concrete("12 kernel calls", len(K.calls) == 12, detail=str(len(K.calls)), key="TetraWeightsParal does not evaluate 12 tetrahedra")
    rec.explore(body, ass)


def case_paral_concrete(rec, der, seed):
    """end-to-end (real kernel source + real composition): concrete rational corner energies (some coincident), symbolic Fermi level"""
    shadow([T])
    T.weights_tetra = T.weights_tetra.py_func
    rng = np.random.RandomState(1000 + seed)
    vals = rng.randint(-6, 7, size=9) / 4.0
    if seed % 2:
        vals[3] = vals[5]          # coincident corners
    cor = lift(vals[:8].reshape(1, 2, 2, 2, 1))
    cen = lift(vals[8:].reshape(1, 1))
    ef = SymC.var("ef")
    ass = box([ef])

    def body(rec):
        rec.witness = lambda env: dict(test="paral", der=der, cen=vals[8:].reshape(1, 1), cor=vals[:8].reshape(1, 2, 2, 2, 1), ef=env.val(ef))
        tw = T.TetraWeightsParal(cen.copy(), cor.copy())
        got = SymC.of(tw.weight_1k1b_priv(sarr([ef]), 0, 0, der)[0])
        want = SymC.of(0)
        for tri in twelve():
            es = regularised([cen[0, 0]] + [cor[(0,) + c + (0,)] for c in tri])
            want = want + oracle(es, ef, der)
        want = want / 12
        rec.eq("parallelepiped weight (real kernel) == mean of the closed form over the 12 tetrahedra", got, want,
               key=f"TetraWeightsParal der={der} differs from the 12-tetrahedra average")
        if der == 0:
            rec.fact("0 <= w <= 1", (got >= 0) & (got <= 1), key="TetraWeightsParal weight outside [0,1]")
    rec.explore(body, ass)


def cases(tier, seed):
    out = []
    q = tier == "quick"
    perms = list(itertools.permutations(range(4)))
    few = [perms[0], perms[9], perms[17], perms[23]]
    for der in range(4):
        for acc in ((True, False) if der == 0 else (True,)):
            for p in (perms if ((der == 0 and acc) or not q) else (few + [perms[5], perms[14]] if der == 0 else few)):
                out.append(Case(f"kernel der={der} accurate={acc} order={p}", case_kernel, dict(der=der, accurate=acc, perm=p), timeout=600 if q else 1800))
    for der in ((0, 1) if q else (0, 1, 2)):
        out.append(Case(f"groups nb=2 der={der}", case_groups, dict(nb=2, der=der), timeout=900 if q else 2400))
    for der in ((0, 1) if q else (0, 1, 2, 3)):
        for cpos in ((0, 4, 8) if q else (0, 2, 4, 6, 8)):
            for rev in ((False,) if q else (False, True)):
                out.append(Case(f"paral der={der} centre_pos={cpos} rev={rev}", case_paral, dict(der=der, cpos=cpos, rev=rev), timeout=900 if q else 2400))
        for sd in ((0, 1) if q else range(6)):
            out.append(Case(f"paral concrete corners seed={seed + sd} der={der}", case_paral_concrete, dict(der=der, seed=seed + sd), timeout=900 if q else 2400))
    return out


# ------------------------------------------------------------------------------------------------------------
def fr_oracle(es, ef, der):
    es = sorted(Fr(x) for x in es)
    for i in range(3):
        if es[i + 1] - es[i] < Fr(1e-12):
            es[i + 1] = es[i] + Fr(1e-12)
    ef = Fr(ef)
    tot = Fr(0)
    for i in range(4):
        if es[i] <= ef:
            den = Fr(1)
            for j in range(4):
                if j != i:
                    den *= es[j] - es[i]
            tot += CK[der] * (ef - es[i]) ** (3 - der) / den
    return tot


def replay(rec):
    w = rec["witness"]
    if w["test"] == "kernel":
        e = [float(x) for x in w["e"]]
        ef = float(w["ef"])
        got = float(T.weights_tetra(np.array([ef]), e[0], e[1], e[2], e[3], der=w["der"], accurate=w["accurate"])[0])
        want = float(fr_oracle(e, ef, w["der"]))
        gaps = np.diff(sorted(e))
        scale = max(1.0, abs(want))
        cond = 1e-9 / max(min(gaps.min(), 1.0), 1e-12) ** (w["der"] + 1)
        bad = abs(got - want) > max(1e-9, min(cond, 1e-3)) * scale or (w["der"] == 0 and not (-1e-9 <= got <= 1 + 1e-9)) or (w["der"] == 1 and got < -1e-9 * scale)
        return bool(bad), f"weights_tetra(ef={ef}, e={e}, der={w['der']}, accurate={w['accurate']}) = {got!r}, closed form {want!r}"
    if w["test"] == "groups":
        cen, cor, ef = np.array(w["cen"], float), np.array(w["cor"], float), np.array(w["ef"], float)
        nb, der = w["nb"], w["der"]
        tw = T.TetraWeights(cen, cor)
        res = tw.weights_all_band_groups(ef, der=der, degen_thresh=w["thr"])[0]
        bad, msg = False, []
        for j in range(2):
            tot = sum(float(np.asarray(wt)[j]) * (b - a) for (a, b), wt in res.items())
            want = sum(float(fr_oracle(cor[0, :, b], ef[j], der)) for b in range(nb))
            msg.append(f"ef={ef[j]}: {tot} vs {want}")
            bad = bad or abs(tot - want) > 1e-6 * max(1, abs(want))
        return bool(bad), "; ".join(msg) + f" cen={cen.tolist()} cor={cor.tolist()} thr={w['thr']} groups={sorted(res)}"
    if w["test"] == "paral":
        cen, cor, ef = np.array(w["cen"], float), np.array(w["cor"], float), float(w["ef"])
        tw = T.TetraWeightsParal(cen, cor)
        got = float(tw.weight_1k1b_priv(np.array([ef]), 0, 0, w["der"])[0])
        want = float(sum(fr_oracle([cen[0, 0]] + [cor[(0,) + c + (0,)] for c in tri], ef, w["der"]) for tri in twelve()) / 12)
        bad = abs(got - want) > 1e-6 * max(1, abs(want))
        return bool(bad), f"paral der={w['der']} ef={ef}: {got} vs 12-tetra mean {want}; cen={cen.tolist()} cor={cor.ravel().tolist()}"
    raise ValueError(w["test"])
