"""C16 — result objects behave as vectors and survive saving"""
import os, itertools, tempfile, traceback, functools, operator
import numpy as np
from symx.core import *
from symx.core import z3
from symx.npproxy import NpProxy, shadow
from symx.harness import Case, unarr
import symx.harness  # noqa (puts the repo on sys.path)
import wannierberri.result.result as RR, wannierberri.result.energyresult as ER, wannierberri.result.kbandresult as KB
import wannierberri.result.resultdict as RD, wannierberri.symmetry.point_symmetry as PS

PROPERTY = "C16"
FUNCTIONS = ["EnergyResult.__add__/__sub__/__mul__/__rmul__/__truediv__/mul_array/add/transform/as_dict/from_npz", "Result.save", "VoidResult.*",
             "K__Result.__add__/add/__sub__/__mul__/mul_array/transform (KBandResult)", "ResultDict.__add__/__sub__/__mul__/__truediv__/transform",
             "PointSymmetry.transform_tensor", "Transform.__call__/as_dict", "transform_from_dict"]
BOUNDS = dict(quick=dict(energy_axes="1..2 (lengths 2,3)", rank="0..2", nk="1..2 per operand", nb="1..2", data="symbolic complex", energies="symbolic reals",
                         scalar="symbolic real (!=0 for division), ints 2,-1", symmetry="symbolic real 3x3 matrix R x (TR,Inv) in {F,T}^2",
                         transforms="factor +-1, conj, transpose_axes, swap_axes (pairs enumerated per rank)"),
              thorough=dict(energy_axes="0..4 (lengths up to 7; 5x4, 4x3, 3x2x2, 2x2x2x2; 0 axes only with rank >= 1)", rank="0..4 (rank 4 with its own transposes)",
                            nk="1..6 per operand (6+5 stacked)", nb="1..4", data="symbolic complex", energies="symbolic reals",
                            scalar="two symbolic reals (!=0 when dividing), python ints 2,-1,4, floats 0.5, numpy float64 1.5/0.25", symmetry="up to three different symbolic 3x3 matrices with "
                            "enumerated (TR,Inv) flags: single operations, compositions g2(g1(a)), PointGroup.symmetrize over 2 and 4 operations",
                            transforms="as quick + rank-3/rank-4 transposes and swaps",
                            expressions="(a*lam + b*2 - c/mu)*0.5 + Void - (b-a)*(-1) + 0, sum([..],Void)/4, Void inside longer expressions, k-stacks of three scaled K results, "
                            "ResultDict nested in ResultDict ((r1+r2)*lam + r1*2), symmetrize of nested dictionaries"))
EXPLANATION = ("The real result classes run on object arrays of symbolic complex data, symbolic energies, a symbolic real scalar and a symmetry operation whose 3x3 "
               "matrix is symbolic; every law (element-wise +,-,*,/, mul_array, in-place add, Void neutrality, k-stacking of K__Result, "
               "transform == own index-level statement of rotation+Transform, transform distributes over +) is a polynomial identity decided by z3. "
               "save->from_npz runs through an in-memory npz model and every field (energies, data, rank, each Transform field, comment, titles) is compared.  "
               "The thorough tier adds longer expressions with mixed int/float/numpy-float/symbolic scalars, nested dictionaries, compositions of two transformations and "
               "PointGroup.symmetrize (average over 2 and 4 symbolic operations), each compared entry-wise with the expression written on the raw arrays.")
ASSUMPTIONS = ["scalar != 0 for division", "operands of + share Energies/transforms (documented precondition; enforced by the code's asserts)",
               "K__Result.add: both operands have the same chunk layout (data_list)",
               "when a symmetry has both TR and Inv the two Transforms commute (pairs are chosen so)"]
OUTSIDE = ["K__Result.__truediv__ returns a copy by design (K-point weights do not scale tabulated values) - nothing demanded",
           "ResultDict.__sub__ on K__Result entries (k-stacks a and -b because K__Result.__add__ stacks) and ResultDict + VoidResult as right operand "
           "(AttributeError) are never formed by the package; not demanded, noted",
           "scaling by numpy scalar types (EnergyResult.__mul__ accepts only python int/float)", "saving a result whose transforms are None",
           "compression/pickle layer of numpy's npz itself (replay uses the real np.savez_compressed/np.load)", "text output (savetxt)",
           "TABresult arithmetic (C30)", "sizes above the stated bounds",
           "0 + KBandResult / sum() / PointGroup.symmetrize of a bare K result (AttributeError in K__Result.fit): the package sums K results only inside TABresult, which handles 0 itself - noted",
           "EnergyResult without energy axes AND rank 0 (0-d data): Transform.__call__ does res[:] and raises IndexError under TR/Inv; the class docstring marks energy-free "
           "results as untested ('does it work?') - observation, not claimed (energy-free results of rank >= 1 are covered in the thorough tier)"]
STUBS = ["np.savez_compressed / np.load / open / os.path.isfile in result.result and result.energyresult: in-memory store, load returns what was saved "
         "(arrays as arrays, python objects as 0-d object arrays, object arrays need allow_pickle=True)",
         "isinstance in result.energyresult: a symbolic real scalar counts as python float",
         "PointSymmetry built with object.__new__ (R symbolic; __init__ would call det)"]


# ------------------------------------------------------------------------------------------------------------
class MemStore:
    """in-memory model of open/np.savez_compressed/np.load"""

    def __init__(s):
        s.files = {}

    class F:
        def __init__(s, name, mode):
            s.name, s.mode = name, mode
        def __enter__(s): return s
        def __exit__(s, *a): return False
        def close(s): pass

    def open(s, name, mode="r"):
        if "r" in mode and name not in s.files:
            raise FileNotFoundError(name)
        return MemStore.F(name, mode)

    def isfile(s, name):
        return name in s.files

    @staticmethod
    def _arr(v):
        if isinstance(v, np.ndarray):
            return v.copy()
        if isinstance(v, (dict, type(None))):
            a = np.empty((), dtype=object)
            a[()] = v
            return a
        return np.asanyarray(v)

    def savez(s, f, **kw):
        s.files[getattr(f, "name", f)] = {k: s._arr(v) for k, v in kw.items()}

    def load(s, f, allow_pickle=False):
        d = s.files[getattr(f, "name", f)]
        for k, v in d.items():
            if v.dtype == object and not allow_pickle and not all(isinstance(x, SymC) for x in v.flat):
                raise ValueError("Object arrays cannot be loaded when allow_pickle=False")
        return {k: v.copy() for k, v in d.items()}


class Np(NpProxy):
    def __init__(s, store):
        super().__init__()
        s._store = store

    def savez_compressed(s, f, **kw):
        return s._store.savez(f, **kw)

    def load(s, f, allow_pickle=False, **kw):
        return s._store.load(f, allow_pickle)


def _isinstance(x, t):
    if isinstance(x, SymC) and t in (int, float):
        return t is float
    return isinstance(x, t)


def install():
    store = MemStore()
    class _os:
        class path:
            isfile = staticmethod(store.isfile)
    npx = Np(store)
    shadow([RR, ER, KB, RD, PS], proxy=npx)
    shadow([RR, ER], proxy=npx, open=store.open)
    shadow([ER], proxy=npx, isinstance=_isinstance, os=_os)
    return store


# ---- checkers: the same law text runs symbolically (z3) and concretely (replay) ------------------------------
class SymCk:
    sym = True

    def __init__(s, rec):
        s.rec = rec

    def eq(s, name, l, r, key):
        if np.shape(l) != np.shape(r):
            return s.rec.concrete(name, False, f"shape {np.shape(l)} vs {np.shape(r)}", key=key)
        return s.rec.eq(name, l, r, key=key)

    def ok(s, name, cond, key, detail=""):
        return s.rec.concrete(name, bool(cond), detail, key=key)


class NumCk:
    sym = False

    def __init__(s):
        s.bad = []

    def eq(s, name, l, r, key):
        l, r = np.asarray(l), np.asarray(r)
        if l.shape != r.shape or not np.allclose(l, r, rtol=1e-9, atol=1e-9 * (1 + (np.abs(r).max() if r.size else 0))):
            s.bad.append(name)

    def ok(s, name, cond, key, detail=""):
        if not cond:
            s.bad.append(f"{name} {detail}")


# ---- own statements (oracles) ----------------------------------------------------------------------------
def mkT(d):
    return PS.Transform(factor=d.get("factor", 1), conj=d.get("conj", False),
                        transpose_axes=None if d.get("transpose_axes") is None else tuple(d["transpose_axes"]),
                        swap_axes=None if d.get("swap_axes") is None else tuple(d["swap_axes"]))


def oracle_T(d, X):
    """Transform by index: transpose_axes permutes the last len(t) axes, swap_axes swaps two axes, then conj, then factor"""
    X = np.asarray(X)
    Y = np.empty(X.shape, dtype=X.dtype)
    ta, sw = d.get("transpose_axes"), d.get("swap_axes")
    for idx in np.ndindex(*X.shape):
        src = list(idx)
        if ta is not None:
            d0 = X.ndim - len(ta)
            for k, t in enumerate(ta):
                src[d0 + t] = idx[d0 + k]
        elif sw is not None:
            a, b = sw
            src[a], src[b] = idx[b], idx[a]
        v = X[tuple(src)]
        if d.get("conj", False):
            v = v.conjugate()
        Y[idx] = v * d.get("factor", 1)
    return Y


def oracle_transform(X, rank, R, TR, Inv, dTR, dInv):
    """X'[...,a,b,..] = sum R[a,a'] R[b,b'] .. X[...,a',b',..]; then transformTR if TR; then transformInv if Inv"""
    Y = np.asarray(X)
    for ax in range(Y.ndim - rank, Y.ndim):
        Y = np.moveaxis(np.tensordot(np.asarray(R), Y, axes=(1, ax)), 0, ax)
    if TR:
        Y = oracle_T(dTR, Y)
    if Inv:
        Y = oracle_T(dInv, Y)
    return Y


def mksym(R, TR, Inv):
    g = object.__new__(PS.PointSymmetry)
    g.R, g.TR, g.Inv, g.iTR, g.iInv = R, TR, Inv, (-1 if TR else 1), (-1 if Inv else 1)
    return g


SYMOPS = [(False, False), (True, False), (False, True), (True, True)]


def same_T(ck, name, got, d, key):
    want = mkT(d)
    for f in ("factor", "conj", "transpose_axes", "swap_axes"):
        g = getattr(got, f, "<missing>")
        ck.ok(f"{name}.{f}", type(got) is PS.Transform and g == getattr(want, f) and type(g) is type(getattr(want, f)), key,
              f"got {g!r} want {getattr(want, f)!r}")


# ---- laws -------------------------------------------------------------------------------------------------
def laws_energy(ck, P, X):
    NEs, rank, dTR, dInv = P["NEs"], P["rank"], P["tTR"], P["tInv"]
    A, B, lam, R, En = X["A"], X["B"], X["lam"], X["R"], [X[f"E{i}"] for i in range(len(NEs))]
    A0, B0 = A.copy(), B.copy()
    tTR, tInv = mkT(dTR), mkT(dInv)
    mk = lambda D, c="c": ER.EnergyResult(En if len(NEs) != 1 else En[0], D, transformTR=tTR, transformInv=tInv, rank=rank, comment=c, save_mode="bin")
    a, b = mk(A, "a"), mk(B, "bb")
    K = "EnergyResult."

    def meta(name, r):
        ck.ok(name + ": energies/rank/transforms kept", isinstance(r, ER.EnergyResult) and len(r.Energies) == len(NEs) and all(x is y for x, y in zip(r.Energies, a.Energies))
              and r.rank == rank and r.transformTR is tTR and r.transformInv is tInv and r.N_energies == len(NEs), K + name + " loses metadata")
    s = a + b
    ck.eq("(a+b).data == a.data+b.data", s.data, A0 + B0, K + "__add__ not element-wise"); meta("__add__", s)
    ck.eq("(a-b).data == a.data-b.data", (a - b).data, A0 - B0, K + "__sub__ not element-wise"); meta("__sub__", a - b)
    ck.eq("(a*lam).data == lam*a.data", (a * lam).data, A0 * lam, K + "__mul__ not element-wise"); meta("__mul__", a * lam)
    ck.eq("(lam*a).data == lam*a.data", (lam * a).data, A0 * lam, K + "__rmul__ not element-wise")
    ck.eq("(a*2).data, (a*-1).data", np.stack([(a * 2).data, (a * (-1)).data]), np.stack([A0 * 2, -A0]), K + "__mul__ by int not element-wise")
    ck.eq("(a/lam).data == a.data/lam", (a / lam).data, A0 / lam, K + "__truediv__ not element-wise"); meta("__truediv__", a / lam)
    # mul_array along energy axes
    for axes, nm in [(0, "M0"), (None, "M0")] + ([((0, 1), "M01"), (1, "M1"), ((1,), "M1")] if len(NEs) >= 2 else []):
        if len(NEs) == 0:
            break
        M = X[nm]
        ax = (axes,) if isinstance(axes, int) else (tuple(range(M.ndim)) if axes is None else axes)
        shp = tuple(A0.shape[i] if i in ax else 1 for i in range(A0.ndim))
        r = a.mul_array(M, axes=axes)
        ck.eq(f"mul_array(axes={axes})", r.data, A0 * np.asarray(M).reshape(shp), K + f"mul_array axes={axes} wrong")
        meta("mul_array", r)
    c = mk(A.copy())
    c.add(b)
    ck.eq("a.add(b): a.data == A+B", c.data, A0 + B0, K + "add not element-wise")
    # void
    V = RR.VoidResult()
    for nm, r, want in [("a+Void", a + V, A0), ("Void+a", V + a, A0), ("a-Void", a - V, A0), ("Void-a", V - a, -A0), ("a+0", a + 0, A0), ("0+a", 0 + a, A0),
                        ("a+None", a + None, A0), ("sum([a,b],Void)", sum([a, b], RR.VoidResult()), A0 + B0), ("Void*lam+a", V * lam + a, A0), ("Void/lam+a", V / lam + a, A0)]:
        ck.ok(nm + " is an EnergyResult", isinstance(r, ER.EnergyResult), "VoidResult not neutral for " + nm, str(type(r)))
        if isinstance(r, ER.EnergyResult):
            ck.eq(nm, r.data, want, "VoidResult not neutral for " + nm)
    ck.ok("Void+Void, Void*lam are Void", isinstance(V + RR.VoidResult(), RR.VoidResult) and isinstance(V * lam, RR.VoidResult) and isinstance(V.transform(None), RR.VoidResult),
          "VoidResult arithmetic leaves VoidResult")
    # symmetry transformation
    for TR, Inv in SYMOPS:
        g = mksym(R, TR, Inv)
        ta, tb = a.transform(g), b.transform(g)
        tag = f"TR={TR} Inv={Inv}"
        ck.eq(f"transform == rotation + Transform by index [{tag}]", ta.data, oracle_transform(A0, rank, R, TR, Inv, dTR, dInv), K + f"transform differs from index statement [{tag}]")
        meta("transform", ta)
        ck.eq(f"transform(a+b) == transform(a)+transform(b) [{tag}]", s.transform(g).data, ta.data + tb.data, K + f"transform does not distribute over + [{tag}]")
        ck.eq(f"transform(lam*a) == lam*transform(a) [{tag}]", (a * lam).transform(g).data, ta.data * lam, K + f"transform does not commute with scaling [{tag}]")
    ck.eq("operands unchanged by +,-,*,/,mul_array,transform", np.stack([a.data, b.data]), np.stack([A0, B0]), K + "arithmetic mutates an operand")


def laws_save(ck, P, X, store=None):
    NEs, rank, dTR, dInv = P["NEs"], P["rank"], P["tTR"], P["tInv"]
    A, R, En = X["A"], X["R"], [X[f"E{i}"] for i in range(len(NEs))]
    comment = P["comment"]
    titles = ["Ef", "hw", "third", "fourth"][:len(NEs)]
    a = ER.EnergyResult(En, A.copy(), transformTR=mkT(dTR), transformInv=mkT(dInv), rank=rank, comment=comment, E_titles=titles, save_mode="bin")
    K = "EnergyResult save/from_npz: "
    if store is None:      # replay: the real file system and the real numpy
        tmp = tempfile.mkdtemp()
        name = os.path.join(tmp, "res{}")
        a.save(name)
        fname = os.path.join(tmp, "res.npz")
    else:
        name = "mem/res{}"
        a.save(name)
        fname = "mem/res.npz"
    ck.ok("file <name>.npz written", os.path.isfile(fname) if store is None else store.isfile(fname), K + "file not written")
    b = ER.EnergyResult.from_npz(fname)
    ck.ok("loaded object is an EnergyResult", type(b) is ER.EnergyResult, K + "wrong type", str(type(b)))
    if type(b) is not ER.EnergyResult:
        return
    ck.ok("number of energy axes", b.N_energies == len(NEs) and len(b.Energies) == len(NEs), K + "number of energies differs")
    for i in range(min(len(NEs), len(b.Energies))):
        ck.eq(f"Energies[{i}]", b.Energies[i], En[i], K + "energies differ")
    ck.eq("data", b.data, A, K + "data differ")
    ck.ok("rank", int(b.rank) == rank, K + "rank differs", f"{b.rank!r} vs {rank}")
    same_T(ck, "transformTR", b.transformTR, dTR, K + "transformTR differs")
    same_T(ck, "transformInv", b.transformInv, dInv, K + "transformInv differs")
    ck.ok("comment", b.comment == comment and type(b.comment) is str, K + "comment differs", f"{b.comment!r}")
    ck.ok("E_titles", list(map(str, b.E_titles)) == titles, K + "E_titles differ", f"{b.E_titles!r}")
    # the loaded object is as usable as the saved one
    ck.eq("(loaded + saved).data == 2*data", (b + a).data, A * 2, K + "loaded result cannot be added to the original")
    for TR, Inv in SYMOPS:
        g = mksym(R, TR, Inv)
        ck.eq(f"loaded.transform == saved.transform [TR={TR} Inv={Inv}]", b.transform(g).data, a.transform(g).data, K + "loaded result transforms differently")


def laws_kband(ck, P, X):
    nk1, nk2, nb, rank, dTR, dInv = P["nk1"], P["nk2"], P["nb"], P["rank"], P["tTR"], P["tInv"]
    A, B, C, B1, lam, R = X["A"], X["B"], X["C"], X["B1"], X["lam"], X["R"]
    A0, B0, C0, B10 = A.copy(), B.copy(), C.copy(), B1.copy()
    tTR, tInv = mkT(dTR), mkT(dInv)
    mk = lambda D: KB.KBandResult(D, transformTR=tTR, transformInv=tInv)
    a, b, c, b1 = mk(A), mk(B), mk(C), mk(B1)
    K = "KBandResult."
    ck.ok("rank/nband/nk", a.rank == rank and a.nband == nb and a.nk == nk1, K + "rank/nband/nk wrong")
    s = a + b
    ck.ok("(a+b).nk == a.nk+b.nk", s.nk == nk1 + nk2 and s.rank == rank and s.transformTR is tTR and s.transformInv is tInv, K + "__add__ nk not additive / metadata lost")
    ck.eq("(a+b).data == vstack(a.data,b.data)  (k-stacking by design)", s.data, np.vstack([A0, B0]), K + "__add__ is not k-stacking")
    ck.eq("(a+b)+c == a+(b+c) == vstack", np.stack([((a + b) + c).data, (a + (b + c)).data]), np.stack([np.vstack([A0, B0, C0])] * 2), K + "__add__ stacking not associative")
    ck.eq("(a-b1).data == a.data-b1.data", (a - b1).data, A0 - B10, K + "__sub__ not element-wise")
    ck.eq("(a*lam).data == lam*a.data", (a * lam).data, A0 * lam, K + "__mul__ not element-wise")
    ck.eq("(lam*a).data == lam*a.data", (lam * a).data, A0 * lam, K + "__rmul__ not element-wise")
    ck.eq("((a+b)*lam).data", ((a + b) * lam).data, np.vstack([A0, B0]) * lam, K + "__mul__ of a stacked result wrong")
    d = mk(A.copy())
    d.add(b1)
    ck.eq("a.add(b1)", d.data, A0 + B10, K + "add not element-wise")
    for axes, nm in [(0, "M0"), (None, "M0")] + ([((0, 1), "M01"), (1, "M1")] if rank >= 1 else []):
        M = np.asarray(X[nm])
        ax = (axes,) if isinstance(axes, int) else (tuple(range(M.ndim)) if axes is None else axes)
        shp = tuple(A0.shape[i] if (i - 1) in ax else 1 for i in range(A0.ndim))
        ck.eq(f"mul_array(axes={axes})", a.mul_array(X[nm], axes=axes).data, A0 * M.reshape(shp), K + f"mul_array axes={axes} wrong")
        ck.eq(f"(a+b).mul_array(axes={axes})", (a + b).mul_array(X[nm], axes=axes).data, np.vstack([A0, B0]) * M.reshape(shp), K + f"mul_array of stacked result axes={axes} wrong")
    for TR, Inv in SYMOPS:
        g = mksym(R, TR, Inv)
        tag = f"TR={TR} Inv={Inv}"
        ta, tb = a.transform(g), b.transform(g)
        ck.eq(f"transform == rotation + Transform by index [{tag}]", ta.data, oracle_transform(A0, rank, R, TR, Inv, dTR, dInv), K + f"transform differs from index statement [{tag}]")
        ck.ok("transform keeps rank/transforms", ta.rank == rank and ta.transformTR is tTR and ta.transformInv is tInv, K + "transform loses metadata")
        ck.eq(f"transform(a+b) == transform(a)+transform(b) (stacked) [{tag}]", (a + b).transform(g).data, (ta + tb).data, K + f"transform does not distribute over + [{tag}]")
        ck.eq(f"transform(a-b1) == transform(a)-transform(b1) [{tag}]", (a - b1).transform(g).data, ta.data - b1.transform(g).data, K + f"transform does not distribute over - [{tag}]")
    ck.eq("operands unchanged", np.vstack([a.data, b.data, c.data, b1.data]), np.vstack([A0, B0, C0, B10]), K + "arithmetic mutates an operand")


def laws_dict(ck, P, X):
    NEs, rank, dTR, dInv, nk1, nk2, nb = P["NEs"], P["rank"], P["tTR"], P["tInv"], P["nk1"], P["nk2"], P["nb"]
    A, B, KA, KB_, lam, R, En = X["A"], X["B"], X["KA"], X["KB"], X["lam"], X["R"], [X[f"E{i}"] for i in range(len(NEs))]
    A0, B0, KA0, KB0 = A.copy(), B.copy(), KA.copy(), KB_.copy()
    tTR, tInv = mkT(dTR), mkT(dInv)
    mkE = lambda D: ER.EnergyResult(En, D, transformTR=tTR, transformInv=tInv, rank=rank, save_mode="bin")
    mkK = lambda D: KB.KBandResult(D, transformTR=tTR, transformInv=tInv)
    r1 = RD.ResultDict({"e": mkE(A), "k": mkK(KA), "v": RR.VoidResult(), "w": mkE(A.copy())})
    r2 = RD.ResultDict({"e": mkE(B), "k": mkK(KB_), "v": mkE(B.copy()), "w": RR.VoidResult()})
    e1 = RD.ResultDict({"e": mkE(A.copy()), "f": mkE(B.copy())})
    e2 = RD.ResultDict({"e": mkE(B.copy()), "f": mkE(A.copy())})
    K = "ResultDict."
    s = r1 + r2
    ck.ok("keys kept", isinstance(s, RD.ResultDict) and set(s.results) == {"e", "k", "v", "w"}, K + "__add__ loses entries")
    ck.eq("(r1+r2)[e] element-wise", s.results["e"].data, A0 + B0, K + "__add__ not entry-wise")
    ck.eq("(r1+r2)[k] k-stacked", s.results["k"].data, np.vstack([KA0, KB0]), K + "__add__ not entry-wise (K entry)")
    ck.eq("Void entry neutral (left)", s.results["v"].data, B0, K + "__add__ Void entry not neutral")
    ck.eq("Void entry neutral (right)", s.results["w"].data, A0, K + "__add__ Void entry not neutral")
    m = r1 * lam
    ck.eq("(r*lam)[e],[k]", np.concatenate([m.results["e"].data.ravel(), m.results["k"].data.ravel(), (lam * r1).results["e"].data.ravel()]),
          np.concatenate([(A0 * lam).ravel(), (KA0 * lam).ravel(), (A0 * lam).ravel()]), K + "__mul__ not entry-wise")
    ck.ok("(r*lam)[v] stays Void", isinstance(m.results["v"], RR.VoidResult), K + "__mul__ Void entry")
    q = e1 / lam
    ck.eq("(r/lam)[e],[f]", np.stack([q.results["e"].data, q.results["f"].data]), np.stack([A0 / lam, B0 / lam]), K + "__truediv__ not entry-wise")
    d = e1 - e2
    ck.eq("(r1-r2)[e],[f]", np.stack([d.results["e"].data, d.results["f"].data]), np.stack([A0 - B0, B0 - A0]), K + "__sub__ not entry-wise")
    ck.ok("r+0, r+None, 0+r return r", (r1 + 0) is r1 and (r1 + None) is r1 and (0 + r1) is r1, K + "+0 not neutral")
    V = RR.VoidResult()
    ck.ok("Void + r is r", (V + r1) is r1, K + "Void + ResultDict")
    for TR, Inv in SYMOPS:
        g = mksym(R, TR, Inv)
        tag = f"TR={TR} Inv={Inv}"
        t1, t2, ts = r1.transform(g), r2.transform(g), s.transform(g)
        ck.eq(f"transform entry-wise [{tag}]", np.concatenate([t1.results["e"].data.ravel(), t1.results["k"].data.ravel()]),
              np.concatenate([oracle_transform(A0, rank, R, TR, Inv, dTR, dInv).ravel(), oracle_transform(KA0, rank, R, TR, Inv, dTR, dInv).ravel()]),
              K + f"transform not entry-wise [{tag}]")
        ck.eq(f"transform(r1+r2) == transform(r1)+transform(r2) [{tag}]",
              np.concatenate([ts.results[k].data.ravel() for k in "ekvw"]), np.concatenate([(t1 + t2).results[k].data.ravel() for k in "ekvw"]),
              K + f"transform does not distribute over + [{tag}]")
        ck.ok("transform keeps Void entry", isinstance(t1.results["v"], RR.VoidResult), K + "transform Void entry")
    ck.eq("operands unchanged", np.concatenate([r1.results["e"].data.ravel(), r2.results["e"].data.ravel(), r1.results["k"].data.ravel()]),
          np.concatenate([A0.ravel(), B0.ravel(), KA0.ravel()]), K + "arithmetic mutates an operand")


def laws_expr(ck, P, X):
    """longer expressions with mixed operand types, nested dictionaries, composed transformations and PointGroup.symmetrize (thorough tier)"""
    NEs, rank, dTR, dInv, nk1, nk2, nb = P["NEs"], P["rank"], P["tTR"], P["tInv"], P["nk1"], P["nk2"], P["nb"]
    A, B, C, KA, KB_, lam, mu, En = X["A"], X["B"], X["C"], X["KA"], X["KB"], X["lam"], X["mu"], [X[f"E{i}"] for i in range(len(NEs))]
    A0, B0, C0, KA0, KB0 = A.copy(), B.copy(), C.copy(), KA.copy(), KB_.copy()
    tTR, tInv = mkT(dTR), mkT(dInv)
    mkE = lambda D: ER.EnergyResult(En, D, transformTR=tTR, transformInv=tInv, rank=rank, save_mode="bin")
    mkK = lambda D: KB.KBandResult(D, transformTR=tTR, transformInv=tInv)
    a, b, c, ka, kb = mkE(A), mkE(B), mkE(C), mkK(KA), mkK(KB_)
    V = RR.VoidResult
    K = "expression: "
    e1 = (a * lam + b * 2 - c / mu) * 0.5 + V() - (b - a) * (-1) + 0
    ck.eq("((a*lam + b*2 - c/mu)*0.5 + Void - (b-a)*(-1) + 0).data", e1.data, (A0 * lam + B0 * 2 - C0 / mu) * 0.5 + (B0 - A0), K + "mixed int/float/symbolic scalar expression wrong")
    e2 = sum([a, b, c, a], V()) / 4
    ck.eq("(sum([a,b,c,a], Void)/4).data", e2.data, (A0 * 2 + B0 + C0) / 4, K + "sum()/n wrong")
    e3 = a * np.float64(1.5) - b * np.float64(0.25) + None
    ck.eq("(a*np.float64(1.5) - b*np.float64(0.25) + None).data", e3.data, A0 * 1.5 - B0 * 0.25, K + "numpy float operands wrong")
    e4 = (V() - a) + (V() * lam + b) - (c + V()) / mu
    ck.eq("((Void-a) + (Void*lam+b) - (c+Void)/mu).data", e4.data, B0 - A0 - C0 / mu, K + "Void inside a longer expression wrong")
    k1 = (ka * lam + kb * mu + ka) * 2
    ck.eq("((ka*lam + kb*mu + ka)*2).data == 2*vstack(lam KA, mu KB, KA)", k1.data, np.vstack([KA0 * lam, KB0 * mu, KA0]) * 2, K + "stacked K expression wrong")
    ck.ok("stacked nk", k1.nk == 2 * nk1 + nk2, K + "stacked K expression nk wrong")
    # nested dictionaries
    r1 = RD.ResultDict({"in": RD.ResultDict({"e": a, "k": ka, "v": V()}), "e": b})
    r2 = RD.ResultDict({"in": RD.ResultDict({"e": c, "k": kb, "v": a}), "e": a})
    n1 = (r1 + r2) * lam + r1 * 2
    ck.eq("nested ((r1+r2)*lam + r1*2)[in][e], [e], [in][v]", np.stack([n1.results["in"].results["e"].data, n1.results["e"].data, n1.results["in"].results["v"].data]),
          np.stack([(A0 + C0) * lam + A0 * 2, (B0 + A0) * lam + B0 * 2, A0 * lam]), K + "nested ResultDict arithmetic wrong")
    ck.eq("nested ((r1+r2)*lam + r1*2)[in][k] stacked", n1.results["in"].results["k"].data, np.vstack([KA0 * lam, KB0 * lam, KA0 * 2]), K + "nested ResultDict K entry wrong")
    # composed transformations and symmetrisation with three different symbolic operations
    ops = [mksym(X["R"], *P["flags"][0]), mksym(X["R2"], *P["flags"][1]), mksym(X["R3"], *P["flags"][2])]
    orc = lambda D, g: oracle_transform(D, rank, g.R, g.TR, g.Inv, dTR, dInv)
    t12 = a.transform(ops[0]).transform(ops[1])
    ck.eq("a.transform(g1).transform(g2) == statement applied twice", t12.data, orc(orc(A0, ops[0]), ops[1]), K + "composition of transformations wrong")
    lin = (a * lam - b).transform(ops[2]).transform(ops[0])
    ck.eq("transform o transform is linear: (lam a - b) -> lam T(a) - T(b)", lin.data, a.transform(ops[2]).transform(ops[0]).data * lam - b.transform(ops[2]).transform(ops[0]).data,
          K + "composed transformation not linear")
    for size in (2, 4):
        grp = object.__new__(PS.PointGroup)
        grp.symmetries = (ops + [ops[0]])[:size]
        sa = grp.symmetrize(a)
        ck.eq(f"PointGroup.symmetrize over {size} operations == average of the transformed data", sa.data, sum(orc(A0, g) for g in grp.symmetries) / size, K + "symmetrize is not the group average")
        sd = grp.symmetrize(RD.ResultDict({"e": a, "in": RD.ResultDict({"f": b}), "v": V()}))
        ck.eq(f"symmetrize of a nested dictionary ({size})", np.stack([sd.results["e"].data, sd.results["in"].results["f"].data]),
              np.stack([sum(orc(A0, g) for g in grp.symmetries) / size, sum(orc(B0, g) for g in grp.symmetries) / size]), K + "symmetrize of a dictionary wrong")
        ck.ok("symmetrize keeps a Void entry", isinstance(sd.results["v"], RR.VoidResult), K + "symmetrize Void entry")
        sk = functools.reduce(operator.add, [ka.transform(g) for g in grp.symmetries])      # (0 + K result is not supported, so not PointGroup.symmetrize itself)
        ck.eq(f"sum of the {size} transformed copies of a K result k-stacks them", sk.data, np.vstack([orc(KA0, g) for g in grp.symmetries]), K + "stack of transformed K results wrong")
    ck.eq("operands unchanged", np.concatenate([a.data.ravel(), b.data.ravel(), c.data.ravel(), ka.data.ravel(), kb.data.ravel()]),
          np.concatenate([A0.ravel(), B0.ravel(), C0.ravel(), KA0.ravel(), KB0.ravel()]), K + "a long expression mutates an operand")


LAWS = dict(energy=laws_energy, save=laws_save, kband=laws_kband, dict=laws_dict, expr=laws_expr)


def input_spec(kind, P):
    """name -> ('c'|'r', shape) ; shape () = scalar"""
    sp = dict(R=("r", (3, 3)), lam=("r", ()))
    tens = (3,) * P["rank"]
    if kind in ("energy", "save", "dict", "expr"):
        NEs = tuple(P["NEs"])
        for i, n in enumerate(NEs):
            sp[f"E{i}"] = ("r", (n,))
        sp["A"] = ("c", NEs + tens)
    if kind in ("energy", "dict", "expr"):
        sp["B"] = ("c", NEs + tens)
    if kind == "expr":
        sp.update(C=("c", NEs + tens), mu=("r", ()), R2=("r", (3, 3)), R3=("r", (3, 3)))
    if kind == "energy" and NEs:
        sp["M0"] = ("r", NEs[:1])
        if len(NEs) >= 2:
            sp["M01"] = ("c", NEs[:2])
            sp["M1"] = ("r", NEs[1:2])
    if kind == "kband":
        nb = P["nb"]
        sp.update(A=("c", (P["nk1"], nb) + tens), B=("c", (P["nk2"], nb) + tens), C=("c", (1, nb) + tens), B1=("c", (P["nk1"], nb) + tens), M0=("r", (nb,)))
        if P["rank"] >= 1:
            sp.update(M01=("c", (nb, 3)), M1=("r", (3,)))
    if kind in ("dict", "expr"):
        sp.update(KA=("c", (P["nk1"], P["nb"]) + tens), KB=("c", (P["nk2"], P["nb"]) + tens))
    return sp


def case_laws(rec, kind, P):
    store = install()
    sp = input_spec(kind, P)
    X = {}
    for nm, (t, shp) in sp.items():
        X[nm] = (symvec(nm, shp, real=(t == "r")) if shp else SymC.var(nm))
    ass = [X[nm].zreal() != 0 for nm in ("lam", "mu") if nm in X]

    def body(rec):
        store.files.clear()
        rec.witness = lambda env: dict(kind=kind, P=P, X={nm: (env.arr(v) if isinstance(v, np.ndarray) else env.val(v)) for nm, v in X.items()})
        Xc = {nm: (v.copy() if isinstance(v, np.ndarray) else v) for nm, v in X.items()}
        if kind == "save":
            laws_save(SymCk(rec), P, Xc, store)
        else:
            LAWS[kind](SymCk(rec), P, Xc)
    rec.explore(body, ass)


# ---- case enumeration -------------------------------------------------------------------------------------
ID, ODD, CONJ, ODDCONJ = dict(), dict(factor=-1), dict(conj=True), dict(factor=-1, conj=True)


def transform_pairs(rank, tier, ndim0):
    """(transformTR, transformInv) pairs; ndim0 = number of leading (non-tensor) axes for absolute swap_axes"""
    out = [(ID, ODD), (ODDCONJ, ID), (CONJ, ODDCONJ)]
    if rank == 2:
        out += [(dict(transpose_axes=[1, 0]), ODD), (ODD, dict(swap_axes=[-1, -2])), (dict(factor=-1, conj=True, transpose_axes=[1, 0]), dict(swap_axes=[ndim0, ndim0 + 1])),
                (dict(conj=True, swap_axes=[-2, -1], factor=-1), dict(transpose_axes=[1, 0], factor=-1))]
    if rank == 3:
        out += [(dict(factor=-1, transpose_axes=[0, 2, 1]), ODD), (ID, dict(factor=-1, transpose_axes=[1, 0, 2])), (dict(transpose_axes=[1, 2, 0]), ODD),
                (dict(conj=True, transpose_axes=[2, 0, 1]), ODD), (ID, dict(swap_axes=[-1, -3]))]
    if rank == 4:
        out += [(dict(transpose_axes=[1, 0, 3, 2]), ODD), (dict(factor=-1, conj=True, transpose_axes=[3, 2, 1, 0]), dict(swap_axes=[-1, -4])), (ID, dict(factor=-1, transpose_axes=[0, 2, 3, 1]))]
    return out


def cases(tier, seed):
    q = tier == "quick"
    out = []
    tname = lambda d: "T(" + ",".join(f"{k}={v}" for k, v in d.items()) + ")"
    # energy-resolved
    shapes = [((2,), 0), ((3,), 1), ((2, 3), 1), ((2,), 2), ((2, 3), 0)] + ([] if q else [((2, 3), 2), ((), 1), ((), 2), ((2, 3, 2), 0), ((2, 3, 2), 1), ((2,), 3),
                                                                                      ((7,), 1), ((5, 4), 0), ((4, 3), 2), ((3, 2, 2), 2), ((2, 2, 2, 2), 1), ((2, 3), 3), ((2,), 4), ((), 3)])
    for NEs, rank in shapes:
        for tTR, tInv in transform_pairs(rank, tier, len(NEs)):
            P = dict(NEs=list(NEs), rank=rank, tTR=tTR, tInv=tInv)
            out.append(Case(f"energy NEs={NEs} rank={rank} TR={tname(tTR)} Inv={tname(tInv)}", case_laws, dict(kind="energy", P=P), timeout=3000))
            if len(NEs) >= 1 or not q:
                out.append(Case(f"save NEs={NEs} rank={rank} TR={tname(tTR)} Inv={tname(tInv)}", case_laws,
                                dict(kind="save", P=dict(P, comment="line one\nsecond: Ω (a.u.)" if rank % 2 else "undocumented")), timeout=3000))
    # band-resolved
    kshapes = [(1, 1, 1, 0), (2, 1, 2, 1), (1, 2, 2, 2)] + ([] if q else [(2, 2, 1, 2), (3, 1, 3, 1), (1, 3, 2, 0), (2, 1, 1, 3), (6, 5, 2, 1), (4, 3, 4, 0), (3, 2, 3, 2), (2, 2, 2, 3), (1, 1, 1, 4)])
    for nk1, nk2, nb, rank in kshapes:
        for tTR, tInv in transform_pairs(rank, tier, 2):
            P = dict(nk1=nk1, nk2=nk2, nb=nb, rank=rank, tTR=tTR, tInv=tInv)
            out.append(Case(f"kband nk={nk1}+{nk2} nb={nb} rank={rank} TR={tname(tTR)} Inv={tname(tInv)}", case_laws, dict(kind="kband", P=P), timeout=3000))
    # dictionaries (the K entry and the energy entry share rank and transforms; swap_axes are written relative to the end)
    for NEs, rank, nk1, nk2, nb in [((2,), 0, 1, 2, 2), ((2, 3), 1, 2, 1, 1)] + ([] if q else [((3,), 2, 1, 1, 2), ((4, 2), 2, 3, 2, 2), ((2,), 3, 2, 1, 1), ((5,), 1, 4, 3, 3)]):
        for tTR, tInv in transform_pairs(rank, tier, 0):
            if any(min(d.get("swap_axes") or [-1]) >= 0 for d in (tTR, tInv)):
                continue
            P = dict(NEs=list(NEs), rank=rank, nk1=nk1, nk2=nk2, nb=nb, tTR=tTR, tInv=tInv)
            out.append(Case(f"dict NEs={NEs} rank={rank} nk={nk1}+{nk2} nb={nb} TR={tname(tTR)} Inv={tname(tInv)}", case_laws, dict(kind="dict", P=P), timeout=3000))
    if not q:   # long expressions, mixed operand types, nested dictionaries, composed transformations, symmetrisation over 2 and 4 symbolic operations
        flagsets = [[(False, False), (True, False), (False, True)], [(True, True), (False, True), (True, False)]]
        for i, (NEs, rank, nk1, nk2, nb) in enumerate([((3, 2), 1, 2, 1, 2), ((2,), 2, 1, 2, 1), ((4,), 0, 2, 2, 2), ((2, 2), 2, 1, 1, 2), ((2,), 3, 1, 1, 1)]):
            for j, (tTR, tInv) in enumerate(transform_pairs(rank, tier, 0)):
                if any(min(d.get("swap_axes") or [-1]) >= 0 for d in (tTR, tInv)) or (rank == 3 and j % 2):
                    continue
                P = dict(NEs=list(NEs), rank=rank, nk1=nk1, nk2=nk2, nb=nb, tTR=tTR, tInv=tInv, flags=flagsets[(i + j) % 2])
                out.append(Case(f"expr NEs={NEs} rank={rank} nk={nk1}+{nk2} nb={nb} TR={tname(tTR)} Inv={tname(tInv)} ops={P['flags']}", case_laws, dict(kind="expr", P=P), timeout=3000))
    return out


# ---- replay -----------------------------------------------------------------------------------------------
def replay(rec):
    w = rec["witness"]
    kind, P = w["kind"], w["P"]
    rng = np.random.default_rng(1)
    X = {}
    for nm, (t, shp) in input_spec(kind, P).items():
        v = w["X"].get(nm)
        if shp == ():
            v = float(v) if v else 0.0
            X[nm] = v if v != 0 else 1.7
            continue
        a = unarr(v) if v is not None else np.zeros(shp)
        a = a.reshape(shp).astype(float if t == "r" else complex)
        if np.abs(a).max(initial=0) == 0:     # atoms the model left free: any value is a legitimate input of a universally quantified law
            a = rng.uniform(-1, 1, shp) + (1j * rng.uniform(-1, 1, shp) if t == "c" else 0)
        X[nm] = a
    ck = NumCk()
    try:
        LAWS[kind](ck, P, X)
    except Exception as e:
        tb = traceback.format_exc()
        if "wannierberri" in tb:
            return True, f"{kind} {P}: raises {type(e).__name__}: {e}"
        raise
    return bool(ck.bad), f"{kind} {P}: " + ("; ".join(ck.bad[:6]) if ck.bad else "all laws hold")
