"""shared driver: the real wannierberri.run_grid.run / process on a stand-in system, a stub data_k_class and stub calculators whose
per-K results are symbolic atoms (used by C10, C11, C12).  Concrete twin for replays at the bottom."""
import os, io, sys, types, shutil, tempfile, contextlib
import numpy as np
from symx.core import *
from symx.core import z3
from symx.npproxy import NpProxy, shadow
from symx.lifted import Lifted, sym_permutation, int_model
import symx.harness  # noqa
import wannierberri.run_grid as RG
import wannierberri.result.energyresult as ER
import wannierberri.result.resultdict as RD
import wannierberri.grid.Kpoint as KP
from wannierberri.grid import Grid
from wannierberri.result import EnergyResult, ResultDict
from wannierberri.symmetry.point_symmetry import PointGroup, transform_ident


class LazyTop:
    """stands for np.argsort(x): only the tail slice [-k:] is defined (indices of the k largest entries, ascending), found by k rounds
    of max selection, so that the explorer forks n times per round instead of over n! orderings"""

    def __init__(s, x):
        s.x = list(x)

    def __getitem__(s, sl):
        assert isinstance(sl, slice) and sl.stop is None and sl.start is not None and sl.start < 0, "only argsort(x)[-k:] is modelled"
        k = -sl.start
        rest = list(range(len(s.x)))
        top = []
        for _ in range(min(k, len(rest))):
            best = rest[-1]
            for j in rest[:-1]:
                # one fork per candidate: "j is the (first) maximum" as a single conjunction
                cond = True
                for i in rest:
                    if i != j:
                        c = (s.x[j] > s.x[i]) if i < j else (s.x[j] >= s.x[i])
                        cond = c & cond if isinstance(c, SymB) else (cond if c else False)
                        if cond is False:
                            break
                if cond is not False and bool(cond):
                    best = j
                    break
            # numpy's argsort breaks ties in an unspecified way (SIMD sort): counterexample models are steered to a strict maximum so that they replay
            for i in rest:
                if i != best:
                    c = s.x[best] > s.x[i]
                    if isinstance(c, SymB):
                        Ctx.prefer(c)
            top.append(best)
            rest.remove(best)
        return np.array(top[::-1])


class RGnp:
    """thin proxy for run_grid.np: everything is real numpy except argsort on symbolic priorities"""
    _np = np

    def __getattr__(s, k):
        return getattr(np, k)

    def argsort(s, x, *a, **k):
        x = np.asarray(x)
        return LazyTop(x) if x.dtype == object else np.argsort(x, *a, **k)


class Sys:
    periodic = np.array([True, True, True])
    NKFFT_recommended = np.array([1, 1, 1])
    real_lattice = np.eye(3)
    recip_lattice = 2 * np.pi * np.eye(3)

    def __init__(s, gens):
        s.pointgroup = PointGroup(list(gens), real_lattice=np.eye(3))


def kkey(K):
    return tuple(np.round(np.asarray(K.K, float) % 1, 9)) + tuple(np.round(np.asarray(K.dK, float), 9))


class SymResult(EnergyResult):
    """EnergyResult whose refinement criteria (`max`) are symbolic priorities carried in the data"""
    nprio = 1

    @property
    def max(s):
        return np.array([s.data[1 + i] for i in range(s.nprio)], dtype=object)


def _result_class(nprio):
    name = "SymResult%d" % nprio
    if name not in globals():
        cls = type(name, (SymResult,), dict(nprio=nprio))
        cls.__module__ = __name__
        globals()[name] = cls          # picklable by reference
    return globals()[name]


for _n in (1, 2, 3):
    _result_class(_n)


class DKstub:
    def __init__(s, system, dK=None, grid=None, Kpoint=None, **kw):
        s.Kpoint = Kpoint


class Registry:
    """per-K symbolic result r and priorities p (atoms keyed by the K-point coordinates)"""

    def __init__(s, nprio=1):
        s.reg = {}
        s.nprio = nprio
        s.evals = []

    def get(s, K):
        k = kkey(K)
        if k not in s.reg:
            i = len(s.reg)
            s.reg[k] = [SymC.var(f"r{i}")] + [SymC.var(f"p{i}_{j}") for j in range(s.nprio)]
        return s.reg[k]

    def assumptions(s, n=64):
        return [z3.Real(f"p{i}_{j}") > 0 for i in range(n) for j in range(s.nprio)]


def make_calc(registry):
    class Calc:
        allow_grid = True
        allow_path = False
        comment = "stub"

        def __call__(s, data):
            v = registry.get(data.Kpoint)
            registry.evals.append(kkey(data.Kpoint))
            cls = _result_class(registry.nprio)
            return cls([np.arange(1. + registry.nprio)], sarr(list(v)), transformTR=transform_ident, transformInv=transform_ident, save_mode="", rank=0)
    return Calc()


class Observer:
    """spies: result handed to savedata after each iteration, compared with sum_K factor_K r(K) recomputed from the K list"""

    def __init__(s, registry):
        s.registry = registry
        s.snaps = []
        s.K_list = None

    def install(s):
        obs = s
        s._old_process = RG.process
        s._old_save = ResultDict.savedata

        def proc_spy(paralfunc, K_list, *a, **k):
            obs.K_list = K_list
            return obs._old_process(paralfunc, K_list, *a, **k)

        def savedata_spy(self, prefix, suffix, i_iter):
            obs.snaps.append((i_iter, SymC.of(self.results['c'].data[0]), obs.expected(), obs.wsum()))
        RG.process = proc_spy
        ResultDict.savedata = savedata_spy

    def uninstall(s):
        RG.process = s._old_process
        ResultDict.savedata = s._old_save

    def expected(s):
        tot = SymC.of(0)
        for K in s.K_list:
            if K.factor != 0:
                if not K.was_evaluated_flag:
                    return None
                tot = tot + s.registry.get(K)[0] * float(K.factor)
        return tot

    def wsum(s):
        return float(sum(K.factor for K in s.K_list))


def setup_symbolic():
    shadow([ER, RD, KP])
    RG.np = RGnp()


def do_run(sysobj, calc, NKdiv, niter, tmpdir, **kw):
    buf = io.StringIO()
    with contextlib.redirect_stdout(buf):
        g = Grid(system=sysobj, NKdiv=NKdiv, NKFFT=(1, 1, 1))
        return RG.run(sysobj, g, {'c': calc}, data_k_class=DKstub, parallel=kw.pop("parallel", False), adpt_num_iter=niter,
                      file_Klist_path=tmpdir, fout_name=os.path.join(tmpdir, "out"), **kw)


class TmpDir:
    def __enter__(s):
        s.d = tempfile.mkdtemp(prefix="verif_run_")
        return os.path.join(s.d, "kl")

    def __exit__(s, *a):
        shutil.rmtree(s.d, ignore_errors=True)


# ------------------------------------------------------------------------------------------------------------------
# concrete twin (replay): real code, real files, concrete per-K results given by a deterministic function of the K coordinates
class CResult(EnergyResult):
    @property
    def max(s):
        return np.array(s.data[1:])


class ConcreteRegistry:
    def __init__(s, values):
        """values: dict kkey-string -> [r, p...] from the model; unknown K-points get a deterministic pseudo-random value"""
        s.values = values
        s.evals = []

    def get(s, K):
        k = kkey(K)
        ks = repr([float(x) for x in k])
        if ks in s.values:
            return [float(x) for x in s.values[ks]]
        h = abs(hash(k)) % 10007
        return [1.0 + h / 10007.0] + [0.5 + ((h * 7919) % 10007) / 10007.0] * s.nprio

    nprio = 1


def make_concrete_calc(registry):
    class Calc:
        allow_grid = True
        allow_path = False
        comment = "stub"

        def __call__(s, data):
            v = registry.get(data.Kpoint)
            registry.evals.append(kkey(data.Kpoint))
            return CResult([np.arange(float(len(v)))], np.array(v, dtype=float), transformTR=transform_ident, transformInv=transform_ident, save_mode="", rank=0)
    return Calc()


class ConcreteObserver(Observer):
    def install(s):
        obs = s
        s._old_process = RG.process
        s._old_save = ResultDict.savedata

        def proc_spy(paralfunc, K_list, *a, **k):
            obs.K_list = K_list
            return obs._old_process(paralfunc, K_list, *a, **k)

        def savedata_spy(self, prefix, suffix, i_iter):
            obs.snaps.append((i_iter, float(self.results['c'].data[0]), obs.expected(), obs.wsum()))
        RG.process = proc_spy
        ResultDict.savedata = savedata_spy

    def expected(s):
        tot = 0.0
        for K in s.K_list:
            if K.factor != 0:
                if not K.was_evaluated_flag:
                    return None
                tot += s.registry.get(K)[0] * float(K.factor)
        return tot


def registry_values(env, registry):
    return {repr([float(x) for x in k]): [env.val(a) for a in v] for k, v in registry.reg.items()}
