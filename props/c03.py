"""C03 — integrals depend only on the k-point set, not on its FFT factorisation"""
import io, contextlib, itertools, warnings
import numpy as np
from symx.core import *
from symx.core import z3
from symx.npproxy import NpProxy, DFT, shadow
from symx.harness import Case
import symx.harness  # noqa (puts the repo on sys.path)
with contextlib.redirect_stdout(io.StringIO()):
    import wannierberri.fourier.fft as F, wannierberri.fourier.rvectors as RV, wannierberri.utility as U
    import wannierberri.data_K.data_K as DKm, wannierberri.data_K.data_K_R as DKR
    import wannierberri.run_grid as RG
    from wannierberri.grid import Grid
    from wannierberri.result import EnergyResult, KBandResult, TABresult
    from wannierberri.calculators.tabulate import TabulatorAll
    from wannierberri.symmetry.point_symmetry import PointGroup, transform_ident

PROPERTY = "C03"
FUNCTIONS = ["wannierberri.grid.grid.Grid.__init__/get_K_list/points_FFT/dense", "wannierberri.grid.Kpoint.KpointBZparallel.divide (thorough)", "wannierberri.grid.grid.determineNK/autoNK", "wannierberri.grid.Kpoint.KpointBZ.Kp_fullBZ/set_result/get_result_factor",
             "wannierberri.data_K.data_K.Data_K.__init__/kpoints_all/nk/NKFFT", "wannierberri.data_K.data_K_R.Data_K_R.__init__/HH_K/Xbar('Ham',1)/get_R_mat",
             "wannierberri.fourier.rvectors.Rvectors.set_fft_R_to_k/apply_expdK/derivative/R_to_k", "wannierberri.fourier.fft.FFT_R_to_k.__init__/__call__/transform",
             "wannierberri.run_grid.run/process", "wannierberri.result.resultdict.ResultDict.__add__/__mul__", "wannierberri.result.energyresult.EnergyResult.__add__/__mul__",
             "wannierberri.result.tabresult.TABresult.__add__/find_grid/to_grid/self_to_grid/savedata", "wannierberri.result.kbandresult.K__Result.__add__/data/to_grid",
             "wannierberri.calculators.tabulate.TabulatorAll.__init__/__call__"]
BOUNDS = dict(quick=dict(grids="N = (2,2,1) (4,1,1) (3,2,1) (1,1,4) (2,1,3) (2,2,2) [matrix level]; (2,2,1) (4,1,1) (3,1,2) [run() level, use_irred_kpt=False]; (1,4,2) (2,1,4) [run() level with run()'s defaults use_irred_kpt=True, symmetrize=True on a system without point symmetry]", factorisations="every N_i = NKdiv_i x NKFFT_i",
                         num_wann="2 (matrix level), 1..2 (run level)", R_vectors="13..19, reaching beyond every FFT box (|R_i| up to N_i)", fftlib="'slow' for every factorisation, fftw(stub) / numpy(stub) alternating with the factorisation",
                         data="symbolic Hermitian Ham(R), |.|<=1; concrete triclinic lattice and Wannier centres", grid_resolution="determineNK / autoNK on 14 enumerated requests (concrete)"),
              thorough=dict(grids="matrix level: every N with N_i<=6 and at most 24 k-points (num_wann=2 up to 16 points, d2H too up to 8 points; num_wann=1 for 17..24 points) + (6,3,1) (5,2,2) (3,2,3) (5,5,1) (3,3,3) "
                            "(6,1,5) (6,6,1) and num_wann 3..4 on small grids; K-shifts: the K-points of every factorisation of 16 grids divided once by KpointBZparallel.divide (ndiv from (2,1,1) to (2,2,2), (3,1,2)): "
                            "shifted grid of N*ndiv with up to 48 k-points; run() level: 20 grids up to (4,3,2) incl. sizes 5 and 6, and 12 anisotropic grids up to (2,3,4) with use_irred_kpt=True",
                            factorisations="every N_i = NKdiv_i x NKFFT_i (up to 16 per grid)", num_wann="1..4", R_vectors="13..35, |R_i| up to N_i", fftlib="fftw(stub), numpy(stub) and slow for every factorisation at "
                            "both levels", data="as quick", grid_resolution="as quick"))
EXPLANATION = ("For one regular grid N the real Grid.get_K_list / KpointBZ / Data_K_R / Rvectors / FFT_R_to_k chain (and, at the loop level, the real run() with the real TabulatorAll, ResultDict, TABresult, "
               "KBandResult and EnergyResult plumbing) is executed for every factorisation N = NKdiv x NKFFT on a symbolic Hermitian R-space Hamiltonian. z3 decides that the k-resolved Wannier-gauge H(k), dH(k) "
               "collected over all K-points, the table returned by run() after self_to_grid and the k-average returned by a summing calculator equal one factorisation-independent explicit sum at k = n/N "
               "to 1e-9 for all |data|<=1; coverage of the grid (every n/N exactly once) is a concrete fact per factorisation. In the thorough tier the same is decided for the K-points of every factorisation after one refinement step "
               "(KpointBZparallel.divide): their k-points form one shifted grid of N*ndiv, and H, dH on it equal the explicit sum.")
ASSUMPTIONS = ["|Ham(R)_ab| components in [-1,1] (tolerance obligations; homogeneous in the data)", "systems without point symmetry (use_irred_kpt=False, and run()'s default use_irred_kpt=True / symmetrize=True with the trivial group: nothing may be merged) and no adaptive "
               "refinement (adpt_num_iter=0); non-trivial groups and refinement are C06/C07/C10", "X(-R)=X(R)^dagger"]
OUTSIDE = ["the eigen-decomposition and the formulas of the real static / dynamic / tabulating calculators between H(k), dH(k) and the integrand (cut: the stub calculators tabulate and average the Wannier-gauge "
           "matrix elements themselves, which is what every real calculator is a function of)", "FFT library internals (DFT by definition)", "grids with more than 36 k-points or N_i > 6; K-shifts other than the one refinement step of KpointBZparallel.divide",
           "ray-parallel execution of process() (C12)", "IEEE rounding (agreement claimed to 1e-9)"]
STUBS = ["np.fft / pyfftw -> DFT by definition (as in C02)", "stand-in system (rvec, num_wann, real_lattice, recip_lattice, periodic, NKFFT_recommended, pointgroup=PointGroup(), get_R_mat/has_R_mat)",
         "stub tabulators inside the real TabulatorAll: KBandResult of the entries of data_K.HH_K and data_K.Xbar('Ham',1) (UU_K preset to the identity: no eigh)",
         "stub summing calculator: EnergyResult(data = mean over the K-point's FFT points of the entries of HH_K), the normalisation 1/nk being the documented duty of a static calculator; "
         "its refinement priority `max` is a constant (unused with adpt_num_iter=0)", "run_grid.get_ray_cpus_count -> 1 (ray not initialised)"]
TOL = 1e-9
LATTICE = np.array([[1.0, 0.125, 0.0], [-0.5, 0.875, 0.25], [0.0625, -0.1875, 1.5]])
CENTRES = np.array([[0.0, 0.0, 0.0], [0.25, 0.5, 0.125], [0.6, 0.1, 0.3], [-0.35, 0.8, 0.45]])


class FakeFFTW:
    def __init__(s, input_array, output_array, axes=(-1,), direction='FFTW_FORWARD', flags=(), **kw):
        s.shape, s.axes, s.inverse, s.out = tuple(np.shape(input_array)), tuple(axes), direction == 'FFTW_BACKWARD', output_array

    def __call__(s, input_array=None, output_array=None, normalise_idft=True):
        if tuple(np.shape(input_array)) != s.shape:
            raise ValueError("Invalid shape")
        s.out[...] = DFT._apply(np.asarray(input_array), s.axes, +1 if s.inverse else -1, s.inverse and normalise_idft)
        return s.out


class FakePyfftw:
    FFTW = FakeFFTW

    @staticmethod
    def empty_aligned(shape, dtype='complex128', **kw):
        a = np.empty(shape, dtype=object)
        a[...] = SymC.of(0)
        return a.view(SymArray)


class Sys:
    force_internal_terms_only = False
    is_phonon = False
    periodic = np.array([True, True, True])

    def __init__(s, iR, X, nb, rec=None):
        s.real_lattice = LATTICE.copy()
        s.recip_lattice = 2 * np.pi * np.linalg.inv(LATTICE).T
        s.rvec = RV.Rvectors(lattice=LATTICE.copy(), iRvec=np.array(iR), shifts_left_red=CENTRES[:nb].copy())
        s.X, s.num_wann, s.pointgroup = dict(Ham=X), nb, PointGroup(real_lattice=LATTICE.copy())
        s.NKFFT_recommended = np.array(rec) if rec is not None else s.rvec.NKFFT_recommended()     # None: the real recommendation (larger than every box used here)

    def get_R_mat(s, k):
        return s.X[k]

    def has_R_mat(s, k):
        return k in s.X


def rset_for(N):
    """R-vectors reaching beyond every FFT box that divides N: |R_i| up to N_i along each axis plus a few oblique ones, closed under inversion"""
    out = [(0, 0, 0), (1, 1, 1), (-1, -1, -1), (2, -1, 0), (-2, 1, 0), (0, 1, -2), (0, -1, 2)]
    for ax in range(3):
        for r in range(1, max(N[ax], 2) + 1):
            for sg in (1, -1):
                v = [0, 0, 0]
                v[ax] = sg * r
                out.append(tuple(v))
    return out


def factorisations(N):
    per_axis = [[(d, n // d) for d in range(1, n + 1) if n % d == 0] for n in N]
    return [(tuple(c[0] for c in combo), tuple(c[1] for c in combo)) for combo in itertools.product(*per_axis)]


def grid_points(N):
    return [(i, j, k) for i in range(N[0]) for j in range(N[1]) for k in range(N[2])]


def reference(iR, N, X, nb, der, kpts=None):
    """H(k), dH(k) at k = n/N in C order (or at the given k-points): sum_R exp(2 pi i k.R) (i (R + t_b - t_a))^der X(R)_ab, index by index"""
    iR = np.array(iR)
    if kpts is None:
        kpts = np.array(grid_points(N)) / np.array(N, dtype=float)
    ph = np.exp(2j * np.pi * kpts.dot(iR.T))
    cR, cc = iR.dot(LATTICE), CENTRES[:nb].dot(LATTICE)
    out = np.empty((len(kpts), nb, nb) + (3,) * der, dtype=object)
    for a in range(nb):
        for b in range(nb):
            for idx in np.ndindex(*(3,) * der):
                coef = [np.prod([1j * (cR[r, ax] + cc[b, ax] - cc[a, ax]) for ax in idx]) for r in range(len(iR))]
                for ik in range(len(kpts)):
                    tot = SymC.of(0)
                    for r in range(len(iR)):
                        tot = tot + X[r, a, b] * complex(ph[ik, r] * coef[r])
                    out[(ik, a, b) + idx] = tot
    out = out.view(SymArray)
    if der == 0:
        out = (out + np.conjugate(np.swapaxes(out, 1, 2))) * 0.5
    return out


def _shadow():
    return shadow([F, RV, U, DKm, DKR], pyfftw=FakePyfftw)


def _ident(nk, nb):
    return np.array([np.eye(nb)] * nk)


def _quiet(f, *a, **k):
    with warnings.catch_warnings():
        warnings.simplefilter("ignore")
        return f(*a, **k)


# ------------------------------------------------------------------------------------------------------------
def case_matrix(rec, N, nb, libs, both=False, dermax=1):
    """union over the K-points of (k, H_W(k), dH_W(k)) for every factorisation == explicit sum at k = n/N"""
    _shadow()
    iR = rset_for(N)
    X = hermR("H", iR, nb)
    facts = factorisations(N)
    par = dict(test="matrix", N=list(N), nb=nb, libs=list(libs), dermax=dermax)
    Narr = np.array(N)

    def body(rec):
        rec.witness = lambda env: dict(H=env.arr(X), **par)
        system = Sys(iR, X, nb)
        ref = [reference(iR, N, X, nb, d) for d in range(dermax + 1)]
        index = {n: i for i, n in enumerate(grid_points(N))}
        for ifac, (div, fft) in enumerate(facts):
            for lib in (libs if both else (libs[ifac % 2], "slow")):      # quick: 'slow' for every factorisation, fftw / numpy alternating
                tag = f"NKdiv={div} NKFFT={fft} {lib}"
                grid = _quiet(Grid, system=system, NKdiv=np.array(div), NKFFT=np.array(fft), use_symmetry=False)
                rec.concrete(f"{tag}: Grid keeps the requested factorisation", tuple(grid.div) == div and tuple(grid.FFT) == fft and tuple(grid.dense) == tuple(N), key="Grid changes the requested NKdiv/NKFFT")
                KL = grid.get_K_list(use_symmetry=False)
                rec.concrete(f"{tag}: one K-point per division cell, weights sum to 1", len(KL) == int(np.prod(div)) and abs(sum(K.factor for K in KL) - 1) < 1e-12,
                             f"{len(KL)} K-points, sum of factors {sum(K.factor for K in KL)}", key="Grid.get_K_list number of K-points / weights")
                ok, detail = _irred_list_ok(system, div, fft, KL)
                rec.concrete(f"{tag}: without point symmetry the irreducible K-list (run() default) is the full K-list", ok, detail, key="Grid.get_K_list(use_symmetry=True) merges K-points of a system without symmetry")
                got = [np.empty((len(index),) + ref[d].shape[1:], dtype=object) for d in range(dermax + 1)]
                count = np.zeros(len(index), dtype=int)
                offgrid = []
                for Kp in KL:
                    dk = DKR.Data_K_R(system, dK=Kp.Kp_fullBZ, grid=grid, Kpoint=Kp, fftlib=lib)
                    dk.__dict__['UU_K'] = _ident(dk.nk, nb)
                    kall = np.asarray(dk.kpoints_all, dtype=float)
                    H, dH = dk.HH_K, dk.Xbar('Ham', 1)
                    if len(kall) != int(np.prod(fft)) or np.shape(H)[0] != len(kall) or np.shape(dH)[0] != len(kall):
                        offgrid.append(("shape", Kp.K.tolist()))
                        continue
                    for ik, k in enumerate(kall):
                        n = np.rint(k * Narr)
                        if np.abs(k * Narr - n).max() > 1e-9:
                            offgrid.append((Kp.K.tolist(), k.tolist()))
                            continue
                        i = index[tuple(int(x) for x in n.astype(int) % Narr)]
                        count[i] += 1
                        got[0][i], got[1][i] = H[ik], dH[ik]
                        for d in range(2, dermax + 1):
                            got[d][i] = dk.Xbar('Ham', d)[ik]
                rec.concrete(f"{tag}: the k-points of all K-points are the grid n/N, each exactly once", not offgrid and bool(np.all(count == 1)),
                             f"off-grid: {offgrid[:3]} multiplicities: {count.tolist()}", key="k-points of the K-points do not tile the grid n/N exactly once")
                if offgrid or not np.all(count == 1):
                    continue
                rec.close(f"{tag}: H_W(k) over all K-points == explicit sum at k=n/N", got[0], ref[0], TOL, key="H_W(k) depends on the factorisation (differs from the explicit sum at n/N)")
                rec.close(f"{tag}: dH_W(k) over all K-points == explicit sum at k=n/N", got[1], ref[1], TOL, key="dH_W(k) depends on the factorisation (differs from the explicit sum at n/N)")
                for d in range(2, dermax + 1):
                    rec.close(f"{tag}: d^{d}H_W(k) over all K-points == explicit sum at k=n/N", got[d], ref[d], TOL, key="d2H_W(k) depends on the factorisation (differs from the explicit sum at n/N)")
    rec.explore(body)


def _shift_grid(N, ndiv):
    """every K-point cell of the grid N split into ndiv sub-cells (KpointBZparallel.divide): the sub-cell centres of all K-points form the grid
    k = (m + 1/2 - ndiv/2) / (N ndiv), m = 0 .. N ndiv - 1, whatever the factorisation of N"""
    Nf = np.array(N) * np.array(ndiv)
    off = 0.5 - np.array(ndiv) / 2
    pts = grid_points(tuple(int(x) for x in Nf))
    return Nf, off, pts, (np.array(pts) + off) / Nf


def _collect_shifted(system, div, fft, lib, N, nb, ndiv, ident, empty):
    """K-points of the factorisation, each divided by ndiv; returns (problems, H table, dH table) on the shifted fine grid"""
    Nf, off, pts, _ = _shift_grid(N, ndiv)
    index = {n: i for i, n in enumerate(pts)}
    grid = _quiet(Grid, system=system, NKdiv=np.array(div), NKFFT=np.array(fft), use_symmetry=False)
    with contextlib.redirect_stdout(io.StringIO()):
        KL = grid.get_K_list(use_symmetry=False)
    sub = []
    for K in KL:
        sub += K.divide(np.array(ndiv), system.periodic.copy(), use_symmetry=False)
    bad = []
    if len(sub) != int(np.prod(div)) * int(np.prod(ndiv)) or abs(sum(K.factor for K in sub) - 1) > 1e-12 or any(K.factor != 0 for K in KL) or \
            any(abs(K.factor - 1. / len(sub)) > 1e-12 for K in sub):
        bad.append(f"{len(sub)} sub-K-points, sum of factors {sum(K.factor for K in sub)}, parents {[K.factor for K in KL][:4]}")
    got = [empty((len(pts), nb, nb)), empty((len(pts), nb, nb, 3))]
    count = np.zeros(len(pts), dtype=int)
    for Kp in sub:
        dk = DKR.Data_K_R(system, dK=Kp.Kp_fullBZ, grid=grid, Kpoint=Kp, fftlib=lib)
        dk.__dict__['UU_K'] = ident(dk.nk, nb)
        kall = np.asarray(dk.kpoints_all, dtype=float)
        H, dH = dk.HH_K, dk.Xbar('Ham', 1)
        if len(kall) != int(np.prod(fft)) or np.shape(H)[0] != len(kall) or np.shape(dH)[0] != len(kall):
            bad.append(f"shapes at K={Kp.K.tolist()}")
            continue
        for ik, k in enumerate(kall):
            m = k * Nf - off
            if np.abs(m - np.rint(m)).max() > 1e-9:
                bad.append(f"k={k.tolist()} of K={Kp.K.tolist()} is not on the shifted grid")
                continue
            i = index[tuple(int(x) for x in np.rint(m).astype(int) % Nf)]
            count[i] += 1
            got[0][i], got[1][i] = H[ik], dH[ik]
    if not bad and not np.all(count == 1):
        bad.append(f"multiplicities {count.tolist()}")
    return bad, got


def case_matrix_shift(rec, N, nb, ndiv, libs):
    """K-shifts: every K-point of every factorisation divided by ndiv (the refinement step); the k-set is the shifted grid of N*ndiv and H, dH on it are factorisation independent"""
    _shadow()
    iR = rset_for(N)
    X = hermR("H", iR, nb)
    par = dict(test="shift", N=list(N), nb=nb, ndiv=list(ndiv), libs=list(libs))

    def body(rec):
        rec.witness = lambda env: dict(H=env.arr(X), **par)
        system = Sys(iR, X, nb)
        kpts = _shift_grid(N, ndiv)[3]
        ref = [reference(iR, N, X, nb, d, kpts=kpts) for d in (0, 1)]
        for div, fft in factorisations(N):
            for lib in libs:
                tag = f"NKdiv={div} NKFFT={fft} divide({ndiv}) {lib}"
                bad, got = _collect_shifted(system, div, fft, lib, N, nb, ndiv, _ident, lambda shp: np.empty(shp, dtype=object))
                rec.concrete(f"{tag}: the k-points of all refined K-points are the shifted grid of N*ndiv, each exactly once, weights 1/(NKdiv*ndiv)", not bad, "; ".join(bad[:3]),
                             key="k-points of the refined K-points do not tile the shifted grid exactly once")
                if bad:
                    continue
                rec.close(f"{tag}: H_W(k) over all refined K-points == explicit sum on the shifted grid", got[0], ref[0], TOL, key="H_W(k) of refined K-points depends on the factorisation")
                rec.close(f"{tag}: dH_W(k) over all refined K-points == explicit sum on the shifted grid", got[1], ref[1], TOL, key="dH_W(k) of refined K-points depends on the factorisation")
    rec.explore(body)


class PrioResult(EnergyResult):
    @property
    def max(s):
        return np.array([0.])


class HTab:
    """stub tabulator: the k-resolved quantity is the Wannier-gauge matrix itself (entries of H_W(k) / dH_W(k) instead of band quantities)"""
    comment = "stub tabulator of Wannier-gauge matrix elements"

    def __init__(s, der):
        s.der = der

    def __call__(s, data_K):
        nk, nb = data_K.nk, data_K.num_wann
        if s.der == 0:
            A = data_K.HH_K.reshape((nk, nb * nb))
        else:
            data_K.__dict__.setdefault('UU_K', _ident(nk, nb))
            A = data_K.Xbar('Ham', 1).reshape((nk, nb * nb, 3))
        return KBandResult(A, transformTR=transform_ident, transformInv=transform_ident)


class HMean:
    """stub summing ('static') calculator: average over the K-point's own k-points (1/nk is the calculator's documented duty)"""
    allow_grid, allow_path, comment = True, False, "stub k-average of Wannier-gauge matrix elements"

    def __init__(s, cls):
        s.cls = cls

    def __call__(s, data_K):
        nk, nb = data_K.nk, data_K.num_wann
        data = data_K.HH_K.reshape((nk, nb * nb)).sum(axis=0) / int(nk)
        return s.cls(Energies=[np.arange(nb * nb) * 1.0], data=data, transformTR=transform_ident, transformInv=transform_ident, rank=0, save_mode="")


def _irred_list_ok(system, div, fft, KL):
    """a system without point symmetry: Grid(use_symmetry=True).get_K_list(use_symmetry=True) (what run() does by default) may not merge anything"""
    grid = _quiet(Grid, system=system, NKdiv=np.array(div), NKFFT=np.array(fft), use_symmetry=True)
    with contextlib.redirect_stdout(io.StringIO()):
        KI = grid.get_K_list(use_symmetry=True)
    same = len(KI) == len(KL) and all(np.abs(a.K - b.K).max() < 1e-12 and abs(a.factor - b.factor) < 1e-12 for a, b in zip(KI, KL))
    return same, f"{len(KI)} irreducible K-points of {len(KL)}, factors {[round(float(K.factor), 4) for K in KI][:8]}"


def _run(system, div, fft, lib, cls, irred=False, tab=True):
    grid = _quiet(Grid, system=system, NKdiv=np.array(div), NKFFT=np.array(fft), use_symmetry=irred)
    calcs = {"mean": HMean(cls)}
    if tab:
        calcs["tab"] = TabulatorAll({"Energy": HTab(0), "dH": HTab(1)}, mode="grid", save_mode="")
    kw = dict(use_irred_kpt=False, symmetrize=False) if not irred else {}       # irred: run()'s defaults use_irred_kpt=True, symmetrize=True
    return _quiet(RG.run, system, grid, calcs, adpt_num_iter=0, parallel=False, data_k_class=DKR.Data_K_R,
                  parameters_K=dict(fftlib=lib), fout_name="c03", file_Klist_path="/nonexistent/c03", **kw)


def case_run(rec, N, nb, libs, irred=False, all_libs=False):
    """the real run() for every factorisation: table after self_to_grid and k-average == explicit sums at k = n/N"""
    _shadow()
    RG.get_ray_cpus_count = lambda: 1
    iR = rset_for(N)
    X = hermR("H", iR, nb)
    facts = factorisations(N)
    par = dict(test="run", N=list(N), nb=nb, libs=list(libs), irred=irred)
    ntot = int(np.prod(N))

    def body(rec):
        rec.witness = lambda env: dict(H=env.arr(X), **par)
        system = Sys(iR, X, nb)
        refH = reference(iR, N, X, nb, 0).reshape((ntot, nb * nb))
        refdH = reference(iR, N, X, nb, 1).reshape((ntot, nb * nb, 3))
        mean = refH.sum(axis=0) / ntot
        kgrid = np.array(grid_points(N)) / np.array(N, dtype=float)
        for ifac, (div, fft) in enumerate(facts):
            for lib in (("fftw", "numpy", "slow") if all_libs else (libs[ifac % 2], "slow")):
                tag = f"run() NKdiv={div} NKFFT={fft} {lib}"
                if irred:      # integrals first: with K-points missing the tabulating calculator cannot even be put on the grid
                    avg = _run(system, div, fft, lib, PrioResult, irred=True, tab=False).results["mean"]
                    rec.close(f"{tag} use_irred_kpt=True: integrated quantity == average of the explicit sum over the grid", avg.data, mean, TOL, key="run(): integrated quantity depends on the factorisation")
                res = _run(system, div, fft, lib, PrioResult, irred=irred)
                tab, avg = res.results["tab"], res.results["mean"]
                okgrid = isinstance(tab, TABresult) and tab.grid is not None and tuple(tab.grid) == tuple(N) and np.shape(tab.kpoints) == kgrid.shape and np.abs(tab.kpoints - kgrid).max() < 1e-12
                rec.concrete(f"{tag}: tabulated result lies on the C-ordered grid n/N", bool(okgrid), f"grid={getattr(tab, 'grid', None)}", key="run(): TABresult grid differs from N")
                if okgrid:
                    rec.close(f"{tag}: tabulated H_W on the grid == explicit sum at k=n/N", tab.results["Energy"].data, refH, TOL, key="run(): tabulated quantity depends on the factorisation")
                    rec.close(f"{tag}: tabulated dH_W on the grid == explicit sum at k=n/N", tab.results["dH"].data, refdH, TOL, key="run(): tabulated quantity depends on the factorisation")
                rec.close(f"{tag}: integrated quantity == average of the explicit sum over the grid", avg.data, mean, TOL, key="run(): integrated quantity depends on the factorisation")
    rec.explore(body)


GRID_REQUESTS = [dict(NK=(4, 4, 2), NKFFT=(2, 2, 1)), dict(NK=(4, 4, 2), NKFFT=(4, 4, 2)), dict(NK=(6, 3, 1), NKFFT=(3, 1, 1)), dict(NK=(5, 5, 5), NKFFT=(2, 2, 2)), dict(NK=(1, 1, 1), NKFFT=(2, 2, 2)),
                 dict(NK=(4, 4, 4)), dict(NK=(7, 5, 3)), dict(NK=(12, 12, 1)), dict(NK=6), dict(NKdiv=(2, 3, 1), NKFFT=(2, 1, 4)), dict(NKdiv=2, NKFFT=3), dict(NK=(9, 9, 9), NKFFT=4),
                 dict(NK=(8, 8, 8), NKdiv=(1, 1, 1), NKFFT=(2, 2, 2)), dict(NK=(3, 3, 3), NKFFT=(1, 1, 1))]


def _grid_request(req, recm):
    from wannierberri.utility import one2three
    system = Sys([(0, 0, 0)], np.zeros((1, 1, 1)), 1, rec=recm)
    with warnings.catch_warnings(record=True) as wl:
        warnings.simplefilter("always")
        grid = Grid(system=system, use_symmetry=False, **{k: (np.array(v) if isinstance(v, tuple) else v) for k, v in req.items()})
    warned = any("adjusted" in str(x.message) or "disregarded" in str(x.message) for x in wl)
    div, fft = np.array(grid.div), np.array(grid.FFT)
    bad = []
    if np.any(div < 1) or np.any(fft < 1):
        bad.append("non-positive grid")
    if "NKdiv" in req and "NKFFT" in req and not (np.all(div == one2three(req["NKdiv"])) and np.all(fft == one2three(req["NKFFT"]))):
        bad.append("explicit NKdiv/NKFFT not kept")
    elif "NK" in req and not ("NKdiv" in req and "NKFFT" in req):
        NK = one2three(req["NK"])
        if "NKFFT" in req and not np.all(fft == one2three(req["NKFFT"])):
            bad.append("explicit NKFFT not kept")
        if "NKFFT" not in req and np.any(fft < np.array(recm)):
            bad.append("automatic NKFFT below NKFFT_recommended")
        if not np.all(div * fft == NK) and not warned:
            bad.append(f"requested NK={NK.tolist()} silently changed to {(div * fft).tolist()}")
        if np.any(np.abs(div * fft - NK) > fft):
            bad.append("adjusted grid further than one FFT box from the request")
    return bad, f"{req} rec={recm} -> NKdiv={div.tolist()} NKFFT={fft.tolist()} warned={warned}"


def case_grid_resolution(rec):
    """determineNK / autoNK executed concretely: NK = NKdiv*NKFFT or a warning; explicit factors kept"""
    for req in GRID_REQUESTS:
        for recm in ((1, 1, 1), (3, 3, 2)):
            bad, detail = _grid_request(req, recm)
            rec.concrete("determineNK: resolved grid consistent with the request", not bad, detail + " " + "; ".join(bad), key="determineNK/autoNK post-condition")


def cases(tier, seed):
    q = tier == "quick"
    out = [Case("grid resolution", case_grid_resolution, {})]
    libs = ("fftw", "numpy", "slow")
    if q:
        for N in [(2, 2, 1), (4, 1, 1), (3, 2, 1), (1, 1, 4), (2, 1, 3), (2, 2, 2)]:
            out.append(Case(f"matrix N={N}", case_matrix, dict(N=N, nb=2, libs=libs, both=False), timeout=1700))
        for N, nb in [((1, 4, 2), 1), ((2, 1, 4), 1)]:
            out.append(Case(f"run use_irred_kpt=True N={N} nb={nb}", case_run, dict(N=N, nb=nb, libs=("fftw", "numpy"), irred=True), timeout=1700))
        for N, nb in [((2, 2, 1), 2), ((4, 1, 1), 1), ((3, 1, 2), 1)]:
            out.append(Case(f"run N={N} nb={nb}", case_run, dict(N=N, nb=nb, libs=("fftw", "numpy")), timeout=1700))
        return out
    T = 3400
    # matrix level: every grid with N_i <= 6 and at most 16 k-points (d2H too up to 8 points), then selected larger / prime / anisotropic ones up to 36 points
    for N in [N for N in itertools.product((1, 2, 3, 4, 5, 6), repeat=3) if np.prod(N) <= 16]:
        out.append(Case(f"matrix N={N}", case_matrix, dict(N=N, nb=2, libs=libs, both=True, dermax=2 if np.prod(N) <= 8 else 1), timeout=T))
    big = [(N, 1) for N in itertools.product((1, 2, 3, 4, 5, 6), repeat=3) if 16 < np.prod(N) <= 24]         # all grids with 17..24 points, one band
    big += [((6, 3, 1), 2), ((5, 2, 2), 2), ((3, 2, 3), 2), ((5, 5, 1), 1), ((3, 3, 3), 1), ((6, 1, 5), 1), ((6, 6, 1), 1), ((2, 2, 1), 3), ((3, 1, 2), 3), ((1, 5, 1), 4), ((2, 1, 2), 4)]
    for N, nb in big:
        out.append(Case(f"matrix N={N} nb={nb}", case_matrix, dict(N=N, nb=nb, libs=libs, both=True), timeout=T))
    # K-shifts: the K-points of every factorisation divided once (refinement step) -> shifted grid of N*ndiv
    for N, ndiv in [((2, 2, 1), (2, 1, 1)), ((2, 2, 1), (2, 2, 2)), ((4, 1, 1), (2, 1, 1)), ((3, 2, 1), (1, 3, 1)), ((1, 1, 4), (1, 2, 2)), ((2, 1, 3), (3, 1, 2)), ((2, 2, 2), (2, 1, 2)), ((5, 1, 1), (2, 2, 1)),
                    ((1, 6, 1), (1, 2, 1)), ((2, 3, 1), (1, 1, 3)), ((1, 2, 4), (2, 1, 1)), ((3, 1, 2), (2, 2, 2)), ((1, 4, 2), (2, 1, 2)), ((6, 1, 1), (1, 2, 2)), ((2, 2, 2), (3, 1, 1)), ((1, 1, 5), (2, 1, 2))]:
        out.append(Case(f"matrix refined N={N} ndiv={ndiv}", case_matrix_shift, dict(N=N, nb=2, ndiv=ndiv, libs=libs), timeout=T))
    # loop level: every back end through run() for every factorisation
    for N, nb in [((2, 2, 1), 2), ((4, 1, 1), 2), ((3, 1, 2), 2), ((1, 4, 2), 2), ((2, 2, 2), 2), ((4, 2, 2), 2), ((3, 3, 1), 2), ((1, 2, 4), 2), ((5, 1, 1), 2), ((1, 6, 1), 2), ((6, 1, 2), 2), ((2, 3, 1), 3),
                  ((1, 5, 2), 2), ((5, 3, 1), 1), ((6, 2, 1), 2), ((2, 1, 6), 1), ((4, 4, 1), 1), ((3, 2, 3), 1), ((6, 3, 1), 1), ((4, 3, 2), 1)]:
        out.append(Case(f"run N={N} nb={nb}", case_run, dict(N=N, nb=nb, libs=("fftw", "numpy"), all_libs=True), timeout=T))
    for N, nb in [((1, 4, 2), 2), ((2, 1, 4), 2), ((2, 4, 2), 2), ((1, 2, 4), 2), ((2, 2, 4), 2), ((3, 1, 2), 2), ((1, 6, 2), 2), ((2, 1, 5), 2), ((1, 5, 3), 1), ((2, 6, 1), 1), ((2, 3, 4), 1), ((1, 3, 6), 1)]:
        out.append(Case(f"run use_irred_kpt=True N={N} nb={nb}", case_run, dict(N=N, nb=nb, libs=("fftw", "numpy"), irred=True, all_libs=True), timeout=T))
    return out


# ------------------------------------------------------------------------------------------------------------
def _np_reference(iR, N, X, nb, der, kpts=None):
    iR = np.array(iR)
    if kpts is None:
        kpts = np.array(grid_points(N)) / np.array(N, dtype=float)
    cc = CENTRES[:nb].dot(LATTICE)
    cRs = iR.dot(LATTICE)[:, None, None, :] - cc[None, :, None, :] + cc[None, None, :, :]
    Y = X
    for d in range(der):
        Y = 1j * Y[..., None] * cRs
    out = np.tensordot(np.exp(2j * np.pi * kpts.dot(iR.T)), Y, axes=(1, 0))
    return 0.5 * (out + out.swapaxes(1, 2).conj()) if der == 0 else out


def replay(rec):
    """real numpy.fft / pyfftw, real run(): every factorisation of N on the model's doubles against the explicit sum at n/N"""
    from symx.harness import unarr
    w = rec["witness"]
    if w is None or "N" not in w:
        bad = [d for req in GRID_REQUESTS for recm in ((1, 1, 1), (3, 3, 2)) for b, d in [_grid_request(req, recm)] if b]
        return bool(bad), "; ".join(bad[:3]) or "grid requests resolved consistently"
    N, nb = tuple(w["N"]), w["nb"]
    iR = rset_for(N)
    X = unarr(w["H"]).astype(complex)
    if np.abs(X).max() == 0:       # exception-type findings come with an empty model: use a generic Hermitian model
        rng = np.random.default_rng(1)
        X = rng.uniform(-1, 1, X.shape) + 1j * rng.uniform(-1, 1, X.shape)
        rv = RV.Rvectors(lattice=LATTICE, iRvec=np.array(iR))
        X = 0.5 * (X + rv.conj_XX_R(X))
    system = Sys(iR, X, nb)
    ntot = int(np.prod(N))
    refH, refdH = _np_reference(iR, N, X, nb, 0), _np_reference(iR, N, X, nb, 1)
    Narr = np.array(N)
    bad = []
    try:
        for div, fft in factorisations(N):
            for lib in ("fftw", "numpy", "slow"):
                tag = f"NKdiv={div} NKFFT={fft} {lib}"
                if w["test"] == "shift":
                    ndiv = tuple(w["ndiv"])
                    kpts = _shift_grid(N, ndiv)[3]
                    b, got = _collect_shifted(system, div, fft, lib, N, nb, ndiv, lambda nk, n: _ident(nk, n).astype(complex), lambda shp: np.zeros(shp, dtype=complex))
                    if b:
                        bad.append(f"{tag} divide({ndiv}): " + "; ".join(b[:2]))
                    else:
                        e = [np.abs(got[d] - _np_reference(iR, N, X, nb, d, kpts=kpts)).max() for d in (0, 1)]
                        if max(e) > 0.9 * TOL:
                            bad.append(f"{tag} divide({ndiv}): |H-ref|={e[0]:.2e} |dH-ref|={e[1]:.2e} on the shifted grid")
                elif w["test"] == "matrix":
                    grid = _quiet(Grid, system=system, NKdiv=np.array(div), NKFFT=np.array(fft), use_symmetry=False)
                    with contextlib.redirect_stdout(io.StringIO()):
                        KL = grid.get_K_list(use_symmetry=False)
                    if tuple(grid.div) != div or tuple(grid.FFT) != fft or len(KL) != int(np.prod(div)) or abs(sum(K.factor for K in KL) - 1) > 1e-12:
                        bad.append(f"{tag}: grid/K-list")
                        continue
                    ok, detail = _irred_list_ok(system, div, fft, KL)
                    if not ok:
                        bad.append(f"{tag}: irreducible K-list of a system without symmetry: {detail}")
                        continue
                    count = np.zeros(ntot, dtype=int)
                    index = {n: i for i, n in enumerate(grid_points(N))}
                    for Kp in KL:
                        dk = DKR.Data_K_R(system, dK=Kp.Kp_fullBZ, grid=grid, Kpoint=Kp, fftlib=lib)
                        dk.__dict__['UU_K'] = _ident(dk.nk, nb).astype(complex)
                        H, dH, kall = dk.HH_K, dk.Xbar('Ham', 1), dk.kpoints_all
                        if len(kall) != int(np.prod(fft)) or len(H) != len(kall) or len(dH) != len(kall):
                            bad.append(f"{tag}: shapes")
                            break
                        for ik, k in enumerate(kall):
                            n = np.rint(k * Narr)
                            if np.abs(k * Narr - n).max() > 1e-9:
                                bad.append(f"{tag}: k={k.tolist()} of K={Kp.K.tolist()} is not on the grid")
                                break
                            i = index[tuple(int(x) for x in n.astype(int) % Narr)]
                            count[i] += 1
                            if np.abs(H[ik] - refH[i]).max() > 0.9 * TOL or np.abs(dH[ik] - refdH[i]).max() > 0.9 * TOL:
                                bad.append(f"{tag}: k={k.tolist()} |H-ref|={np.abs(H[ik] - refH[i]).max():.2e} |dH-ref|={np.abs(dH[ik] - refdH[i]).max():.2e}")
                                break
                            if w.get("dermax", 1) >= 2 and np.abs(dk.Xbar('Ham', 2)[ik] - _np_reference(iR, N, X, nb, 2)[i]).max() > 0.9 * TOL:
                                bad.append(f"{tag}: k={k.tolist()} d2H differs from the explicit sum")
                                break
                    if not np.all(count == 1) and not (bad and bad[-1].startswith(tag)):
                        bad.append(f"{tag}: grid multiplicities {count.tolist()}")
                else:
                    irred = bool(w.get("irred"))
                    with contextlib.redirect_stdout(io.StringIO()):
                        if irred:
                            e0 = np.abs(_run(system, div, fft, lib, EnergyResult, irred=True, tab=False).results["mean"].data - refH.reshape(ntot, -1).mean(axis=0)).max()
                            if e0 > 0.9 * TOL:
                                bad.append(f"{tag} use_irred_kpt=True: integral differs from the grid average by {e0:.2e}")
                                continue
                        res = _run(system, div, fft, lib, EnergyResult, irred=irred)
                    tab, avg = res.results["tab"], res.results["mean"]
                    if tab.grid is None or tuple(tab.grid) != tuple(N):
                        bad.append(f"{tag}: table grid {tab.grid}")
                    else:
                        e1 = np.abs(tab.results["Energy"].data - refH.reshape(ntot, -1)).max()
                        e2 = np.abs(tab.results["dH"].data - refdH.reshape(ntot, nb * nb, 3)).max()
                        if e1 > 0.9 * TOL or e2 > 0.9 * TOL:
                            bad.append(f"{tag}: table |H-ref|={e1:.2e} |dH-ref|={e2:.2e}")
                    e3 = np.abs(avg.data - refH.reshape(ntot, -1).mean(axis=0)).max()
                    if e3 > 0.9 * TOL:
                        bad.append(f"{tag}: integral differs from the grid average by {e3:.2e}")
    except Exception as e:
        import traceback
        if "wannierberri" in traceback.format_exc():
            return True, f"real code raises {type(e).__name__}: {str(e)[:200]}"
        raise
    return bool(bad), f"N={N} nb={nb} ({w['test']} level): " + ("; ".join(bad[:4]) if bad else "all factorisations agree with the explicit sum at n/N")
